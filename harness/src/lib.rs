//! Common glue for the per-property harness binaries (`src/bin/cNN.rs`).
//!
//! Each binary runs the implementation (`smartcore`, built from /repo's working tree with
//! `--cfg smartcore_verif`) on inputs derived from one SplitMix64 stream and writes one JSON
//! file `<out>/out.json` with
//!   * `corr`   – correspondence cases: a closed Gallina term of type `bool` that re-runs the
//!                Coq model on the same input and compares with what the implementation returned;
//!   * `search` – the failing-input search: counts, input distribution, samples and failures
//!                (each failure carries a self-contained replay input);
//!   * `known`  – known findings that were reproduced on this run.
//! The Python driver `/verif/check` evaluates the `corr` terms with `coqc`, decides the verdict
//! and writes the evidence file.
#![allow(dead_code)]

use serde_json::{json, Value};
use std::collections::hash_map::DefaultHasher;
use std::collections::{BTreeMap, HashSet};
use std::hash::{Hash, Hasher};
use std::panic::{self, AssertUnwindSafe};

// ------------------------------------------------------------------------------------------
// PRNG: one SplitMix64 stream; every random choice of a run derives from VERIF_SEED.
// ------------------------------------------------------------------------------------------
#[derive(Clone, Debug)]
pub struct Rng(pub u64);

impl Rng {
    pub fn new(seed: u64) -> Self {
        // the state is the *output* of one SplitMix64 round, so that consecutive seeds give
        // unrelated streams (a plain affine map of the seed would make seed k+1 the stream of
        // seed k shifted by one draw)
        let mut r = Rng(seed.wrapping_mul(0x9E3779B97F4A7C15).wrapping_add(0xD1B54A32D192ED03));
        let a = r.next_u64();
        let b = r.next_u64();
        Rng(a ^ b.rotate_left(17))
    }
    pub fn next_u64(&mut self) -> u64 {
        self.0 = self.0.wrapping_add(0x9E3779B97F4A7C15);
        let mut z = self.0;
        z = (z ^ (z >> 30)).wrapping_mul(0xBF58476D1CE4E5B9);
        z = (z ^ (z >> 27)).wrapping_mul(0x94D049BB133111EB);
        z ^ (z >> 31)
    }
    /// uniform in 0..n (n >= 1)
    pub fn below(&mut self, n: usize) -> usize {
        (self.next_u64() % (n as u64)) as usize
    }
    /// uniform integer in lo..=hi
    pub fn int(&mut self, lo: i64, hi: i64) -> i64 {
        lo + (self.next_u64() % ((hi - lo + 1) as u64)) as i64
    }
    pub fn usize_in(&mut self, lo: usize, hi: usize) -> usize {
        lo + self.below(hi - lo + 1)
    }
    pub fn bool(&mut self) -> bool {
        self.next_u64() & 1 == 1
    }
    pub fn chance(&mut self, p: f64) -> bool {
        self.unit() < p
    }
    /// uniform in [0,1)
    pub fn unit(&mut self) -> f64 {
        (self.next_u64() >> 11) as f64 / (1u64 << 53) as f64
    }
    pub fn uniform(&mut self, lo: f64, hi: f64) -> f64 {
        lo + (hi - lo) * self.unit()
    }
    /// standard normal (Box–Muller)
    pub fn normal(&mut self) -> f64 {
        let u1 = 1.0 - self.unit();
        let u2 = self.unit();
        (-2.0 * u1.ln()).sqrt() * (2.0 * std::f64::consts::PI * u2).cos()
    }
    /// a dyadic value k/2^bits with |k| <= range*2^bits: arithmetic on a few of them is exact
    pub fn dyadic(&mut self, range: i64, bits: u32) -> f64 {
        let s = 1i64 << bits;
        self.int(-range * s, range * s) as f64 / s as f64
    }
    pub fn pick<'a, T>(&mut self, xs: &'a [T]) -> &'a T {
        &xs[self.below(xs.len())]
    }
    pub fn shuffle<T>(&mut self, xs: &mut [T]) {
        for i in (1..xs.len()).rev() {
            let j = self.below(i + 1);
            xs.swap(i, j);
        }
    }
    pub fn fork(&mut self) -> Rng {
        Rng(self.next_u64())
    }
}

// ------------------------------------------------------------------------------------------
// Gallina literals
// ------------------------------------------------------------------------------------------
/// Exact hexadecimal float literal for Coq's `float_scope`, e.g. `(0x1.8p+1)%float`.
pub fn coq_f64(x: f64) -> String {
    if x.is_nan() {
        return "nan".to_string();
    }
    if x.is_infinite() {
        return if x > 0.0 { "infinity".into() } else { "neg_infinity".into() };
    }
    let bits = x.to_bits();
    let neg = bits >> 63 == 1;
    let exp = ((bits >> 52) & 0x7ff) as i64;
    let man = bits & 0x000f_ffff_ffff_ffff;
    let body = if exp == 0 && man == 0 {
        "0x0p+0".to_string()
    } else if exp == 0 {
        // subnormal: 0.man * 2^-1022
        format!("0x0.{:013x}p-1022", man)
    } else {
        let e = exp - 1023;
        format!("0x1.{:013x}p{}{}", man, if e < 0 { "-" } else { "+" }, e.abs())
    };
    if neg {
        format!("(-{})%float", body)
    } else {
        format!("({})%float", body)
    }
}
/// f32 value widened exactly to f64 (models that run f32 data through the f64 instance use it).
pub fn coq_f32(x: f32) -> String {
    coq_f64(x as f64)
}
pub fn coq_n(x: usize) -> String {
    format!("{}%N", x)
}
pub fn coq_z(x: i64) -> String {
    if x < 0 {
        format!("({})%Z", x)
    } else {
        format!("{}%Z", x)
    }
}
pub fn coq_bool(b: bool) -> String {
    if b { "true".into() } else { "false".into() }
}
pub fn coq_list<I: IntoIterator<Item = String>>(items: I) -> String {
    let v: Vec<String> = items.into_iter().collect();
    if v.is_empty() {
        "nil".to_string()
    } else {
        format!("[{}]", v.join("; "))
    }
}
pub fn coq_list_f64(xs: &[f64]) -> String {
    coq_list(xs.iter().map(|x| coq_f64(*x)))
}
pub fn coq_list_n(xs: &[usize]) -> String {
    coq_list(xs.iter().map(|x| coq_n(*x)))
}
pub fn coq_list_z(xs: &[i64]) -> String {
    coq_list(xs.iter().map(|x| coq_z(*x)))
}
pub fn coq_rows_f64(rows: &[Vec<f64>]) -> String {
    coq_list(rows.iter().map(|r| coq_list_f64(r)))
}
pub fn coq_option(x: Option<String>) -> String {
    match x {
        Some(s) => format!("(Some {})", s),
        None => "None".to_string(),
    }
}
pub fn coq_pair(a: &str, b: &str) -> String {
    format!("({}, {})", a, b)
}

/// Hex rendering used inside replay files (exact, language independent).
pub fn hex_f64(x: f64) -> String {
    format!("{:016x}", x.to_bits())
}

// ------------------------------------------------------------------------------------------
// Panics as values
// ------------------------------------------------------------------------------------------
thread_local! {
    static GUARD_DEPTH: std::cell::Cell<usize> = std::cell::Cell::new(0);
}
/// Panics inside `guard` (the implementation under test) are silent values; a panic OUTSIDE any guard is a
/// harness bug or an unguarded call into the implementation: it is printed (message and location) so that the
/// driver's log shows why the harness died.
pub fn quiet_panics() {
    panic::set_hook(Box::new(|info| {
        if GUARD_DEPTH.with(|d| d.get()) == 0 {
            eprintln!("HARNESS PANIC (outside guard): {}", info);
        }
    }));
}
/// Run `f`, turning a panic into `Err(message)`.
pub fn guard<R, F: FnOnce() -> R>(f: F) -> Result<R, String> {
    GUARD_DEPTH.with(|d| d.set(d.get() + 1));
    let res = panic::catch_unwind(AssertUnwindSafe(f));
    GUARD_DEPTH.with(|d| d.set(d.get().saturating_sub(1)));
    match res {
        Ok(r) => Ok(r),
        Err(e) => {
            if let Some(s) = e.downcast_ref::<&str>() {
                Err(s.to_string())
            } else if let Some(s) = e.downcast_ref::<String>() {
                Err(s.clone())
            } else {
                Err("panic".to_string())
            }
        }
    }
}
/// Run `f` on a helper thread; `None` if it does not finish within `secs` (the thread is leaked).
pub fn with_watchdog<R: Send + 'static, F: FnOnce() -> R + Send + 'static>(
    secs: u64,
    f: F,
) -> Option<Result<R, String>> {
    let (tx, rx) = std::sync::mpsc::channel();
    std::thread::Builder::new()
        .stack_size(64 << 20)
        .spawn(move || {
            let r = guard(f);
            let _ = tx.send(r);
        })
        .ok()?;
    rx.recv_timeout(std::time::Duration::from_secs(secs)).ok()
}

// ------------------------------------------------------------------------------------------
// Command line
// ------------------------------------------------------------------------------------------
#[derive(Clone, Debug)]
pub struct Args {
    pub seed: u64,
    pub thorough: bool,
    pub out: String,
    pub replay: Option<String>,
}
pub fn args() -> Args {
    let mut a = Args { seed: 1, thorough: false, out: ".".into(), replay: None };
    let v: Vec<String> = std::env::args().collect();
    let mut i = 1;
    while i < v.len() {
        match v[i].as_str() {
            "--seed" => {
                a.seed = v[i + 1].parse().unwrap_or(1);
                i += 1
            }
            "--tier" => {
                a.thorough = v[i + 1] == "thorough";
                i += 1
            }
            "--out" => {
                a.out = v[i + 1].clone();
                i += 1
            }
            "--replay" => {
                a.replay = Some(v[i + 1].clone());
                i += 1
            }
            _ => {}
        }
        i += 1;
    }
    a
}

// ------------------------------------------------------------------------------------------
// Output
// ------------------------------------------------------------------------------------------
pub struct Out {
    pub property: String,
    corr: Vec<Value>,
    failures: Vec<Value>,
    known: Vec<Value>,
    samples: Vec<Value>,
    dist: BTreeMap<String, u64>,
    evaluations: u64,
    distinct: HashSet<u64>,
    pub rule: String,
    pub max_samples: usize,
    pub max_failures: usize,
    extra: BTreeMap<String, Value>,
}

pub fn hash_of<T: Hash>(t: &T) -> u64 {
    let mut h = DefaultHasher::new();
    t.hash(&mut h);
    h.finish()
}
pub fn hash_f64s(xs: &[f64]) -> u64 {
    let bits: Vec<u64> = xs.iter().map(|x| x.to_bits()).collect();
    hash_of(&bits)
}

impl Out {
    pub fn new(property: &str, rule: &str) -> Self {
        Out {
            property: property.to_string(),
            corr: vec![],
            failures: vec![],
            known: vec![],
            samples: vec![],
            dist: BTreeMap::new(),
            evaluations: 0,
            distinct: HashSet::new(),
            rule: rule.to_string(),
            max_samples: 4,
            max_failures: 10,
            extra: BTreeMap::new(),
        }
    }
    /// A correspondence case. `coq` is a closed term of type `bool` over `SC.<Cxx>.Corr`;
    /// `group` names the model function it exercises; `input` is kept for the replay file.
    pub fn corr(&mut self, group: &str, coq: String, input: Value) {
        let id = format!("{}#{}", group, self.corr.len());
        self.corr.push(json!({"id": id, "group": group, "coq": coq, "input": input}));
        self.count(&format!("corr:{}", group));
    }
    pub fn n_corr(&self) -> usize {
        self.corr.len()
    }
    /// One search evaluation; `key` identifies the input, `nontrivial` by the property's rule.
    pub fn eval(&mut self, key: u64, nontrivial: bool) {
        self.evaluations += 1;
        if nontrivial {
            self.distinct.insert(key);
        }
    }
    pub fn count(&mut self, bucket: &str) {
        *self.dist.entry(bucket.to_string()).or_insert(0) += 1;
    }
    pub fn sample(&mut self, v: Value) {
        if self.samples.len() < self.max_samples {
            self.samples.push(v);
        }
    }
    /// A failing input found by the search (`oracle` names the clause of the property).
    pub fn fail(&mut self, oracle: &str, what: &str, input: Value) {
        self.count(&format!("fail:{}", oracle));
        if self.failures.len() < self.max_failures {
            self.failures.push(json!({"oracle": oracle, "what": what, "input": input}));
        }
    }
    pub fn n_fail(&self) -> usize {
        self.failures.len()
    }
    /// A listed known finding reproduced on this run (id as in KNOWN_FINDINGS.txt).
    pub fn known(&mut self, id: &str, what: &str) {
        if !self.known.iter().any(|k| k["id"] == id) {
            self.known.push(json!({"id": id, "what": what}));
        }
    }
    pub fn set(&mut self, key: &str, v: Value) {
        self.extra.insert(key.to_string(), v);
    }
    pub fn finish(self, dir: &str) {
        let v = json!({
            "property": self.property,
            "corr": self.corr,
            "search": {
                "evaluations": self.evaluations,
                "distinct_nontrivial": self.distinct.len(),
                "rule": self.rule,
                "distribution": self.dist,
                "samples": self.samples,
                "failures": self.failures,
            },
            "known": self.known,
            "extra": self.extra,
        });
        std::fs::create_dir_all(dir).ok();
        let path = format!("{}/out.json", dir);
        std::fs::write(&path, serde_json::to_string(&v).unwrap()).expect("write out.json");
    }
}

// ------------------------------------------------------------------------------------------
// JSON helpers for replay inputs
// ------------------------------------------------------------------------------------------
pub fn jrows(rows: &[Vec<f64>]) -> Value {
    json!(rows)
}
pub fn rows_from_json(v: &Value) -> Vec<Vec<f64>> {
    v.as_array()
        .map(|a| {
            a.iter()
                .map(|r| r.as_array().map(|r| r.iter().map(|x| x.as_f64().unwrap_or(f64::NAN)).collect()).unwrap_or_default())
                .collect()
        })
        .unwrap_or_default()
}
pub fn f64s_from_json(v: &Value) -> Vec<f64> {
    v.as_array().map(|a| a.iter().map(|x| x.as_f64().unwrap_or(f64::NAN)).collect()).unwrap_or_default()
}
pub fn usizes_from_json(v: &Value) -> Vec<usize> {
    v.as_array().map(|a| a.iter().map(|x| x.as_u64().unwrap_or(0) as usize).collect()).unwrap_or_default()
}
pub fn read_replay(path: &str) -> Value {
    let s = std::fs::read_to_string(path).expect("replay file");
    serde_json::from_str(&s).expect("replay json")
}

pub fn dense(rows: &[Vec<f64>]) -> smartcore::linalg::naive::dense_matrix::DenseMatrix<f64> {
    smartcore::linalg::naive::dense_matrix::DenseMatrix::from_2d_vec(&rows.to_vec())
}
pub fn dense32(rows: &[Vec<f64>]) -> smartcore::linalg::naive::dense_matrix::DenseMatrix<f32> {
    let r: Vec<Vec<f32>> = rows.iter().map(|r| r.iter().map(|x| *x as f32).collect()).collect();
    smartcore::linalg::naive::dense_matrix::DenseMatrix::from_2d_vec(&r)
}

// ------------------------------------------------------------------------------------------
// api-trait twins: every estimator has inherent `fit` / `predict` / `transform` methods AND thin
// impls of `smartcore::api::{SupervisedEstimator, UnsupervisedEstimator, Predictor, Transformer}`
// (what `cross_validate` / `cross_val_predict` and any generic caller dispatch to).  The oracle
// `api_trait_twin` demands that both entry points give the same result, bit for bit, Ok/Err included.
// ------------------------------------------------------------------------------------------
pub mod twin {
    use super::guard;
    use smartcore::api::{Predictor, SupervisedEstimator, Transformer, UnsupervisedEstimator};
    use smartcore::error::Failed;
    use std::fmt::Debug;

    pub const ORACLE: &str = "api_trait_twin";

    // The wrappers below are generic in the estimator type `E`, whose ONLY known methods are those of the
    // trait bound: the call cannot resolve to the inherent method of the concrete type (which is what
    // method-call syntax and `Type::fit` paths on the concrete type pick).
    pub fn fit_sup<E, X, Y, P: Clone>(x: &X, y: &Y, p: P) -> Result<E, Failed>
    where
        E: SupervisedEstimator<X, Y, P>,
    {
        <E as SupervisedEstimator<X, Y, P>>::fit(x, y, p)
    }
    pub fn fit_unsup<E, X, P: Clone>(x: &X, p: P) -> Result<E, Failed>
    where
        E: UnsupervisedEstimator<X, P>,
    {
        <E as UnsupervisedEstimator<X, P>>::fit(x, p)
    }
    pub fn predict<E, X, Y>(m: &E, x: &X) -> Result<Y, Failed>
    where
        E: Predictor<X, Y>,
    {
        <E as Predictor<X, Y>>::predict(m, x)
    }
    pub fn transform<E, X>(m: &E, x: &X) -> Result<X, Failed>
    where
        E: Transformer<X>,
    {
        <E as Transformer<X>>::transform(m, x)
    }

    /// Exact rendering of the outcome of a guarded call: `Ok(<Debug of the value>)` (Debug of a float is
    /// its shortest round-trip form, so equal strings mean equal bits up to NaN payloads),
    /// `Err(<message of Failed>)`, or `panic` (the message is kept apart: only the fact is compared).
    pub fn show<R: Debug>(r: &Result<Result<R, Failed>, String>) -> (String, String) {
        match r {
            Ok(Ok(v)) => (format!("Ok({:?})", v), String::new()),
            Ok(Err(e)) => (format!("Err({})", e), String::new()),
            Err(msg) => ("panic".to_string(), msg.clone()),
        }
    }
    fn clip(s: &str) -> String {
        if s.chars().count() > 400 {
            format!("{}…", s.chars().take(400).collect::<String>())
        } else {
            s.to_string()
        }
    }
    fn full(s: &(String, String)) -> String {
        if s.1.is_empty() { clip(&s.0) } else { clip(&format!("{}: {}", s.0, s.1)) }
    }

    /// A disagreement between the api-trait entry point and the inherent one.
    #[derive(Clone, Debug)]
    pub struct Diff {
        /// which call differed, e.g. `Predictor::predict on the query rows (model fitted through the trait)`
        pub call: String,
        pub what: String,
    }

    /// `fit_t` / `fit_i`: fit through the trait / the inherent method (same data, same parameters);
    /// `apply_t` / `apply_i`: predict or transform through the trait / the inherent method;
    /// `probes`: named inputs of `apply` (the training matrix and fresh rows);
    /// `state`: exact fingerprint of a fitted model (serde state or accessors);
    /// `same_fit`: the fit is a function of its arguments (no unseeded generator), so the two fitted
    /// models — and hence all four results per probe — must coincide; otherwise only trait vs inherent
    /// `apply` on the SAME model is compared.
    pub fn check<E, X, O: Debug>(
        fit_trait: &str,
        apply_trait: &str,
        method: &str,
        fit_t: impl Fn() -> Result<E, Failed>,
        fit_i: impl Fn() -> Result<E, Failed>,
        apply_t: impl Fn(&E, &X) -> Result<O, Failed>,
        apply_i: impl Fn(&E, &X) -> Result<O, Failed>,
        probes: &[(&str, &X)],
        state: impl Fn(&E) -> String,
        same_fit: bool,
    ) -> Option<Diff> {
        let rt = guard(|| fit_t());
        let ri = guard(|| fit_i());
        let class = |r: &Result<Result<E, Failed>, String>| match r {
            Ok(Ok(_)) => ("Ok(model)".to_string(), String::new()),
            Ok(Err(e)) => (format!("Err({})", e), String::new()),
            Err(m) => ("panic".to_string(), m.clone()),
        };
        let (ct, ci) = (class(&rt), class(&ri));
        if ct.0 != ci.0 {
            return Some(Diff {
                call: format!("{}::fit", fit_trait),
                what: format!("fit through the trait gives {}, the inherent fit gives {}", full(&ct), full(&ci)),
            });
        }
        let (mt, mi) = match (rt, ri) {
            (Ok(Ok(a)), Ok(Ok(b))) => (a, b),
            _ => return None,
        };
        if same_fit {
            let (st, si) = (guard(|| state(&mt)), guard(|| state(&mi)));
            if st != si {
                return Some(Diff {
                    call: format!("{}::fit", fit_trait),
                    what: format!(
                        "the model fitted through the trait differs from the one fitted by the inherent fit: {} vs {}",
                        clip(&st.unwrap_or_else(|m| format!("panic: {}", m))),
                        clip(&si.unwrap_or_else(|m| format!("panic: {}", m)))
                    ),
                });
            }
        }
        let mut reference: Vec<Option<String>> = vec![None; probes.len()];
        for (which, m) in [("the trait", &mt), ("the inherent fit", &mi)].iter() {
            for (pi, (pname, px)) in probes.iter().enumerate() {
                let a = show(&guard(|| apply_t(m, px)));
                let b = show(&guard(|| apply_i(m, px)));
                if a.0 != b.0 {
                    return Some(Diff {
                        call: format!("{}::{} on {} (model fitted through {})", apply_trait, method, pname, which),
                        what: format!("through the trait: {}; inherent {}: {}", full(&a), method, full(&b)),
                    });
                }
                if same_fit {
                    match &reference[pi] {
                        None => reference[pi] = Some(b.0.clone()),
                        Some(r) => {
                            if *r != b.0 {
                                return Some(Diff {
                                    call: format!("{}::fit (seen by {} on {})", fit_trait, method, pname),
                                    what: format!("model fitted through the trait gives {}; model fitted by the inherent fit gives {}", clip(r), clip(&b.0)),
                                });
                            }
                        }
                    }
                }
            }
        }
        None
    }
}
