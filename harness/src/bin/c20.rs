//! C20 — backend independence.  The same generic code (`B: Matrix<f64>`) is instantiated at
//! DenseMatrix<f64>, ndarray::Array2<f64> and nalgebra::DMatrix<f64>.
//!
//! * correspondence: every BaseMatrix / BaseVector / MatrixStats / MatrixPreprocessing /
//!   HighOrderOperations method of every backend, on operands in standard and in transposed
//!   (non-standard) layout, against ONE model — C03's executable model of the dense matrix — through
//!   the abstraction "logical view" (shape + entries read by `get`), see coq/theories/C20/Corr.v;
//! * search: (1) the same observations compared ACROSS the backends and layouts, (2) oracles written
//!   from the property text on the logical view (row-major flatten / reshape after a transpose,
//!   sign- and orientation-independence of min / max / dot / norms, shape mismatches handled alike),
//!   (3) the decompositions and (4) the deterministic estimators on identical data across the three
//!   backends, each under a watchdog.
use nalgebra::DMatrix;
use ndarray::Array2;
use serde_json::{json, Value};
use smartcore::linalg::high_order::HighOrderOperations;
use smartcore::linalg::naive::dense_matrix::DenseMatrix;
use smartcore::linalg::stats::{MatrixPreprocessing, MatrixStats};
use smartcore::linalg::{BaseMatrix, BaseVector, Matrix};
use vharness::*;


pub type Rows = Vec<Vec<f64>>;

// ------------------------------------------------------------------------------------------
// backends
// ------------------------------------------------------------------------------------------
pub trait Bk: Matrix<f64> + Send + Sync + 'static {
    const NAME: &'static str;
    fn mk(rows: &Rows) -> Self;
    /// an operand with the same logical content whose storage is not contiguous (only ndarray can own
    /// such an array: every second row and column of a larger allocation); the others build normally
    fn mk_strided(rows: &Rows) -> Self {
        Self::mk(rows)
    }
    fn vmk_strided(v: &[f64]) -> Self::RowVector {
        <Self::RowVector as BaseVector<f64>>::from_array(v)
    }
}
impl Bk for DenseMatrix<f64> {
    const NAME: &'static str = "dense";
    fn mk(rows: &Rows) -> Self {
        DenseMatrix::from_2d_vec(rows)
    }
}
impl Bk for Array2<f64> {
    const NAME: &'static str = "ndarray";
    fn mk(rows: &Rows) -> Self {
        let (n, p) = shape_of(rows);
        Array2::from_shape_vec((n, p), flat(rows)).unwrap()
    }
    fn mk_strided(rows: &Rows) -> Self {
        let (n, p) = shape_of(rows);
        let mut big = Array2::from_elem((2 * n, 2 * p), 977.0);
        for r in 0..n {
            for c in 0..p {
                big[[2 * r, 2 * c]] = rows[r][c];
            }
        }
        big.slice_move(ndarray::s![..;2, ..;2])
    }
    fn vmk_strided(v: &[f64]) -> Self::RowVector {
        let mut big = ndarray::Array1::from_elem(2 * v.len(), 977.0);
        for (i, x) in v.iter().enumerate() {
            big[2 * i] = *x;
        }
        big.slice_move(ndarray::s![..;2])
    }
}
impl Bk for DMatrix<f64> {
    const NAME: &'static str = "nalgebra";
    fn mk(rows: &Rows) -> Self {
        let (n, p) = shape_of(rows);
        DMatrix::from_row_slice(n, p, &flat(rows))
    }
}
pub const BACKENDS: [&str; 3] = ["dense", "ndarray", "nalgebra"];

/// memory layout of an operand: built directly, or as the transpose of the transposed data (for
/// ndarray this is an array with reversed strides, i.e. NOT in standard layout)
#[derive(Clone, Copy, PartialEq, Debug)]
pub enum Lay {
    Std,
    Tr,
    Strided,
}
pub fn build<B: Bk>(a: &Rows, lay: Lay) -> B {
    match lay {
        Lay::Std => B::mk(a),
        Lay::Tr => B::mk(&tr(a)).transpose(),
        Lay::Strided => B::mk_strided(a),
    }
}
pub fn vmk<B: Bk>(v: &[f64]) -> B::RowVector {
    <B::RowVector as BaseVector<f64>>::from_array(v)
}

pub fn shape_of(a: &Rows) -> (usize, usize) {
    (a.len(), if a.is_empty() { 0 } else { a[0].len() })
}
pub fn flat(a: &Rows) -> Vec<f64> {
    a.iter().flatten().cloned().collect()
}
pub fn tr(a: &Rows) -> Rows {
    let (n, p) = shape_of(a);
    (0..p).map(|c| (0..n).map(|r| a[r][c]).collect()).collect()
}
fn maxabs(a: &[f64]) -> f64 {
    a.iter().fold(0.0, |m, x| if x.abs() > m { x.abs() } else { m })
}
fn sumabs(a: &[f64]) -> f64 {
    a.iter().map(|x| x.abs()).sum()
}
/// compensated sum
fn csum(terms: &[f64]) -> f64 {
    let (mut s, mut c) = (0.0f64, 0.0f64);
    for &t in terms {
        let y = s + t;
        if s.abs() >= t.abs() {
            c += (s - y) + t;
        } else {
            c += (t - y) + s;
        }
        s = y;
    }
    s + c
}

// ------------------------------------------------------------------------------------------
// observed values
// ------------------------------------------------------------------------------------------
#[derive(Clone, Debug, PartialEq)]
pub enum Val {
    Panic,
    /// the call returned Err(Failed) (decompositions / estimators)
    Failed,
    /// no answer within the watchdog's time
    Timeout,
    F(f64),
    L(Vec<f64>),
    M(usize, usize, Vec<f64>),
    N(Vec<usize>),
    B(bool),
    S(usize, usize),
}
#[derive(Clone, Copy, PartialEq, Debug)]
enum Ty {
    F,
    L,
    M,
    N,
    B,
    S,
}
/// how sharply an observation is compared
#[derive(Clone, Copy, PartialEq, Debug)]
enum Kind {
    /// bit for bit on every backend (structure, element-wise arithmetic, order statistics, the shared
    /// default methods)
    Ex,
    /// reductions and products: a backend may accumulate in another order than the dense matrix
    /// (ndarray's unrolled sum / dot / gemm, nalgebra's gemm; ndarray iterates in logical order, the
    /// dense matrix and nalgebra in column-major order): bit for bit on the dense matrix, absolute
    /// tolerance 1e-11 * scale otherwise
    Red,
    /// through exp / powf: libm on the Rust side, a few-ulp software exp/ln in Coq: 1e-9 * scale
    Trans,
}

pub fn vm<M: BaseMatrix<f64>>(m: &M) -> Val {
    let (n, p) = m.shape();
    let mut v = Vec::with_capacity(n * p);
    for r in 0..n {
        for c in 0..p {
            v.push(m.get(r, c));
        }
    }
    Val::M(n, p, v)
}
pub fn vr<V: BaseVector<f64>>(v: &V) -> Val {
    Val::L((0..v.len()).map(|i| v.get(i)).collect())
}
pub fn vl(v: &[f64]) -> Val {
    Val::L(v.to_vec())
}
fn g<F: FnOnce() -> Val>(f: F) -> Val {
    match guard(f) {
        Ok(v) => v,
        Err(_) => Val::Panic,
    }
}
fn same(x: f64, y: f64) -> bool {
    x == y || (x.is_nan() && y.is_nan())
}
fn close(x: f64, y: f64, tol: f64) -> bool {
    same(x, y) || (x - y).abs() <= tol
}
fn close_vec(a: &[f64], b: &[f64], tol: f64) -> bool {
    a.len() == b.len() && a.iter().zip(b.iter()).all(|(x, y)| close(*x, *y, tol))
}
pub fn val_close(a: &Val, b: &Val, tol: f64) -> bool {
    match (a, b) {
        (Val::F(x), Val::F(y)) => close(*x, *y, tol),
        (Val::L(x), Val::L(y)) => close_vec(x, y, tol),
        (Val::M(n, p, x), Val::M(n2, p2, y)) => n == n2 && p == p2 && close_vec(x, y, tol),
        _ => a == b,
    }
}
fn val_short(v: &Val) -> String {
    let s = format!("{:?}", v);
    if s.len() > 300 {
        format!("{}…", &s[..300])
    } else {
        s
    }
}

// ------------------------------------------------------------------------------------------
// Gallina literals
// ------------------------------------------------------------------------------------------
fn lit_l(a: &Rows) -> String {
    let (n, p) = shape_of(a);
    format!("(L {} {} {})", coq_n(n), coq_n(p), coq_list_f64(&flat(a)))
}
fn lit_val(v: &Val) -> String {
    match v {
        Val::Panic | Val::Failed | Val::Timeout => "None".to_string(),
        Val::F(x) => format!("(Some {})", coq_f64(*x)),
        Val::L(x) => format!("(Some {})", coq_list_f64(x)),
        Val::M(n, p, x) => format!("(Some ({}, {}, {}))", coq_n(*n), coq_n(*p), coq_list_f64(x)),
        Val::N(x) => format!("(Some {})", coq_list_n(x)),
        Val::B(b) => format!("(Some {})", coq_bool(*b)),
        Val::S(n, p) => format!("(Some ({}, {}))", coq_n(*n), coq_n(*p)),
    }
}

struct Obs {
    op: String,
    ty: Ty,
    model: String,
    kind: Kind,
    scale: f64,
    val: Val,
}
impl Obs {
    /// tolerance when two backends are compared with each other
    fn cross_tol(&self) -> f64 {
        match self.kind {
            Kind::Ex => 0.0,
            Kind::Red => 1e-11 * self.scale,
            Kind::Trans => 1e-9 * self.scale,
        }
    }
    /// tolerance against the Coq model
    fn model_tol(&self, dense: bool) -> f64 {
        match self.kind {
            Kind::Ex => 0.0,
            Kind::Red => if dense { 0.0 } else { 1e-11 * self.scale },
            Kind::Trans => 1e-9 * self.scale,
        }
    }
    fn term(&self, dense: bool) -> String {
        let t = self.model_tol(dense);
        let cmp = match (self.ty, t > 0.0) {
            (Ty::F, false) => "k_f_x".to_string(),
            (Ty::F, true) => format!("k_f_a {}", coq_f64(t)),
            (Ty::L, false) => "k_l_x".to_string(),
            (Ty::L, true) => format!("k_l_a {}", coq_f64(t)),
            (Ty::M, false) => "k_m_x".to_string(),
            (Ty::M, true) => format!("k_m_a {}", coq_f64(t)),
            (Ty::N, _) => "k_nl".to_string(),
            (Ty::B, _) => "k_b".to_string(),
            (Ty::S, _) => "k_shape".to_string(),
        };
        format!("{} ({}) {}", cmp, self.model, lit_val(&self.val))
    }
}
struct Rec {
    obs: Vec<Obs>,
}
impl Rec {
    fn put<F: FnOnce() -> Val>(&mut self, op: &str, ty: Ty, model: String, kind: Kind, scale: f64, f: F) {
        self.obs.push(Obs { op: op.to_string(), ty, model, kind, scale: scale.max(1e-300), val: g(f) });
    }
}

// ------------------------------------------------------------------------------------------
// cases (self-contained: this is the replay input)
// ------------------------------------------------------------------------------------------
#[derive(Clone, Debug, Default)]
pub struct Case {
    pub entry: String,
    pub family: String,
    pub a: Rows,
    pub b: Rows,
    /// seed of the operation parameters (positions, ranges, index lists, scalars) derived inside the oracle
    pub sub: u64,
    /// estimator / decomposition name for the algorithm entries
    pub algo: String,
    pub y: Vec<f64>,
    pub q: Rows,
}
impl Case {
    fn to_json(&self) -> Value {
        json!({"entry": self.entry, "family": self.family, "a": self.a, "b": self.b, "sub": self.sub.to_string(),
               "algo": self.algo, "y": self.y, "q": self.q})
    }
    fn from_json(v: &Value) -> Case {
        Case {
            entry: v["entry"].as_str().unwrap_or("").to_string(),
            family: v["family"].as_str().unwrap_or("").to_string(),
            a: rows_from_json(&v["a"]),
            b: rows_from_json(&v["b"]),
            sub: v["sub"].as_str().and_then(|s| s.parse().ok()).unwrap_or(0),
            algo: v["algo"].as_str().unwrap_or("").to_string(),
            y: f64s_from_json(&v["y"]),
            q: rows_from_json(&v["q"]),
        }
    }
    fn key(&self) -> u64 {
        let mut d = flat(&self.a);
        d.extend(flat(&self.b));
        d.extend(self.y.iter());
        d.extend(flat(&self.q));
        d.push(self.a.len() as f64);
        d.push(self.b.len() as f64);
        hash_f64s(&d) ^ hash_of(&self.entry) ^ hash_of(&self.algo) ^ self.sub
    }
}

// ------------------------------------------------------------------------------------------
// observations: one matrix
// ------------------------------------------------------------------------------------------
fn unary_obs<B: Bk>(a: &Rows, lay: Lay, sub: u64) -> Vec<Obs> {
    let mut q = Rng::new(sub);
    let (n, p) = shape_of(a);
    let fl = flat(a);
    let (mx, s1) = (maxabs(&fl), sumabs(&fl));
    let la = lit_l(a);
    let m: B = build::<B>(a, lay);
    let mut k = Rec { obs: vec![] };
    use Kind::*;
    let x = *q.pick(&[1.5, -2.0, 0.375, 4.0, -0.75, 3.0]);
    let cx = coq_f64(x);

    // construction / logical view
    k.put("view", Ty::M, format!("y_id {}", la), Ex, 0.0, || vm(&m));
    k.put("shape", Ty::S, format!("y_shape {}", la), Ex, 0.0, || { let (r, c) = m.shape(); Val::S(r, c) });
    k.put("to_row_vector", Ty::L, format!("y_to_row_vector {}", la), Ex, 0.0, || vr(&m.clone().to_row_vector()));
    k.put("from_row_vector", Ty::M, format!("y_from_row_vector {}", coq_list_f64(&fl)), Ex, 0.0, || vm(&B::from_row_vector(vmk::<B>(&fl))));
    k.put("fill", Ty::M, format!("y_fill {} {} {}", coq_n(n), coq_n(p), cx), Ex, 0.0, || vm(&B::fill(n, p, x)));
    k.put("zeros", Ty::M, format!("y_zeros {} {}", coq_n(n), coq_n(p)), Ex, 0.0, || vm(&B::zeros(n, p)));
    k.put("ones", Ty::M, format!("y_ones {} {}", coq_n(n), coq_n(p)), Ex, 0.0, || vm(&B::ones(n, p)));
    k.put("eye", Ty::M, format!("y_eye {}", coq_n(n)), Ex, 0.0, || vm(&B::eye(n)));

    // get / set / element updates: in range, or out of range in the (row, col) sense AND in the
    // linear-index sense (the dense matrix only tests the latter in `set`)
    let (r, c) = if q.chance(0.75) { (q.below(n), q.below(p)) } else if q.bool() { (n + q.below(2), p - 1) } else { (q.below(n), p + q.below(2)) };
    let (cr, cc) = (coq_n(r), coq_n(c));
    k.put("get", Ty::F, format!("y_get {} {} {}", la, cr, cc), Ex, 0.0, || Val::F(m.get(r, c)));
    k.put("set", Ty::M, format!("y_set {} {} {} {}", la, cr, cc, cx), Ex, 0.0, || { let mut w = m.clone(); w.set(r, c, x); vm(&w) });
    for which in 0..4usize {
        k.put(["add_element_mut", "sub_element_mut", "mul_element_mut", "div_element_mut"][which], Ty::M,
            format!("y_elem {} {} {} {} {}", coq_n(which), la, cr, cc, cx), Ex, 0.0, || {
                let mut w = m.clone();
                match which { 0 => w.add_element_mut(r, c, x), 1 => w.sub_element_mut(r, c, x), 2 => w.mul_element_mut(r, c, x), _ => w.div_element_mut(r, c, x) };
                vm(&w)
            });
    }
    // rows and columns
    let (rr, rc) = (q.below(n + 1), q.below(p + 1));
    k.put("get_row", Ty::L, format!("y_get_row {} {}", la, coq_n(rr)), Ex, 0.0, || vr(&m.get_row(rr)));
    k.put("get_row_as_vec", Ty::L, format!("y_get_row {} {}", la, coq_n(rr)), Ex, 0.0, || vl(&m.get_row_as_vec(rr)));
    k.put("get_col_as_vec", Ty::L, format!("y_get_col {} {}", la, coq_n(rc)), Ex, 0.0, || vl(&m.get_col_as_vec(rc)));
    let bufr: Vec<f64> = (0..p + q.below(3)).map(|i| -7.0 - i as f64).collect();
    let bufc: Vec<f64> = (0..n + q.below(3)).map(|i| -7.0 - i as f64).collect();
    k.put("copy_row_as_vec", Ty::L, format!("y_copy_row {} {} {}", la, coq_n(rr), coq_list_f64(&bufr)), Ex, 0.0, || { let mut w = bufr.clone(); m.copy_row_as_vec(rr, &mut w); vl(&w) });
    k.put("copy_col_as_vec", Ty::L, format!("y_copy_col {} {} {}", la, coq_n(rc), coq_list_f64(&bufc)), Ex, 0.0, || { let mut w = bufc.clone(); m.copy_col_as_vec(rc, &mut w); vl(&w) });

    // structure
    k.put("transpose", Ty::M, format!("y_transpose {}", la), Ex, 0.0, || vm(&m.transpose()));
    {
        // non-empty ranges, sometimes past the end
        let r0 = q.below(n);
        let c0 = q.below(p);
        let r1 = r0 + 1 + q.below(n - r0) + if q.chance(0.12) { n } else { 0 };
        let c1 = c0 + 1 + q.below(p - c0) + if q.chance(0.12) { p } else { 0 };
        k.put("slice", Ty::M, format!("y_slice {} {} {} {} {}", la, coq_n(r0), coq_n(r1), coq_n(c0), coq_n(c1)), Ex, 0.0, || vm(&m.slice(r0..r1, c0..c1)));
        let divs: Vec<usize> = (1..=n * p).filter(|d| (n * p) % d == 0).collect();
        for rep in 0..2 {
            let rn = *q.pick(&divs);
            let rp = if rep == 0 || q.chance(0.7) { n * p / rn } else { n * p / rn + 1 };
            k.put("reshape", Ty::M, format!("y_reshape {} {} {}", la, coq_n(rn), coq_n(rp)), Ex, 0.0, || vm(&m.reshape(rn, rp)));
        }
        for axis in 0..2u8 {
            let lim = if axis == 0 { n } else { p };
            let bad = q.chance(0.15);
            let idx: Vec<usize> = (0..q.below(6)).map(|_| q.below(if bad { lim + 1 } else { lim })).collect();
            k.put(if axis == 0 { "take(rows)" } else { "take(columns)" }, Ty::M, format!("y_take {} {} {}", la, coq_list_n(&idx), coq_bool(axis == 0)), Ex, 0.0, || vm(&m.take(&idx, axis)));
        }
    }
    // scalar arithmetic and maps, copying and in-place
    for which in 0..4usize {
        let model = format!("y_scalar {} {} {}", coq_n(which), la, cx);
        k.put(["add_scalar", "sub_scalar", "mul_scalar", "div_scalar"][which], Ty::M, model.clone(), Ex, 0.0,
            || vm(&match which { 0 => m.add_scalar(x), 1 => m.sub_scalar(x), 2 => m.mul_scalar(x), _ => m.div_scalar(x) }));
        k.put(["add_scalar_mut", "sub_scalar_mut", "mul_scalar_mut", "div_scalar_mut"][which], Ty::M, model, Ex, 0.0, || {
            let mut w = m.clone();
            match which { 0 => { w.add_scalar_mut(x); } 1 => { w.sub_scalar_mut(x); } 2 => { w.mul_scalar_mut(x); } _ => { w.div_scalar_mut(x); } };
            vm(&w)
        });
    }
    k.put("negative", Ty::M, format!("y_negative {}", la), Ex, 0.0, || vm(&m.negative()));
    k.put("negative_mut", Ty::M, format!("y_negative {}", la), Ex, 0.0, || { let mut w = m.clone(); w.negative_mut(); vm(&w) });
    k.put("abs", Ty::M, format!("y_abs {}", la), Ex, 0.0, || vm(&m.abs()));
    k.put("abs_mut", Ty::M, format!("y_abs {}", la), Ex, 0.0, || { let mut w = m.clone(); w.abs_mut(); vm(&w) });
    let th = *q.pick(&[0.0, -1.0, 0.5, 2.0]);
    k.put("binarize", Ty::M, format!("y_binarize {} {}", la, coq_f64(th)), Ex, 0.0, || vm(&m.binarize(th)));
    k.put("binarize_mut", Ty::M, format!("y_binarize {} {}", la, coq_f64(th)), Ex, 0.0, || { let mut w = m.clone(); w.binarize_mut(th); vm(&w) });
    if mx <= 64.0 {
        // integer powers of data of any sign; real powers of |data|
        let pi = *q.pick(&[0.0, 1.0, 2.0, 3.0]);
        let sc = mx.max(1.0).powf(pi);
        k.put("pow", Ty::M, format!("y_powg {} {}", la, coq_f64(pi)), Trans, sc, || vm(&m.clone().pow(pi)));
        k.put("pow_mut", Ty::M, format!("y_powg {} {}", la, coq_f64(pi)), Trans, sc, || { let mut w = m.clone(); w.pow_mut(pi); vm(&w) });
        let pr = *q.pick(&[0.5, 1.5, 2.0]);
        let aa: Rows = a.iter().map(|r| r.iter().map(|v| v.abs()).collect()).collect();
        let ma: B = build::<B>(&aa, lay);
        k.put("pow(abs)", Ty::M, format!("y_powg {} {}", lit_l(&aa), coq_f64(pr)), Trans, mx.max(1.0).powf(pr), || vm(&ma.clone().pow(pr)));
    }
    // reductions
    k.put("sum", Ty::F, format!("y_sum {}", la), Red, s1, || Val::F(m.sum()));
    k.put("max", Ty::F, format!("y_max {}", la), Ex, 0.0, || Val::F(m.max()));
    k.put("min", Ty::F, format!("y_min {}", la), Ex, 0.0, || Val::F(m.min()));
    k.put("norm2", Ty::F, format!("y_norm2 {}", la), Red, s1, || Val::F(m.norm2()));
    k.put("norm(inf)", Ty::F, format!("y_norm_pinf {}", la), Ex, 0.0, || Val::F(m.norm(f64::INFINITY)));
    k.put("norm(-inf)", Ty::F, format!("y_norm_ninf {}", la), Ex, 0.0, || Val::F(m.norm(f64::NEG_INFINITY)));
    if mx <= 64.0 {
        let pn = *q.pick(&[1.0, 2.0, 3.0, 0.5]);
        let sc = (mx.max(1.0)) * ((n * p) as f64).powf((1.0f64 / pn).max(1.0));
        k.put("norm(p)", Ty::F, format!("y_norm_p {} {}", la, coq_f64(pn)), Trans, sc, || Val::F(m.norm(pn)));
    }
    k.put("column_mean", Ty::L, format!("y_column_mean {}", la), Red, mx, || vl(&m.column_mean()));
    k.put("argmax", Ty::N, format!("y_argmax {}", la), Ex, 0.0, || Val::N(m.argmax()));
    k.put("unique", Ty::L, format!("y_unique {}", la), Ex, 0.0, || vl(&m.unique()));
    if mx <= 700.0 {
        k.put("softmax_mut", Ty::M, format!("y_softmax {}", la), Trans, 1.0, || { let mut w = m.clone(); w.softmax_mut(); vm(&w) });
    }
    // statistics (default methods written against get / set / shape)
    for axis in 0..2u8 {
        let ax = coq_bool(axis == 0);
        let nm = |s: &str| format!("{}(axis {})", s, axis);
        k.put(&nm("mean"), Ty::L, format!("y_mean {} {}", la, ax), Ex, 0.0, || vl(&m.mean(axis)));
        k.put(&nm("var"), Ty::L, format!("y_var {} {}", la, ax), Ex, 0.0, || vl(&m.var(axis)));
        k.put(&nm("std"), Ty::L, format!("y_std {} {}", la, ax), Ex, 0.0, || vl(&m.std(axis)));
        let len = if axis == 0 { p } else { n };
        let short = q.chance(0.12);
        let mu: Vec<f64> = (0..(if short { len - 1 } else { len + q.below(2) })).map(|_| q.dyadic(2, 2)).collect();
        let sd: Vec<f64> = (0..len + q.below(2)).map(|_| q.int(1, 12) as f64 / 4.0).collect();
        k.put(&nm("scale_mut"), Ty::M, format!("y_scale {} {} {} {}", la, coq_list_f64(&mu), coq_list_f64(&sd), ax), Ex, 0.0, || { let mut w = m.clone(); w.scale_mut(&mu, &sd, axis); vm(&w) });
    }
    k.put("cov", Ty::M, format!("y_cov {}", la), Red, 4.0 * mx * mx * (n as f64), || vm(&m.cov()));
    k.obs
}

// ------------------------------------------------------------------------------------------
// observations: two matrices (all pairings of compatible and incompatible shapes)
// ------------------------------------------------------------------------------------------
fn binary_obs<B: Bk>(a: &Rows, b: &Rows, la_: Lay, lb_: Lay, sub: u64) -> Vec<Obs> {
    let mut q = Rng::new(sub);
    let (fa, fb) = (flat(a), flat(b));
    let (mxa, mxb) = (maxabs(&fa), maxabs(&fb));
    let (sa, sb) = (shape_of(a), shape_of(b));
    let (la, lb) = (lit_l(a), lit_l(b));
    let ma: B = build::<B>(a, la_);
    let mb: B = build::<B>(b, lb_);
    let mut k = Rec { obs: vec![] };
    use Kind::*;
    for which in 0..4usize {
        let model = format!("y_zip {} {} {}", coq_n(which), la, lb);
        k.put(["add", "sub", "mul", "div"][which], Ty::M, model.clone(), Ex, 0.0, || vm(&match which { 0 => ma.add(&mb), 1 => ma.sub(&mb), 2 => ma.mul(&mb), _ => ma.div(&mb) }));
        k.put(["add_mut", "sub_mut", "mul_mut", "div_mut"][which], Ty::M, model, Ex, 0.0, || {
            let mut w = ma.clone();
            match which { 0 => { w.add_mut(&mb); } 1 => { w.sub_mut(&mb); } 2 => { w.mul_mut(&mb); } _ => { w.div_mut(&mb); } };
            vm(&w)
        });
    }
    let inner = (sa.0.max(sa.1).max(sb.0).max(sb.1)) as f64;
    let psc = mxa * mxb * inner;
    k.put("matmul", Ty::M, format!("y_matmul {} {}", la, lb), Red, psc, || vm(&ma.matmul(&mb)));
    for (ta, tb) in [(false, false), (true, false), (false, true), (true, true)] {
        k.put(&format!("ab({},{})", ta, tb), Ty::M, format!("y_ab {} {} {} {}", la, coq_bool(ta), lb, coq_bool(tb)), Red, psc, || vm(&ma.ab(ta, &mb, tb)));
    }
    k.put("dot", Ty::F, format!("y_dot {} {}", la, lb), Red, psc, || Val::F(ma.dot(&mb)));
    k.put("h_stack", Ty::M, format!("y_h_stack {} {}", la, lb), Ex, 0.0, || vm(&ma.h_stack(&mb)));
    k.put("v_stack", Ty::M, format!("y_v_stack {} {}", la, lb), Ex, 0.0, || vm(&ma.v_stack(&mb)));
    k.put("copy_from", Ty::M, format!("y_copy_from {} {}", la, lb), Ex, 0.0, || { let mut w = ma.clone(); w.copy_from(&mb); vm(&w) });
    let err = *q.pick(&[0.0, 0.125, 0.5, 1.0]);
    k.put("approximate_eq", Ty::B, format!("y_approximate_eq {} {} {}", la, lb, coq_f64(err)), Ex, 0.0, || Val::B(ma.approximate_eq(&mb, err)));
    k.put("max_diff", Ty::F, format!("y_max_diff {} {}", la, lb), Ex, 0.0, || Val::F(ma.max_diff(&mb)));
    k.obs
}
// ------------------------------------------------------------------------------------------
// observations: the backend's vector type (BaseVector)
// ------------------------------------------------------------------------------------------
fn vector_obs<B: Bk>(a: &[f64], b: &[f64], sub: u64, strided: bool) -> Vec<Obs> {
    let mut q = Rng::new(sub);
    let (la, lb) = (coq_list_f64(a), coq_list_f64(b));
    let (n1, _n2) = (a.len(), b.len());
    let (mx, s1) = (maxabs(a), sumabs(a));
    let va = if strided { B::vmk_strided(a) } else { vmk::<B>(a) };
    let vb = if strided { B::vmk_strided(b) } else { vmk::<B>(b) };
    let mut k = Rec { obs: vec![] };
    use Kind::*;
    let x = *q.pick(&[1.5, -2.0, 0.375, 4.0]);
    let cx = coq_f64(x);
    k.put("vec:from_array/get", Ty::L, format!("y_vid {}", la), Ex, 0.0, || vr(&va));
    k.put("vec:to_vec", Ty::L, format!("y_vid {}", la), Ex, 0.0, || vl(&va.to_vec()));
    let i = q.below(n1 + 2);
    k.put("vec:get", Ty::F, format!("y_vget {} {}", la, coq_n(i)), Ex, 0.0, || Val::F(va.get(i)));
    k.put("vec:dot", Ty::F, format!("y_vdot {} {}", la, lb), Red, mx * maxabs(b) * (n1 as f64), || Val::F(va.dot(&vb)));
    for which in 0..4usize {
        let model = format!("y_vzip {} {} {}", coq_n(which), la, lb);
        k.put(["vec:add", "vec:sub", "vec:mul", "vec:div"][which], Ty::L, model.clone(), Ex, 0.0, || vr(&match which { 0 => va.add(&vb), 1 => va.sub(&vb), 2 => va.mul(&vb), _ => va.div(&vb) }));
        k.put(["vec:add_mut", "vec:sub_mut", "vec:mul_mut", "vec:div_mut"][which], Ty::L, model, Ex, 0.0, || {
            let mut w = va.clone();
            match which { 0 => { w.add_mut(&vb); } 1 => { w.sub_mut(&vb); } 2 => { w.mul_mut(&vb); } _ => { w.div_mut(&vb); } };
            vr(&w)
        });
        let model = format!("y_vscalar {} {} {}", coq_n(which), la, cx);
        k.put(["vec:add_scalar", "vec:sub_scalar", "vec:mul_scalar", "vec:div_scalar"][which], Ty::L, model.clone(), Ex, 0.0, || vr(&match which { 0 => va.add_scalar(x), 1 => va.sub_scalar(x), 2 => va.mul_scalar(x), _ => va.div_scalar(x) }));
        k.put(["vec:add_scalar_mut", "vec:sub_scalar_mut", "vec:mul_scalar_mut", "vec:div_scalar_mut"][which], Ty::L, model, Ex, 0.0, || {
            let mut w = va.clone();
            match which { 0 => { w.add_scalar_mut(x); } 1 => { w.sub_scalar_mut(x); } 2 => { w.mul_scalar_mut(x); } _ => { w.div_scalar_mut(x); } };
            vr(&w)
        });
    }
    for which in 0..5usize {
        k.put(["vec:add_element_mut", "vec:sub_element_mut", "vec:mul_element_mut", "vec:div_element_mut", "vec:set"][which], Ty::L,
            format!("y_velem {} {} {} {}", coq_n(which), la, coq_n(i), cx), Ex, 0.0, || {
                let mut w = va.clone();
                match which { 0 => w.add_element_mut(i, x), 1 => w.sub_element_mut(i, x), 2 => w.mul_element_mut(i, x), 3 => w.div_element_mut(i, x), _ => w.set(i, x) };
                vr(&w)
            });
    }
    k.put("vec:norm2", Ty::F, format!("y_vnorm2 {}", la), Red, s1, || Val::F(va.norm2()));
    k.put("vec:norm(inf)", Ty::F, format!("y_vnorm_pinf {}", la), Ex, 0.0, || Val::F(va.norm(f64::INFINITY)));
    k.put("vec:norm(-inf)", Ty::F, format!("y_vnorm_ninf {}", la), Ex, 0.0, || Val::F(va.norm(f64::NEG_INFINITY)));
    if mx <= 64.0 {
        let pn = *q.pick(&[1.0, 2.0, 3.0, 0.5]);
        let sc = (mx.max(1.0)) * (n1 as f64).powf((1.0f64 / pn).max(1.0));
        k.put("vec:norm(p)", Ty::F, format!("y_vnorm_p {} {}", la, coq_f64(pn)), Trans, sc, || Val::F(va.norm(pn)));
    }
    k.put("vec:sum", Ty::F, format!("y_vsum {}", la), Red, s1, || Val::F(va.sum()));
    k.put("vec:mean", Ty::F, format!("y_vmean {}", la), Red, mx, || Val::F(va.mean()));
    k.put("vec:var", Ty::F, format!("y_vvar {}", la), Ex, 0.0, || Val::F(va.var()));
    k.put("vec:std", Ty::F, format!("y_vstd {}", la), Ex, 0.0, || Val::F(va.std()));
    let err = *q.pick(&[0.0, 0.125, 1.0]);
    k.put("vec:approximate_eq", Ty::B, format!("y_vapprox_eq {} {} {}", la, lb, coq_f64(err)), Ex, 0.0, || Val::B(va.approximate_eq(&vb, err)));
    let bad = q.chance(0.2);
    let idx: Vec<usize> = (0..q.below(6)).map(|_| q.below(if bad { n1 + 1 } else { n1 })).collect();
    k.put("vec:take", Ty::L, format!("y_vtake {} {}", la, coq_list_n(&idx)), Ex, 0.0, || vr(&va.take(&idx)));
    k.put("vec:copy_from", Ty::L, format!("y_vcopy_from {} {}", la, lb), Ex, 0.0, || { let mut w = va.clone(); w.copy_from(&vb); vr(&w) });
    k.put("vec:unique", Ty::L, format!("y_vunique {}", la), Ex, 0.0, || vl(&va.unique()));
    k.put("vec:fill", Ty::L, format!("y_vfill {} {}", coq_n(n1), cx), Ex, 0.0, || vr(&<B::RowVector as BaseVector<f64>>::fill(n1, x)));
    k.put("vec:zeros", Ty::L, format!("y_vfill {} {}", coq_n(n1), coq_f64(0.0)), Ex, 0.0, || vr(&<B::RowVector as BaseVector<f64>>::zeros(n1)));
    k.put("vec:ones", Ty::L, format!("y_vfill {} {}", coq_n(n1), coq_f64(1.0)), Ex, 0.0, || vr(&<B::RowVector as BaseVector<f64>>::ones(n1)));
    k.put("vec:len", Ty::N, format!("y_vlen {}", la), Ex, 0.0, || Val::N(vec![va.len()]));
    k.obs
}

// ------------------------------------------------------------------------------------------
// oracles written from the property text on the logical view (no model, no reference backend)
// ------------------------------------------------------------------------------------------
fn defs<B: Bk>(a: &Rows, lay: Lay, f: &mut Vec<(String, String)>) {
    let (n, p) = shape_of(a);
    let fl = flat(a);
    let at = tr(a);
    let m: B = build::<B>(a, lay);
    let nm = |s: &str| format!("{} on {} ({:?} layout)", s, B::NAME, lay);
    let mut chk = |ok: bool, oracle: &str, what: String| {
        if !ok {
            f.push((oracle.to_string(), what));
        }
    };
    // flattening and reshaping follow the logical row-major order, also after a transpose
    let got = g(|| vr(&m.clone().to_row_vector()));
    chk(got == vl(&fl), "row_major_flatten", format!("{}: {} expected {:?}", nm("to_row_vector"), val_short(&got), fl));
    let got = g(|| vr(&m.transpose().to_row_vector()));
    chk(got == vl(&flat(&at)), "row_major_flatten", format!("{}: {} expected {:?}", nm("transpose().to_row_vector"), val_short(&got), flat(&at)));
    let sz = n * p;
    for k in 1..=sz {
        if sz % k == 0 {
            let l = sz / k;
            let got = g(|| vm(&m.reshape(k, l)));
            chk(got == Val::M(k, l, fl.clone()), "row_major_reshape", format!("{}: {} expected row-major {:?}", nm(&format!("reshape({},{})", k, l)), val_short(&got), fl));
            let got = g(|| vm(&m.transpose().reshape(k, l)));
            chk(got == Val::M(k, l, flat(&at)), "row_major_reshape", format!("{}: {} expected row-major {:?}", nm(&format!("transpose().reshape({},{})", k, l)), val_short(&got), flat(&at)));
        }
    }
    let got = g(|| vm(&m.transpose()));
    chk(got == Val::M(p, n, flat(&at)), "transpose", format!("{}: {}", nm("transpose"), val_short(&got)));
    // reductions do not depend on the sign or orientation of the data
    let dmax = fl.iter().cloned().fold(f64::NEG_INFINITY, f64::max);
    let dmin = fl.iter().cloned().fold(f64::INFINITY, f64::min);
    let amax = fl.iter().map(|x| x.abs()).fold(f64::NEG_INFINITY, f64::max);
    let amin = fl.iter().map(|x| x.abs()).fold(f64::INFINITY, f64::min);
    let s1 = sumabs(&fl);
    let tol = 1e-11 * s1.max(1e-300);
    let exp: Vec<(&str, f64, f64, Box<dyn Fn(&B) -> f64>)> = vec![
        ("max", dmax, 0.0, Box::new(|w: &B| w.max())),
        ("min", dmin, 0.0, Box::new(|w: &B| w.min())),
        ("norm(inf)", amax, 0.0, Box::new(|w: &B| w.norm(f64::INFINITY))),
        ("norm(-inf)", amin, 0.0, Box::new(|w: &B| w.norm(f64::NEG_INFINITY))),
        ("sum", csum(&fl), tol, Box::new(|w: &B| w.sum())),
        ("norm2", csum(&fl.iter().map(|x| x * x).collect::<Vec<f64>>()).sqrt(), tol, Box::new(|w: &B| w.norm2())),
        ("norm(1)", s1, tol, Box::new(|w: &B| w.norm(1.0))),
    ];
    for (name, e, t, fun) in exp.iter() {
        let got = g(|| Val::F(fun(&m)));
        chk(val_close(&got, &Val::F(*e), *t), "reduction_definition", format!("{}: {} expected {:e}", nm(name), val_short(&got), e));
        let got = g(|| Val::F(fun(&m.transpose())));
        chk(val_close(&got, &Val::F(*e), *t), "reduction_orientation", format!("{}: {} expected {:e}", nm(&format!("transpose().{}", name)), val_short(&got), e));
    }
    let got = g(|| Val::F(m.negative().max()));
    chk(got == Val::F(-dmin), "reduction_sign", format!("{}: {} expected {:e}", nm("negative().max"), val_short(&got), -dmin));
    let got = g(|| Val::F(m.negative().min()));
    chk(got == Val::F(-dmax), "reduction_sign", format!("{}: {} expected {:e}", nm("negative().min"), val_short(&got), -dmax));
    let got = g(|| Val::F(m.negative().norm(f64::INFINITY)));
    chk(got == Val::F(amax), "reduction_sign", format!("{}: {} expected {:e}", nm("negative().norm(inf)"), val_short(&got), amax));
    let got = g(|| Val::F(m.negative().norm2()));
    let e = g(|| Val::F(m.norm2()));
    chk(got == e, "reduction_sign", format!("{}: {} but norm2 = {}", nm("negative().norm2"), val_short(&got), val_short(&e)));
}

/// dot of two vectors of equal length in all four orientations: Some(failing orientation, value)
fn dot_orient<B: Bk>(u: &[f64], v: &[f64]) -> Vec<(String, Val)> {
    let row = |x: &[f64]| -> Rows { vec![x.to_vec()] };
    let col = |x: &[f64]| -> Rows { x.iter().map(|t| vec![*t]).collect() };
    let mut o = vec![];
    for (na, ra) in [("row", row(u)), ("column", col(u))] {
        for (nb, rb) in [("row", row(v)), ("column", col(v))] {
            let (ma, mb): (B, B) = (B::mk(&ra), B::mk(&rb));
            o.push((format!("{}.{}", na, nb), g(|| Val::F(ma.dot(&mb)))));
        }
    }
    o
}

// ------------------------------------------------------------------------------------------
// known findings (ids as in KNOWN_FINDINGS.txt): none for C20 at present — the two discrepancies this
// harness found (nalgebra's dot on mixed orientations / non-vectors, max_diff on operands of different
// shape, ndarray's unique() reading the whole allocation of a non-contiguous array) were repaired in /repo
// (1f6c7ea, 99b23b2, c1b0a65) and are plain failures if they come back.
// ------------------------------------------------------------------------------------------
fn listed_findings() -> Vec<String> {
    let mut ids = vec![];
    for p in [concat!(env!("CARGO_MANIFEST_DIR"), "/../KNOWN_FINDINGS.txt"), "/verif/KNOWN_FINDINGS.txt"] {
        if let Ok(s) = std::fs::read_to_string(p) {
            for l in s.lines() {
                if l.starts_with("finding:") && l.contains("property=C20") {
                    if let Some(i) = l.find("id=") {
                        ids.push(l[i + 3..].split_whitespace().next().unwrap_or("").to_string());
                    }
                }
            }
            break;
        }
    }
    ids
}
#[derive(Default)]
pub struct Verdict {
    pub fails: Vec<(String, String)>,
    pub known: Vec<(String, String)>,
    pub notes: Vec<String>,
}
impl Verdict {
    fn fail(&mut self, oracle: &str, what: String) {
        if self.fails.len() < 6 {
            self.fails.push((oracle.to_string(), what));
        }
    }
}

fn is_vec(s: (usize, usize)) -> bool {
    s.0 == 1 || s.1 == 1
}

/// compare the observation lists of all backends / layouts with each other
fn cross(lists: &[(String, Vec<Obs>)], v: &mut Verdict, sa: (usize, usize), sb: Option<(usize, usize)>) {
    let (ref0, l0) = &lists[0];
    for (name, l) in lists.iter().skip(1) {
        if l.len() != l0.len() {
            v.fail("harness", format!("observation lists of {} and {} differ in length", ref0, name));
            continue;
        }
    }
    for i in 0..l0.len() {
        let o0 = &l0[i];
        let tol = o0.cross_tol();
        let mut bad: Vec<usize> = vec![];
        for (j, (_, l)) in lists.iter().enumerate().skip(1) {
            if l.len() == l0.len() && !val_close(&o0.val, &l[i].val, tol) {
                bad.push(j);
            }
        }
        if bad.is_empty() {
            continue;
        }
        let all: Vec<String> = lists.iter().map(|(n, l)| format!("{}: {}", n, if l.len() == l0.len() { val_short(&l[i].val) } else { "?".into() })).collect();
        let what = format!("{} on shape {:?}{}: backends disagree: {}", o0.op, sa, sb.map(|s| format!(" with {:?}", s)).unwrap_or_default(), all.join(" | "));
        let mism = sb.map(|s| s != sa).unwrap_or(false);
        v.fail(if mism { "shape_mismatch_handling" } else { "backends_agree" }, what);
    }
}

fn lays3() -> [(Lay, Lay); 3] {
    [(Lay::Std, Lay::Std), (Lay::Tr, Lay::Tr), (Lay::Std, Lay::Tr)]
}

fn run_methods(c: &Case) -> Verdict {
    let mut v = Verdict::default();
    let sa = shape_of(&c.a);
    match c.entry.as_str() {
        "unary" => {
            let mut lists = vec![];
            for lay in [Lay::Std, Lay::Tr, Lay::Strided] {
                if lay == Lay::Strided {
                    lists.push((format!("ndarray/{:?}", lay), unary_obs::<Array2<f64>>(&c.a, lay, c.sub)));
                    continue;
                }
                lists.push((format!("dense/{:?}", lay), unary_obs::<DenseMatrix<f64>>(&c.a, lay, c.sub)));
                lists.push((format!("ndarray/{:?}", lay), unary_obs::<Array2<f64>>(&c.a, lay, c.sub)));
                lists.push((format!("nalgebra/{:?}", lay), unary_obs::<DMatrix<f64>>(&c.a, lay, c.sub)));
            }
            cross(&lists, &mut v, sa, None);
            let mut f = vec![];
            for lay in [Lay::Std, Lay::Tr] {
                defs::<DenseMatrix<f64>>(&c.a, lay, &mut f);
                defs::<Array2<f64>>(&c.a, lay, &mut f);
                defs::<DMatrix<f64>>(&c.a, lay, &mut f);
            }
            for (o, w) in f {
                v.fail(&o, w);
            }
        }
        "binary" => {
            let sb = shape_of(&c.b);
            let mut lists = vec![];
            for (l1, l2) in lays3() {
                lists.push((format!("dense/{:?}{:?}", l1, l2), binary_obs::<DenseMatrix<f64>>(&c.a, &c.b, l1, l2, c.sub)));
                lists.push((format!("ndarray/{:?}{:?}", l1, l2), binary_obs::<Array2<f64>>(&c.a, &c.b, l1, l2, c.sub)));
                lists.push((format!("nalgebra/{:?}{:?}", l1, l2), binary_obs::<DMatrix<f64>>(&c.a, &c.b, l1, l2, c.sub)));
            }
            cross(&lists, &mut v, sa, Some(sb));
            // the shape contract named by the property: incompatible operands are rejected by ALL backends
            // (and equality tests answer false) — read off the dense/standard observations, the cross
            // comparison above extends it to the others
            if sa != sb {
                for o in lists[0].1.iter() {
                    let must_reject = match o.op.as_str() {
                        "add" | "sub" | "mul" | "div" | "add_mut" | "sub_mut" | "mul_mut" | "div_mut" | "copy_from" | "max_diff" => true,
                        "dot" => !(is_vec(sa) && is_vec(sb) && sa.0 * sa.1 == sb.0 * sb.1),
                        "matmul" | "ab(false,false)" => sa.1 != sb.0,
                        "h_stack" => sa.0 != sb.0,
                        "v_stack" => sa.1 != sb.1,
                        _ => false,
                    };
                    if must_reject && o.val != Val::Panic {
                        v.fail("shape_mismatch_handling", format!("{} of {:?} with {:?} was accepted: {}", o.op, sa, sb, val_short(&o.val)));
                    }
                    if o.op == "approximate_eq" && o.val != Val::B(false) {
                        v.fail("shape_mismatch_handling", format!("approximate_eq of {:?} with {:?}: {}", sa, sb, val_short(&o.val)));
                    }
                }
            }
            // dot of two vectors of equal length does not depend on their orientation
            if is_vec(sa) && is_vec(sb) && sa.0 * sa.1 == sb.0 * sb.1 {
                let (u, w) = (flat(&c.a), flat(&c.b));
                let e = csum(&u.iter().zip(w.iter()).map(|(x, y)| x * y).collect::<Vec<f64>>());
                let tol = 1e-11 * (maxabs(&u) * maxabs(&w) * u.len() as f64).max(1e-300);
                let mut one = |name: &str, r: Vec<(String, Val)>, v: &mut Verdict| {
                    for (o, val) in r {
                        if !val_close(&val, &Val::F(e), tol) {
                            v.fail("dot_orientation", format!("dot({}) of two vectors of length {} on {}: {} expected {:e}", o, u.len(), name, val_short(&val), e));
                        }
                    }
                };
                one("dense", dot_orient::<DenseMatrix<f64>>(&u, &w), &mut v);
                one("ndarray", dot_orient::<Array2<f64>>(&u, &w), &mut v);
                one("nalgebra", dot_orient::<DMatrix<f64>>(&u, &w), &mut v);
            }
        }
        "vector" => {
            let (a, b) = (flat(&c.a), flat(&c.b));
            let lists = vec![
                ("dense".to_string(), vector_obs::<DenseMatrix<f64>>(&a, &b, c.sub, false)),
                ("ndarray".to_string(), vector_obs::<Array2<f64>>(&a, &b, c.sub, false)),
                ("nalgebra".to_string(), vector_obs::<DMatrix<f64>>(&a, &b, c.sub, false)),
                ("ndarray/Strided".to_string(), vector_obs::<Array2<f64>>(&a, &b, c.sub, true)),
            ];
            cross(&lists, &mut v, (1, a.len()), Some((1, b.len())));
        }
        _ => v.fail("replay", format!("unknown entry {}", c.entry)),
    }
    v
}

pub fn run_case(c: &Case) -> Verdict {
    let r = guard(|| match c.entry.as_str() {
        "decomposition" | "estimator" => algos::run_algo(c),
        _ => run_methods(c),
    });
    match r {
        Ok(v) => v,
        Err(e) => {
            let mut v = Verdict::default();
            v.fail("harness", format!("oracle {} itself panicked: {}", c.entry, e));
            v
        }
    }
}

struct Ctx {
    out: Out,
    listed: Vec<String>,
}
fn record(k: &mut Ctx, c: &Case) {
    let v = run_case(c);
    let (n, p) = shape_of(&c.a);
    let fl = flat(&c.a);
    let neg = fl.iter().any(|x| *x < 0.0);
    k.out.eval(c.key(), n != p || neg || !c.algo.is_empty());
    k.out.count(&format!("search:{}{}", c.entry, if c.algo.is_empty() { String::new() } else { format!(":{}", c.algo) }));
    if !c.family.is_empty() {
        k.out.count(&format!("search:family:{}", c.family));
    }
    if c.algo.is_empty() {
        let kind = if n == 1 && p == 1 { "1x1" } else if n == 1 { "1xN" } else if p == 1 { "Nx1" } else if n == p { "square" } else if n > p { "tall" } else { "wide" };
        k.out.count(&format!("search:shape:{}", kind));
        let sign = if fl.iter().all(|x| *x < 0.0) { "all-negative" } else if fl.iter().all(|x| *x > 0.0) { "all-positive" } else { "mixed-or-zero" };
        k.out.count(&format!("search:sign:{}", sign));
    }
    for note in &v.notes {
        k.out.count(note);
    }
    for (id, what) in &v.known {
        if k.listed.iter().any(|l| l == id) {
            k.out.known(id, what);
            k.out.count(&format!("known:{}", id));
        } else {
            k.out.fail(&format!("unlisted-known:{}", id), what, c.to_json());
        }
    }
    for (oracle, what) in &v.fails {
        k.out.fail(oracle, what, c.to_json());
    }
}

fn replay(path: &str) -> i32 {
    let v = read_replay(path);
    let inp = if v.get("input").is_some() { v["input"].clone() } else { v.clone() };
    let c = Case::from_json(&inp);
    let r = run_case(&c);
    for (o, w) in &r.fails {
        println!("  {}: {}", o, w);
    }
    for (o, w) in &r.known {
        println!("  known finding {}: {}", o, w);
    }
    if !r.fails.is_empty() {
        println!("REPLAY: property=C20 still fails: {}", path);
        1
    } else {
        println!("REPLAY: property=C20 passes: {}", path);
        0
    }
}

// ------------------------------------------------------------------------------------------
// generators
// ------------------------------------------------------------------------------------------
const FAMILIES: [&str; 8] = ["dyadic-mixed", "positive", "all-negative", "all-equal", "large", "integers", "continuous", "negative-integers"];

pub fn gen_rows(rng: &mut Rng, n: usize, p: usize, fam: &str) -> Rows {
    let konst = rng.dyadic(16, 2);
    let big = *rng.pick(&[1e6, 1e9, 1e12]);
    (0..n)
        .map(|_| {
            (0..p)
                .map(|_| match fam {
                    "dyadic-mixed" => rng.dyadic(8, 3),
                    "positive" => rng.uniform(0.1, 10.0),
                    "all-negative" => -rng.uniform(0.1, 10.0),
                    "all-equal" => konst,
                    "large" => rng.uniform(-1.0, 1.0) * big,
                    "integers" => { let x = rng.int(-3, 3) as f64; if x == 0.0 && rng.chance(0.3) { -0.0 } else { x } }
                    "negative-integers" => -(rng.int(1, 4) as f64),
                    _ => rng.normal() * 3.0,
                })
                .collect()
        })
        .collect()
}
fn gen_shape(rng: &mut Rng, max: usize) -> (usize, usize) {
    match rng.below(8) {
        0 => (1, rng.usize_in(1, max)),
        1 => (rng.usize_in(1, max), 1),
        2 => (1, 1),
        3 => { let n = rng.usize_in(1, max); (n, n) }
        _ => (rng.usize_in(1, max), rng.usize_in(1, max)),
    }
}
/// pairs of shapes covering every compatible / incompatible pattern of the binary operations
fn gen_shape_pair(rng: &mut Rng, max: usize) -> ((usize, usize), (usize, usize)) {
    let (n, p) = gen_shape(rng, max);
    let other = |rng: &mut Rng, x: usize| { let mut y = rng.usize_in(1, max); if y == x { y = if x < max { x + 1 } else { x - 1 }.max(1); } y };
    match rng.below(13) {
        0 | 1 | 2 => ((n, p), (n, p)),
        3 => ((n, p), (p, n)),
        4 => ((n, p), (n, other(rng, p))),
        5 => ((n, p), (other(rng, n), p)),
        6 => ((n, p), (p, rng.usize_in(1, max))),
        7 => { let k = rng.usize_in(1, max); (if rng.bool() { (1, k) } else { (k, 1) }, if rng.bool() { (1, k) } else { (k, 1) }) }
        8 => { let k = rng.usize_in(1, max); let l = other(rng, k); (if rng.bool() { (1, k) } else { (k, 1) }, if rng.bool() { (1, l) } else { (l, 1) }) }
        9 => { let (k, l) = (rng.usize_in(2, 3), rng.usize_in(2, 3)); if rng.bool() { ((1, k * l), (k, l)) } else { ((k, l), (k * l, 1)) } }
        10 => ((n, p), (rng.usize_in(1, max), n)),
        11 => ((1, 1), gen_shape(rng, max)),
        _ => ((n, p), gen_shape(rng, max)),
    }
}
fn gen_binary(rng: &mut Rng, max: usize) -> Case {
    let fam = *rng.pick(&FAMILIES);
    let fam2 = if rng.chance(0.7) { fam } else { *rng.pick(&FAMILIES) };
    let ((n1, p1), (n2, p2)) = gen_shape_pair(rng, max);
    let a = gen_rows(rng, n1, p1, fam);
    let mut b = gen_rows(rng, n2, p2, fam2);
    if (n1, p1) == (n2, p2) && rng.chance(0.3) {
        b = a.clone();
        if rng.bool() { let (r, cc) = (rng.below(n1), rng.below(p1)); b[r][cc] += *rng.pick(&[0.125, -0.5, 1.0]); }
    }
    Case { entry: "binary".into(), family: fam.into(), a, b, sub: rng.next_u64(), ..Default::default() }
}

fn search(k: &mut Ctx, rng: &mut Rng, thorough: bool) {
    // corpus: the D12 family (all repaired) — all-negative max / all-positive min, flatten after transpose,
    // dot of column vectors, softmax of negative data, cov, broadcasting shapes
    let corpus: Vec<Case> = vec![
        Case { entry: "unary".into(), family: "corpus".into(), a: vec![vec![-1.0, -2.0, -3.0], vec![-4.0, -5.0, -6.0]], sub: 1, ..Default::default() },
        Case { entry: "unary".into(), family: "corpus".into(), a: vec![vec![1.0, 2.0, 3.0], vec![4.0, 5.0, 6.0]], sub: 2, ..Default::default() },
        Case { entry: "unary".into(), family: "corpus".into(), a: vec![vec![-1000.0, -1001.0, -1002.0]], sub: 3, ..Default::default() },
        Case { entry: "binary".into(), family: "corpus".into(), a: vec![vec![1.0], vec![2.0], vec![3.0]], b: vec![vec![4.0], vec![5.0], vec![6.0]], sub: 4, ..Default::default() },
        Case { entry: "binary".into(), family: "corpus".into(), a: vec![vec![1.0, 2.0, 3.0], vec![4.0, 5.0, 6.0]], b: vec![vec![10.0, 20.0, 30.0]], sub: 5, ..Default::default() },
        Case { entry: "binary".into(), family: "corpus".into(), a: vec![vec![1.0, 2.0, 3.0], vec![4.0, 5.0, 6.0]], b: vec![vec![10.0], vec![20.0]], sub: 6, ..Default::default() },
        Case { entry: "binary".into(), family: "corpus".into(), a: vec![vec![1.0, 2.0], vec![3.0, 4.0]], b: vec![vec![7.0]], sub: 7, ..Default::default() },
        Case { entry: "binary".into(), family: "corpus".into(), a: vec![vec![1.0, 2.0, 3.0, 4.0]], b: vec![vec![5.0, 6.0], vec![7.0, 8.0]], sub: 8, ..Default::default() },
        Case { entry: "vector".into(), family: "corpus".into(), a: vec![vec![-1.0, -2.0, -3.0]], b: vec![vec![-4.0, -5.0, -6.0]], sub: 9, ..Default::default() },
        // repaired during this build round: nalgebra dot (1f6c7ea), max_diff on different shapes (99b23b2)
        Case { entry: "binary".into(), family: "corpus".into(), a: vec![vec![1.0, 2.0, 3.0]], b: vec![vec![4.0], vec![5.0], vec![6.0]], sub: 10, ..Default::default() },
        Case { entry: "binary".into(), family: "corpus".into(), a: vec![vec![1.0, 2.0], vec![3.0, 4.0]], b: vec![vec![1.0, 2.0], vec![3.0, 4.0]], sub: 11, ..Default::default() },
        Case { entry: "binary".into(), family: "corpus".into(), a: vec![vec![1.0, 2.0], vec![3.0, 4.0]], b: vec![vec![1.0, 2.0, 3.0], vec![4.0, 5.0, 6.0], vec![7.0, 8.0, 10.0]], sub: 12, ..Default::default() },
        // ndarray unique() on an owned non-contiguous array returned the hidden elements too (c1b0a65)
        Case { entry: "unary".into(), family: "corpus".into(), a: vec![vec![1.0], vec![2.0]], sub: 13, ..Default::default() },
        Case { entry: "vector".into(), family: "corpus".into(), a: vec![vec![1.0, 2.0]], b: vec![vec![2.0, 1.0]], sub: 14, ..Default::default() },
    ];
    for c in &corpus {
        record(k, c);
    }
    let maxd = 8;
    let scale = if thorough { 12 } else { 3 };
    // every shape 1..8 x 1..8 at least once (twice in the thorough tier) for the one-matrix oracle
    for rep in 0..(if thorough { 3 } else { 1 }) {
        for n in 1..=maxd {
            for p in 1..=maxd {
                let fam = if rep == 0 { ["dyadic-mixed", "all-negative", "positive"][(n + p) % 3] } else { *rng.pick(&FAMILIES) };
                let c = Case { entry: "unary".into(), family: fam.into(), a: gen_rows(rng, n, p, fam), sub: rng.next_u64(), ..Default::default() };
                if n == 2 && p == 3 && rep == 0 { k.out.sample(c.to_json()); }
                record(k, &c);
            }
        }
    }
    for _ in 0..120 * scale {
        let fam = *rng.pick(&FAMILIES);
        let (n, p) = gen_shape(rng, maxd);
        record(k, &Case { entry: "unary".into(), family: fam.into(), a: gen_rows(rng, n, p, fam), sub: rng.next_u64(), ..Default::default() });
    }
    for i in 0..500 * scale {
        let c = gen_binary(rng, if i % 3 == 0 { maxd } else { 5 });
        if i == 0 { k.out.sample(c.to_json()); }
        record(k, &c);
    }
    for _ in 0..200 * scale {
        let fam = *rng.pick(&FAMILIES);
        let n1 = rng.usize_in(1, maxd);
        let n2 = if rng.chance(0.7) { n1 } else { rng.usize_in(1, maxd) };
        let a = gen_rows(rng, 1, n1, fam);
        let mut b = gen_rows(rng, 1, n2, fam);
        if n1 == n2 && rng.chance(0.3) { b = a.clone(); if rng.bool() { b[0][rng.below(n1)] += 0.5; } }
        record(k, &Case { entry: "vector".into(), family: fam.into(), a, b, sub: rng.next_u64(), ..Default::default() });
    }
}

// ------------------------------------------------------------------------------------------
// correspondence with C03's model (terms over SC.C20.Corr)
// ------------------------------------------------------------------------------------------
const CORR_FAMILIES: [&str; 8] = ["dyadic-mixed", "dyadic-mixed", "all-negative", "positive", "integers", "negative-integers", "continuous", "large"];

fn put_all(out: &mut Out, backend: &str, lay: &str, dense: bool, obs: &[Obs], shape: Value, fam: &str) {
    for o in obs {
        out.corr(&format!("{}:{}", backend, o.op), o.term(dense), json!({"backend": backend, "layout": lay, "op": o.op, "shape": shape, "family": fam}));
    }
}

fn correspondence(out: &mut Out, rng: &mut Rng, thorough: bool) {
    let maxd = 8;
    // one-matrix operations: every shape 1..8 x 1..8 in the thorough tier, a stratified sample otherwise;
    // each on all three backends, in standard and in transposed layout
    let mut shapes: Vec<(usize, usize)> = vec![];
    for n in 1..=maxd { for p in 1..=maxd { shapes.push((n, p)); } }
    rng.shuffle(&mut shapes);
    let must = [(1usize, 1usize), (1, 5), (5, 1), (2, 3), (3, 2), (8, 8)];
    let mut chosen: Vec<(usize, usize)> = must.to_vec();
    let extra = if thorough { 64 } else { 14 };
    chosen.extend(shapes.into_iter().filter(|s| !must.contains(s)).take(extra));
    for (i, (n, p)) in chosen.iter().enumerate() {
        let fam = CORR_FAMILIES[(i + rng.below(8)) % 8];
        let a = gen_rows(rng, *n, *p, fam);
        let sub = rng.next_u64();
        let lays: Vec<Lay> = if thorough || i % 2 == 0 { vec![Lay::Std, Lay::Tr] } else { vec![Lay::Tr] };
        for lay in lays {
            let ls = format!("{:?}", lay);
            put_all(out, "dense", &ls, true, &unary_obs::<DenseMatrix<f64>>(&a, lay, sub), json!([n, p]), fam);
            put_all(out, "ndarray", &ls, false, &unary_obs::<Array2<f64>>(&a, lay, sub), json!([n, p]), fam);
            put_all(out, "nalgebra", &ls, false, &unary_obs::<DMatrix<f64>>(&a, lay, sub), json!([n, p]), fam);
        }
        if thorough || i % 2 == 1 {
            // owned, non-contiguous ndarray operand (every second row / column of a larger allocation)
            put_all(out, "ndarray", "Strided", false, &unary_obs::<Array2<f64>>(&a, Lay::Strided, sub), json!([n, p]), fam);
        }
    }
    for i in 0..(if thorough { 400 } else { 60 }) {
        let c = gen_binary(rng, if i % 3 == 0 { maxd } else { 5 });
        let (l1, l2) = lays3()[i % 3];
        let ls = format!("{:?}{:?}", l1, l2);
        let sh = json!([shape_of(&c.a).0, shape_of(&c.a).1, shape_of(&c.b).0, shape_of(&c.b).1]);
        put_all(out, "dense", &ls, true, &binary_obs::<DenseMatrix<f64>>(&c.a, &c.b, l1, l2, c.sub), sh.clone(), &c.family);
        put_all(out, "ndarray", &ls, false, &binary_obs::<Array2<f64>>(&c.a, &c.b, l1, l2, c.sub), sh.clone(), &c.family);
        put_all(out, "nalgebra", &ls, false, &binary_obs::<DMatrix<f64>>(&c.a, &c.b, l1, l2, c.sub), sh, &c.family);
    }
    for _ in 0..(if thorough { 150 } else { 24 }) {
        let fam = *rng.pick(&CORR_FAMILIES);
        let n1 = rng.usize_in(1, maxd);
        let n2 = if rng.chance(0.7) { n1 } else { rng.usize_in(1, maxd) };
        let a = gen_rows(rng, 1, n1, fam).remove(0);
        let mut b = gen_rows(rng, 1, n2, fam).remove(0);
        if n1 == n2 && rng.chance(0.3) { b = a.clone(); }
        let sub = rng.next_u64();
        put_all(out, "dense", "-", true, &vector_obs::<DenseMatrix<f64>>(&a, &b, sub, false), json!([n1, n2]), fam);
        put_all(out, "ndarray", "-", false, &vector_obs::<Array2<f64>>(&a, &b, sub, false), json!([n1, n2]), fam);
        put_all(out, "nalgebra", "-", false, &vector_obs::<DMatrix<f64>>(&a, &b, sub, false), json!([n1, n2]), fam);
        put_all(out, "ndarray", "Strided", false, &vector_obs::<Array2<f64>>(&a, &b, sub, true), json!([n1, n2]), fam);
    }
}

fn main() {
    quiet_panics();
    let a = args();
    if let Some(p) = &a.replay {
        std::process::exit(replay(p));
    }
    let mut rng = Rng::new(a.seed);
    let out = Out::new(
        "C20",
        "search case = (entry, data[, second operand | targets and query rows], parameter seed); method entries: every BaseMatrix / BaseVector / stats / high-order method is evaluated on DenseMatrix, ndarray and nalgebra operands in standard and transposed layout and the results are compared with each other and with definitions on the logical view; algorithm entries: one decomposition / estimator on identical data on the three backends; non-trivial: non-square shape, data with negative entries, or an algorithm case; distinct by hash of all inputs",
    );
    let mut k = Ctx { out, listed: listed_findings() };
    let mut r1 = rng.fork();
    search(&mut k, &mut r1, a.thorough);
    let mut r3 = rng.fork();
    algos::search(&mut r3, a.thorough, &mut |c: &Case| record(&mut k, c));
    let mut r2 = rng.fork();
    correspondence(&mut k.out, &mut r2, a.thorough);
    k.out.set("largest_relative_difference_between_backends_by_algorithm", json!(*algos::MAXREL.lock().unwrap()));
    k.out.finish(&a.out);
}

// ------------------------------------------------------------------------------------------
// decompositions and estimators on identical data across the three backends
// ------------------------------------------------------------------------------------------
mod algos {
    use super::*;
    use smartcore::algorithm::neighbour::KNNAlgorithmName;
    use smartcore::decomposition::pca::{PCAParameters, PCA};
    use smartcore::decomposition::svd::{SVDParameters, SVD};
    use smartcore::ensemble::random_forest_classifier::{RandomForestClassifier, RandomForestClassifierParameters};
    use smartcore::ensemble::random_forest_regressor::{RandomForestRegressor, RandomForestRegressorParameters};
    use smartcore::error::Failed;
    use smartcore::linalg::cholesky::CholeskyDecomposableMatrix;
    use smartcore::linalg::evd::EVDDecomposableMatrix;
    use smartcore::linalg::lu::LUDecomposableMatrix;
    use smartcore::linalg::qr::QRDecomposableMatrix;
    use smartcore::linalg::svd::SVDDecomposableMatrix;
    use smartcore::linear::elastic_net::{ElasticNet, ElasticNetParameters};
    use smartcore::linear::lasso::{Lasso, LassoParameters};
    use smartcore::linear::linear_regression::{LinearRegression, LinearRegressionParameters, LinearRegressionSolverName};
    use smartcore::linear::logistic_regression::{LogisticRegression, LogisticRegressionParameters};
    use smartcore::linear::ridge_regression::{RidgeRegression, RidgeRegressionParameters, RidgeRegressionSolverName};
    use smartcore::naive_bayes::bernoulli::{BernoulliNB, BernoulliNBParameters};
    use smartcore::naive_bayes::categorical::{CategoricalNB, CategoricalNBParameters};
    use smartcore::naive_bayes::gaussian::{GaussianNB, GaussianNBParameters};
    use smartcore::naive_bayes::multinomial::{MultinomialNB, MultinomialNBParameters};
    use smartcore::neighbors::knn_classifier::{KNNClassifier, KNNClassifierParameters};
    use smartcore::neighbors::knn_regressor::{KNNRegressor, KNNRegressorParameters};
    use smartcore::neighbors::KNNWeightFunction;
    use smartcore::preprocessing::categorical::{OneHotEncoder, OneHotEncoderParams};
    use smartcore::svm::svr::{SVRParameters, SVR};
    use smartcore::svm::Kernels;
    use smartcore::tree::decision_tree_classifier::{DecisionTreeClassifier, DecisionTreeClassifierParameters, SplitCriterion};
    use smartcore::tree::decision_tree_regressor::{DecisionTreeRegressor, DecisionTreeRegressorParameters};

    pub type Items = Vec<(String, Val)>;

    fn rm<M: BaseMatrix<f64>>(r: Result<M, Failed>) -> Val {
        match r {
            Ok(m) => vm(&m),
            Err(_) => Val::Failed,
        }
    }
    fn rv<V: BaseVector<f64>>(r: Result<V, Failed>) -> Val {
        match r {
            Ok(v) => vr(&v),
            Err(_) => Val::Failed,
        }
    }
    fn put<F: FnOnce() -> Val>(o: &mut Items, name: &str, f: F) {
        o.push((name.to_string(), g(f)));
    }
    fn lay_of(sub: u64) -> Lay {
        if sub & 1 == 1 { Lay::Tr } else { Lay::Std }
    }

    pub const DECOMPS: [&str; 6] = ["svd", "evd-symmetric", "evd-general", "qr", "lu", "cholesky"];

    fn decomposition<B: Bk>(c: &Case) -> Items {
        let mut o: Items = vec![];
        let a: B = build::<B>(&c.a, lay_of(c.sub));
        let b: B = build::<B>(&c.b, lay_of(c.sub >> 1));
        match c.algo.as_str() {
            "svd" => {
                match guard(|| a.svd()) {
                    Ok(Ok(d)) => {
                        put(&mut o, "U", || vm(&d.U));
                        put(&mut o, "V", || vm(&d.V));
                        put(&mut o, "s", || vl(&d.s));
                        put(&mut o, "S()", || vm(&d.S()));
                    }
                    Ok(Err(_)) => o.push(("svd".into(), Val::Failed)),
                    Err(_) => o.push(("svd".into(), Val::Panic)),
                }
                put(&mut o, "svd_solve", || rm(a.svd_solve(b.clone())));
            }
            "evd-symmetric" | "evd-general" => {
                let sym = c.algo == "evd-symmetric";
                match guard(|| a.evd(sym)) {
                    Ok(Ok(d)) => {
                        put(&mut o, "d", || vl(&d.d));
                        put(&mut o, "e", || vl(&d.e));
                        put(&mut o, "V", || vm(&d.V));
                    }
                    Ok(Err(_)) => o.push(("evd".into(), Val::Failed)),
                    Err(_) => o.push(("evd".into(), Val::Panic)),
                }
            }
            "qr" => {
                match guard(|| a.qr()) {
                    Ok(Ok(d)) => {
                        put(&mut o, "Q", || vm(&d.Q()));
                        put(&mut o, "R", || vm(&d.R()));
                    }
                    Ok(Err(_)) => o.push(("qr".into(), Val::Failed)),
                    Err(_) => o.push(("qr".into(), Val::Panic)),
                }
                put(&mut o, "qr_solve_mut", || rm(a.clone().qr_solve_mut(b.clone())));
            }
            "lu" => {
                match guard(|| a.lu()) {
                    Ok(Ok(d)) => {
                        put(&mut o, "L", || vm(&d.L()));
                        put(&mut o, "U", || vm(&d.U()));
                        put(&mut o, "pivot", || vm(&d.pivot()));
                        put(&mut o, "inverse", || rm(d.inverse()));
                    }
                    Ok(Err(_)) => o.push(("lu".into(), Val::Failed)),
                    Err(_) => o.push(("lu".into(), Val::Panic)),
                }
                put(&mut o, "lu_solve_mut", || rm(a.clone().lu_solve_mut(b.clone())));
            }
            _ => {
                match guard(|| a.cholesky()) {
                    Ok(Ok(d)) => {
                        put(&mut o, "L", || vm(&d.L()));
                        put(&mut o, "U", || vm(&d.U()));
                    }
                    Ok(Err(_)) => o.push(("cholesky".into(), Val::Failed)),
                    Err(_) => o.push(("cholesky".into(), Val::Panic)),
                }
                put(&mut o, "cholesky_solve_mut", || rm(a.clone().cholesky_solve_mut(b.clone())));
            }
        }
        o
    }

    pub const REGRESSORS: [&str; 11] = ["linear-qr", "linear-svd", "ridge-cholesky", "ridge-svd", "lasso", "elastic-net", "knn-regressor", "tree-regressor", "forest-regressor", "svr-linear", "svr-rbf"];
    pub const CLASSIFIERS: [&str; 5] = ["logistic", "gaussian-nb", "knn-classifier", "tree-classifier", "forest-classifier"];
    pub const OTHERS: [&str; 8] = ["bernoulli-nb", "multinomial-nb", "categorical-nb", "pca", "pca-correlation", "truncated-svd", "one-hot", "metrics"];

    fn estimator<B: Bk>(c: &Case) -> Items {
        let mut o: Items = vec![];
        let mut q = Rng::new(c.sub);
        let lay = lay_of(c.sub);
        let y = vmk::<B>(&c.y);
        if c.algo == "metrics" {
            // y: true labels in {0,1}; q[0]: predicted labels; q[1]: scores; q[2], q[3]: real-valued truth / prediction
            let yp = vmk::<B>(&c.q[0]);
            let sc = vmk::<B>(&c.q[1]);
            let (rt, rp) = (vmk::<B>(&c.q[2]), vmk::<B>(&c.q[3]));
            use smartcore::metrics::*;
            put(&mut o, "accuracy", || Val::F(accuracy(&y, &yp)));
            put(&mut o, "recall", || Val::F(recall(&y, &yp)));
            put(&mut o, "precision", || Val::F(precision(&y, &yp)));
            put(&mut o, "f1", || Val::F(f1(&y, &yp, 1.0)));
            put(&mut o, "roc_auc_score", || Val::F(roc_auc_score(&y, &sc)));
            put(&mut o, "mean_squared_error", || Val::F(mean_squared_error(&rt, &rp)));
            put(&mut o, "mean_absolute_error", || Val::F(mean_absolute_error(&rt, &rp)));
            put(&mut o, "r2", || Val::F(r2(&rt, &rp)));
            put(&mut o, "homogeneity_score", || Val::F(homogeneity_score(&y, &yp)));
            put(&mut o, "completeness_score", || Val::F(completeness_score(&y, &yp)));
            put(&mut o, "v_measure_score", || Val::F(v_measure_score(&y, &yp)));
            return o;
        }
        let x: B = build::<B>(&c.a, lay);
        let t: B = if c.q.is_empty() { x.clone() } else { build::<B>(&c.q, lay) };
        macro_rules! fitted {
            ($fit:expr, |$m:ident| $body:block) => {
                match guard(|| $fit) {
                    Ok(Ok($m)) => $body,
                    Ok(Err(_)) => o.push(("fit".into(), Val::Failed)),
                    Err(_) => o.push(("fit".into(), Val::Panic)),
                }
            };
        }
        match c.algo.as_str() {
            "linear-qr" | "linear-svd" => {
                let solver = if c.algo == "linear-qr" { LinearRegressionSolverName::QR } else { LinearRegressionSolverName::SVD };
                fitted!(LinearRegression::fit(&x, &y, LinearRegressionParameters::default().with_solver(solver)), |m| {
                    put(&mut o, "coefficients", || vm(m.coefficients()));
                    put(&mut o, "intercept", || Val::F(m.intercept()));
                    put(&mut o, "predict", || rv(m.predict(&t)));
                });
            }
            "ridge-cholesky" | "ridge-svd" => {
                let solver = if c.algo == "ridge-cholesky" { RidgeRegressionSolverName::Cholesky } else { RidgeRegressionSolverName::SVD };
                let alpha = *q.pick(&[0.01, 0.5, 1.0, 10.0]);
                let norm = q.bool();
                fitted!(RidgeRegression::fit(&x, &y, RidgeRegressionParameters::default().with_alpha(alpha).with_normalize(norm).with_solver(solver)), |m| {
                    put(&mut o, "coefficients", || vm(m.coefficients()));
                    put(&mut o, "intercept", || Val::F(m.intercept()));
                    put(&mut o, "predict", || rv(m.predict(&t)));
                });
            }
            "lasso" => {
                let alpha = *q.pick(&[0.001, 0.05, 0.5]);
                let norm = q.bool();
                fitted!(Lasso::fit(&x, &y, LassoParameters::default().with_alpha(alpha).with_normalize(norm).with_tol(1e-9)), |m| {
                    put(&mut o, "coefficients", || vm(m.coefficients()));
                    put(&mut o, "intercept", || Val::F(m.intercept()));
                    put(&mut o, "predict", || rv(m.predict(&t)));
                });
            }
            "elastic-net" => {
                let alpha = *q.pick(&[0.001, 0.05, 0.5]);
                let l1 = *q.pick(&[0.2, 0.5, 0.9]);
                let norm = q.bool();
                fitted!(ElasticNet::fit(&x, &y, ElasticNetParameters::default().with_alpha(alpha).with_l1_ratio(l1).with_normalize(norm).with_tol(1e-9)), |m| {
                    put(&mut o, "coefficients", || vm(m.coefficients()));
                    put(&mut o, "intercept", || Val::F(m.intercept()));
                    put(&mut o, "predict", || rv(m.predict(&t)));
                });
            }
            "logistic" => {
                let alpha = *q.pick(&[0.0, 0.1, 1.0]);
                fitted!(LogisticRegression::fit(&x, &y, LogisticRegressionParameters::default().with_alpha(alpha)), |m| {
                    put(&mut o, "coefficients", || vm(m.coefficients()));
                    put(&mut o, "intercept", || vm(m.intercept()));
                    put(&mut o, "predict", || rv(m.predict(&t)));
                });
            }
            "gaussian-nb" => {
                fitted!(GaussianNB::fit(&x, &y, GaussianNBParameters::default()), |m| {
                    put(&mut o, "predict", || rv(m.predict(&t)));
                });
            }
            "bernoulli-nb" => {
                let alpha = *q.pick(&[1.0, 0.5]);
                fitted!(BernoulliNB::fit(&x, &y, BernoulliNBParameters::default().with_alpha(alpha).with_binarize(0.5)), |m| {
                    put(&mut o, "predict", || rv(m.predict(&t)));
                });
            }
            "multinomial-nb" => {
                let alpha = *q.pick(&[1.0, 0.5]);
                fitted!(MultinomialNB::fit(&x, &y, MultinomialNBParameters::default().with_alpha(alpha)), |m| {
                    put(&mut o, "predict", || rv(m.predict(&t)));
                });
            }
            "categorical-nb" => {
                let alpha = *q.pick(&[1.0, 0.5]);
                fitted!(CategoricalNB::fit(&x, &y, CategoricalNBParameters::default().with_alpha(alpha)), |m| {
                    put(&mut o, "predict", || rv(m.predict(&t)));
                });
            }
            "knn-classifier" | "knn-regressor" => {
                let n = c.a.len();
                let k = q.usize_in(1, n.min(5));
                let alg = if q.bool() { KNNAlgorithmName::CoverTree } else { KNNAlgorithmName::LinearSearch };
                let wf = if q.bool() { KNNWeightFunction::Distance } else { KNNWeightFunction::Uniform };
                if c.algo == "knn-classifier" {
                    fitted!(KNNClassifier::fit(&x, &y, KNNClassifierParameters::default().with_k(k).with_algorithm(alg).with_weight(wf)), |m| {
                        put(&mut o, "predict", || rv(m.predict(&t)));
                    });
                } else {
                    fitted!(KNNRegressor::fit(&x, &y, KNNRegressorParameters::default().with_k(k).with_algorithm(alg).with_weight(wf)), |m| {
                        put(&mut o, "predict", || rv(m.predict(&t)));
                    });
                }
            }
            "tree-classifier" => {
                let crit = *q.pick(&[0usize, 1, 2]);
                let mut pr = DecisionTreeClassifierParameters::default()
                    .with_criterion(match crit { 0 => SplitCriterion::Gini, 1 => SplitCriterion::Entropy, _ => SplitCriterion::ClassificationError })
                    .with_min_samples_leaf(q.usize_in(1, 3))
                    .with_min_samples_split(q.usize_in(2, 4));
                if q.bool() { pr = pr.with_max_depth(q.usize_in(1, 4) as u16); }
                fitted!(DecisionTreeClassifier::fit(&x, &y, pr), |m| {
                    put(&mut o, "predict", || rv(m.predict(&t)));
                });
            }
            "tree-regressor" => {
                let mut pr = DecisionTreeRegressorParameters::default().with_min_samples_leaf(q.usize_in(1, 3)).with_min_samples_split(q.usize_in(2, 4));
                if q.bool() { pr = pr.with_max_depth(q.usize_in(1, 4) as u16); }
                fitted!(DecisionTreeRegressor::fit(&x, &y, pr), |m| {
                    put(&mut o, "predict", || rv(m.predict(&t)));
                });
            }
            "forest-classifier" => {
                let pr = RandomForestClassifierParameters::default().with_n_trees(q.usize_in(2, 6) as u16).with_max_depth(q.usize_in(2, 5) as u16).with_seed(q.next_u64() % 1000);
                fitted!(RandomForestClassifier::fit(&x, &y, pr), |m| {
                    put(&mut o, "predict", || rv(m.predict(&t)));
                });
            }
            "forest-regressor" => {
                let pr = RandomForestRegressorParameters::default().with_n_trees(q.usize_in(2, 6)).with_max_depth(q.usize_in(2, 5) as u16).with_seed(q.next_u64() % 1000);
                fitted!(RandomForestRegressor::fit(&x, &y, pr), |m| {
                    put(&mut o, "predict", || rv(m.predict(&t)));
                });
            }
            "svr-linear" => {
                let (cc, eps) = (*q.pick(&[1.0, 10.0]), *q.pick(&[0.05, 0.2]));
                fitted!(SVR::fit(&x, &y, SVRParameters::default().with_c(cc).with_eps(eps)), |m| {
                    put(&mut o, "predict", || rv(m.predict(&t)));
                });
            }
            "svr-rbf" => {
                let (cc, eps, gamma) = (*q.pick(&[1.0, 10.0]), *q.pick(&[0.05, 0.2]), *q.pick(&[0.1, 0.5]));
                fitted!(SVR::fit(&x, &y, SVRParameters::default().with_c(cc).with_eps(eps).with_kernel(Kernels::rbf(gamma))), |m| {
                    put(&mut o, "predict", || rv(m.predict(&t)));
                });
            }
            "pca" | "pca-correlation" => {
                let p = shape_of(&c.a).1;
                let k = q.usize_in(1, p);
                fitted!(PCA::fit(&x, PCAParameters::default().with_n_components(k).with_use_correlation_matrix(c.algo == "pca-correlation")), |m| {
                    put(&mut o, "components", || vm(m.components()));
                    put(&mut o, "transform", || rm(m.transform(&t)));
                });
            }
            "truncated-svd" => {
                let p = shape_of(&c.a).1;
                let k = q.usize_in(1, (p - 1).max(1));
                fitted!(SVD::fit(&x, SVDParameters::default().with_n_components(k)), |m| {
                    put(&mut o, "components", || vm(m.components()));
                    put(&mut o, "transform", || rm(m.transform(&t)));
                });
            }
            "one-hot" => {
                // the categorical columns are those whose training values are all small non-negative integers
                let p = shape_of(&c.a).1;
                let cats: Vec<usize> = (0..p).filter(|j| c.a.iter().all(|r| r[*j] >= 0.0 && r[*j] == r[*j].floor() && r[*j] < 8.0)).collect();
                fitted!(OneHotEncoder::fit(&x, OneHotEncoderParams::from_cat_idx(&cats)), |m| {
                    put(&mut o, "transform(train)", || rm(m.transform(&x)));
                    put(&mut o, "transform(other)", || rm(m.transform(&t)));
                });
            }
            other => o.push((format!("unknown algorithm {}", other), Val::Panic)),
        }
        o
    }

    fn on_backend<B: Bk>(c: &Case) -> Items {
        let cc = c.clone();
        let r = with_watchdog(WATCHDOG_SECS, move || if cc.entry == "decomposition" { decomposition::<B>(&cc) } else { estimator::<B>(&cc) });
        match r {
            Some(Ok(items)) => items,
            Some(Err(_)) => vec![("whole run".into(), Val::Panic)],
            None => vec![("whole run".into(), Val::Timeout)],
        }
    }
    const WATCHDOG_SECS: u64 = 20;
    /// largest observed |dense - other| / max(1, magnitude) per algorithm (printed into the evidence)
    pub static MAXREL: std::sync::Mutex<std::collections::BTreeMap<String, f64>> = std::sync::Mutex::new(std::collections::BTreeMap::new());

    fn scale_of(v: &Val) -> f64 {
        match v {
            Val::F(x) => x.abs(),
            Val::L(x) | Val::M(_, _, x) => maxabs(x),
            _ => 0.0,
        }
    }
    fn max_diff(a: &Val, b: &Val) -> f64 {
        let d = |x: &[f64], y: &[f64]| x.iter().zip(y.iter()).map(|(p, q)| if same(*p, *q) { 0.0 } else { (p - q).abs() }).fold(0.0, f64::max);
        match (a, b) {
            (Val::F(x), Val::F(y)) => d(&[*x], &[*y]),
            (Val::L(x), Val::L(y)) | (Val::M(_, _, x), Val::M(_, _, y)) if x.len() == y.len() => d(x, y),
            _ => 0.0,
        }
    }

    /// flip the sign of column j of `components` and `transform` of `other` where that brings the component
    /// closer to the reference's; returns the number of flipped columns
    fn align_signs(reference: &Items, other: &mut Items) -> usize {
        let comp = |it: &Items| it.iter().find(|(n, _)| n == "components").map(|(_, x)| x.clone());
        let (r, o) = match (comp(reference), comp(other)) {
            (Some(Val::M(n, k, r)), Some(Val::M(n2, k2, o))) if n == n2 && k == k2 => ((n, k, r), o),
            _ => return 0,
        };
        let (n, k, rv) = r;
        let mut flip = vec![false; k];
        for j in 0..k {
            let (mut dp, mut dm) = (0.0f64, 0.0f64);
            for i in 0..n {
                dp = dp.max((rv[i * k + j] - o[i * k + j]).abs());
                dm = dm.max((rv[i * k + j] + o[i * k + j]).abs());
            }
            flip[j] = dm < dp;
        }
        for (name, x) in other.iter_mut() {
            if name == "components" || name == "transform" {
                if let Val::M(_, kk, vals) = x {
                    if *kk == k {
                        for (idx, t) in vals.iter_mut().enumerate() {
                            if flip[idx % k] { *t = -*t; }
                        }
                    }
                }
            }
        }
        flip.iter().filter(|b| **b).count()
    }

    /// relative tolerance (times max(1, largest magnitude in the item)) by algorithm: the generic code is
    /// the same on all backends, only the primitives' rounding differs (sum / dot / matmul orders), and the
    /// iterative solvers stop by thresholds, so they may differ by a small multiple of their own tolerance
    /// (the interior-point solver of Lasso / elastic net is run with tol = 1e-9 so that both runs converge
    /// to the optimum rather than stop somewhere within the default 1e-4 duality gap)
    fn rel_tol(algo: &str) -> f64 {
        match algo {
            "lasso" | "elastic-net" => 1e-8,
            "logistic" => 1e-4,
            "svr-linear" | "svr-rbf" => 1e-6,
            _ => 1e-9,
        }
    }

    pub fn run_algo(c: &Case) -> Verdict {
        let mut v = Verdict::default();
        let res: Vec<(&str, Items)> = vec![
            ("dense", on_backend::<DenseMatrix<f64>>(c)),
            ("ndarray", on_backend::<Array2<f64>>(c)),
            ("nalgebra", on_backend::<DMatrix<f64>>(c)),
        ];
        let timed_out: Vec<&str> = res.iter().filter(|(_, it)| it.iter().any(|(_, x)| *x == Val::Timeout)).map(|(n, _)| *n).collect();
        if timed_out.len() == 3 {
            // does not return on any backend: not a backend difference (termination itself belongs to the
            // estimator's own property); counted
            v.notes.push(format!("excluded:no-backend-returned-within-{}s:{}", WATCHDOG_SECS, c.algo));
            return v;
        }
        if !timed_out.is_empty() {
            v.fail("terminates_on_all_backends", format!("{} did not return within {} s on {:?} but did on the other backend(s)", c.algo, WATCHDOG_SECS, timed_out));
            return v;
        }
        let mut res = res;
        // principal directions are determined up to sign: a rounding-level difference between backends may
        // flip a column of `components` (and with it the same column of `transform`); align the signs with
        // the dense result before comparing, and count the flips
        if matches!(c.algo.as_str(), "pca" | "pca-correlation" | "truncated-svd") {
            let d0 = res[0].1.clone();
            for bi in 1..3 {
                let flips = align_signs(&d0, &mut res[bi].1);
                if flips > 0 {
                    v.notes.push(format!("observe:component-sign-aligned:{}", c.algo));
                }
            }
        }
        // unpenalised logistic regression on (nearly) separable data has no finite optimum: the coefficients
        // the optimiser stops at are not determined up to rounding; only the predictions are compared then
        if c.algo == "logistic" {
            let big = res.iter().any(|(_, it)| it.iter().any(|(n, x)| n == "coefficients" && scale_of(x) > 30.0));
            if big {
                v.notes.push("excluded:logistic-diverging-coefficients(predictions-only)".to_string());
                for (_, it) in res.iter_mut() {
                    it.retain(|(n, _)| n == "predict" || n == "fit");
                }
            }
        }
        // logistic regression: L-BFGS on the (for k >= 3 rank-deficient, often ill-conditioned) softmax
        // objective may leave through its iteration cap or stall (DESIGN section 2, D13: final gradients up to
        // 8e-3 of the initial one); the point it stops at is then determined by the rounding of every step,
        // not "up to rounding".  Runs whose coefficients agree to 1e-6 are compared sharply (1e-4) incl.
        // predictions; the others only loosely (2e-2) and without predictions (a query point near the
        // decision boundary may flip) — counted.
        let mut tol_rel = rel_tol(&c.algo);
        if c.algo == "logistic" {
            let mut worst = 0.0f64;
            for bi in 1..3 {
                for ((n0, x), (n1, y)) in res[0].1.iter().zip(res[bi].1.iter()) {
                    if n0 == n1 && (n0 == "coefficients" || n0 == "intercept") {
                        worst = worst.max(max_diff(x, y) / scale_of(x).max(scale_of(y)).max(1.0));
                    }
                }
            }
            if worst > 1e-6 {
                v.notes.push("excluded:logistic-stalled-optimiser(loose-2e-2,predictions-skipped)".to_string());
                tol_rel = 2e-2;
                for (_, it) in res.iter_mut() {
                    it.retain(|(n, _)| n != "predict");
                }
            }
        }
        let (_, d) = &res[0];
        let mut bit_identical = true;
        for (name, it) in res.iter().skip(1) {
            if it.len() != d.len() || it.iter().zip(d.iter()).any(|((a, _), (b, _))| a != b) {
                v.fail("backends_agree", format!("{}: dense produced items {:?}, {} produced {:?}", c.algo, d.iter().map(|(n, x)| format!("{}={}", n, val_short(x))).collect::<Vec<_>>(), name, it.iter().map(|(n, x)| format!("{}={}", n, val_short(x))).collect::<Vec<_>>()));
                continue;
            }
            for ((item, x), (_, y)) in d.iter().zip(it.iter()) {
                let tol = tol_rel * scale_of(x).max(scale_of(y)).max(1.0);
                if !val_close(x, y, 0.0) {
                    bit_identical = false;
                }
                {
                    let rel = max_diff(x, y) / scale_of(x).max(scale_of(y)).max(1.0);
                    let mut mr = MAXREL.lock().unwrap();
                    let e = mr.entry(c.algo.clone()).or_insert(0.0);
                    if rel > *e { *e = rel; }
                }
                if !val_close(x, y, tol) {
                    v.fail("backends_agree", format!("{} / {}: dense {} | {} {} (largest difference {:e}, tolerance {:e})", c.algo, item, val_short(x), name, val_short(y), max_diff(x, y), tol));
                }
            }
        }
        v.notes.push(format!("observe:{}:{}", if bit_identical { "bit-identical-on-all-backends" } else { "within-tolerance" }, c.algo));
        if d.iter().any(|(_, x)| matches!(x, Val::Failed | Val::Panic)) {
            v.notes.push(format!("observe:rejected-alike-by-all-backends:{}", c.algo));
        }
        v
    }

    // ---------------------------------------------------------------- generators
    fn spd(rng: &mut Rng, p: usize) -> Rows {
        let n = p + rng.usize_in(0, 3);
        let g = gen_rows(rng, n, p, "continuous");
        (0..p).map(|i| (0..p).map(|j| (0..n).map(|k| g[k][i] * g[k][j]).sum::<f64>() + if i == j { 1.0 } else { 0.0 }).collect()).collect()
    }
    fn gen_decomp(rng: &mut Rng, algo: &str) -> Case {
        let fam = *rng.pick(&["continuous", "dyadic-mixed", "all-negative", "positive", "integers"]);
        let (a, rows_b): (Rows, usize) = match algo {
            "svd" => { let (n, p) = (rng.usize_in(1, 8), rng.usize_in(1, 8)); (gen_rows(rng, n, p, fam), n) }
            "qr" => { let p = rng.usize_in(1, 8); let n = rng.usize_in(p, 8); (gen_rows(rng, n, p, fam), n) }
            "evd-symmetric" => { let n = rng.usize_in(1, 8); let g = gen_rows(rng, n, n, fam); ((0..n).map(|i| (0..n).map(|j| (g[i][j] + g[j][i]) / 2.0).collect()).collect(), n) }
            "evd-general" | "lu" => { let n = rng.usize_in(1, 8); (gen_rows(rng, n, n, fam), n) }
            _ => { let p = rng.usize_in(1, 8); (spd(rng, p), p) }
        };
        let kb = rng.usize_in(1, 3);
        let b = gen_rows(rng, rows_b, kb, "continuous");
        Case { entry: "decomposition".into(), family: fam.into(), algo: algo.into(), a, b, sub: rng.next_u64(), ..Default::default() }
    }
    fn gen_estimator(rng: &mut Rng, algo: &str) -> Case {
        let mut c = Case { entry: "estimator".into(), algo: algo.into(), sub: rng.next_u64(), ..Default::default() };
        let p = rng.usize_in(1, 4);
        let n = rng.usize_in(p + 6, 30);
        let nq = rng.usize_in(1, 8);
        let scales: Vec<f64> = (0..p).map(|_| *rng.pick(&[1.0, 1.0, 0.1, 10.0])).collect();
        let offs: Vec<f64> = (0..p).map(|_| *rng.pick(&[0.0, 0.0, 5.0, -20.0])).collect();
        let cont = |rng: &mut Rng, n: usize| -> Rows { (0..n).map(|_| (0..p).map(|j| offs[j] + scales[j] * rng.normal()).collect()).collect() };
        if REGRESSORS.contains(&algo) {
            c.family = "regression".into();
            c.a = cont(rng, n);
            c.q = cont(rng, nq);
            let w: Vec<f64> = (0..p).map(|_| rng.uniform(-2.0, 2.0)).collect();
            let b0 = rng.uniform(-3.0, 3.0);
            c.y = c.a.iter().map(|r| b0 + r.iter().zip(w.iter()).zip(scales.iter()).map(|((x, w), s)| x * w / s).sum::<f64>() + 0.3 * rng.normal()).collect();
        } else if CLASSIFIERS.contains(&algo) {
            c.family = "classification".into();
            let k = rng.usize_in(2, 3);
            let spread = if algo == "logistic" { 1.0 } else { 2.5 };
            let centers: Rows = (0..k).map(|_| (0..p).map(|j| offs[j] + scales[j] * rng.uniform(-spread, spread)).collect()).collect();
            let mut lab: Vec<usize> = (0..n).map(|i| if i < k { i } else { rng.below(k) }).collect();
            rng.shuffle(&mut lab);
            c.a = lab.iter().map(|l| (0..p).map(|j| centers[*l][j] + scales[j] * rng.normal()).collect()).collect();
            c.y = lab.iter().map(|l| *l as f64).collect();
            c.q = (0..nq).map(|_| { let l = rng.below(k); (0..p).map(|j| centers[l][j] + scales[j] * rng.normal()).collect() }).collect();
        } else {
            match algo {
                "bernoulli-nb" | "multinomial-nb" | "categorical-nb" => {
                    c.family = "discrete-features".into();
                    let hi = if algo == "bernoulli-nb" { 1 } else if algo == "multinomial-nb" { 5 } else { 3 };
                    let k = 2;
                    let mut lab: Vec<usize> = (0..n).map(|i| if i < k { i } else { rng.below(k) }).collect();
                    rng.shuffle(&mut lab);
                    let mut a: Rows = lab.iter().map(|l| (0..p).map(|_| ((rng.int(0, hi) + if rng.chance(0.5) { *l as i64 } else { 0 }).min(hi)) as f64).collect()).collect();
                    // categorical NB wants every category 0..max present in the training data of a column
                    if algo == "categorical-nb" { for j in 0..p { for v in 0..=hi as usize { if v < n { a[v][j] = v as f64; } } } }
                    c.a = a;
                    c.y = lab.iter().map(|l| *l as f64).collect();
                    c.q = (0..nq).map(|_| (0..p).map(|_| rng.int(0, hi) as f64).collect()).collect();
                }
                "pca" | "pca-correlation" | "truncated-svd" => {
                    c.family = "unsupervised".into();
                    let p2 = rng.usize_in(2, 6);
                    let n2 = rng.usize_in(p2 + 1, 30);
                    let sc: Vec<f64> = (0..p2).map(|_| *rng.pick(&[1.0, 3.0, 0.2])).collect();
                    c.a = (0..n2).map(|_| (0..p2).map(|j| sc[j] * rng.normal() + j as f64).collect()).collect();
                    c.q = (0..nq).map(|_| (0..p2).map(|j| sc[j] * rng.normal() + j as f64).collect()).collect();
                }
                "one-hot" => {
                    c.family = "categorical-columns".into();
                    let p2 = rng.usize_in(1, 5);
                    let cat: Vec<bool> = (0..p2).map(|_| rng.chance(0.6)).collect();
                    let hi: Vec<i64> = (0..p2).map(|_| rng.int(1, 3)).collect();
                    let n2 = rng.usize_in(5, 14);
                    let mut a: Rows = (0..n2).map(|_| (0..p2).map(|j| if cat[j] { rng.int(0, hi[j]) as f64 } else { rng.normal() - 0.5 }).collect()).collect();
                    for j in 0..p2 { if cat[j] { for v in 0..=hi[j] as usize { a[v][j] = v as f64; } } }
                    c.q = (0..nq).map(|_| (0..p2).map(|j| if cat[j] { rng.int(0, hi[j]) as f64 } else { rng.normal() - 0.5 }).collect()).collect();
                    c.a = a;
                }
                _ => {
                    c.family = "metric-vectors".into();
                    let n2 = rng.usize_in(4, 25);
                    let mut yt: Vec<f64> = (0..n2).map(|i| if i < 2 { i as f64 } else { rng.below(2) as f64 }).collect();
                    rng.shuffle(&mut yt);
                    let yp: Vec<f64> = yt.iter().map(|v| if rng.chance(0.75) { *v } else { 1.0 - v }).collect();
                    let sc: Vec<f64> = yt.iter().map(|v| if rng.chance(0.3) { rng.int(0, 4) as f64 / 4.0 } else { (0.5 * v + rng.uniform(0.0, 0.6)).min(1.0) }).collect();
                    let rt: Vec<f64> = (0..n2).map(|_| 3.0 * rng.normal()).collect();
                    let rp: Vec<f64> = rt.iter().map(|v| v + rng.normal()).collect();
                    c.y = yt;
                    c.q = vec![yp, sc, rt, rp];
                }
            }
        }
        c
    }

    pub fn search(rng: &mut Rng, thorough: bool, record: &mut dyn FnMut(&Case)) {
        // corpus: the consequence of D12 measured in the design round — Lasso / elastic net on ndarray
        // differed from dense by 87 % / 40 % and never returned on nalgebra
        let x: Rows = vec![vec![-1.0, -2.0], vec![-2.0, -1.5], vec![-3.0, -4.5], vec![-4.0, -3.0], vec![-5.0, -6.5], vec![-6.0, -5.0], vec![-7.0, -9.0], vec![-8.0, -7.5]];
        let y: Vec<f64> = vec![-1.2, -2.9, -5.1, -5.8, -8.4, -9.1, -12.2, -12.6];
        for algo in ["lasso", "elastic-net", "logistic", "linear-qr"] {
            let yy = if algo == "logistic" { y.iter().map(|v| if *v < -6.0 { 0.0 } else { 1.0 }).collect() } else { y.clone() };
            record(&Case { entry: "estimator".into(), family: "corpus".into(), algo: algo.into(), a: x.clone(), y: yy, q: x[..3].to_vec(), sub: 12, ..Default::default() });
        }
        let reps = if thorough { 60 } else { 16 };
        for _ in 0..reps {
            for algo in DECOMPS.iter() {
                record(&gen_decomp(rng, algo));
            }
        }
        let reps = if thorough { 40 } else { 12 };
        for _ in 0..reps {
            for algo in REGRESSORS.iter().chain(CLASSIFIERS.iter()).chain(OTHERS.iter()) {
                record(&gen_estimator(rng, algo));
            }
        }
    }
}
