//! temporary probe (will be replaced by the real harness)
use nalgebra::DMatrix;
use ndarray::Array2;
use smartcore::linalg::naive::dense_matrix::DenseMatrix;
use smartcore::linalg::BaseMatrix;
use vharness::*;

fn nd(rows: &[Vec<f64>]) -> Array2<f64> {
    let n = rows.len();
    let p = rows[0].len();
    Array2::from_shape_vec((n, p), rows.iter().flatten().cloned().collect()).unwrap()
}
fn na(rows: &[Vec<f64>]) -> DMatrix<f64> {
    let n = rows.len();
    let p = rows[0].len();
    DMatrix::from_row_slice(n, p, &rows.iter().flatten().cloned().collect::<Vec<f64>>())
}

fn main() {
    quiet_panics();
    let row = vec![vec![1.0, 2.0, 3.0]];
    let col = vec![vec![4.0], vec![5.0], vec![6.0]];
    let sq = vec![vec![1.0, 2.0], vec![3.0, 4.0]];
    let sq3 = vec![vec![1.0, 2.0, 3.0], vec![4.0, 5.0, 6.0], vec![7.0, 8.0, 10.0]];
    println!("dot row.col  dense {:?} nd {:?} na {:?}", guard(|| dense(&row).dot(&dense(&col))), guard(|| nd(&row).dot(&nd(&col))), guard(|| BaseMatrix::dot(&na(&row), &na(&col))));
    println!("dot col.col  dense {:?} nd {:?} na {:?}", guard(|| dense(&col).dot(&dense(&col))), guard(|| BaseMatrix::dot(&nd(&col), &nd(&col))), guard(|| BaseMatrix::dot(&na(&col), &na(&col))));
    println!("dot sq.sq  dense {:?} nd {:?} na {:?}", guard(|| dense(&sq).dot(&dense(&sq))), guard(|| BaseMatrix::dot(&nd(&sq), &nd(&sq))), guard(|| BaseMatrix::dot(&na(&sq), &na(&sq))));
    println!("max_diff 2x2 vs 3x3  dense {:?} nd {:?} na {:?}", guard(|| dense(&sq).max_diff(&dense(&sq3))), guard(|| nd(&sq).max_diff(&nd(&sq3))), guard(|| na(&sq).max_diff(&na(&sq3))));
    println!("max_diff row vs col  dense {:?} nd {:?} na {:?}", guard(|| dense(&row).max_diff(&dense(&col))), guard(|| nd(&row).max_diff(&nd(&col))), guard(|| na(&row).max_diff(&na(&col))));
    println!("max_diff 3x3 vs 2x2  dense {:?} nd {:?} na {:?}", guard(|| dense(&sq3).max_diff(&dense(&sq))), guard(|| nd(&sq3).max_diff(&nd(&sq))), guard(|| na(&sq3).max_diff(&na(&sq))));
    let short = |m: &dyn Fn(&mut Vec<f64>)| { let mut b = vec![-7.0, -8.0]; m(&mut b); b };
    println!("copy_row short buf dense {:?} nd {:?} na {:?}", guard(|| short(&|b| dense(&sq3).copy_row_as_vec(0, b))), guard(|| short(&|b| nd(&sq3).copy_row_as_vec(0, b))), guard(|| short(&|b| na(&sq3).copy_row_as_vec(0, b))));
    println!("copy_col short buf dense {:?} nd {:?} na {:?}", guard(|| short(&|b| dense(&sq3).copy_col_as_vec(0, b))), guard(|| short(&|b| nd(&sq3).copy_col_as_vec(0, b))), guard(|| short(&|b| na(&sq3).copy_col_as_vec(0, b))));
    println!("set(3,0) on 3x3 dense {:?} nd {:?} na {:?}", guard(|| { let mut m = dense(&sq3); m.set(3, 0, 9.0); m.get(0, 1) }), guard(|| { let mut m = nd(&sq3); m.set(3, 0, 9.0); 0.0 }), guard(|| { let mut m = na(&sq3); m.set(3, 0, 9.0); 0.0 }));
    println!("slice empty oob dense {:?} nd {:?} na {:?}", guard(|| dense(&sq3).slice(5..5, 0..1).shape()), guard(|| BaseMatrix::slice(&nd(&sq3), 5..5, 0..1).shape().to_vec()), guard(|| BaseMatrix::slice(&na(&sq3), 5..5, 0..1).shape()));
    println!("slice reversed dense {:?} nd {:?} na {:?}", guard(|| dense(&sq3).slice(2..1, 0..1).shape()), guard(|| BaseMatrix::slice(&nd(&sq3), 2..1, 0..1).shape().to_vec()), guard(|| BaseMatrix::slice(&na(&sq3), 2..1, 0..1).shape()));
    println!("div_scalar 3 dense {:?} nd {:?} na {:?}", guard(|| dense(&sq3).div_scalar(3.0).get(2, 2)), guard(|| nd(&sq3).div_scalar(3.0).get(2, 2)), guard(|| na(&sq3).div_scalar(3.0).get(2, 2)));
    println!("take oob dense {:?} nd {:?} na {:?}", guard(|| dense(&sq3).take(&[3], 0).shape()), guard(|| BaseMatrix::take(&nd(&sq3), &[3], 0).shape().to_vec()), guard(|| BaseMatrix::take(&na(&sq3), &[3], 0).shape()));
    println!("reshape bad dense {:?} nd {:?} na {:?}", guard(|| dense(&sq3).reshape(2, 4).shape()), guard(|| BaseMatrix::reshape(&nd(&sq3), 2, 4).shape().to_vec()), guard(|| BaseMatrix::reshape(&na(&sq3), 2, 4).shape()));
    println!("add mism dense {:?} nd {:?} na {:?}", guard(|| dense(&sq3).add(&dense(&sq)).shape()), guard(|| BaseMatrix::add(&nd(&sq3), &nd(&sq)).shape().to_vec()), guard(|| BaseMatrix::add(&na(&sq3), &na(&sq)).shape()));
    println!("mul mism row/col dense {:?} nd {:?} na {:?}", guard(|| dense(&row).mul(&dense(&col)).shape()), guard(|| BaseMatrix::mul(&nd(&row), &nd(&col)).shape().to_vec()), guard(|| BaseMatrix::mul(&na(&row), &na(&col)).shape()));
    println!("copy_from mism dense {:?} nd {:?} na {:?}", guard(|| { let mut m = dense(&row); m.copy_from(&dense(&col)); m.shape() }), guard(|| { let mut m = nd(&row); BaseMatrix::copy_from(&mut m, &nd(&col)); 0 }), guard(|| { let mut m = na(&row); BaseMatrix::copy_from(&mut m, &na(&col)); 0 }));
    println!("matmul mism dense {:?} nd {:?} na {:?}", guard(|| dense(&row).matmul(&dense(&row)).shape()), guard(|| BaseMatrix::matmul(&nd(&row), &nd(&row)).shape().to_vec()), guard(|| BaseMatrix::matmul(&na(&row), &na(&row)).shape()));
    println!("hstack mism dense {:?} nd {:?} na {:?}", guard(|| dense(&row).h_stack(&dense(&col)).shape()), guard(|| BaseMatrix::h_stack(&nd(&row), &nd(&col)).shape().to_vec()), guard(|| BaseMatrix::h_stack(&na(&row), &na(&col)).shape()));
    println!("vstack mism dense {:?} nd {:?} na {:?}", guard(|| dense(&row).v_stack(&dense(&col)).shape()), guard(|| BaseMatrix::v_stack(&nd(&row), &nd(&col)).shape().to_vec()), guard(|| BaseMatrix::v_stack(&na(&row), &na(&col)).shape()));
}
