//! temporary probe (will be replaced by the real harness)
use nalgebra::DMatrix;
use ndarray::Array2;
use smartcore::linalg::naive::dense_matrix::DenseMatrix;
use smartcore::linalg::Matrix;
use vharness::*;

type Rows = Vec<Vec<f64>>;
trait Mk: Matrix<f64> {
    fn mk(rows: &Rows) -> Self;
}
impl Mk for DenseMatrix<f64> {
    fn mk(rows: &Rows) -> Self {
        dense(rows)
    }
}
impl Mk for Array2<f64> {
    fn mk(rows: &Rows) -> Self {
        let n = rows.len();
        let p = rows[0].len();
        Array2::from_shape_vec((n, p), rows.iter().flatten().cloned().collect()).unwrap()
    }
}
impl Mk for DMatrix<f64> {
    fn mk(rows: &Rows) -> Self {
        let n = rows.len();
        let p = rows[0].len();
        DMatrix::from_row_slice(n, p, &rows.iter().flatten().cloned().collect::<Vec<f64>>())
    }
}

fn probe<M: Mk>(name: &str) {
    let row: Rows = vec![vec![1.0, 2.0, 3.0]];
    let col: Rows = vec![vec![4.0], vec![5.0], vec![6.0]];
    let sq: Rows = vec![vec![1.0, 2.0], vec![3.0, 4.0]];
    let sq3: Rows = vec![vec![1.0, 2.0, 3.0], vec![4.0, 5.0, 6.0], vec![7.0, 8.0, 10.0]];
    println!("--- {}", name);
    println!("dot row.col {:?}", guard(|| M::mk(&row).dot(&M::mk(&col))));
    println!("dot col.col {:?}", guard(|| M::mk(&col).dot(&M::mk(&col))));
    println!("dot sq.sq {:?}", guard(|| M::mk(&sq).dot(&M::mk(&sq))));
    println!("dot row3.row2 {:?}", guard(|| M::mk(&row).dot(&M::mk(&vec![vec![1.0, 2.0]]))));
    println!("max_diff 2x2 vs 3x3 {:?}", guard(|| M::mk(&sq).max_diff(&M::mk(&sq3))));
    println!("max_diff row vs col {:?}", guard(|| M::mk(&row).max_diff(&M::mk(&col))));
    println!("max_diff 3x3 vs 2x2 {:?}", guard(|| M::mk(&sq3).max_diff(&M::mk(&sq))));
    println!("copy_row short {:?}", guard(|| { let mut b = vec![-7.0, -8.0]; M::mk(&sq3).copy_row_as_vec(0, &mut b); b }));
    println!("copy_col short {:?}", guard(|| { let mut b = vec![-7.0, -8.0]; M::mk(&sq3).copy_col_as_vec(0, &mut b); b }));
    println!("copy_row long {:?}", guard(|| { let mut b = vec![-7.0, -8.0, -9.0, -10.0]; M::mk(&sq3).copy_row_as_vec(0, &mut b); b }));
    println!("set(3,0) on 3x3 {:?}", guard(|| { let mut m = M::mk(&sq3); m.set(3, 0, 9.0); m.get(0, 1) }));
    println!("slice empty oob {:?}", guard(|| M::mk(&sq3).slice(5..5, 0..1).shape()));
    println!("slice reversed {:?}", guard(|| M::mk(&sq3).slice(2..1, 0..1).shape()));
    println!("slice oob {:?}", guard(|| M::mk(&sq3).slice(2..4, 0..1).shape()));
    println!("div_scalar 3 {:?}", guard(|| M::mk(&sq3).div_scalar(3.0).get(2, 2).to_bits()));
    println!("sub_scalar 0.1 {:?}", guard(|| M::mk(&sq3).sub_scalar(0.1).get(2, 2).to_bits()));
    println!("take oob {:?}", guard(|| M::mk(&sq3).take(&[3], 0).shape()));
    println!("reshape bad {:?}", guard(|| M::mk(&sq3).reshape(2, 4).shape()));
    println!("add mism {:?}", guard(|| M::mk(&sq3).add(&M::mk(&sq)).shape()));
    println!("mul mism row/col {:?}", guard(|| M::mk(&row).mul(&M::mk(&col)).shape()));
    println!("copy_from mism {:?}", guard(|| { let mut m = M::mk(&row); m.copy_from(&M::mk(&col)); m.shape() }));
    println!("matmul mism {:?}", guard(|| M::mk(&row).matmul(&M::mk(&row)).shape()));
    println!("hstack mism {:?}", guard(|| M::mk(&row).h_stack(&M::mk(&col)).shape()));
    println!("vstack mism {:?}", guard(|| M::mk(&row).v_stack(&M::mk(&col)).shape()));
    println!("approx_eq mism {:?}", guard(|| M::mk(&row).approximate_eq(&M::mk(&col), 0.5)));
    println!("scale short {:?}", guard(|| { let mut m = M::mk(&sq3); m.scale_mut(&[0.0], &[1.0], 0); m.get(0, 0) }));
    println!("get_row oob {:?}", guard(|| M::mk(&sq3).get_row_as_vec(3)));
    println!("cov 1 row {:?}", guard(|| M::mk(&row).cov().get(0, 0)));
    println!("transposed reshape {:?}", guard(|| M::mk(&sq3).transpose().reshape(1, 9).get_row_as_vec(0)));
    println!("transposed sum {:?}", guard(|| M::mk(&sq3).transpose().sum()));
}

fn main() {
    quiet_panics();
    probe::<DenseMatrix<f64>>("dense");
    probe::<Array2<f64>>("ndarray");
    probe::<DMatrix<f64>>("nalgebra");
}
