//! C09 — logistic regression and L-BFGS: correspondence cases for the Coq model (SC.C09.Corr) and the
//! failing-input search (stationarity / monotonicity / label oracles written from the property text:
//! the gradient is recomputed here from the textbook formula, never taken from the implementation).
use serde_json::{json, Value};
use smartcore::linalg::naive::dense_matrix::DenseMatrix;
use smartcore::linalg::BaseMatrix;
use smartcore::linear::logistic_regression::{
    verif_binary_objective, verif_multiclass_objective, LogisticRegression, LogisticRegressionParameters,
};
use smartcore::math::num::RealNumber;
use smartcore::optimization::first_order::lbfgs::verif::{verif_lbfgs_record, verif_lbfgs_take, VerifLbfgsRun};
use smartcore::optimization::first_order::lbfgs::LBFGS;
use smartcore::optimization::first_order::FirstOrderOptimizer;
use smartcore::optimization::line_search::{Backtracking, LineSearchMethod};
use smartcore::optimization::FunctionOrder;
use vharness::*;

// thresholds of the stationarity clause (DESIGN D13): relative to the gradient at the all-zero start
const TOL_GRAD_EXIT: f64 = 1e-6; // runs that stop by the gradient test
const TOL_FLAT_EXIT: f64 = 1e-4; // runs that stop because the objective / the iterate stopped changing in binary64
const TOL_MAXITER: f64 = 0.25; // the point returned by a run that exhausts max_iter = 1000 (its continuation is held to the tight limits)
const MIN_G0: f64 = 0.05; // data sets whose starting gradient is smaller are not used for the relative claim

fn inf_norm(v: &[f64]) -> f64 {
    v.iter().fold(0.0f64, |a, b| a.max(b.abs()))
}
fn stats() -> bool {
    std::env::var("C09_STATS").is_ok()
}

// ------------------------------------------------------------------------------------------
// definitions from the property text
// ------------------------------------------------------------------------------------------
fn classes_of(y: &[f64]) -> Vec<f64> {
    let mut c: Vec<f64> = y.to_vec();
    c.sort_by(|a, b| a.partial_cmp(b).unwrap());
    c.dedup();
    c
}
fn log1pexp(z: f64) -> f64 {
    if z > 0.0 {
        z + (-z).exp().ln_1p()
    } else {
        z.exp().ln_1p()
    }
}
fn logistic(z: f64) -> f64 {
    if z >= 0.0 {
        1.0 / (1.0 + (-z).exp())
    } else {
        let e = z.exp();
        e / (1.0 + e)
    }
}
/// Penalised negative log-likelihood and its gradient at (coef, icpt); classes sorted ascending.
/// Two classes: one weight row, P(larger label) = logistic(w.x + b). Otherwise softmax, one row per class.
/// The gradient is laid out class by class: [d/dw_c (p entries), d/db_c].
fn spec_obj_grad(x: &[Vec<f64>], y: &[f64], coef: &[Vec<f64>], icpt: &[f64], alpha: f64) -> (f64, Vec<f64>) {
    let classes = classes_of(y);
    let k = classes.len();
    let p = x[0].len();
    let mut f = 0.0;
    if k == 2 {
        let mut g = vec![0.0; p + 1];
        for (xi, yi) in x.iter().zip(y.iter()) {
            let z: f64 = xi.iter().zip(coef[0].iter()).map(|(a, b)| a * b).sum::<f64>() + icpt[0];
            let t = if *yi == classes[1] { 1.0 } else { 0.0 };
            f += log1pexp(z) - t * z;
            let d = logistic(z) - t;
            for j in 0..p {
                g[j] += d * xi[j];
            }
            g[p] += d;
        }
        for j in 0..p {
            f += 0.5 * alpha * coef[0][j] * coef[0][j];
            g[j] += alpha * coef[0][j];
        }
        (f, g)
    } else {
        let mut g = vec![0.0; k * (p + 1)];
        for (xi, yi) in x.iter().zip(y.iter()) {
            let z: Vec<f64> = (0..k).map(|c| xi.iter().zip(coef[c].iter()).map(|(a, b)| a * b).sum::<f64>() + icpt[c]).collect();
            let m = z.iter().fold(f64::NEG_INFINITY, |a, b| a.max(*b));
            let lse = m + z.iter().map(|v| (v - m).exp()).sum::<f64>().ln();
            let cy = classes.iter().position(|c| c == yi).unwrap();
            f += lse - z[cy];
            for c in 0..k {
                let d = (z[c] - lse).exp() - if c == cy { 1.0 } else { 0.0 };
                for j in 0..p {
                    g[c * (p + 1) + j] += d * xi[j];
                }
                g[c * (p + 1) + p] += d;
            }
        }
        for c in 0..k {
            for j in 0..p {
                f += 0.5 * alpha * coef[c][j] * coef[c][j];
                g[c * (p + 1) + j] += alpha * coef[c][j];
            }
        }
        (f, g)
    }
}

// ------------------------------------------------------------------------------------------
// running the implementation
// ------------------------------------------------------------------------------------------
struct Fit {
    coef: Vec<Vec<f64>>,
    icpt: Vec<f64>,
    pred: Vec<f64>,
    run: VerifLbfgsRun,
}
fn rows_of(m: &DenseMatrix<f64>) -> Vec<Vec<f64>> {
    let (n, p) = m.shape();
    (0..n).map(|r| (0..p).map(|c| m.get(r, c)).collect()).collect()
}
fn run_fit(x: &[Vec<f64>], y: &[f64], alpha: f64, queries: &[Vec<f64>]) -> Result<Result<Fit, String>, String> {
    let (x, y, q) = (x.to_vec(), y.to_vec(), queries.to_vec());
    guard(move || {
        let xm = dense(&x);
        let qm = dense(&q);
        verif_lbfgs_record(true);
        let r = LogisticRegression::fit(&xm, &y, LogisticRegressionParameters::default().with_alpha(alpha));
        let mut runs = verif_lbfgs_take();
        verif_lbfgs_record(false);
        match r {
            Err(e) => Err(format!("{}", e)),
            Ok(lr) => {
                let pred = lr.predict(&qm).map_err(|e| format!("{}", e))?;
                let coef = rows_of(lr.coefficients());
                let icpt: Vec<f64> = rows_of(lr.intercept()).into_iter().map(|r| r[0]).collect();
                if runs.len() != 1 {
                    return Err(format!("{} optimiser runs recorded", runs.len()));
                }
                Ok(Fit { coef, icpt, pred, run: runs.pop().unwrap() })
            }
        }
    })
}

/// Continue the implementation's own minimisation (same optimiser, same line search, the crate's objective
/// through the verification wrappers) from a point where a fit stopped because `max_iter` ran out.
/// Returns the point finally reached, the exit code of the last leg and the number of legs.
fn continue_fit(x: &[Vec<f64>], yi: &[usize], k: usize, alpha: f64, w0: &[f64], max_legs: usize) -> Result<(Vec<f64>, u8, usize), String> {
    let (x, yi, w0) = (x.to_vec(), yi.to_vec(), w0.to_vec());
    guard(move || {
        let xm = dense(&x);
        let obj = |w: &DenseMatrix<f64>| -> (f64, DenseMatrix<f64>) {
            if k == 2 {
                verif_binary_objective(&xm, yi.clone(), alpha, w)
            } else {
                verif_multiclass_objective(&xm, yi.clone(), k, alpha, w)
            }
        };
        let f = |w: &DenseMatrix<f64>| obj(w).0;
        let df = |g: &mut DenseMatrix<f64>, w: &DenseMatrix<f64>| {
            let v = obj(w).1;
            g.copy_from(&v);
        };
        let ls: Backtracking<f64> = Backtracking { order: FunctionOrder::THIRD, ..Default::default() };
        let opt: LBFGS<f64> = Default::default();
        let mut w = w0.clone();
        let mut exit = 4u8;
        let mut legs = 0;
        while exit == 4 && legs < max_legs {
            verif_lbfgs_record(true);
            let r = opt.optimize(&f, &df, &row_vec(&w), &ls);
            let mut runs = verif_lbfgs_take();
            verif_lbfgs_record(false);
            exit = runs.pop().map(|r| r.exit).unwrap_or(4);
            w = flat(&r.x);
            legs += 1;
        }
        (w, exit, legs)
    })
}

fn row_vec(v: &[f64]) -> DenseMatrix<f64> {
    DenseMatrix::from_array(1, v.len(), v)
}
fn flat(m: &DenseMatrix<f64>) -> Vec<f64> {
    let (r, c) = m.shape();
    let mut v = vec![];
    for i in 0..r {
        for j in 0..c {
            v.push(m.get(i, j));
        }
    }
    v
}

/// f(x) = 1/2 x'Ax - b'x, written so that the Coq twin (Corr.quad_f / quad_df) does the same operations
fn quad_f(a: &[Vec<f64>], b: &[f64], x: &[f64]) -> f64 {
    let n = x.len();
    let mut q = 0.0;
    for i in 0..n {
        let mut r = 0.0;
        for j in 0..n {
            r += a[i][j] * x[j];
        }
        q += x[i] * r;
    }
    let mut l = 0.0;
    for i in 0..n {
        l += b[i] * x[i];
    }
    0.5 * q - l
}
fn quad_df(a: &[Vec<f64>], b: &[f64], x: &[f64]) -> Vec<f64> {
    let n = x.len();
    (0..n)
        .map(|i| {
            let mut r = 0.0;
            for j in 0..n {
                r += a[i][j] * x[j];
            }
            r - b[i]
        })
        .collect()
}
struct QuadRun {
    x: Vec<f64>,
    f_x: f64,
    iterations: usize,
    run: VerifLbfgsRun,
}
fn run_quad(a: &[Vec<f64>], b: &[f64], x0: &[f64], third: bool, m: usize, max_iter: usize) -> Result<QuadRun, String> {
    let (a, b, x0) = (a.to_vec(), b.to_vec(), x0.to_vec());
    guard(move || {
        let f = |x: &DenseMatrix<f64>| quad_f(&a, &b, &flat(x));
        let df = |g: &mut DenseMatrix<f64>, x: &DenseMatrix<f64>| {
            let v = quad_df(&a, &b, &flat(x));
            for (j, vj) in v.iter().enumerate() {
                g.set(0, j, *vj);
            }
        };
        let mut ls: Backtracking<f64> = Default::default();
        if third {
            ls.order = FunctionOrder::THIRD;
        }
        let mut opt: LBFGS<f64> = Default::default();
        opt.m = m;
        opt.max_iter = max_iter;
        verif_lbfgs_record(true);
        let r = opt.optimize(&f, &df, &row_vec(&x0), &ls);
        let mut runs = verif_lbfgs_take();
        verif_lbfgs_record(false);
        QuadRun { x: flat(&r.x), f_x: r.f_x, iterations: r.iterations, run: runs.pop().unwrap() }
    })
}

// ------------------------------------------------------------------------------------------
// generators
// ------------------------------------------------------------------------------------------
fn log_uniform(rng: &mut Rng, lo: f64, hi: f64) -> f64 {
    (rng.uniform(lo.ln(), hi.ln())).exp()
}
fn label_values(rng: &mut Rng, k: usize) -> Vec<f64> {
    loop {
        let v: Vec<f64> = match rng.below(5) {
            0 => (0..k).map(|c| c as f64).collect(),
            1 => (0..k).map(|_| rng.int(-50, 50) as f64).collect(),
            2 => (0..k).map(|_| rng.dyadic(100, 2)).collect(),
            3 => (0..k).map(|_| (rng.int(-3, 3) as f64) * 1e6 + rng.int(0, 9) as f64).collect(),
            _ => (0..k).map(|_| rng.uniform(-10.0, 10.0)).collect(),
        };
        let mut s = v.clone();
        s.sort_by(|a, b| a.partial_cmp(b).unwrap());
        s.dedup();
        if s.len() == k {
            return v; // in arbitrary (unsorted) order: class c of the generator gets value v[c]
        }
    }
}
struct Data {
    x: Vec<Vec<f64>>,
    y: Vec<f64>,
    family: String,
}
/// k blobs in p dimensions, spread `sep` (0: fully overlapping .. 6: separable), features scaled and shifted
fn gen_data(rng: &mut Rng, n: usize, p: usize, k: usize, sep: f64, scale_max: f64) -> Data {
    let labels = label_values(rng, k);
    let centers: Vec<Vec<f64>> = (0..k).map(|_| (0..p).map(|_| rng.normal() * sep).collect()).collect();
    let scales: Vec<f64> = (0..p).map(|_| log_uniform(rng, 0.1, scale_max)).collect();
    let shifts: Vec<f64> = (0..p).map(|j| if rng.bool() { rng.normal() * 3.0 * scales[j] } else { 0.0 }).collect();
    let mut x = vec![];
    let mut y = vec![];
    for i in 0..n {
        let c = if i < k { i } else { rng.below(k) }; // every class present
        x.push((0..p).map(|j| (centers[c][j] + rng.normal()) * scales[j] + shifts[j]).collect::<Vec<f64>>());
        y.push(labels[c]);
    }
    // shuffle rows
    let mut idx: Vec<usize> = (0..n).collect();
    rng.shuffle(&mut idx);
    let x2: Vec<Vec<f64>> = idx.iter().map(|&i| x[i].clone()).collect();
    let y2: Vec<f64> = idx.iter().map(|&i| y[i]).collect();
    let family = format!("{}:{}", if k == 2 { "binary" } else { "multi" }, if sep >= 4.0 { "separable" } else if sep >= 1.0 { "mixed" } else { "overlap" });
    Data { x: x2, y: y2, family }
}

fn gen_spd(rng: &mut Rng, n: usize, cond: f64, lmax: f64) -> Vec<Vec<f64>> {
    // random orthogonal Q by Gram-Schmidt, eigenvalues log-spaced at random in [lmax/cond, lmax]
    let mut q: Vec<Vec<f64>> = vec![];
    while q.len() < n {
        let mut v: Vec<f64> = (0..n).map(|_| rng.normal()).collect();
        for _ in 0..2 {
            for u in &q {
                let d: f64 = u.iter().zip(v.iter()).map(|(a, b)| a * b).sum();
                for j in 0..n {
                    v[j] -= d * u[j];
                }
            }
        }
        let nr = v.iter().map(|a| a * a).sum::<f64>().sqrt();
        if nr > 1e-6 {
            q.push(v.iter().map(|a| a / nr).collect());
        }
    }
    let mut lam: Vec<f64> = (0..n).map(|_| lmax / log_uniform(rng, 1.0, cond.max(1.0 + 1e-9))).collect();
    lam[0] = lmax;
    if n > 1 {
        lam[1] = lmax / cond;
    }
    let mut a = vec![vec![0.0; n]; n];
    for i in 0..n {
        for j in 0..=i {
            let mut s = 0.0;
            for t in 0..n {
                s += lam[t] * q[t][i] * q[t][j];
            }
            a[i][j] = s;
            a[j][i] = s;
        }
    }
    a
}

// ------------------------------------------------------------------------------------------
// Coq literals
// ------------------------------------------------------------------------------------------
fn coq_step(st: &smartcore::optimization::first_order::lbfgs::verif::VerifLbfgsStep) -> String {
    format!(
        "({}, {}, {}, ({}, {}, {}, {}))",
        coq_list_f64(&st.x),
        coq_list_f64(&st.g),
        coq_list_f64(&st.s),
        coq_f64(st.f),
        coq_f64(st.df0),
        coq_f64(st.alpha),
        coq_f64(st.f_new)
    )
}
fn json_run(run: &VerifLbfgsRun, max_steps: usize) -> Value {
    json!({"exit": run.exit, "iterations": run.iterations,
           "steps": run.steps.iter().take(max_steps).map(|s| json!({"f": s.f, "df0": s.df0, "alpha": s.alpha, "f_new": s.f_new})).collect::<Vec<_>>()})
}

// ------------------------------------------------------------------------------------------
// search oracles
// ------------------------------------------------------------------------------------------
struct LrStats {
    zero_objective_exits: u64,
    worst_step_increase: f64,
    worst_pos_df0: f64,
    worst_cont: f64,
    max_legs: usize,
    worst: [f64; 5],
    exits: [u64; 5],
}

/// all clauses of the property about one fit; `alpha == 0` checks monotonicity and labels only
fn check_fit(out: &mut Out, st: &mut LrStats, x: &[Vec<f64>], y: &[f64], alpha: f64, family: &str) -> Option<Fit> {
    let classes = classes_of(y);
    let k = classes.len();
    let p = x[0].len();
    let n = x.len();
    let input = json!({"entry": "fit", "x": x, "y": y, "alpha": alpha});
    let mut key: Vec<f64> = x.iter().flatten().cloned().collect();
    key.extend_from_slice(y);
    key.push(alpha);
    let zero_coef = vec![vec![0.0; p]; if k == 2 { 1 } else { k }];
    let zero_icpt = vec![0.0; if k == 2 { 1 } else { k }];
    let (f_start, g_start) = spec_obj_grad(x, y, &zero_coef, &zero_icpt, alpha);
    let g0 = inf_norm(&g_start);
    out.eval(hash_f64s(&key), k >= 2 && n > k && g0 >= MIN_G0);
    out.count(&format!("search:fit:{}:alpha{}", family, if alpha == 0.0 { "=0" } else if alpha < 0.3 { "<0.3" } else { ">=0.3" }));
    out.count(&format!("search:fit:k={}", k));
    let fit = match run_fit(x, y, alpha, x) {
        Err(msg) => {
            out.fail("fit_returns", &format!("panic: {}", msg), input);
            return None;
        }
        Ok(Err(msg)) => {
            out.fail("fit_returns", &format!("fit returned Err on a valid training set: {}", msg), input);
            return None;
        }
        Ok(Ok(f)) => f,
    };
    // shapes
    let krows = if k == 2 { 1 } else { k };
    if fit.coef.len() != krows || fit.coef.iter().any(|r| r.len() != p) || fit.icpt.len() != krows {
        out.fail("shape", "coefficients/intercept do not have one row per class (one row for two classes)", input);
        return None;
    }
    let (f_end, g_end) = spec_obj_grad(x, y, &fit.coef, &fit.icpt, alpha);
    // ---- monotonicity: final objective never exceeds the starting objective (alpha >= 0)
    if !(f_end <= f_start * (1.0 + 1e-12) + 1e-12) {
        let mut w = input.clone();
        w["f_start"] = json!(f_start);
        w["f_end"] = json!(f_end);
        out.fail("objective_not_increased", "penalised negative log-likelihood at the returned point exceeds its value at the all-zero start", w);
    }
    // the optimiser's own numbers, step by step: the accepted step passes the sufficient-decrease test (exactly, in
    // binary64), so it cannot increase the objective along a descent direction.  (Along a direction with df0 > 0 —
    // see check_descent — the test itself allows an increase of c1*alpha*df0; such steps are counted, the clause
    // of the property for fits is about the final objective only and is checked above.)
    for (i, s) in fit.run.steps.iter().enumerate() {
        let armijo = s.f_new <= s.f + 1e-4 * s.alpha * s.df0 || (s.alpha == 0.0 && s.f_new == s.f);
        let increased = !(s.f_new <= s.f);
        if !armijo || (increased && !(s.df0 > 0.0)) {
            let mut w = input.clone();
            w["step"] = json!(i);
            w["f"] = json!(s.f);
            w["f_new"] = json!(s.f_new);
            w["df0"] = json!(s.df0);
            w["step_alpha"] = json!(s.alpha);
            out.fail("objective_not_increased", "an L-BFGS iteration violated the sufficient-decrease inequality or increased the objective along a descent direction", w);
            break;
        }
        if increased {
            out.count("search:fit:steps-increasing-the-objective-along-a-non-descent-direction");
            let rel = (s.f_new - s.f) / f_start.abs().max(1e-300);
            if rel > st.worst_step_increase {
                st.worst_step_increase = rel;
            }
        }
    }
    check_descent(out, &fit.run, "fit", &mut st.worst_pos_df0);
    // observation (root cause of the repaired line-search panic, not a clause of the property): ln_1pe's
    // `x > 15 => x` shortcut lets the coded objective reach EXACTLY 0 while its gradient is still above the
    // optimiser's tolerance; the line search then gives up (zero step) and L-BFGS stops by its step test
    if let Some(last) = fit.run.steps.last() {
        if last.f_new == 0.0 && inf_norm(&fit.run.g_final) > 1e-8 {
            out.count("search:fit:observation:coded-objective-exactly-0-at-exit-with-gradient-above-g_atol");
            st.zero_objective_exits += 1;
        }
        if fit.run.steps.iter().any(|s| s.alpha == 0.0) {
            out.count("search:fit:observation:run-with-a-zero-step(line-search-gave-up)");
        }
    }
    // ---- stationarity (alpha > 0 only), relative to the gradient at zero; two-level threshold of D13
    if alpha > 0.0 {
        if g0 < MIN_G0 {
            out.count("search:fit:excluded:starting-gradient-too-small");
        } else {
            let ratio = inf_norm(&g_end) / g0;
            let e = fit.run.exit.min(4) as usize;
            st.exits[e] += 1;
            if ratio > st.worst[e] {
                st.worst[e] = ratio;
            }
            let tol = match fit.run.exit {
                0 | 1 => TOL_GRAD_EXIT,
                2 | 3 => TOL_FLAT_EXIT,
                _ => TOL_MAXITER,
            };
            out.count(&format!("search:fit:exit={}", ["start", "gradient", "step", "objective-flat", "max_iter"][e]));
            if stats() && e == 4 {
                let colmax: Vec<f64> = (0..p).map(|j| x.iter().map(|r| r[j].abs()).fold(0.0f64, f64::max)).collect();
                let nshort = fit.run.steps.iter().filter(|s| s.alpha < 1.0).count();
                let amin = fit.run.steps.iter().map(|s| s.alpha).fold(1.0f64, f64::min);
                let npos = fit.run.steps.iter().filter(|s| !(s.df0 < 0.0)).count();
                eprintln!("maxiter: k {} n {} p {} alpha {:.3e} fam {} ratio {:.3e} g0 {:.3e} colmax {:?} short-steps {} min-alpha {:.2e} nondescent {} f_start {:.4e} f_end {:.6e}", k, n, p, alpha, family, ratio, g0, colmax, nshort, amin, npos, f_start, f_end);
            }
            if !(ratio <= tol) {
                let mut w = input.clone();
                w["ratio"] = json!(ratio);
                w["exit"] = json!(fit.run.exit);
                w["g_end"] = json!(g_end);
                out.fail("stationarity", &format!("gradient of the penalised likelihood at the returned point is {:e} of its size at zero (limit {:e} for this exit)", ratio, tol), w);
            } else if fit.run.exit == 4 {
                // D13: the hard-wired iteration budget ran out.  The returned point is only held to the loose limit;
                // what is held to the tight one is the point the SAME optimiser reaches when it is allowed to go on
                // from there (so a wrong gradient / a penalised intercept cannot hide behind the budget).
                let yi: Vec<usize> = y.iter().map(|v| classes.iter().position(|c| c == v).unwrap()).collect();
                let mut w0: Vec<f64> = vec![];
                for c in 0..krows {
                    w0.extend_from_slice(&fit.coef[c]);
                    w0.push(fit.icpt[c]);
                }
                match continue_fit(x, &yi, k, alpha, &w0, 100) {
                    Err(msg) => out.fail("fit_returns", &format!("panic while continuing the minimisation: {}", msg), input.clone()),
                    Ok((wc, exit_c, legs)) => {
                        if exit_c == 4 {
                            out.count("search:fit:max_iter:excluded:continuation-still-running-after-100000-iterations");
                        } else {
                            let coef_c: Vec<Vec<f64>> = (0..krows).map(|c| wc[c * (p + 1)..c * (p + 1) + p].to_vec()).collect();
                            let icpt_c: Vec<f64> = (0..krows).map(|c| wc[c * (p + 1) + p]).collect();
                            let (f_c, g_c) = spec_obj_grad(x, y, &coef_c, &icpt_c, alpha);
                            let ratio_c = inf_norm(&g_c) / g0;
                            if ratio_c > st.worst_cont {
                                st.worst_cont = ratio_c;
                            }
                            st.max_legs = st.max_legs.max(legs);
                            out.count("search:fit:max_iter:continued-to-convergence");
                            let tol_c = if exit_c <= 1 { TOL_GRAD_EXIT } else { TOL_FLAT_EXIT };
                            if !(ratio_c <= tol_c) || !(f_c <= f_end * (1.0 + 1e-12) + 1e-12) {
                                let mut w = input.clone();
                                w["ratio_after_continuation"] = json!(ratio_c);
                                w["exit_after_continuation"] = json!(exit_c);
                                w["f_returned"] = json!(f_end);
                                w["f_after_continuation"] = json!(f_c);
                                out.fail("stationarity", &format!("the fit ran out of iterations, and continuing the same minimisation from the returned point ends where the gradient of the penalised likelihood is still {:e} of its size at zero (limit {:e})", ratio_c, tol_c), w);
                            }
                        }
                    }
                }
            }
        }
    }
    // ---- labels: original values, arg-max / sign of the linear scores
    let mut ties = 0;
    for (i, xi) in x.iter().enumerate() {
        let yhat = fit.pred[i];
        if !classes.contains(&yhat) {
            let mut w = input.clone();
            w["row"] = json!(i);
            w["predicted"] = json!(yhat);
            out.fail("labels_original", "predicted label is not one of the training label values", w);
            break;
        }
        let z: Vec<f64> = (0..krows).map(|c| xi.iter().zip(fit.coef[c].iter()).map(|(a, b)| a * b).sum::<f64>() + fit.icpt[c]).collect();
        let sc = z.iter().fold(1.0f64, |a, b| a.max(b.abs()));
        let expect = if k == 2 {
            if z[0].abs() <= 1e-9 * sc {
                ties += 1;
                continue;
            }
            if z[0] > 0.0 { classes[1] } else { classes[0] }
        } else {
            let mut best = 0;
            for c in 1..k {
                if z[c] > z[best] {
                    best = c;
                }
            }
            let second = (0..k).filter(|c| *c != best).map(|c| z[c]).fold(f64::NEG_INFINITY, f64::max);
            if z[best] - second <= 1e-9 * sc {
                ties += 1;
                continue;
            }
            classes[best]
        };
        if yhat != expect {
            let mut w = input.clone();
            w["row"] = json!(i);
            w["predicted"] = json!(yhat);
            w["expected"] = json!(expect);
            w["scores"] = json!(z);
            out.fail("predict_is_argmax", "predicted label is not the arg-max (two classes: sign) of the fitted linear scores", w);
            break;
        }
    }
    if ties > 0 {
        out.count("search:fit:excluded:near-tied-scores");
    }
    Some(fit)
}

/// The hypothesis of the monotonicity theorem on one recorded run: every direction handed to the line search is a
/// descent direction (df0 < 0).  It is NOT a clause of the property and the implementation does not always meet
/// it: L-BFGS keeps curvature pairs without testing dx.dg > 0, so once the pairs are rounding noise (end of a run,
/// or objective ~ 0 on separable data with alpha = 0) the two-loop direction can have df0 >= 0.  Such steps are
/// counted into the evidence; what the property claims (no increase of the objective) is checked on every step
/// separately.  Returns (steps with df0 >= 0, largest df0/|f| among them).
fn check_descent(out: &mut Out, run: &VerifLbfgsRun, what: &str, worst: &mut f64) {
    let mut n = 0;
    for s in run.steps.iter() {
        if !(s.df0 < 0.0) {
            n += 1;
            let rel = s.df0 / s.f.abs().max(s.f_new.abs()).max(1e-300);
            if rel > *worst {
                *worst = rel;
            }
        }
    }
    if n > 0 {
        out.count(&format!("search:{}:runs-with-a-non-descent-step(df0>=0)", what));
    }
}
struct QuadStats {
    worst_pos_df0: f64,
    worst_k: f64,
    worst_ratio: f64,
    worst_iters: usize,
}
fn check_quad(out: &mut Out, qs: &mut QuadStats, a: &[Vec<f64>], b: &[f64], x0: &[f64], third: bool, cond: f64) -> Option<QuadRun> {
    let n = x0.len();
    let input = json!({"entry": "quad", "a": a, "b": b, "x0": x0, "third": third, "cond": cond});
    let mut key: Vec<f64> = a.iter().flatten().cloned().collect();
    key.extend_from_slice(b);
    key.extend_from_slice(x0);
    let g0v = quad_df(a, b, x0);
    let g0 = inf_norm(&g0v);
    out.eval(hash_f64s(&key), n >= 2 && g0 > 1e-3);
    out.count(&format!("search:quad:dim={}", if n <= 3 { "1-3" } else if n <= 8 { "4-8" } else { "9-12" }));
    out.count(&format!("search:quad:cond={}", if cond <= 10.0 { "<=1e1" } else if cond <= 1e3 { "<=1e3" } else { "<=1e4" }));
    let r = match run_quad(a, b, x0, third, 10, 1000) {
        Err(msg) => {
            out.fail("lbfgs_returns", &format!("panic: {}", msg), input);
            return None;
        }
        Ok(r) => r,
    };
    let f0 = quad_f(a, b, x0);
    let f_end = quad_f(a, b, &r.x);
    if !(f_end <= f0) {
        let mut w = input.clone();
        w["f_start"] = json!(f0);
        w["f_end"] = json!(f_end);
        out.fail("lbfgs_never_increases", "objective at the returned point exceeds the objective at the start", w);
    }
    let mut prev = f0;
    for (i, s) in r.run.steps.iter().enumerate() {
        // the objective value the optimiser saw before the step is the previous value, and it never goes up
        if !(s.f == prev && s.f_new <= s.f) {
            let mut w = input.clone();
            w["step"] = json!(i);
            w["f"] = json!(s.f);
            w["f_new"] = json!(s.f_new);
            out.fail("lbfgs_never_increases", "an L-BFGS iteration increased the objective", w);
            break;
        }
        prev = s.f_new;
    }
    check_descent(out, &r.run, "quad", &mut qs.worst_pos_df0);
    let g_end = inf_norm(&quad_df(a, b, &r.x));
    // "many orders of magnitude": 6 orders, or down to the optimiser's absolute gradient tolerance times the
    // conditioning slack if the start was already that close
    let ratio = g_end / g0.max(1e-300);
    if g0 > 1e-3 {
        if ratio > qs.worst_ratio {
            qs.worst_ratio = ratio;
        }
        qs.worst_iters = qs.worst_iters.max(r.iterations);
        // binary64 resolution of the objective: the Armijo test compares objective values, so once the decrease
        // that a gradient of this size can buy (at least |g|^2 / (2 lambda_max), lambda_max <= |A|_inf) is at
        // the rounding level of the objective's terms, no line search can make progress
        let a_inf = a.iter().map(|r| r.iter().map(|v| v.abs()).sum::<f64>()).fold(0.0f64, f64::max);
        let fscale = |x: &[f64]| -> f64 {
            let mut q = 0.0;
            for i in 0..n {
                for j in 0..n {
                    q += (a[i][j] * x[i] * x[j]).abs();
                }
            }
            0.5 * q + b.iter().zip(x.iter()).map(|(u, v)| (u * v).abs()).sum::<f64>()
        };
        // rounding error accumulated by the n^2 + n terms of one objective evaluation
        let noise = ((n * n + n + 2) as f64) * f64::EPSILON * fscale(&r.x).max(f0.abs()).max(f_end.abs());
        let buy = g_end * g_end / (2.0 * a_inf);
        let strict = g_end <= 1e-6 * g0 || g_end <= 1e-8;
        let kk = buy / noise.max(1e-300);
        if !strict {
            if kk > qs.worst_k {
                qs.worst_k = kk;
            }
            out.count("search:quad:stopped-at-binary64-resolution-of-the-objective");
        }
        // six orders of magnitude (or the optimiser's absolute tolerance); a run that stops earlier must have
        // reached the resolution of the objective (the decrease still available is below one rounding error of
        // the objective's terms) and must still have gained three orders
        if !(strict || (buy <= noise && g_end <= 1e-3 * g0)) {
            let mut w = input.clone();
            w["ratio"] = json!(ratio);
            w["exit"] = json!(r.run.exit);
            w["iterations"] = json!(r.iterations);
            w["available_decrease_over_rounding_level"] = json!(kk);
            out.fail("lbfgs_reduces_gradient", &format!("gradient only reduced to {:e} of its starting size", ratio), w);
        }
    } else {
        out.count("search:quad:excluded:start-at-optimum");
    }
    Some(r)
}

// ------------------------------------------------------------------------------------------
// correspondence
// ------------------------------------------------------------------------------------------
fn corr_objective(out: &mut Out, rng: &mut Rng) {
    let n = rng.usize_in(1, 10);
    let p = rng.usize_in(1, 4);
    let k = rng.usize_in(2, 4);
    let scale = *rng.pick(&[0.1, 1.0, 1.0, 8.0, 40.0]);
    let x: Vec<Vec<f64>> = (0..n).map(|_| (0..p).map(|_| rng.normal() * scale).collect()).collect();
    let alpha = *rng.pick(&[0.0, 0.0, 0.01, 0.5, 1.0, 10.0]);
    let wscale = *rng.pick(&[0.0, 0.1, 1.0, 3.0]);
    if k == 2 {
        let y: Vec<usize> = (0..n).map(|_| rng.below(2)).collect();
        let w: Vec<f64> = (0..p + 1).map(|_| rng.normal() * wscale).collect();
        let input = json!({"entry": "binary_objective", "x": x, "y": y, "alpha": alpha, "w": w});
        if let Ok((f, g)) = guard(|| verif_binary_objective(&dense(&x), y.clone(), alpha, &row_vec(&w))) {
            out.corr(
                "binary_f_df",
                format!(
                    "corr_binary {} {} {} {} {} {} {}",
                    coq_n(p),
                    coq_rows_f64(&x),
                    coq_list_n(&y),
                    coq_f64(alpha),
                    coq_list_f64(&w),
                    coq_f64(f),
                    coq_list_f64(&flat(&g))
                ),
                input,
            );
        }
    } else {
        let y: Vec<usize> = (0..n).map(|_| rng.below(k)).collect();
        let w: Vec<f64> = (0..k * (p + 1)).map(|_| rng.normal() * wscale).collect();
        let input = json!({"entry": "multi_objective", "x": x, "y": y, "k": k, "alpha": alpha, "w": w});
        if let Ok((f, g)) = guard(|| verif_multiclass_objective(&dense(&x), y.clone(), k, alpha, &row_vec(&w))) {
            out.corr(
                "multi_f_df",
                format!(
                    "corr_multi {} {} {} {} {} {} {} {}",
                    coq_n(p),
                    coq_n(k),
                    coq_rows_f64(&x),
                    coq_list_n(&y),
                    coq_f64(alpha),
                    coq_list_f64(&w),
                    coq_f64(f),
                    coq_list_f64(&flat(&g))
                ),
                input,
            );
        }
    }
}

fn corr_scalars(out: &mut Out, rng: &mut Rng) {
    let mut xs: Vec<f64> = vec![15.0, 15.000001, 14.999999, 40.0, -40.0, 40.5, -40.5, 0.0, 700.0, -700.0, 16.0];
    for _ in 0..12 {
        xs.push(rng.normal() * *rng.pick(&[1.0, 10.0, 30.0]));
    }
    let l: Vec<f64> = xs.iter().map(|x| x.ln_1pe()).collect();
    let s: Vec<f64> = xs.iter().map(|x| x.sigmoid()).collect();
    out.corr(
        "scalars",
        format!("corr_scalars {} {} {}", coq_list_f64(&xs), coq_list_f64(&l), coq_list_f64(&s)),
        json!({"entry": "scalars", "xs": xs}),
    );
    for _ in 0..4 {
        let k = rng.usize_in(1, 6);
        let sc = *rng.pick(&[1.0, 30.0, 1000.0]);
        let off = *rng.pick(&[0.0, -1000.0, 500.0]);
        let v: Vec<f64> = (0..k).map(|_| rng.normal() * sc + off).collect();
        let mut m = row_vec(&v);
        m.softmax_mut();
        out.corr("softmax", format!("corr_softmax {} {}", coq_list_f64(&v), coq_list_f64(&flat(&m))), json!({"entry": "softmax", "v": v}));
    }
}

fn horner(cs: &[f64], a: f64) -> f64 {
    let mut r = 0.0;
    for c in cs.iter().rev() {
        r = c + a * r;
    }
    r
}
/// own copy of the documented algorithm, used ONLY to decide whether a line-search instance is
/// well conditioned with respect to how x^2 and x^3 are rounded (variant false: products, true: powf);
/// it never serves as the expected value.
fn bt_twin(phi: &dyn Fn(f64) -> f64, alpha: f64, f0: f64, df0: f64, third: bool, max_iter: usize, usepow: bool) -> Option<(f64, usize, f64)> {
    let sq = |x: f64| if usepow { x.powf(2.0) } else { x * x };
    let cu = |x: f64| if usepow { x.powf(3.0) } else { x * (x * x) };
    let (mut a1, mut a2) = (alpha, alpha);
    let (mut fx0, mut fx1) = (f0, phi(a1));
    let mut it = 0;
    while !fx1.is_finite() && it < 52 {
        it += 1;
        a1 = a2;
        a2 = a1 / 2.0;
        fx1 = phi(a2);
    }
    let mut iteration = 0;
    let mut margin = f64::INFINITY;
    loop {
        let rhs = f0 + 1e-4 * a2 * df0;
        margin = margin.min((fx1 - rhs).abs() / (1e-300 + fx1.abs().max(rhs.abs()).max(f0.abs())));
        if !(fx1 > rhs) {
            break;
        }
        if iteration > max_iter {
            return Some((0.0, iteration, margin));
        }
        let a_tmp;
        if !third || iteration == 0 {
            a_tmp = -(df0 * sq(a2)) / (2.0 * (fx1 - f0 - df0 * a2));
        } else {
            let div = 1.0 / (sq(a1) * sq(a2) * (a2 - a1));
            let a = (sq(a1) * (fx1 - f0 - df0 * a2) - sq(a2) * (fx0 - f0 - df0 * a1)) * div;
            let b = (-cu(a1) * (fx1 - f0 - df0 * a2) + cu(a2) * (fx0 - f0 - df0 * a1)) * div;
            margin = margin.min(((a.abs() - f64::EPSILON).abs() / f64::EPSILON).min(1.0));
            if a.abs() <= f64::EPSILON {
                a_tmp = df0 / (2.0 * b);
            } else {
                let d = (b * b - 3.0 * a * df0).max(0.0);
                a_tmp = (-b + d.sqrt()) / (3.0 * a);
            }
        }
        a1 = a2;
        a2 = a_tmp.min(a2 * 0.5).max(a2 * 0.1);
        fx0 = fx1;
        fx1 = phi(a2);
        iteration += 1;
    }
    Some((a2, iteration, margin))
}

fn corr_linesearch(out: &mut Out, rng: &mut Rng) {
    let deg = rng.usize_in(2, 4);
    let mut cs: Vec<f64> = (0..=deg).map(|_| rng.normal() * *rng.pick(&[1.0, 5.0, 30.0])).collect();
    // mostly descent directions; the leading coefficient mostly positive so that the function is bounded below
    if rng.chance(0.9) {
        cs[1] = -cs[1].abs();
    }
    if rng.chance(0.8) {
        cs[deg] = cs[deg].abs() * *rng.pick(&[1.0, 10.0, 100.0]);
    }
    let alpha0 = *rng.pick(&[1.0, 1.0, 0.5, 2.0]);
    let third = rng.bool();
    let max_iter = *rng.pick(&[1000usize, 1000, 2, 0]);
    let thr = if rng.chance(0.25) { rng.uniform(0.05, 0.9) } else { f64::INFINITY }; // phi = +inf beyond thr
    let (f0, df0) = (cs[0], cs[1]);
    let cs2 = cs.clone();
    let phi = move |a: f64| if a > thr { f64::INFINITY } else { horner(&cs2, a) };
    let ta = bt_twin(&phi, alpha0, f0, df0, third, max_iter, false);
    let tb = bt_twin(&phi, alpha0, f0, df0, third, max_iter, true);
    let stable = match (ta, tb) {
        (None, None) => true,
        (Some((a, i, m)), Some((b, j, m2))) => i == j && (a - b).abs() <= 1e-12 * a.abs() && m > 1e-9 && m2 > 1e-9,
        _ => false,
    };
    if !stable {
        out.count("corr:line_search:excluded:ill-conditioned-instance");
        return;
    }
    let ls = Backtracking::<f64> {
        c1: 1e-4,
        max_iterations: max_iter,
        max_infinity_iterations: 52,
        phi: 0.5,
        plo: 0.1,
        order: if third { FunctionOrder::THIRD } else { FunctionOrder::SECOND },
    };
    let dphi = |_a: f64| 0.0;
    let res = guard(|| ls.search(&phi, &dphi, alpha0, f0, df0)).ok().map(|r| (r.alpha, r.f_x));
    let exp = coq_option(res.map(|(a, f)| coq_pair(&coq_f64(a), &coq_f64(f))));
    out.corr(
        "line_search",
        format!("corr_linesearch {} {} {} {} {} {} {}", coq_list_f64(&cs), coq_f64(thr), coq_f64(alpha0), coq_bool(third), coq_n(max_iter), coq_f64(df0), exp),
        json!({"entry": "line_search", "coeffs": cs, "thr": if thr.is_finite() { json!(thr) } else { json!(null) }, "alpha0": alpha0, "third": third, "max_iter": max_iter}),
    );
}

/// line searches that exhaust the iteration budget (repair 78b374f: zero step, value f0, no panic):
/// phi constant with a negative slope claimed, phi = 0 at 0 and positive elsewhere, and the same with a small budget
fn corr_linesearch_exhaust(out: &mut Out, rng: &mut Rng) {
    let variant = rng.below(3);
    let c0 = *rng.pick(&[0.0, 0.0, 1.5, -3.0]);
    let (cs, df0): (Vec<f64>, f64) = match variant {
        0 => (vec![c0], -rng.uniform(0.1, 5.0)),                                  // constant objective, df0 < 0
        1 => (vec![c0, 0.0, rng.uniform(0.5, 4.0)], -rng.uniform(0.1, 5.0)),      // f0 at 0, larger everywhere else
        _ => (vec![c0, rng.uniform(0.5, 2.0)], -rng.uniform(0.1, 5.0)),           // increasing, slope claimed negative
    };
    let third = rng.bool();
    let max_iter = *rng.pick(&[1000usize, 1000, 3, 0]);
    let alpha0 = *rng.pick(&[1.0, 2.0]);
    let f0 = cs[0];
    let cs2 = cs.clone();
    let phi = move |a: f64| horner(&cs2, a);
    let ls = Backtracking::<f64> { c1: 1e-4, max_iterations: max_iter, max_infinity_iterations: 52, phi: 0.5, plo: 0.1,
        order: if third { FunctionOrder::THIRD } else { FunctionOrder::SECOND } };
    let dphi = |_a: f64| 0.0;
    let input = json!({"entry": "line_search", "coeffs": cs, "thr": null, "alpha0": alpha0, "third": third, "max_iter": max_iter, "df0": df0});
    match guard(|| ls.search(&phi, &dphi, alpha0, f0, df0)) {
        Err(msg) => out.fail("backtracking_armijo", &format!("the line search panicked: {}", msg), input),
        Ok(r) => {
            // variant 0 passes the test at once only if c1*a*df0 rounds away; otherwise all three must give up
            if !((r.alpha == 0.0 && r.f_x == f0) || (r.alpha > 0.0 && r.f_x <= f0 + 1e-4 * r.alpha * df0)) {
                out.fail("backtracking_armijo", "neither a sufficient-decrease step nor the zero step", input.clone());
            }
            let exp = coq_option(Some(coq_pair(&coq_f64(r.alpha), &coq_f64(r.f_x))));
            out.corr(
                "line_search_budget_exhausted",
                format!("corr_linesearch {} {} {} {} {} {} {}", coq_list_f64(&cs), coq_f64(f64::INFINITY), coq_f64(alpha0), coq_bool(third), coq_n(max_iter), coq_f64(df0), exp),
                input,
            );
        }
    }
}

fn corr_quad_trace(out: &mut Out, a: &[Vec<f64>], b: &[f64], x0: &[f64], third: bool, m: usize, max_iter: usize) {
    if let Ok(r) = run_quad(a, b, x0, third, m, max_iter) {
        if r.run.steps.len() > 60 {
            out.count("corr:lbfgs_quad_trace:excluded:long-trace");
            return;
        }
        let term = format!(
            "corr_quad_trace {} {} {} {} {} {} {} {} {} {}",
            coq_rows_f64(a),
            coq_list_f64(b),
            coq_list_f64(x0),
            coq_bool(third),
            coq_n(m),
            coq_n(max_iter),
            coq_list(r.run.steps.iter().map(coq_step)),
            coq_list_f64(&r.run.x_final),
            coq_list_f64(&r.run.g_final),
            coq_n(r.run.exit as usize),
        );
        out.corr("lbfgs_quad_trace", term, json!({"entry": "quad", "a": a, "b": b, "x0": x0, "third": third, "m": m, "max_iter": max_iter, "trace": json_run(&r.run, 60)}));
    }
}

fn corr_lr_trace(out: &mut Out, x: &[Vec<f64>], y: &[f64], alpha: f64, fit: &Fit) {
    let steps: Vec<String> = fit.run.steps.iter().take(40).map(coq_step).collect();
    let nrec = steps.len();
    // the gradient after the last replayed step
    let g_next = if fit.run.steps.len() > nrec { fit.run.steps[nrec].g.clone() } else { fit.run.g_final.clone() };
    let x_next = if fit.run.steps.len() > nrec { fit.run.steps[nrec].x.clone() } else { fit.run.x_final.clone() };
    out.corr(
        "lr_trace",
        format!("corr_trace {} {} {} {}", coq_n(10), coq_list(steps), coq_list_f64(&x_next), coq_list_f64(&g_next)),
        json!({"entry": "fit", "x": x, "y": y, "alpha": alpha, "trace": json_run(&fit.run, 40)}),
    );
}

fn corr_predict(out: &mut Out, rng: &mut Rng, x: &[Vec<f64>], y: &[f64], alpha: f64, fit: &Fit) {
    // queries: training rows and random points; near-tied scores are left out
    let p = x[0].len();
    let k = classes_of(y).len();
    let krows = fit.coef.len();
    let mut q: Vec<Vec<f64>> = x.iter().take(6).cloned().collect();
    for _ in 0..6 {
        let r = rng.pick(x).clone();
        q.push((0..p).map(|j| r[j] * rng.uniform(-1.5, 1.5)).collect());
    }
    q.retain(|xi| {
        let z: Vec<f64> = (0..krows).map(|c| xi.iter().zip(fit.coef[c].iter()).map(|(a, b)| a * b).sum::<f64>() + fit.icpt[c]).collect();
        let sc = z.iter().fold(1.0f64, |a, b| a.max(b.abs()));
        if k == 2 {
            z[0].abs() > 1e-9 * sc
        } else {
            let mut s = z.clone();
            s.sort_by(|a, b| b.partial_cmp(a).unwrap_or(std::cmp::Ordering::Equal));
            s[0] - s[1] > 1e-9 * sc
        }
    });
    if q.is_empty() {
        return;
    }
    let (x2, y2, q2) = (x.to_vec(), y.to_vec(), q.clone());
    if let Ok(Ok(f2)) = run_fit(&x2, &y2, alpha, &q2) {
        out.corr(
            "predict",
            format!(
                "corr_predict {} {} {} {} {}",
                coq_rows_f64(&f2.coef),
                coq_list_f64(&f2.icpt),
                coq_list_f64(&classes_of(y)),
                coq_rows_f64(&q),
                coq_list_f64(&f2.pred)
            ),
            json!({"entry": "predict", "x": x, "y": y, "alpha": alpha, "queries": q}),
        );
    }
}

/// whole fit inside Coq: small, strongly penalised two/three-class problems whose minimiser is well conditioned
fn corr_fit_end_to_end(out: &mut Out, rng: &mut Rng) {
    let k = if rng.chance(0.3) { 3 } else { 2 };
    let n = rng.usize_in(6, 10);
    let p = rng.usize_in(1, 2);
    let d = gen_data(rng, n, p, k, 1.0, 1.5);
    let alpha = *rng.pick(&[0.5, 1.0, 3.0]);
    if let Ok(Ok(fit)) = run_fit(&d.x, &d.y, alpha, &d.x) {
        if fit.run.exit != 1 || fit.run.iterations > 40 {
            out.count("corr:fit_end_to_end:excluded:not-a-short-gradient-exit");
            return;
        }
        out.corr(
            "fit_end_to_end",
            format!(
                "corr_fit {} {} {} {} {} {} {}",
                coq_n(p),
                coq_rows_f64(&d.x),
                coq_list_f64(&d.y),
                coq_f64(alpha),
                coq_rows_f64(&fit.coef),
                coq_list_f64(&fit.icpt),
                coq_list_f64(&classes_of(&d.y))
            ),
            json!({"entry": "fit", "x": d.x, "y": d.y, "alpha": alpha}),
        );
    }
}

// ------------------------------------------------------------------------------------------
// ------------------------------------------------------------------------------------------
// api_trait_twin: fit / predict through `smartcore::api::{SupervisedEstimator, Predictor}` give exactly
// what the inherent methods give (training matrix and fresh rows, model fitted either way)
// ------------------------------------------------------------------------------------------
fn twin_fit(x: &[Vec<f64>], y: &[f64], alpha: f64, queries: &[Vec<f64>]) -> Option<twin::Diff> {
    type LR = LogisticRegression<f64, DenseMatrix<f64>>;
    if x.is_empty() || x[0].is_empty() || queries.is_empty() {
        return None;
    }
    let xm = dense(x);
    let qm = dense(queries);
    let yv = y.to_vec();
    let p = LogisticRegressionParameters::default().with_alpha(alpha);
    let probes = [("the training matrix", &xm), ("the fresh rows", &qm)];
    twin::check(
        "SupervisedEstimator",
        "Predictor",
        "predict",
        || twin::fit_sup::<LR, _, _, _>(&xm, &yv, p.clone()),
        || LR::fit(&xm, &yv, p.clone()),
        |m: &LR, z: &DenseMatrix<f64>| twin::predict(m, z),
        |m: &LR, z: &DenseMatrix<f64>| m.predict(z),
        &probes,
        |m: &LR| serde_json::to_string(m).unwrap_or_default(),
        true,
    )
}
fn check_twin(out: &mut Out, x: &[Vec<f64>], y: &[f64], alpha: f64, queries: &[Vec<f64>], family: &str) {
    let mut kd: Vec<f64> = x.iter().flatten().cloned().collect();
    kd.extend(y.iter());
    kd.extend(queries.iter().flatten());
    kd.extend([alpha, -7.0]);
    out.eval(hash_f64s(&kd), x.len() > classes_of(y).len());
    out.count(&format!("twin:{}:{}", family, if alpha == 0.0 { "alpha=0" } else { "alpha>0" }));
    if twin_fit(x, y, alpha, queries).is_none() {
        return;
    }
    // shrink: fewer fresh rows, fewer training rows
    let (mut cx, mut cy, mut cq) = (x.to_vec(), y.to_vec(), queries.to_vec());
    let mut progress = true;
    let mut budget = 200;
    while progress && budget > 0 {
        progress = false;
        let mut i = 0;
        while cq.len() > 1 && i < cq.len() && budget > 0 {
            let mut t = cq.clone();
            t.remove(i);
            budget -= 1;
            if twin_fit(&cx, &cy, alpha, &t).is_some() { cq = t; progress = true; } else { i += 1; }
        }
        let mut i = 0;
        while cx.len() > 2 && i < cx.len() && budget > 0 {
            let (mut tx, mut ty) = (cx.clone(), cy.clone());
            tx.remove(i);
            ty.remove(i);
            budget -= 1;
            if twin_fit(&tx, &ty, alpha, &cq).is_some() { cx = tx; cy = ty; progress = true; } else { i += 1; }
        }
    }
    if let Some(d) = twin_fit(&cx, &cy, alpha, &cq) {
        out.count(&format!("twin:failing:{}", "LogisticRegression"));
        out.fail(
            twin::ORACLE,
            &format!("LogisticRegression: {}: {}", d.call, d.what),
            json!({"entry": "twin", "oracle": twin::ORACLE, "estimator": "LogisticRegression", "alpha": alpha, "x": cx, "y": cy, "queries": cq, "differing_call": d.call}),
        );
    }
}

fn replay(path: &str) -> i32 {
    let v = read_replay(path);
    let inp = if v.get("input").is_some() { v["input"].clone() } else { v.clone() };
    let mut out = Out::new("C09", "replay");
    let mut st = LrStats { zero_objective_exits: 0, worst_step_increase: 0.0, worst_pos_df0: 0.0, worst_cont: 0.0, max_legs: 0, worst: [0.0; 5], exits: [0; 5] };
    let mut qs = QuadStats { worst_pos_df0: 0.0, worst_k: 0.0, worst_ratio: 0.0, worst_iters: 0 };
    match inp["entry"].as_str().unwrap_or("") {
        "fit" | "predict" => {
            let x = rows_from_json(&inp["x"]);
            let y = f64s_from_json(&inp["y"]);
            let alpha = inp["alpha"].as_f64().unwrap_or(0.0);
            if let Err(msg) = run_fit(&x, &y, alpha, &x) {
                println!("REPLAY: property=C09 still fails (fit panics: {}): {}", msg, path);
                return 1;
            }
            check_fit(&mut out, &mut st, &x, &y, alpha, "replay");
        }
        "twin" => {
            let x = rows_from_json(&inp["x"]);
            let y = f64s_from_json(&inp["y"]);
            let q = rows_from_json(&inp["queries"]);
            if let Some(d) = twin_fit(&x, &y, inp["alpha"].as_f64().unwrap_or(0.0), &q) {
                println!("  {}: {}: {}", twin::ORACLE, d.call, d.what);
                out.fail(twin::ORACLE, &d.what, json!({}));
            }
        }
        "quad" => {
            let a = rows_from_json(&inp["a"]);
            let b = f64s_from_json(&inp["b"]);
            let x0 = f64s_from_json(&inp["x0"]);
            let third = inp["third"].as_bool().unwrap_or(true);
            let r = check_quad(&mut out, &mut qs, &a, &b, &x0, third, inp["cond"].as_f64().unwrap_or(1.0));
            if stats() {
                if let Some(r) = r {
                    for (i, s) in r.run.steps.iter().enumerate() {
                        eprintln!("step {} f {:e} df0 {:e} alpha {:e} f_new {:e} |g| {:e} |s| {:e}", i, s.f, s.df0, s.alpha, s.f_new, inf_norm(&s.g), inf_norm(&s.s));
                    }
                    eprintln!("exit {} iterations {} |g_final| {:e}", r.run.exit, r.iterations, inf_norm(&r.run.g_final));
                }
            }
        }
        "binary_objective" | "multi_objective" => {
            // objective values against the definition
            let x = rows_from_json(&inp["x"]);
            let yi = usizes_from_json(&inp["y"]);
            let alpha = inp["alpha"].as_f64().unwrap_or(0.0);
            let w = f64s_from_json(&inp["w"]);
            check_objective_point(&mut out, &x, &yi, alpha, &w, inp["k"].as_u64().unwrap_or(2) as usize);
        }
        "line_search" => {
            let cs = f64s_from_json(&inp["coeffs"]);
            let thr = inp["thr"].as_f64().unwrap_or(f64::INFINITY);
            check_linesearch_armijo_df0(&mut out, &cs, thr, inp["alpha0"].as_f64().unwrap_or(1.0), inp["third"].as_bool().unwrap_or(true), inp["max_iter"].as_u64().unwrap_or(1000) as usize, inp["df0"].as_f64());
        }
        _ => {
            // scalars / softmax correspondence cases have no search oracle of their own
            println!("REPLAY: property=C09 entry without a search oracle: {}", path);
            return 0;
        }
    }
    if out.n_fail() > 0 {
        println!("REPLAY: property=C09 still fails: {}", path);
        1
    } else {
        println!("REPLAY: property=C09 passes: {}", path);
        0
    }
}

/// search oracle for the objective functions themselves: value against the definition and gradient
/// against the definition's gradient (index layout: class-major, bias last, bias unpenalised)
fn check_objective_point(out: &mut Out, x: &[Vec<f64>], yi: &[usize], alpha: f64, w: &[f64], k: usize) {
    let p = x[0].len();
    let input = if k == 2 {
        json!({"entry": "binary_objective", "x": x, "y": yi, "alpha": alpha, "w": w})
    } else {
        json!({"entry": "multi_objective", "x": x, "y": yi, "k": k, "alpha": alpha, "w": w})
    };
    let mut key: Vec<f64> = x.iter().flatten().cloned().collect();
    key.extend_from_slice(w);
    key.push(alpha);
    out.eval(hash_f64s(&key), alpha > 0.0);
    out.count(&format!("search:objective:k={}", k));
    // labels as values 0..k-1 (all present or not does not matter for the formulas; but spec_obj_grad
    // derives the classes from y, so give it the index of each class explicitly)
    let krows = if k == 2 { 1 } else { k };
    let coef: Vec<Vec<f64>> = (0..krows).map(|c| w[c * (p + 1)..c * (p + 1) + p].to_vec()).collect();
    let icpt: Vec<f64> = (0..krows).map(|c| w[c * (p + 1) + p]).collect();
    // make every class present for the spec by appending nothing: use a direct evaluation instead
    let (fs, gs) = spec_indexed(x, yi, k, &coef, &icpt, alpha);
    let got = if k == 2 {
        guard(|| verif_binary_objective(&dense(x), yi.to_vec(), alpha, &row_vec(w)))
    } else {
        guard(|| verif_multiclass_objective(&dense(x), yi.to_vec(), k, alpha, &row_vec(w)))
    };
    match got {
        Err(msg) => out.fail("objective_value", &format!("panic: {}", msg), input),
        Ok((f, g)) => {
            let g = flat(&g);
            let fscale = fs.abs().max(1.0);
            // x > 15 shortcut of ln_1pe: within e^-15 per row
            if (f - fs).abs() > 1e-9 * fscale + 4e-7 * x.len() as f64 {
                let mut wv = input.clone();
                wv["expected"] = json!(fs);
                wv["got"] = json!(f);
                out.fail("objective_value", "coded objective differs from the penalised negative log-likelihood", wv);
                return;
            }
            let gscale: f64 = 1.0 + x.iter().map(|r| inf_norm(r).max(1.0)).sum::<f64>() + alpha * inf_norm(w);
            for j in 0..g.len() {
                if (g[j] - gs[j]).abs() > 1e-9 * gscale {
                    let mut wv = input.clone();
                    wv["coordinate"] = json!(j);
                    wv["expected"] = json!(gs[j]);
                    wv["got"] = json!(g[j]);
                    out.fail("df_is_gradient", "coded gradient differs from the gradient of the penalised negative log-likelihood (intercepts unpenalised)", wv);
                    return;
                }
            }
        }
    }
}
fn spec_indexed(x: &[Vec<f64>], yi: &[usize], k: usize, coef: &[Vec<f64>], icpt: &[f64], alpha: f64) -> (f64, Vec<f64>) {
    // same formulas as spec_obj_grad with class indices given directly
    let p = x[0].len();
    let mut f = 0.0;
    if k == 2 {
        let mut g = vec![0.0; p + 1];
        for (xi, yv) in x.iter().zip(yi.iter()) {
            let z: f64 = xi.iter().zip(coef[0].iter()).map(|(a, b)| a * b).sum::<f64>() + icpt[0];
            let t = *yv as f64;
            f += log1pexp(z) - t * z;
            let d = logistic(z) - t;
            for j in 0..p {
                g[j] += d * xi[j];
            }
            g[p] += d;
        }
        for j in 0..p {
            f += 0.5 * alpha * coef[0][j] * coef[0][j];
            g[j] += alpha * coef[0][j];
        }
        (f, g)
    } else {
        let mut g = vec![0.0; k * (p + 1)];
        for (xi, yv) in x.iter().zip(yi.iter()) {
            let z: Vec<f64> = (0..k).map(|c| xi.iter().zip(coef[c].iter()).map(|(a, b)| a * b).sum::<f64>() + icpt[c]).collect();
            let m = z.iter().fold(f64::NEG_INFINITY, |a, b| a.max(*b));
            let lse = m + z.iter().map(|v| (v - m).exp()).sum::<f64>().ln();
            f += lse - z[*yv];
            for c in 0..k {
                let d = (z[c] - lse).exp() - if c == *yv { 1.0 } else { 0.0 };
                for j in 0..p {
                    g[c * (p + 1) + j] += d * xi[j];
                }
                g[c * (p + 1) + p] += d;
            }
        }
        for c in 0..k {
            for j in 0..p {
                f += 0.5 * alpha * coef[c][j] * coef[c][j];
                g[c * (p + 1) + j] += alpha * coef[c][j];
            }
        }
        (f, g)
    }
}

/// search oracle for the line search: a normal return satisfies the sufficient-decrease inequality
fn check_linesearch_armijo(out: &mut Out, cs: &[f64], thr: f64, alpha0: f64, third: bool, max_iter: usize) {
    check_linesearch_armijo_df0(out, cs, thr, alpha0, third, max_iter, None)
}
fn check_linesearch_armijo_df0(out: &mut Out, cs: &[f64], thr: f64, alpha0: f64, third: bool, max_iter: usize, df0_given: Option<f64>) {
    let mut input = json!({"entry": "line_search", "coeffs": cs, "thr": if thr.is_finite() { json!(thr) } else { json!(null) }, "alpha0": alpha0, "third": third, "max_iter": max_iter});
    if let Some(d) = df0_given {
        input["df0"] = json!(d);
    }
    let (f0, df0) = (cs[0], df0_given.unwrap_or(if cs.len() > 1 { cs[1] } else { 0.0 }));
    let cs2 = cs.to_vec();
    let phi = move |a: f64| if a > thr { f64::INFINITY } else { horner(&cs2, a) };
    let ls = Backtracking::<f64> {
        c1: 1e-4,
        max_iterations: max_iter,
        max_infinity_iterations: 52,
        phi: 0.5,
        plo: 0.1,
        order: if third { FunctionOrder::THIRD } else { FunctionOrder::SECOND },
    };
    let dphi = |_a: f64| 0.0;
    let mut key = cs.to_vec();
    key.push(thr);
    key.push(alpha0);
    key.push(if third { 1.0 } else { 0.0 });
    out.eval(hash_f64s(&key), df0 < 0.0);
    out.count("search:line_search");
    if let Ok(r) = guard(|| ls.search(&phi, &dphi, alpha0, f0, df0)) {
        let fa = phi(r.alpha);
        // either a positive step with sufficient decrease, or (budget exhausted) the zero step with the value f0
        let ok = (r.alpha > 0.0 && r.alpha <= alpha0 && fa == r.f_x && fa <= f0 + 1e-4 * r.alpha * df0 && (df0 > 0.0 || fa <= f0))
            || (r.alpha == 0.0 && r.f_x == f0);
        if r.alpha == 0.0 {
            out.count("search:line_search:gave-up(zero step)");
        }
        if !ok {
            let mut w = input.clone();
            w["alpha"] = json!(r.alpha);
            w["f_x"] = json!(r.f_x);
            out.fail("backtracking_armijo", "returned step violates 0 < alpha <= alpha0, f_x = f(alpha) or the sufficient-decrease inequality", w);
        }
    } else {
        out.fail("backtracking_armijo", "the line search panicked", input);
    }
}

fn main() {
    quiet_panics();
    let a = args();
    if let Some(p) = &a.replay {
        std::process::exit(replay(p));
    }
    let mut rng = Rng::new(a.seed);
    let mut out = Out::new(
        "C09",
        "search case = (training set, alpha) | (SPD quadratic, start, interpolation order) | (objective, point) | (1-D polynomial line search); non-trivial: fit with more rows than classes and starting gradient >= 0.05, quadratic of dimension >= 2 not started at its optimum, objective point with alpha > 0, line search along a descent direction; distinct by hash of all numbers of the input. api-trait twin case = a training set fitted and queried through smartcore::api::{SupervisedEstimator, Predictor} and through the inherent methods; all results must coincide bit for bit",
    );
    let mut st = LrStats { zero_objective_exits: 0, worst_step_increase: 0.0, worst_pos_df0: 0.0, worst_cont: 0.0, max_legs: 0, worst: [0.0; 5], exits: [0; 5] };
    let mut qs = QuadStats { worst_pos_df0: 0.0, worst_k: 0.0, worst_ratio: 0.0, worst_iters: 0 };
    let t0 = std::time::Instant::now();

    // ---- corpus: D5 (softmax of very negative scores) through the multinomial objective; the crate's own iris-like case
    {
        let x = vec![vec![-1000.0, 1.0], vec![-1001.0, 2.0], vec![-1002.0, -1.0], vec![-999.0, 0.5], vec![-1003.0, 0.0], vec![-1000.5, 1.5]];
        let y = vec![0.0, 1.0, 2.0, 0.0, 1.0, 2.0];
        check_fit(&mut out, &mut st, &x, &y, 1.0, "corpus");
        let yi: Vec<usize> = y.iter().map(|v| *v as usize).collect();
        let w: Vec<f64> = vec![1.0, 0.5, 0.0, 1.0, -0.5, 1.0, 1.0, 0.0, -1.0];
        check_objective_point(&mut out, &x, &yi, 1.0, &w, 3);
    }

    // ---- corpus: the repaired line-search panic (78b374f): separable two-class data, alpha = 0 (the default); the
    // coded objective reaches exactly 0 with a gradient of 1e-7, no step passes the Armijo test; fit must return
    {
        let x: Vec<Vec<f64>> = vec![
            vec![53.0, -29.0, -314.0], vec![21.0, -32.0, -3.0], vec![-20.0, -28.0, -325.0], vec![14.0, -29.0, 110.0], vec![37.0, -30.0, 95.0],
            vec![-34.0, -27.0, -205.0], vec![-1.0, -27.0, -335.0], vec![21.0, -28.0, 61.0], vec![30.0, -29.0, 167.0]];
        let y = vec![0.0, 1.0, 0.0, 1.0, 1.0, 0.0, 0.0, 1.0, 1.0];
        check_fit(&mut out, &mut st, &x, &y, 0.0, "corpus");
    }

    // ---- correspondence ----
    let (n_obj, n_ls, n_qt, n_lr, n_e2e) = if a.thorough { (160, 200, 60, 40, 16) } else { (40, 50, 14, 10, 5) };
    corr_scalars(&mut out, &mut rng);
    for _ in 0..n_obj {
        corr_objective(&mut out, &mut rng);
    }
    for _ in 0..n_ls {
        corr_linesearch(&mut out, &mut rng);
    }
    for _ in 0..(if a.thorough { 24 } else { 8 }) {
        corr_linesearch_exhaust(&mut out, &mut rng);
    }
    for i in 0..n_qt {
        let n = rng.usize_in(1, 5);
        let cond = log_uniform(&mut rng, 1.0, 1e3);
        let lmax = log_uniform(&mut rng, 0.1, 10.0);
        let am = gen_spd(&mut rng, n, cond, lmax);
        let b: Vec<f64> = (0..n).map(|_| rng.normal()).collect();
        let x0: Vec<f64> = (0..n).map(|_| rng.normal() * *rng.pick(&[0.0, 1.0, 10.0])).collect();
        // small memories and iteration budgets exercise the circular history and the max_iter exit
        let m = *rng.pick(&[10usize, 10, 3, 2, 1]);
        let max_iter = if i % 5 == 4 { rng.usize_in(1, 6) } else { 1000 };
        corr_quad_trace(&mut out, &am, &b, &x0, rng.bool(), m, max_iter);
    }
    for _ in 0..n_lr {
        let k = rng.usize_in(2, 3);
        let n = rng.usize_in(6, 14);
        let p = rng.usize_in(1, 3);
        let sep = *rng.pick(&[0.0, 1.0, 2.0, 5.0]);
        let d = gen_data(&mut rng, n, p, k, sep, 10.0);
        let alpha = *rng.pick(&[0.0, 0.01, 0.3, 1.0, 10.0]);
        if let Some(fit) = check_fit(&mut out, &mut st, &d.x, &d.y, alpha, &d.family) {
            corr_lr_trace(&mut out, &d.x, &d.y, alpha, &fit);
            corr_predict(&mut out, &mut rng, &d.x, &d.y, alpha, &fit);
        }
    }
    for _ in 0..n_e2e {
        corr_fit_end_to_end(&mut out, &mut rng);
    }
    let t_corr = t0.elapsed().as_secs_f64();

    // ---- search: objective functions at random points ----
    for _ in 0..(if a.thorough { 12000 } else { 1500 }) {
        let n = rng.usize_in(1, 30);
        let p = rng.usize_in(1, 6);
        let k = rng.usize_in(2, 4);
        let scale = log_uniform(&mut rng, 0.1, 100.0);
        let x: Vec<Vec<f64>> = (0..n).map(|_| (0..p).map(|_| rng.normal() * scale + if rng.bool() { scale } else { 0.0 }).collect()).collect();
        let yi: Vec<usize> = (0..n).map(|_| rng.below(k)).collect();
        let alpha = *rng.pick(&[0.0, 0.01, 0.5, 1.0, 10.0]);
        let wscale = *rng.pick(&[0.0, 0.01, 0.3, 2.0]) / scale.max(1.0).sqrt();
        let w: Vec<f64> = (0..(if k == 2 { 1 } else { k }) * (p + 1)).map(|_| rng.normal() * wscale).collect();
        check_objective_point(&mut out, &x, &yi, alpha, &w, k);
    }
    // ---- search: line search on random cubics / quartics ----
    for _ in 0..(if a.thorough { 60000 } else { 6000 }) {
        let deg = rng.usize_in(2, 4);
        let mut cs: Vec<f64> = (0..=deg).map(|_| rng.normal() * *rng.pick(&[1.0, 5.0, 30.0, 1000.0])).collect();
        if rng.chance(0.9) {
            cs[1] = -cs[1].abs();
        }
        if rng.chance(0.8) {
            cs[deg] = cs[deg].abs() * *rng.pick(&[1.0, 10.0, 100.0]);
        }
        let thr = if rng.chance(0.2) { rng.uniform(0.01, 0.9) } else { f64::INFINITY };
        check_linesearch_armijo(&mut out, &cs, thr, *rng.pick(&[1.0, 0.5, 2.0]), rng.bool(), 1000);
    }
    // ---- search: L-BFGS on SPD quadratics, dimension 1..12, cond <= 1e4, any start ----
    for i in 0..(if a.thorough { 12000 } else { 1500 }) {
        let n = rng.usize_in(1, 12);
        let cond = if n == 1 { 1.0 } else { log_uniform(&mut rng, 1.0, 1e4) };
        let lmax = log_uniform(&mut rng, 1e-2, 1e2);
        let am = gen_spd(&mut rng, n, cond, lmax);
        let b: Vec<f64> = (0..n).map(|_| rng.normal() * *rng.pick(&[0.0, 1.0, 100.0])).collect();
        let xs = *rng.pick(&[0.0, 1e-2, 1.0, 1e2, 1e4]);
        let x0: Vec<f64> = (0..n).map(|_| rng.normal() * xs).collect();
        let r = check_quad(&mut out, &mut qs, &am, &b, &x0, i % 4 != 0, cond);
        if i < 2 {
            if let Some(r) = r {
                out.sample(json!({"a": am, "b": b, "x0": x0, "iterations": r.iterations, "exit": r.run.exit, "f_x": r.f_x}));
            }
        }
    }
    // ---- search: logistic regression fits ----
    let nfit = if a.thorough { 5000 } else { 600 };
    for i in 0..nfit {
        let k = *rng.pick(&[2usize, 2, 3, 3, 4]);
        let n = if rng.chance(0.15) { rng.usize_in(6, 9).max(k + 1) } else { rng.usize_in(10, if a.thorough { 100 } else { 60 }) };
        let p = rng.usize_in(1, 6);
        let sep = *rng.pick(&[0.0, 0.5, 1.0, 2.0, 4.0, 6.0]);
        let d = gen_data(&mut rng, n, p, k, sep, 100.0);
        let alpha = if i % 5 == 0 { 0.0 } else { log_uniform(&mut rng, 1e-2, 10.0) };
        let fit = check_fit(&mut out, &mut st, &d.x, &d.y, alpha, &d.family);
        if i < 2 {
            if let Some(f) = fit {
                out.sample(json!({"x": d.x, "y": d.y, "alpha": alpha, "coefficients": f.coef, "intercept": f.icpt, "exit": f.run.exit, "iterations": f.run.iterations}));
            }
        }
    }
    // ---- api-trait twins (last: the streams of the sections above are unchanged) ----
    for i in 0..(if a.thorough { 400 } else { 50 }) {
        let k = *rng.pick(&[2usize, 2, 3, 4]);
        let n = rng.usize_in(k + 2, 40);
        let p = rng.usize_in(1, 5);
        let sep = *rng.pick(&[0.0, 1.0, 2.0, 5.0]);
        let d = gen_data(&mut rng, n, p, k, sep, 10.0);
        let alpha = if i % 4 == 0 { 0.0 } else { log_uniform(&mut rng, 1e-2, 10.0) };
        let q: Vec<Vec<f64>> = (0..4).map(|_| { let r = rng.pick(&d.x).clone(); r.iter().map(|v| v * rng.uniform(0.5, 1.5) + rng.normal()).collect() }).collect();
        check_twin(&mut out, &d.x, &d.y, alpha, &q, &d.family);
    }
    // ---- unequal class sizes on large, commonly shifted features (own generator: streams above unchanged).
    // g(0) then lines up with the dominant direction of X^T X and the very first line search needs
    // 10-25 contractions: the family that exercises the line search's contraction budget and its null-step exit.
    {
        let mut r2 = Rng::new(a.seed ^ 0x5eed_09f1);
        for i in 0..(if a.thorough { 1500 } else { 150 }) {
            let k = *r2.pick(&[2usize, 2, 2, 3]);
            let n = r2.usize_in(25, if a.thorough { 100 } else { 70 });
            let p = r2.usize_in(1, 6);
            let sep = *r2.pick(&[0.0, 0.5, 1.0, 2.0]);
            let labels = label_values(&mut r2, k);
            let centers: Vec<Vec<f64>> = (0..k).map(|_| (0..p).map(|_| r2.normal() * sep).collect()).collect();
            let scales: Vec<f64> = (0..p).map(|_| log_uniform(&mut r2, 30.0, 100.0)).collect();
            let shifts: Vec<f64> = (0..p).map(|j| r2.uniform(2.0, 4.0) * scales[j] * if r2.bool() { 1.0 } else { -1.0 }).collect();
            let minority = r2.uniform(0.04, 0.25);
            let mut x = vec![];
            let mut y = vec![];
            for i in 0..n {
                let c = if i < k { i } else if r2.chance(minority) { r2.usize_in(1, k - 1) } else { 0 };
                x.push((0..p).map(|j| (centers[c][j] + r2.normal()) * scales[j] + shifts[j]).collect::<Vec<f64>>());
                y.push(labels[c]);
            }
            let mut idx: Vec<usize> = (0..n).collect();
            r2.shuffle(&mut idx);
            let x2: Vec<Vec<f64>> = idx.iter().map(|&i| x[i].clone()).collect();
            let y2: Vec<f64> = idx.iter().map(|&i| y[i]).collect();
            let alpha = if i % 6 == 0 { 0.0 } else { log_uniform(&mut r2, 1e-2, 10.0) };
            let family = format!("{}:skewed-large-shift", if k == 2 { "binary" } else { "multi" });
            check_fit(&mut out, &mut st, &x2, &y2, alpha, &family);
        }
    }
    out.set(
        "stationarity_by_exit",
        json!({"exits": {"start": st.exits[0], "gradient": st.exits[1], "step": st.exits[2], "objective_flat": st.exits[3], "max_iter": st.exits[4]},
               "worst_ratio": {"start": st.worst[0], "gradient": st.worst[1], "step": st.worst[2], "objective_flat": st.worst[3], "max_iter": st.worst[4]},
               "limits": {"gradient": TOL_GRAD_EXIT, "flat": TOL_FLAT_EXIT, "max_iter": TOL_MAXITER},
               "largest_single_step_increase_along_a_non_descent_direction_relative_to_starting_objective": st.worst_step_increase,
               "fits_ending_with_coded_objective_exactly_zero_and_gradient_above_g_atol": st.zero_objective_exits,
               "max_iter_runs_continued": {"worst_ratio_after_continuation": st.worst_cont, "max_legs_of_1000_iterations": st.max_legs}}),
    );
    out.set("quadratics", json!({"worst_gradient_ratio": qs.worst_ratio, "max_iterations": qs.worst_iters,
        "resolution_limited_runs_worst_available_decrease_over_rounding_level": qs.worst_k,
        "largest_nonnegative_df0_over_f": {"quadratics": qs.worst_pos_df0, "fits": st.worst_pos_df0}}));
    out.set("seconds", json!({"correspondence_part": t_corr, "total": t0.elapsed().as_secs_f64()}));
    if stats() {
        eprintln!("posdf0 {:e} {:e} K {:e} cont worst {:e} legs {} exits {:?} worst {:?} quad worst {:e} iters {} time {:.1}s", st.worst_pos_df0, qs.worst_pos_df0, qs.worst_k, st.worst_cont, st.max_legs, st.exits, st.worst, qs.worst_ratio, qs.worst_iters, t0.elapsed().as_secs_f64());
    }
    out.finish(&a.out);
}
