//! C03 — dense matrix and vector algebra: correspondence cases for the Coq model (SC.C03.Corr, compared
//! on the implementation's own column-major storage) and the failing-input search (oracles written from
//! the property text on the logical rows-by-columns view, read through the public accessors).
//! Every matrix an operation under test returns or mutates additionally passes the universal post-condition
//! `storage_consistent` (it behaves exactly like the matrix rebuilt from its logical view under every
//! operation that walks the raw buffer), and random 2-3 step chains of operations are compared step by step
//! with the same operation applied to the rebuilt-from-logical-view operand (`chain_equals_rebuilt`) and with
//! the definitions (`chain_definition`).
use serde_json::{json, Value};
use smartcore::linalg::high_order::HighOrderOperations;
use smartcore::linalg::naive::dense_matrix::DenseMatrix;
use smartcore::linalg::stats::{MatrixPreprocessing, MatrixStats};
use smartcore::linalg::{BaseMatrix, BaseVector};
use smartcore::math::num::RealNumber;
use vharness::*;

type Rows = Vec<Vec<f64>>;

/// scalar type under test (f64 or f32) with exact conversion to/from f64
trait Sc: RealNumber + serde::Serialize + serde::de::DeserializeOwned + 'static {
    const F32: bool;
    fn of(x: f64) -> Self;
    fn f(self) -> f64;
    fn eps() -> f64;
}
impl Sc for f64 {
    const F32: bool = false;
    fn of(x: f64) -> f64 {
        x
    }
    fn f(self) -> f64 {
        self
    }
    fn eps() -> f64 {
        f64::EPSILON
    }
}
impl Sc for f32 {
    const F32: bool = true;
    fn of(x: f64) -> f32 {
        x as f32
    }
    fn f(self) -> f64 {
        self as f64
    }
    fn eps() -> f64 {
        f32::EPSILON as f64
    }
}

fn shape_of(a: &Rows) -> (usize, usize) {
    (a.len(), if a.is_empty() { 0 } else { a[0].len() })
}
fn rows_t<T: Sc>(a: &Rows) -> Vec<Vec<T>> {
    a.iter().map(|r| r.iter().map(|x| T::of(*x)).collect()).collect()
}
fn vec_t<T: Sc>(a: &[f64]) -> Vec<T> {
    a.iter().map(|x| T::of(*x)).collect()
}
fn vec_f<T: Sc>(a: &[T]) -> Vec<f64> {
    a.iter().map(|x| x.f()).collect()
}
fn mk<T: Sc>(a: &Rows) -> DenseMatrix<T> {
    DenseMatrix::from_2d_vec(&rows_t::<T>(a))
}
/// logical view through the public accessors
fn view<T: Sc>(m: &DenseMatrix<T>) -> Rows {
    let (n, p) = m.shape();
    (0..n).map(|r| (0..p).map(|c| m.get(r, c).f()).collect()).collect()
}
fn flat(a: &Rows) -> Vec<f64> {
    a.iter().flatten().cloned().collect()
}
fn colmajor(a: &Rows) -> Vec<f64> {
    let (n, p) = shape_of(a);
    let mut v = vec![];
    for c in 0..p {
        for r in 0..n {
            v.push(a[r][c]);
        }
    }
    v
}
fn round_to<T: Sc>(a: &Rows) -> Rows {
    a.iter().map(|r| r.iter().map(|x| T::of(*x).f()).collect()).collect()
}
fn same(x: f64, y: f64) -> bool {
    x == y || (x.is_nan() && y.is_nan())
}
fn same_rows(a: &Rows, b: &Rows) -> bool {
    a.len() == b.len() && a.iter().zip(b.iter()).all(|(r, s)| r.len() == s.len() && r.iter().zip(s.iter()).all(|(x, y)| same(*x, *y)))
}
fn same_vec(a: &[f64], b: &[f64]) -> bool {
    a.len() == b.len() && a.iter().zip(b.iter()).all(|(x, y)| same(*x, *y))
}
fn close(x: f64, y: f64, tol: f64) -> bool {
    same(x, y) || (x - y).abs() <= tol
}
/// compensated sum of the terms and the sum of their magnitudes
fn csum(terms: &[f64]) -> (f64, f64) {
    let (mut s, mut c, mut a) = (0.0f64, 0.0f64, 0.0f64);
    for &t in terms {
        let y = s + t;
        if s.abs() >= t.abs() {
            c += (s - y) + t;
        } else {
            c += (t - y) + s;
        }
        s = y;
        a += t.abs();
    }
    (s + c, a)
}
fn num(c: &Case, i: usize, d: f64) -> f64 {
    if i < c.nums.len() { c.nums[i] } else { d }
}
fn maxabs(a: &[f64]) -> f64 {
    a.iter().fold(0.0, |m, x| if x.abs() > m { x.abs() } else { m })
}

// ------------------------------------------------------------------------------------------
// search cases: every oracle takes a self-contained `Case` (that is the replay input)
// ------------------------------------------------------------------------------------------
#[derive(Clone, Debug, Default)]
struct Case {
    entry: String,
    f32m: bool,
    family: String,
    a: Rows,
    b: Rows,
    idx: Vec<usize>,
    dims: Vec<usize>,
    nums: Vec<f64>,
}
impl Case {
    fn to_json(&self) -> Value {
        json!({"entry": self.entry, "f32": self.f32m, "family": self.family, "a": self.a, "b": self.b,
               "idx": self.idx, "dims": self.dims, "nums": self.nums})
    }
    fn from_json(v: &Value) -> Case {
        Case {
            entry: v["entry"].as_str().unwrap_or("").to_string(),
            f32m: v["f32"].as_bool().unwrap_or(false),
            family: v["family"].as_str().unwrap_or("").to_string(),
            a: rows_from_json(&v["a"]),
            b: rows_from_json(&v["b"]),
            idx: usizes_from_json(&v["idx"]),
            dims: usizes_from_json(&v["dims"]),
            nums: f64s_from_json(&v["nums"]),
        }
    }
    fn key(&self) -> u64 {
        let mut d = flat(&self.a);
        d.extend(flat(&self.b));
        d.extend(self.nums.iter());
        d.extend(self.idx.iter().map(|x| *x as f64));
        d.extend(self.dims.iter().map(|x| *x as f64));
        d.push(self.a.len() as f64);
        d.push(self.b.len() as f64);
        d.push(if self.f32m { 1.0 } else { 0.0 });
        hash_f64s(&d) ^ hash_of(&self.entry)
    }
}

#[derive(Default)]
struct Verdict {
    fails: Vec<(String, String)>,
    known: Vec<(String, String)>,
    excluded: u32,
    posts: u32,
}
impl Verdict {
    fn fail(&mut self, oracle: &str, what: String) {
        if self.fails.len() < 4 {
            self.fails.push((oracle.to_string(), what));
        }
    }
    fn chk<F: FnOnce() -> String>(&mut self, ok: bool, oracle: &str, what: F) {
        if !ok {
            self.fail(oracle, what());
        }
    }
    /// the call must panic (shape contract)
    fn must_panic<R>(&mut self, oracle: &str, what: &str, r: Result<R, String>) {
        if r.is_ok() {
            self.fail(oracle, format!("{}: accepted instead of being rejected (panic)", what));
        }
    }
    /// the call must succeed; returns the value
    fn must_ok<R>(&mut self, oracle: &str, what: &str, r: Result<R, String>) -> Option<R> {
        match r {
            Ok(x) => Some(x),
            Err(e) => {
                self.fail(oracle, format!("{}: panicked on valid input: {}", what, e));
                None
            }
        }
    }
    /// matrix result: shape and exact values of the logical view
    fn mat_exact<T: Sc>(&mut self, oracle: &str, what: &str, r: Result<DenseMatrix<T>, String>, exp: &Rows) {
        if let Some(m) = self.must_ok(oracle, what, r) {
            let (n, p) = shape_of(exp);
            if m.shape() != (n, p) {
                self.fail(oracle, format!("{}: shape {:?}, expected {:?}", what, m.shape(), (n, p)));
            } else {
                let got = view(&m);
                if !same_rows(&got, exp) {
                    self.fail(oracle, format!("{}: got {:?}, expected {:?}", what, got, exp));
                }
            }
            self.post(what, &m);
        }
    }
    /// matrix result with an entrywise absolute tolerance
    fn mat_close<T: Sc>(&mut self, oracle: &str, what: &str, r: Result<DenseMatrix<T>, String>, exp: &Rows, tol: &Rows) {
        if let Some(m) = self.must_ok(oracle, what, r) {
            let (n, p) = shape_of(exp);
            if m.shape() != (n, p) {
                self.fail(oracle, format!("{}: shape {:?}, expected {:?}", what, m.shape(), (n, p)));
            } else {
                let got = view(&m);
                'cmp: for r in 0..n {
                    for c in 0..p {
                        if !close(got[r][c], exp[r][c], tol[r][c]) {
                            self.fail(oracle, format!("{}: entry ({},{}) = {:e}, expected {:e} (tolerance {:e})", what, r, c, got[r][c], exp[r][c], tol[r][c]));
                            break 'cmp;
                        }
                    }
                }
            }
            self.post(what, &m);
        }
    }
    fn vec_exact(&mut self, oracle: &str, what: &str, r: Result<Vec<f64>, String>, exp: &[f64]) {
        if let Some(g) = self.must_ok(oracle, what, r) {
            if !same_vec(&g, exp) {
                self.fail(oracle, format!("{}: got {:?}, expected {:?}", what, g, exp));
            }
        }
    }
    fn num_close(&mut self, oracle: &str, what: &str, r: Result<f64, String>, exp: f64, tol: f64) {
        if let Some(g) = self.must_ok(oracle, what, r) {
            if !close(g, exp, tol) {
                self.fail(oracle, format!("{}: got {:e}, expected {:e} (tolerance {:e})", what, g, exp, tol));
            }
        }
    }
    /// in-place variant and copying variant must agree bit for bit (the in-place result also passes the
    /// post-condition here; the copying one passes it where it is compared with its definition)
    fn same_variants<T: Sc>(&mut self, what: &str, a: &Result<DenseMatrix<T>, String>, b: &Result<DenseMatrix<T>, String>) {
        if let Ok(x) = a {
            self.post(&format!("{} (in-place variant)", what), x);
        }
        match (a, b) {
            (Ok(x), Ok(y)) => {
                if x.shape() != y.shape() || !same_rows(&view(x), &view(y)) {
                    self.fail("inplace_equals_copy", format!("{}: in-place {:?} vs copying {:?}", what, view(x), view(y)));
                }
            }
            (Err(_), Err(_)) => {}
            _ => self.fail("inplace_equals_copy", format!("{}: one variant panicked, the other did not", what)),
        }
    }
}

// ------------------------------------------------------------------------------------------
// universal post-condition `storage_consistent`: a matrix that an operation returned or mutated is an
// ordinary matrix, i.e. it is indistinguishable from the matrix rebuilt from its logical view
// (get(i,j) over the reported shape, through from_2d_array / from_vec) under every operation that reads
// the raw buffer.  A well-formed DenseMatrix has exactly one storage for a given view (column-major,
// rows*cols values), so every comparison below is bit for bit (NaN = NaN) - no tolerance is needed.
// ------------------------------------------------------------------------------------------
fn agree_f(a: &Result<f64, String>, b: &Result<f64, String>) -> bool {
    match (a, b) { (Ok(x), Ok(y)) => same(*x, *y), (Err(_), Err(_)) => true, _ => false }
}
fn agree_v(a: &Result<Vec<f64>, String>, b: &Result<Vec<f64>, String>) -> bool {
    match (a, b) { (Ok(x), Ok(y)) => same_vec(x, y), (Err(_), Err(_)) => true, _ => false }
}
fn agree_m(a: &Result<Rows, String>, b: &Result<Rows, String>) -> bool {
    match (a, b) { (Ok(x), Ok(y)) => same_rows(x, y), (Err(_), Err(_)) => true, _ => false }
}
fn short<R: std::fmt::Debug>(r: &R) -> String {
    let s = format!("{:?}", r);
    if s.len() > 160 { format!("{}...", &s[..160]) } else { s }
}
fn storage_issues<T: Sc>(m: &DenseMatrix<T>) -> Vec<String> {
    let mut is: Vec<String> = vec![];
    let (n, p) = m.shape();
    if n == 0 || p == 0 {
        return is;
    }
    let vw = match guard(|| view(m)) {
        Ok(x) => x,
        Err(e) => {
            is.push(format!("get(i,j) over the reported shape {}x{} panicked: {}", n, p, e));
            return is;
        }
    };
    let fl = flat(&vw);
    let rt = rows_t::<T>(&vw);
    let refs: Vec<&[T]> = rt.iter().map(|r| &r[..]).collect();
    let e = DenseMatrix::<T>::from_2d_array(&refs);
    let e2 = DenseMatrix::<T>::from_vec(n, p, &vec_t::<T>(&fl));
    // (a) exact and approximate equality with the rebuilt matrix, both directions
    let eqs: Vec<(&str, Result<bool, String>)> = vec![
        ("result == rebuilt", guard(|| *m == e)),
        ("rebuilt == result", guard(|| e == *m)),
        ("result == rebuilt (from_vec)", guard(|| *m == e2)),
        ("result.approximate_eq(rebuilt, 0)", guard(|| m.approximate_eq(&e, T::zero()))),
        ("rebuilt.approximate_eq(result, 0)", guard(|| e.approximate_eq(m, T::zero()))),
    ];
    for (name, r) in &eqs {
        if *r != Ok(true) {
            is.push(format!("{} is {:?}", name, r));
        }
    }
    // (b) iteration: exactly rows*cols items in row-major order
    let it = guard(|| m.iter().take(n * p + 8).map(|x| x.f()).collect::<Vec<f64>>());
    if !agree_v(&it, &Ok(fl.clone())) {
        is.push(format!("iter() yields {} (expected the {} entries of the view in row-major order)", short(&it), n * p));
    }
    let trv = guard(|| vec_f(&m.clone().to_row_vector()));
    if !agree_v(&trv, &Ok(fl.clone())) {
        is.push(format!("to_row_vector() = {}", short(&trv)));
    }
    // (c) operations that read the buffer: same value as on the rebuilt matrix
    type Red<T> = (&'static str, fn(&DenseMatrix<T>) -> T);
    let reds: Vec<Red<T>> = vec![
        ("sum", |q| q.sum()), ("min", |q| q.min()), ("max", |q| q.max()), ("norm2", |q| q.norm2()),
        ("norm(1)", |q| q.norm(T::one())), ("norm(2)", |q| q.norm(T::two())),
        ("norm(+inf)", |q| q.norm(T::infinity())), ("norm(-inf)", |q| q.norm(T::neg_infinity())),
    ];
    for (name, f) in &reds {
        let (g, w) = (guard(|| f(m).f()), guard(|| f(&e).f()));
        if !agree_f(&g, &w) {
            is.push(format!("{} = {:?}, on the rebuilt matrix {:?}", name, g, w));
        }
    }
    {
        let (g, w) = (guard(|| vec_f(&m.unique())), guard(|| vec_f(&e.unique())));
        if !agree_v(&g, &w) {
            is.push(format!("unique = {}, on the rebuilt matrix {}", short(&g), short(&w)));
        }
        let w = guard(|| e.max_diff(&e).f());
        for (name, g) in [("result.max_diff(rebuilt)", guard(|| m.max_diff(&e).f())), ("rebuilt.max_diff(result)", guard(|| e.max_diff(m).f()))] {
            if !agree_f(&g, &w) || (fl.iter().all(|t| t.is_finite()) && g != Ok(0.0)) {
                is.push(format!("{} = {:?} (expected 0)", name, g));
            }
        }
        let want: Result<Rows, String> = Ok(vw.clone());
        let g = guard(|| { let mut z = DenseMatrix::<T>::zeros(n, p); z.copy_from(m); view(&z) });
        if !agree_m(&g, &want) {
            is.push(format!("zeros(rows, cols).copy_from(result) gives {}", short(&g)));
        }
        let g = guard(|| { let mut z = m.clone(); z.copy_from(&e); view(&z) });
        if !agree_m(&g, &want) {
            is.push(format!("result.copy_from(rebuilt) gives {}", short(&g)));
        }
        if n == 1 || p == 1 {
            let w = guard(|| e.dot(&e).f());
            for (name, g) in [("result.dot(rebuilt)", guard(|| m.dot(&e).f())), ("rebuilt.dot(result)", guard(|| e.dot(m).f()))] {
                if !agree_f(&g, &w) {
                    is.push(format!("{} = {:?}, rebuilt.dot(rebuilt) = {:?}", name, g, w));
                }
            }
        }
        let g = guard(|| { let mut z = m.clone(); z.softmax_mut(); view(&z) });
        let w = guard(|| { let mut z = e.clone(); z.softmax_mut(); view(&z) });
        if !agree_m(&g, &w) {
            is.push(format!("softmax_mut gives {}, on the rebuilt matrix {}", short(&g), short(&w)));
        }
    }
    // (d) the storage as far as it is observable: Into<Vec<T>> and the serialised form
    let raw: Vec<f64> = vec_f::<T>(&Vec::<T>::from(m.clone()));
    if !same_vec(&raw, &colmajor(&vw)) {
        is.push(format!("into Vec<T> gives {} values {}, a {}x{} matrix has {}", raw.len(), short(&raw), n, p, n * p));
    }
    match serde_json::to_value(m) {
        Ok(j) => {
            let len = j["values"].as_array().map(|x| x.len());
            if len != Some(n * p) || j["nrows"].as_u64() != Some(n as u64) || j["ncols"].as_u64() != Some(p as u64) {
                is.push(format!("serialised form has nrows {}, ncols {}, {:?} values", j["nrows"], j["ncols"], len));
            }
        }
        Err(e) => is.push(format!("serialisation failed: {}", e)),
    }
    is
}
/// the same for Vec<T> as a BaseVector: rebuilt from get(i) over len()
fn vector_issues<T: Sc>(r: &Vec<T>) -> Vec<String> {
    let mut is: Vec<String> = vec![];
    let len = BaseVector::len(r);
    let e: Vec<T> = match guard(|| (0..len).map(|i| BaseVector::get(r, i)).collect::<Vec<T>>()) {
        Ok(x) => x,
        Err(e) => { is.push(format!("get(i) over len() = {} panicked: {}", len, e)); return is; }
    };
    let fe = vec_f(&e);
    if r.len() != len {
        is.push(format!("len() = {} but the vector holds {} values", len, r.len()));
    }
    for (name, g) in [("result.approximate_eq(rebuilt, 0)", guard(|| BaseVector::approximate_eq(r, &e, T::zero()))), ("rebuilt.approximate_eq(result, 0)", guard(|| BaseVector::approximate_eq(&e, r, T::zero())))] {
        if g != Ok(true) {
            is.push(format!("{} is {:?}", name, g));
        }
    }
    if !agree_v(&guard(|| vec_f(&BaseVector::to_vec(r))), &Ok(fe.clone())) {
        is.push("to_vec differs from the elements".to_string());
    }
    type Red<T> = (&'static str, fn(&Vec<T>) -> T);
    let reds: Vec<Red<T>> = vec![("sum", |q| BaseVector::sum(q)), ("norm2", |q| BaseVector::norm2(q)), ("norm(1)", |q| BaseVector::norm(q, T::one())), ("norm(+inf)", |q| BaseVector::norm(q, T::infinity()))];
    for (name, f) in &reds {
        let (g, w) = (guard(|| f(r).f()), guard(|| f(&e).f()));
        if !agree_f(&g, &w) {
            is.push(format!("{} = {:?}, on the rebuilt vector {:?}", name, g, w));
        }
    }
    let (g, w) = (guard(|| vec_f(&BaseVector::unique(r))), guard(|| vec_f(&BaseVector::unique(&e))));
    if !agree_v(&g, &w) {
        is.push(format!("unique = {}, on the rebuilt vector {}", short(&g), short(&w)));
    }
    let g = guard(|| { let mut z = <Vec<T> as BaseVector<T>>::zeros(len); BaseVector::copy_from(&mut z, r); vec_f(&z) });
    if !agree_v(&g, &Ok(fe.clone())) {
        is.push(format!("zeros(len).copy_from(result) gives {}", short(&g)));
    }
    is
}
impl Verdict {
    /// post-condition on a matrix that an operation under test returned or mutated
    fn post<T: Sc>(&mut self, what: &str, m: &DenseMatrix<T>) {
        self.posts += 1;
        let is = storage_issues(m);
        if !is.is_empty() {
            let vw = guard(|| view(m)).map(|x| short(&x)).unwrap_or_else(|e| format!("<unreadable: {}>", e));
            self.fail("storage_consistent", format!("{}: the {}x{} result with logical view {} does not behave like the matrix built from that view: {}",
                what, m.shape().0, m.shape().1, vw, is.join("; ")));
        }
    }
    /// post-condition on a vector result
    fn vpost<T: Sc>(&mut self, what: &str, r: &Result<Vec<T>, String>) {
        if let Ok(r) = r {
            self.posts += 1;
            let is = vector_issues(r);
            if !is.is_empty() {
                self.fail("storage_consistent", format!("{}: vector result {}: {}", what, short(&vec_f(r)), is.join("; ")));
            }
        }
    }
}

// ------------------------------------------------------------------------------------------
// specifications on the logical view (definitions, independent of implementation and model)
// ------------------------------------------------------------------------------------------
fn s_transpose(a: &Rows) -> Rows {
    let (n, p) = shape_of(a);
    (0..p).map(|c| (0..n).map(|r| a[r][c]).collect()).collect()
}
/// product with tolerance: (sum_k a_rk b_kc, 8 K eps sum_k |a_rk b_kc|)
fn s_matmul(a: &Rows, b: &Rows, eps: f64) -> (Rows, Rows) {
    let (n, k) = shape_of(a);
    let (_, p) = shape_of(b);
    let mut e = vec![vec![0.0; p]; n];
    let mut t = vec![vec![0.0; p]; n];
    for r in 0..n {
        for c in 0..p {
            let terms: Vec<f64> = (0..k).map(|i| a[r][i] * b[i][c]).collect();
            let (s, m) = csum(&terms);
            e[r][c] = s;
            t[r][c] = 8.0 * (k as f64 + 1.0) * eps * m + 1e-300;
        }
    }
    (e, t)
}
fn s_reshape(a: &Rows, k: usize, l: usize) -> Rows {
    let f = flat(a);
    (0..k).map(|r| (0..l).map(|c| f[r * l + c]).collect()).collect()
}
fn is_vector(a: &Rows) -> bool {
    let (n, p) = shape_of(a);
    n == 1 || p == 1
}

// ------------------------------------------------------------------------------------------
// oracle 1: construction, accessors, iteration order, transpose, reshape, slice, take, set
//   a: matrix; idx: index list (used modulo the axis length); dims: [r0,r1,c0,c1,sr,sc]; nums: [x]
// ------------------------------------------------------------------------------------------
fn o_structure<T: Sc>(c: &Case, v: &mut Verdict) {
    let a = round_to::<T>(&c.a);
    let (n, p) = shape_of(&a);
    let rt = rows_t::<T>(&a);
    let fl = flat(&a);
    let flt: Vec<T> = vec_t(&fl);
    let cm: Vec<T> = vec_t(&colmajor(&a));
    let x = T::of(num(c, 0, 1.5));
    // constructors from row-major data
    v.mat_exact("construction", "from_2d_vec", guard(|| DenseMatrix::<T>::from_2d_vec(&rt)), &a);
    v.mat_exact("construction", "from_2d_array", guard(|| {
        let refs: Vec<&[T]> = rt.iter().map(|r| &r[..]).collect();
        DenseMatrix::<T>::from_2d_array(&refs)
    }), &a);
    v.mat_exact("construction", "from_array", guard(|| DenseMatrix::<T>::from_array(n, p, &flt)), &a);
    v.mat_exact("construction", "from_vec", guard(|| DenseMatrix::<T>::from_vec(n, p, &flt)), &a);
    v.mat_exact("construction", "new (column-major data)", guard(|| DenseMatrix::<T>::new(n, p, cm.clone())), &a);
    let row0: Vec<T> = rt[0].clone();
    let as_row: Rows = vec![a[0].clone()];
    let as_col: Rows = a[0].iter().map(|x| vec![*x]).collect();
    v.mat_exact("construction", "row_vector_from_vec", guard(|| DenseMatrix::<T>::row_vector_from_vec(row0.clone())), &as_row);
    v.mat_exact("construction", "row_vector_from_array", guard(|| DenseMatrix::<T>::row_vector_from_array(&row0)), &as_row);
    v.mat_exact("construction", "from_row_vector", guard(|| DenseMatrix::<T>::from_row_vector(row0.clone())), &as_row);
    v.mat_exact("construction", "column_vector_from_vec", guard(|| DenseMatrix::<T>::column_vector_from_vec(row0.clone())), &as_col);
    v.mat_exact("construction", "column_vector_from_array", guard(|| DenseMatrix::<T>::column_vector_from_array(&row0)), &as_col);
    v.mat_exact("construction", "fill", guard(|| DenseMatrix::<T>::fill(n, p, x)), &vec![vec![x.f(); p]; n]);
    v.mat_exact("construction", "zeros", guard(|| DenseMatrix::<T>::zeros(n, p)), &vec![vec![0.0; p]; n]);
    v.mat_exact("construction", "ones", guard(|| DenseMatrix::<T>::ones(n, p)), &vec![vec![1.0; p]; n]);
    v.mat_exact("construction", "eye", guard(|| DenseMatrix::<T>::eye(n)),
        &(0..n).map(|r| (0..n).map(|cc| if r == cc { 1.0 } else { 0.0 }).collect()).collect());
    // too few values for the requested shape
    if flt.len() > 1 {
        v.must_panic("shape_contract", "from_array with fewer values than rows*cols", guard(|| DenseMatrix::<T>::from_array(n, p, &flt[..flt.len() - 1])));
    }

    let m = mk::<T>(&a);
    v.chk(m.shape() == (n, p), "construction", || format!("shape() = {:?}, expected {:?}", m.shape(), (n, p)));
    // rows, columns
    for r in 0..n {
        v.vec_exact("row_column_access", "get_row", guard(|| vec_f(&m.get_row(r))), &a[r]);
        v.vec_exact("row_column_access", "get_row_as_vec", guard(|| vec_f(&m.get_row_as_vec(r))), &a[r]);
        v.vec_exact("row_column_access", "copy_row_as_vec", guard(|| {
            let mut buf = vec![T::of(-77.0); p];
            m.copy_row_as_vec(r, &mut buf);
            vec_f(&buf)
        }), &a[r]);
    }
    for cc in 0..p {
        let col: Vec<f64> = (0..n).map(|r| a[r][cc]).collect();
        v.vec_exact("row_column_access", "get_col_as_vec", guard(|| vec_f(&m.get_col_as_vec(cc))), &col);
        v.vec_exact("row_column_access", "copy_col_as_vec", guard(|| {
            let mut buf = vec![T::of(-77.0); n];
            m.copy_col_as_vec(cc, &mut buf);
            vec_f(&buf)
        }), &col);
    }
    v.must_panic("shape_contract", "get(nrows, 0)", guard(|| m.get(n, 0)));
    v.must_panic("shape_contract", "get(0, ncols)", guard(|| m.get(0, p)));
    v.must_panic("shape_contract", "get_row(nrows)", guard(|| m.get_row(n)));
    v.must_panic("shape_contract", "get_col_as_vec(ncols)", guard(|| m.get_col_as_vec(p)));
    // iteration order and flattening: logical row-major
    v.vec_exact("row_major_order", "iter()", guard(|| m.iter().map(|x| x.f()).collect()), &fl);
    v.vec_exact("row_major_order", "to_row_vector()", guard(|| vec_f(&m.clone().to_row_vector())), &fl);
    // transpose
    let at = s_transpose(&a);
    v.mat_exact("transpose", "transpose", guard(|| m.transpose()), &at);
    v.mat_exact("transpose", "transpose twice", guard(|| m.transpose().transpose()), &a);
    // reshape to every target shape
    let sz = n * p;
    for k in 1..=sz + 1 {
        if sz % k == 0 {
            let l = sz / k;
            v.mat_exact("reshape", &format!("reshape({},{})", k, l), guard(|| m.reshape(k, l)), &s_reshape(&a, k, l));
            v.mat_exact("reshape", &format!("transpose().reshape({},{})", k, l), guard(|| m.transpose().reshape(k, l)), &s_reshape(&at, k, l));
        } else {
            let l = sz / k + 1;
            v.must_panic("shape_contract", &format!("reshape of {}x{} into {}x{}", n, p, k, l), guard(|| m.reshape(k, l)));
        }
    }
    // set / element updates
    let d = |i: usize, dflt: usize| *c.dims.get(i).unwrap_or(&dflt);
    let (sr, sc) = (d(4, 0) % n, d(5, 0) % p);
    let with = |val: f64| -> Rows {
        let mut e = a.clone();
        e[sr][sc] = val;
        e
    };
    let old = T::of(a[sr][sc]);
    v.mat_exact("get_set", "set", guard(|| { let mut w = m.clone(); w.set(sr, sc, x); w }), &with(x.f()));
    v.mat_exact("get_set", "add_element_mut", guard(|| { let mut w = m.clone(); w.add_element_mut(sr, sc, x); w }), &with((old + x).f()));
    v.mat_exact("get_set", "sub_element_mut", guard(|| { let mut w = m.clone(); w.sub_element_mut(sr, sc, x); w }), &with((old - x).f()));
    v.mat_exact("get_set", "mul_element_mut", guard(|| { let mut w = m.clone(); w.mul_element_mut(sr, sc, x); w }), &with((old * x).f()));
    v.mat_exact("get_set", "div_element_mut", guard(|| { let mut w = m.clone(); w.div_element_mut(sr, sc, x); w }), &with((old / x).f()));
    // slices: all ranges when small, otherwise the given one and the full one
    let mut ranges: Vec<(usize, usize, usize, usize)> = vec![];
    if sz <= 20 {
        for r0 in 0..n { for r1 in r0 + 1..=n { for c0 in 0..p { for c1 in c0 + 1..=p { ranges.push((r0, r1, c0, c1)); } } } }
    } else {
        let (r0, c0) = (d(0, 0) % n, d(2, 0) % p);
        let (r1, c1) = (r0 + 1 + d(1, 0) % (n - r0), c0 + 1 + d(3, 0) % (p - c0));
        ranges.push((r0, r1, c0, c1));
        ranges.push((0, n, 0, p));
        ranges.push((n - 1, n, 0, p));
        ranges.push((0, n, p - 1, p));
    }
    for (r0, r1, c0, c1) in ranges {
        let e: Rows = (r0..r1).map(|r| (c0..c1).map(|cc| a[r][cc]).collect()).collect();
        v.mat_exact("slice", &format!("slice({}..{}, {}..{})", r0, r1, c0, c1), guard(|| m.slice(r0..r1, c0..c1)), &e);
    }
    v.must_panic("shape_contract", "slice beyond the last row", guard(|| m.slice(0..n + 1, 0..p)));
    v.must_panic("shape_contract", "slice beyond the last column", guard(|| m.slice(0..n, 0..p + 1)));
    // take on both axes (repetitions, any order)
    let i0: Vec<usize> = c.idx.iter().map(|i| i % n).collect();
    let i1: Vec<usize> = c.idx.iter().map(|i| i % p).collect();
    let e0: Rows = i0.iter().map(|&i| a[i].clone()).collect();
    let e1: Rows = (0..n).map(|r| i1.iter().map(|&i| a[r][i]).collect()).collect();
    if !i0.is_empty() {
        v.mat_exact("take", &format!("take({:?}, 0)", i0), guard(|| m.take(&i0, 0)), &e0);
        v.mat_exact("take", &format!("take({:?}, 1)", i1), guard(|| m.take(&i1, 1)), &e1);
    }
    let mut bad0 = i0.clone();
    bad0.push(n);
    let mut bad1 = i1.clone();
    bad1.insert(0, p);
    v.must_panic("shape_contract", "take with a row index = nrows", guard(|| m.take(&bad0, 0)));
    v.must_panic("shape_contract", "take with a column index = ncols", guard(|| m.take(&bad1, 1)));
    // remaining producers: rand (only its shape and storage are specified), clone, the serde round trip,
    // and the vectors that matrix operations return
    if let Some(r) = v.must_ok("construction", "rand", guard(|| DenseMatrix::<T>::rand(n, p))) {
        v.chk(r.shape() == (n, p), "construction", || format!("rand({},{}) has shape {:?}", n, p, r.shape()));
        v.post("rand", &r);
    }
    v.mat_exact("construction", "clone", guard(|| m.clone()), &a);
    v.mat_exact("construction", "serde round trip", guard(|| serde_json::from_value::<DenseMatrix<T>>(serde_json::to_value(&m).unwrap()).unwrap()), &a);
    v.vpost("get_row", &guard(|| m.get_row(sr)));
    v.vpost("get_col_as_vec", &guard(|| m.get_col_as_vec(sc)));
    v.vpost("to_row_vector", &guard(|| m.clone().to_row_vector()));
    v.vpost("unique", &guard(|| m.unique()));
    v.vpost("column_mean", &guard(|| m.column_mean()));
}

// ------------------------------------------------------------------------------------------
// oracle 2: binary operations on every pairing of shapes (a, b; nums: [err])
// ------------------------------------------------------------------------------------------
fn o_binary<T: Sc>(c: &Case, v: &mut Verdict) {
    let a = round_to::<T>(&c.a);
    let b = round_to::<T>(&c.b);
    let (n1, p1) = shape_of(&a);
    let (n2, p2) = shape_of(&b);
    let ma = mk::<T>(&a);
    let mb = mk::<T>(&b);
    let eps = T::eps();
    let same_shape = n1 == n2 && p1 == p2;
    // element-wise arithmetic (one IEEE operation per entry: the definition evaluated in T is exact)
    type Bin<T> = fn(T, T) -> T;
    let ops: Vec<(&str, Bin<T>)> = vec![("add", |x, y| x + y), ("sub", |x, y| x - y), ("mul", |x, y| x * y), ("div", |x, y| x / y)];
    for (name, f) in ops {
        let cp = guard(|| match name { "add" => ma.add(&mb), "sub" => ma.sub(&mb), "mul" => ma.mul(&mb), _ => ma.div(&mb) });
        let ip = guard(|| {
            let mut w = ma.clone();
            match name { "add" => { w.add_mut(&mb); } "sub" => { w.sub_mut(&mb); } "mul" => { w.mul_mut(&mb); } _ => { w.div_mut(&mb); } };
            w
        });
        v.same_variants(name, &ip, &cp);
        if same_shape {
            let e: Rows = (0..n1).map(|r| (0..p1).map(|cc| f(T::of(a[r][cc]), T::of(b[r][cc])).f()).collect()).collect();
            v.mat_exact("elementwise", name, cp, &e);
        } else {
            v.must_panic("shape_contract", &format!("{} of {}x{} and {}x{}", name, n1, p1, n2, p2), cp);
            v.must_panic("shape_contract", &format!("{}_mut of {}x{} and {}x{}", name, n1, p1, n2, p2), ip);
        }
    }
    // products: matmul and ab with the four flag combinations
    let at = s_transpose(&a);
    let bt = s_transpose(&b);
    for (ta, tb) in [(false, false), (true, false), (false, true), (true, true)] {
        let l = if ta { &at } else { &a };
        let r = if tb { &bt } else { &b };
        let what = format!("ab({}, {}) of {}x{} and {}x{}", ta, tb, n1, p1, n2, p2);
        let got = guard(|| ma.ab(ta, &mb, tb));
        if shape_of(l).1 == shape_of(r).0 {
            let (e, t) = s_matmul(l, r, eps);
            v.mat_close("product", &what, got, &e, &t);
        } else {
            v.must_panic("shape_contract", &what, got);
        }
        if !ta && !tb {
            let got = guard(|| ma.matmul(&mb));
            if p1 == n2 {
                let (e, t) = s_matmul(&a, &b, eps);
                v.mat_close("product", &format!("matmul of {}x{} and {}x{}", n1, p1, n2, p2), got, &e, &t);
            } else {
                v.must_panic("shape_contract", &format!("matmul of {}x{} and {}x{}", n1, p1, n2, p2), got);
            }
        }
    }
    // dot: both operands vectors (any orientation) with the same number of elements
    {
        let got = guard(|| ma.dot(&mb).f());
        let what = format!("dot of {}x{} and {}x{}", n1, p1, n2, p2);
        if is_vector(&a) && is_vector(&b) && n1 * p1 == n2 * p2 {
            let (fa, fb) = (flat(&a), flat(&b));
            let terms: Vec<f64> = fa.iter().zip(fb.iter()).map(|(x, y)| x * y).collect();
            let (s, m) = csum(&terms);
            v.num_close("product", &what, got, s, 8.0 * (terms.len() as f64 + 1.0) * eps * m + 1e-300);
        } else {
            v.must_panic("shape_contract", &what, got);
        }
    }
    // stacking
    {
        let got = guard(|| ma.h_stack(&mb));
        if n1 == n2 {
            let e: Rows = (0..n1).map(|r| a[r].iter().chain(b[r].iter()).cloned().collect()).collect();
            v.mat_exact("stack", "h_stack", got, &e);
        } else {
            v.must_panic("shape_contract", &format!("h_stack of {}x{} and {}x{}", n1, p1, n2, p2), got);
        }
        let got = guard(|| ma.v_stack(&mb));
        if p1 == p2 {
            let e: Rows = a.iter().chain(b.iter()).cloned().collect();
            v.mat_exact("stack", "v_stack", got, &e);
        } else {
            v.must_panic("shape_contract", &format!("v_stack of {}x{} and {}x{}", n1, p1, n2, p2), got);
        }
    }
    // copy_from
    {
        let got = guard(|| { let mut w = ma.clone(); w.copy_from(&mb); w });
        if same_shape {
            v.mat_exact("copy", "copy_from", got, &b);
        } else {
            v.must_panic("shape_contract", &format!("copy_from {}x{} into {}x{}", n2, p2, n1, p1), got);
        }
    }
    // equality tests: false (not a panic, not true) on different shapes
    let err = num(c, 0, 0.25);
    {
        let got = guard(|| ma.approximate_eq(&mb, T::of(err)));
        let got_eq = guard(|| ma == mb);
        if !same_shape {
            v.chk(got == Ok(false), "equality", || format!("approximate_eq of {}x{} and {}x{} returned {:?}, expected false", n1, p1, n2, p2, got));
            v.chk(got_eq == Ok(false), "equality", || format!("== of {}x{} and {}x{} returned {:?}, expected false", n1, p1, n2, p2, got_eq));
        } else {
            let errt = T::of(err).f();
            let diffs: Vec<f64> = flat(&a).iter().zip(flat(&b).iter()).map(|(x, y)| (x - y).abs()).collect();
            let scale = maxabs(&flat(&a)).max(maxabs(&flat(&b))).max(1.0);
            if diffs.iter().any(|d| (d - errt).abs() <= 64.0 * eps * scale) {
                v.excluded += 1;
            } else {
                let e = diffs.iter().all(|d| *d <= errt);
                v.chk(got == Ok(e), "equality", || format!("approximate_eq(err={}) returned {:?}, expected {}", errt, got, e));
            }
            if diffs.iter().any(|d| *d != 0.0 && *d <= 64.0 * eps * scale) {
                v.excluded += 1;
            } else {
                let e = diffs.iter().all(|d| *d == 0.0);
                v.chk(got_eq == Ok(e), "equality", || format!("== returned {:?}, expected {}", got_eq, e));
            }
        }
        // reflexive cases and a single perturbed entry
        let (sr, sc) = (c.dims.get(0).unwrap_or(&0) % n1, c.dims.get(1).unwrap_or(&0) % p1);
        let mut a2 = a.clone();
        a2[sr][sc] = T::of(a2[sr][sc] + 0.5 * (1.0 + a2[sr][sc].abs())).f();
        let m2 = mk::<T>(&a2);
        v.chk(guard(|| ma == ma.clone()) == Ok(true), "equality", || "m == m.clone() is not true".to_string());
        v.chk(guard(|| ma.approximate_eq(&ma.clone(), T::zero())) == Ok(true), "equality", || "approximate_eq(m, m, 0) is not true".to_string());
        v.chk(guard(|| ma == m2) == Ok(false), "equality", || format!("== is true although entry ({},{}) differs", sr, sc));
        v.chk(guard(|| ma.approximate_eq(&m2, T::of(0.125))) == Ok(false), "equality", || format!("approximate_eq(0.125) is true although entry ({},{}) differs by more", sr, sc));
        v.chk(guard(|| ma.approximate_eq(&m2, T::of(1e30))) == Ok(true), "equality", || "approximate_eq(1e30) is false".to_string());
        // the same storage under a different shape must be unequal / rejected, never read through
        if n1 * p1 > 1 {
            let st: Vec<T> = vec_t(&colmajor(&a));
            let mut alts = vec![(1, n1 * p1), (n1 * p1, 1)];
            if n1 != p1 { alts.push((p1, n1)); }
            for (k, l) in alts {
                if (k, l) == (n1, p1) { continue; }
                let alt = DenseMatrix::<T>::new(k, l, st.clone());
                let what = format!("{}x{} against the same storage shaped {}x{}", n1, p1, k, l);
                v.chk(guard(|| ma == alt) == Ok(false), "equality", || format!("== is not false: {}", what));
                v.chk(guard(|| ma.approximate_eq(&alt, T::of(1e30))) == Ok(false), "equality", || format!("approximate_eq is not false: {}", what));
                v.must_panic("shape_contract", &format!("add: {}", what), guard(|| ma.add(&alt)));
                v.must_panic("shape_contract", &format!("sub_mut: {}", what), guard(|| { let mut w = ma.clone(); w.sub_mut(&alt); w }));
                v.must_panic("shape_contract", &format!("mul: {}", what), guard(|| ma.mul(&alt)));
                v.must_panic("shape_contract", &format!("div_mut: {}", what), guard(|| { let mut w = ma.clone(); w.div_mut(&alt); w }));
                v.must_panic("shape_contract", &format!("copy_from: {}", what), guard(|| { let mut w = ma.clone(); w.copy_from(&alt); w }));
            }
        }
        // max_diff on equal shapes
        let d = (T::of(a2[sr][sc]) - T::of(a[sr][sc])).abs().f();
        v.num_close("reduction", "max_diff", guard(|| ma.max_diff(&m2).f()), d, 0.0);
    }
}

// ------------------------------------------------------------------------------------------
// variance / standard deviation of one line against the definition, accurate relative to the spread.
// Returns (what, is_known_pattern) when the value is inaccurate.
// ------------------------------------------------------------------------------------------
struct LineStat {
    mean: f64,
    var: f64,
    spread: f64,
    maxabs: f64,
}
fn line_stat(x: &[f64]) -> LineStat {
    let n = x.len() as f64;
    // shift by the first element (exact for data sharing a large offset), then two passes
    let d: Vec<f64> = x.iter().map(|v| v - x[0]).collect();
    let md = csum(&d).0 / n;
    let sq: Vec<f64> = d.iter().map(|v| (v - md) * (v - md)).collect();
    let var = csum(&sq).0 / n;
    let mx = x.iter().cloned().fold(f64::NEG_INFINITY, f64::max);
    let mn = x.iter().cloned().fold(f64::INFINITY, f64::min);
    LineStat { mean: x[0] + md, var, spread: mx - mn, maxabs: maxabs(x) }
}
const VAR_RTOL: f64 = 1e-5;
fn var_tol(st: &LineStat, n: usize, eps: f64) -> f64 {
    let fl = 4.0 * (n as f64 + 2.0) * eps * st.maxabs;
    VAR_RTOL.max(64.0 * n as f64 * eps) * st.spread * st.spread + fl * fl + 1e-300
}
/// None = accurate; Some(msg) = inaccurate
fn var_std_check(st: &LineStat, n: usize, eps: f64, var_got: f64, std_got: f64) -> Option<String> {
    let tv = var_tol(st, n, eps);
    if !( (var_got - st.var).abs() <= tv ) {
        return Some(format!("var = {:e}, definition gives {:e} (mean {:e}, spread {:e}, tolerance {:e})", var_got, st.var, st.mean, st.spread, tv));
    }
    let sd = st.var.sqrt();
    let ts = if sd > 0.0 && sd * sd > tv { tv / sd + 8.0 * eps * sd } else { tv.sqrt() * 1.0001 + 8.0 * eps * sd };
    if !( (std_got - sd).abs() <= ts ) {
        return Some(format!("std = {:e}, definition gives {:e} (mean {:e}, spread {:e}, tolerance {:e})", std_got, sd, st.mean, st.spread, ts));
    }
    None
}
/// matrix var/std (both axes) and the vector var/std/mean of every line
fn stats_lines<T: Sc>(a: &Rows, v: &mut Verdict) {
    let (n, p) = shape_of(a);
    let eps = T::eps();
    let m = mk::<T>(a);
    for axis in 0..2u8 {
        let lines: Rows = if axis == 0 { s_transpose(a) } else { a.clone() };
        let mean = guard(|| vec_f(&m.mean(axis)));
        let var = guard(|| vec_f(&m.var(axis)));
        let std = guard(|| vec_f(&m.std(axis)));
        let (mean, var, std) = match (mean, var, std) {
            (Ok(x), Ok(y), Ok(z)) => (x, y, z),
            _ => { v.fail("statistics", format!("mean/var/std(axis {}) panicked on a {}x{} matrix", axis, n, p)); continue; }
        };
        if mean.len() != lines.len() || var.len() != lines.len() || std.len() != lines.len() {
            v.fail("statistics", format!("mean/var/std(axis {}) of a {}x{} matrix have lengths {},{},{}", axis, n, p, mean.len(), var.len(), std.len()));
            continue;
        }
        for (i, x) in lines.iter().enumerate() {
            let st = line_stat(x);
            let len = x.len();
            let tm = 8.0 * (len as f64 + 1.0) * eps * (csum(&x.iter().map(|t| t.abs()).collect::<Vec<f64>>()).0 / len as f64) + 1e-300;
            if !close(mean[i], st.mean, tm) {
                v.fail("statistics", format!("mean(axis {})[{}] = {:e}, definition gives {:e}", axis, i, mean[i], st.mean));
            }
            // the matrix routines (one-pass formula)
            // (f32: the known-finding threshold 1e4 is calibrated for f64; the one-pass formula loses
            //  eps32*mean^2, so f32 lines are held to the spread only while |mean| <= 2*spread)
            if T::F32 && st.mean.abs() > 2.0 * st.spread {
                v.excluded += 1;
            } else if let Some(msg) = var_std_check(&st, len, eps, var[i], std[i]) {
                if st.mean.abs() >= 1e4 * st.spread {
                    v.known.push(("matrix-var-cancellation".to_string(),
                        format!("MatrixStats::var/std(axis {}) line {} of a {}x{} matrix with |mean|/spread = {:e}: {}", axis, i, n, p, st.mean.abs() / st.spread, msg)));
                } else {
                    v.fail("variance_accuracy", format!("MatrixStats axis {} line {}: {}", axis, i, msg));
                }
            }
            // the vector routines (two-pass formula, repaired): accurate for every offset
            let xv: Vec<T> = vec_t(x);
            let vm = guard(|| xv.mean().f());
            let vv = guard(|| xv.var().f());
            let vs = guard(|| xv.std().f());
            match (vm, vv, vs) {
                (Ok(vm), Ok(vv), Ok(vs)) => {
                    if !close(vm, st.mean, tm) {
                        v.fail("statistics", format!("Vec::mean = {:e}, definition gives {:e}", vm, st.mean));
                    }
                    if let Some(msg) = var_std_check(&st, len, eps, vv, vs) {
                        v.fail("variance_accuracy", format!("BaseVector (axis {} line {}): {}", axis, i, msg));
                    }
                }
                _ => v.fail("statistics", "Vec mean/var/std panicked".to_string()),
            }
        }
    }
}
fn o_variance<T: Sc>(c: &Case, v: &mut Verdict) {
    let a = round_to::<T>(&c.a);
    stats_lines::<T>(&a, v);
}

// ------------------------------------------------------------------------------------------
// oracle 4: softmax of any finite input is a probability vector and equals the definition
// ------------------------------------------------------------------------------------------
fn o_softmax<T: Sc>(c: &Case, v: &mut Verdict) {
    let a = round_to::<T>(&c.a);
    let (n, p) = shape_of(&a);
    let eps = T::eps();
    let got = guard(|| { let mut w = mk::<T>(&a); w.softmax_mut(); w });
    let m = match v.must_ok("softmax", "softmax_mut", got) { Some(m) => m, None => return };
    v.post("softmax_mut", &m);
    if m.shape() != (n, p) {
        v.fail("softmax", format!("shape changed to {:?}", m.shape()));
        return;
    }
    let g = view(&m);
    let fa = flat(&a);
    let fg = flat(&g);
    let mx = fa.iter().cloned().fold(f64::NEG_INFINITY, f64::max);
    let ex: Vec<f64> = fa.iter().map(|x| (x - mx).exp()).collect();
    let z = csum(&ex).0;
    let k = fa.len() as f64;
    if fg.iter().any(|x| !(x.is_finite() && *x >= 0.0 && *x <= 1.0 + 4.0 * eps)) {
        v.fail("softmax", format!("entries not in [0,1]: {:?}", fg));
        return;
    }
    let s = csum(&fg).0;
    v.chk((s - 1.0).abs() <= 8.0 * (k + 2.0) * eps, "softmax", || format!("entries sum to {:e}, not 1", s));
    for i in 0..fa.len() {
        let e = ex[i] / z;
        // |x - max| enters the exponent with relative error eps
        let t = (16.0 * (k + 4.0) * eps + 2.0 * eps * (fa[i] - mx).abs()) * e + if T::F32 { 1e-44 } else { 1e-320 };
        if !close(fg[i], e, t) {
            v.fail("softmax", format!("entry {} (row-major) = {:e}, definition exp(x - max)/sum gives {:e}", i, fg[i], e));
            return;
        }
    }
}

// ------------------------------------------------------------------------------------------
// oracle 3: scalar arithmetic, maps, reductions, statistics (a; nums: [x, p, threshold])
// ------------------------------------------------------------------------------------------
fn o_unary<T: Sc>(c: &Case, v: &mut Verdict) {
    let a = round_to::<T>(&c.a);
    let (n, p) = shape_of(&a);
    let eps = T::eps();
    let m = mk::<T>(&a);
    let fa = flat(&a);
    let k = fa.len() as f64;
    let x = T::of(num(c, 0, 1.5));
    let pw = num(c, 1, 2.0);
    let th = T::of(num(c, 2, 0.0));
    let map = |f: &dyn Fn(T) -> T| -> Rows { a.iter().map(|r| r.iter().map(|t| f(T::of(*t)).f()).collect()).collect() };
    // scalar arithmetic, both variants
    {
        let cp = guard(|| m.add_scalar(x)); let ip = guard(|| { let mut w = m.clone(); w.add_scalar_mut(x); w });
        v.same_variants("add_scalar", &ip, &cp); v.mat_exact("scalar", "add_scalar", cp, &map(&|t| t + x));
        let cp = guard(|| m.sub_scalar(x)); let ip = guard(|| { let mut w = m.clone(); w.sub_scalar_mut(x); w });
        v.same_variants("sub_scalar", &ip, &cp); v.mat_exact("scalar", "sub_scalar", cp, &map(&|t| t - x));
        let cp = guard(|| m.mul_scalar(x)); let ip = guard(|| { let mut w = m.clone(); w.mul_scalar_mut(x); w });
        v.same_variants("mul_scalar", &ip, &cp); v.mat_exact("scalar", "mul_scalar", cp, &map(&|t| t * x));
        let cp = guard(|| m.div_scalar(x)); let ip = guard(|| { let mut w = m.clone(); w.div_scalar_mut(x); w });
        v.same_variants("div_scalar", &ip, &cp); v.mat_exact("scalar", "div_scalar", cp, &map(&|t| t / x));
        let cp = guard(|| m.negative()); let ip = guard(|| { let mut w = m.clone(); w.negative_mut(); w });
        v.same_variants("negative", &ip, &cp); v.mat_exact("scalar", "negative", cp, &map(&|t| -t));
        let cp = guard(|| m.abs()); let ip = guard(|| { let mut w = m.clone(); w.abs_mut(); w });
        v.same_variants("abs", &ip, &cp); v.mat_exact("scalar", "abs", cp, &map(&|t| t.abs()));
        let cp = guard(|| m.binarize(th)); let ip = guard(|| { let mut w = m.clone(); w.binarize_mut(th); w });
        v.same_variants("binarize", &ip, &cp);
        v.mat_exact("binarize", "binarize", cp, &map(&|t| if t > th { T::one() } else { T::zero() }));
    }
    // power: integer exponents on any base, real exponents on |a|
    {
        let base: Rows = if pw.fract() == 0.0 { a.clone() } else { a.iter().map(|r| r.iter().map(|t| t.abs()).collect()).collect() };
        let mb = mk::<T>(&base);
        let e: Rows = base.iter().map(|r| r.iter().map(|t| t.powf(T::of(pw).f())).collect()).collect();
        let t: Rows = e.iter().map(|r| r.iter().map(|t| 16.0 * eps * t.abs() + if T::F32 { 1e-37 } else { 1e-300 }).collect()).collect();
        let cp = guard(|| mb.clone().pow(T::of(pw))); let ip = guard(|| { let mut w = mb.clone(); w.pow_mut(T::of(pw)); w });
        v.same_variants("pow", &ip, &cp);
        if e.iter().flatten().all(|t| t.is_finite() && (t.abs() < if T::F32 { 1e37 } else { 1e300 })) {
            v.mat_close("power", &format!("pow({})", pw), cp, &e, &t);
        } else {
            v.excluded += 1;
        }
    }
    // reductions
    let (s, sabs) = csum(&fa);
    v.num_close("reduction", "sum", guard(|| m.sum().f()), s, 8.0 * (k + 1.0) * eps * sabs + 1e-300);
    let mx = fa.iter().cloned().fold(f64::NEG_INFINITY, f64::max);
    let mn = fa.iter().cloned().fold(f64::INFINITY, f64::min);
    v.num_close("reduction", "max", guard(|| m.max().f()), mx, 0.0);
    v.num_close("reduction", "min", guard(|| m.min().f()), mn, 0.0);
    let sq: Vec<f64> = fa.iter().map(|t| t * t).collect();
    let n2 = csum(&sq).0.sqrt();
    let fin = |t: f64| t.is_finite() && t < if T::F32 { 1e37 } else { 1e300 };
    if fin(csum(&sq).0) {
        v.num_close("norm", "norm2", guard(|| m.norm2().f()), n2, 8.0 * (k + 2.0) * eps * n2 + 1e-300);
        v.num_close("norm", "norm(2)", guard(|| m.norm(T::two()).f()), n2, 64.0 * (k + 2.0) * eps * n2 + 1e-300);
    }
    let n1 = csum(&fa.iter().map(|t| t.abs()).collect::<Vec<f64>>()).0;
    v.num_close("norm", "norm(1)", guard(|| m.norm(T::one()).f()), n1, 64.0 * (k + 2.0) * eps * n1 + 1e-300);
    let c3 = csum(&fa.iter().map(|t| t.abs().powi(3)).collect::<Vec<f64>>()).0;
    if fin(c3) {
        let n3 = c3.cbrt();
        v.num_close("norm", "norm(3)", guard(|| m.norm(T::of(3.0)).f()), n3, 64.0 * (k + 2.0) * eps * n3 + 1e-300);
    }
    v.num_close("norm", "norm(+inf)", guard(|| m.norm(T::infinity()).f()), maxabs(&fa), 0.0);
    v.num_close("norm", "norm(-inf)", guard(|| m.norm(T::neg_infinity()).f()), fa.iter().fold(f64::INFINITY, |q, t| q.min(t.abs())), 0.0);
    // argmax: first maximum of every row
    {
        let e: Vec<usize> = a.iter().map(|r| { let mut b = 0; for (i, t) in r.iter().enumerate() { if *t > r[b] { b = i; } } b }).collect();
        let g = guard(|| m.argmax());
        v.chk(g.as_ref().ok() == Some(&e), "argmax", || format!("argmax = {:?}, first maxima are {:?}", g, e));
    }
    // unique: sorted, duplicate-free, same support
    {
        let mut e = fa.clone();
        e.sort_by(|p, q| p.partial_cmp(q).unwrap());
        e.dedup();
        v.vec_exact("unique", "unique", guard(|| vec_f(&m.unique())), &e);
    }
    // column means
    {
        let at = s_transpose(&a);
        let g = guard(|| vec_f(&m.column_mean()));
        if let Some(g) = v.must_ok("statistics", "column_mean", g) {
            v.chk(g.len() == p, "statistics", || format!("column_mean has length {}, expected {}", g.len(), p));
            for (i, col) in at.iter().enumerate() {
                let (s, sa) = csum(col);
                if i < g.len() && !close(g[i], s / n as f64, 8.0 * (n as f64 + 1.0) * eps * sa / n as f64 + 1e-300) {
                    v.fail("statistics", format!("column_mean[{}] = {:e}, definition gives {:e}", i, g[i], s / n as f64));
                }
            }
        }
    }
    stats_lines::<T>(&a, v);
    // scale along both axes with arbitrary mean/std vectors: one subtraction and one division per entry
    for axis in 0..2u8 {
        let len = if axis == 0 { p } else { n };
        let mu: Vec<T> = (0..len).map(|i| T::of(0.25 * i as f64 - 0.5) + x).collect();
        let sd: Vec<T> = (0..len).map(|i| T::of(0.5 + 0.75 * i as f64)).collect();
        let e: Rows = (0..n).map(|r| (0..p).map(|cc| { let i = if axis == 0 { cc } else { r }; ((T::of(a[r][cc]) - mu[i]) / sd[i]).f() }).collect()).collect();
        v.mat_exact("scale", &format!("scale_mut(axis {})", axis), guard(|| { let mut w = m.clone(); w.scale_mut(&mu, &sd, axis); w }), &e);
        v.must_panic("shape_contract", &format!("scale_mut(axis {}) with a mean vector that is too short", axis),
            guard(|| { let mut w = m.clone(); w.scale_mut(&mu[..len - 1], &sd, axis); w }));
    }
    // covariance: formula and symmetry
    if n >= 2 {
        let at = s_transpose(&a);
        let mu: Vec<f64> = at.iter().map(|col| csum(col).0 / n as f64).collect();
        let amax = maxabs(&fa);
        let mut e = vec![vec![0.0; p]; p];
        let mut t = vec![vec![0.0; p]; p];
        for i in 0..p {
            for j in 0..p {
                let terms: Vec<f64> = (0..n).map(|r| (a[r][i] - mu[i]) * (a[r][j] - mu[j])).collect();
                let di: f64 = (0..n).map(|r| (a[r][i] - mu[i]).abs()).sum();
                let dj: f64 = (0..n).map(|r| (a[r][j] - mu[j]).abs()).sum();
                let (s, sa) = csum(&terms);
                e[i][j] = s / (n as f64 - 1.0);
                t[i][j] = 16.0 * (n as f64 + 2.0) * eps * (sa + amax * (di + dj) + n as f64 * eps * amax * amax * n as f64) / (n as f64 - 1.0) + 1e-300;
            }
        }
        let g = guard(|| m.cov());
        if let Ok(cm) = &g {
            if cm.shape() == (p, p) {
                let w = view(cm);
                v.chk((0..p).all(|i| (0..p).all(|j| same(w[i][j], w[j][i]))), "covariance", || format!("cov is not symmetric: {:?}", w));
            }
        }
        v.mat_close("covariance", "cov", g, &e, &t);
    }
}

// ------------------------------------------------------------------------------------------
// oracle 6: BaseVector for Vec<T>  (a[0], b[0]: the two vectors; idx; nums: [x, p, err])
// ------------------------------------------------------------------------------------------
fn o_vector<T: Sc>(c: &Case, v: &mut Verdict) {
    let a = round_to::<T>(&c.a);
    let b = round_to::<T>(&c.b);
    let (xa, xb) = (a[0].clone(), b[0].clone());
    let (va, vb): (Vec<T>, Vec<T>) = (vec_t(&xa), vec_t(&xb));
    let eps = T::eps();
    let k = xa.len() as f64;
    let x = T::of(num(c, 0, 1.5));
    let samelen = xa.len() == xb.len();
    v.vec_exact("vector", "from_array", guard(|| vec_f(&<Vec<T> as BaseVector<T>>::from_array(&va))), &xa);
    v.vec_exact("vector", "to_vec", guard(|| vec_f(&BaseVector::to_vec(&va))), &xa);
    v.vec_exact("vector", "zeros", guard(|| vec_f(&<Vec<T> as BaseVector<T>>::zeros(xa.len()))), &vec![0.0; xa.len()]);
    v.vec_exact("vector", "ones", guard(|| vec_f(&<Vec<T> as BaseVector<T>>::ones(xa.len()))), &vec![1.0; xa.len()]);
    v.vec_exact("vector", "fill", guard(|| vec_f(&<Vec<T> as BaseVector<T>>::fill(xa.len(), x))), &vec![x.f(); xa.len()]);
    v.chk(BaseVector::len(&va) == xa.len(), "vector", || "len".to_string());
    for i in 0..xa.len() {
        v.chk(same(BaseVector::get(&va, i).f(), xa[i]), "vector", || format!("get({})", i));
    }
    v.must_panic("shape_contract", "Vec get(len)", guard(|| BaseVector::get(&va, xa.len())));
    // dot
    {
        let g = guard(|| BaseVector::dot(&va, &vb).f());
        if samelen {
            let terms: Vec<f64> = xa.iter().zip(xb.iter()).map(|(p, q)| p * q).collect();
            let (s, m) = csum(&terms);
            v.num_close("product", "Vec dot", g, s, 8.0 * (k + 1.0) * eps * m + 1e-300);
        } else {
            v.must_panic("shape_contract", &format!("Vec dot of lengths {} and {}", xa.len(), xb.len()), g);
        }
    }
    // element-wise, both variants
    type Bin<T> = fn(T, T) -> T;
    let ops: Vec<(&str, Bin<T>)> = vec![("add", |x, y| x + y), ("sub", |x, y| x - y), ("mul", |x, y| x * y), ("div", |x, y| x / y)];
    for (name, f) in ops {
        let cp = guard(|| vec_f(&match name { "add" => BaseVector::add(&va, &vb), "sub" => BaseVector::sub(&va, &vb), "mul" => BaseVector::mul(&va, &vb), _ => BaseVector::div(&va, &vb) }));
        let ip = guard(|| {
            let mut w = va.clone();
            match name { "add" => { BaseVector::add_mut(&mut w, &vb); } "sub" => { BaseVector::sub_mut(&mut w, &vb); } "mul" => { BaseVector::mul_mut(&mut w, &vb); } _ => { BaseVector::div_mut(&mut w, &vb); } };
            vec_f(&w)
        });
        if samelen {
            let e: Vec<f64> = va.iter().zip(vb.iter()).map(|(p, q)| f(*p, *q).f()).collect();
            v.vec_exact("elementwise", &format!("Vec {}", name), cp, &e);
            v.vec_exact("inplace_equals_copy", &format!("Vec {}_mut", name), ip, &e);
        } else {
            v.must_panic("shape_contract", &format!("Vec {} of lengths {} and {}", name, xa.len(), xb.len()), cp);
            v.must_panic("shape_contract", &format!("Vec {}_mut of lengths {} and {}", name, xa.len(), xb.len()), ip);
        }
    }
    // scalar arithmetic, both variants
    let sops: Vec<(&str, Bin<T>)> = vec![("add_scalar", |x, y| x + y), ("sub_scalar", |x, y| x - y), ("mul_scalar", |x, y| x * y), ("div_scalar", |x, y| x / y)];
    for (name, f) in sops {
        let e: Vec<f64> = va.iter().map(|p| f(*p, x).f()).collect();
        let cp = guard(|| vec_f(&match name { "add_scalar" => va.add_scalar(x), "sub_scalar" => va.sub_scalar(x), "mul_scalar" => va.mul_scalar(x), _ => va.div_scalar(x) }));
        let ip = guard(|| {
            let mut w = va.clone();
            match name { "add_scalar" => { w.add_scalar_mut(x); } "sub_scalar" => { w.sub_scalar_mut(x); } "mul_scalar" => { w.mul_scalar_mut(x); } _ => { w.div_scalar_mut(x); } };
            vec_f(&w)
        });
        v.vec_exact("scalar", &format!("Vec {}", name), cp, &e);
        v.vec_exact("inplace_equals_copy", &format!("Vec {}_mut", name), ip, &e);
    }
    // norms, sum
    let (s, sabs) = csum(&xa);
    v.num_close("reduction", "Vec sum", guard(|| BaseVector::sum(&va).f()), s, 8.0 * (k + 1.0) * eps * sabs + 1e-300);
    let sq = csum(&xa.iter().map(|t| t * t).collect::<Vec<f64>>()).0;
    if sq.is_finite() && sq < if T::F32 { 1e37 } else { 1e300 } {
        v.num_close("norm", "Vec norm2", guard(|| BaseVector::norm2(&va).f()), sq.sqrt(), 8.0 * (k + 2.0) * eps * sq.sqrt() + 1e-300);
        v.num_close("norm", "Vec norm(2)", guard(|| BaseVector::norm(&va, T::two()).f()), sq.sqrt(), 64.0 * (k + 2.0) * eps * sq.sqrt() + 1e-300);
    }
    v.num_close("norm", "Vec norm(1)", guard(|| BaseVector::norm(&va, T::one()).f()), sabs, 64.0 * (k + 2.0) * eps * sabs + 1e-300);
    v.num_close("norm", "Vec norm(+inf)", guard(|| BaseVector::norm(&va, T::infinity()).f()), maxabs(&xa), 0.0);
    v.num_close("norm", "Vec norm(-inf)", guard(|| BaseVector::norm(&va, T::neg_infinity()).f()), xa.iter().fold(f64::INFINITY, |q, t| q.min(t.abs())), 0.0);
    // approximate equality
    {
        let err = T::of(num(c, 2, 0.25));
        let g = guard(|| BaseVector::approximate_eq(&va, &vb, err));
        if !samelen {
            v.chk(g == Ok(false), "equality", || format!("Vec approximate_eq of lengths {} and {} returned {:?}, expected false", xa.len(), xb.len(), g));
        } else {
            let diffs: Vec<f64> = xa.iter().zip(xb.iter()).map(|(p, q)| (p - q).abs()).collect();
            let scale = maxabs(&xa).max(maxabs(&xb)).max(1.0);
            if diffs.iter().any(|d| (d - err.f()).abs() <= 64.0 * eps * scale) {
                v.excluded += 1;
            } else {
                let e = diffs.iter().all(|d| *d <= err.f());
                v.chk(g == Ok(e), "equality", || format!("Vec approximate_eq returned {:?}, expected {}", g, e));
            }
        }
        v.chk(guard(|| BaseVector::approximate_eq(&va, &va.clone(), T::zero())) == Ok(true), "equality", || "Vec approximate_eq(v, v, 0) is not true".to_string());
    }
    // an operand that extends / truncates the other one (equal prefix): still a length mismatch
    {
        let mut longer = va.clone();
        longer.push(x);
        for (p, q, what) in [(&va, &longer, "v vs v++[x]"), (&longer, &va, "v++[x] vs v")] {
            v.chk(guard(|| BaseVector::approximate_eq(p, q, T::of(1e30))) == Ok(false), "equality", || format!("Vec approximate_eq is not false: {}", what));
            v.must_panic("shape_contract", &format!("Vec dot: {}", what), guard(|| BaseVector::dot(p, q)));
            v.must_panic("shape_contract", &format!("Vec add: {}", what), guard(|| BaseVector::add(p, q)));
            v.must_panic("shape_contract", &format!("Vec sub_mut: {}", what), guard(|| { let mut w = p.clone(); BaseVector::sub_mut(&mut w, q); w }));
            v.must_panic("shape_contract", &format!("Vec mul: {}", what), guard(|| BaseVector::mul(p, q)));
            v.must_panic("shape_contract", &format!("Vec div_mut: {}", what), guard(|| { let mut w = p.clone(); BaseVector::div_mut(&mut w, q); w }));
            v.must_panic("shape_contract", &format!("Vec copy_from: {}", what), guard(|| { let mut w = p.clone(); BaseVector::copy_from(&mut w, q); w }));
        }
    }
    // unique, take, copy_from
    {
        let mut e = xa.clone();
        e.sort_by(|p, q| p.partial_cmp(q).unwrap());
        e.dedup();
        v.vec_exact("unique", "Vec unique", guard(|| vec_f(&BaseVector::unique(&va))), &e);
        let ix: Vec<usize> = c.idx.iter().map(|i| i % xa.len()).collect();
        let e: Vec<f64> = ix.iter().map(|i| xa[*i]).collect();
        v.vec_exact("take", "Vec take", guard(|| vec_f(&BaseVector::take(&va, &ix))), &e);
        let mut bad = ix.clone();
        bad.push(xa.len());
        v.must_panic("shape_contract", "Vec take with an index = len", guard(|| BaseVector::take(&va, &bad)));
        let g = guard(|| { let mut w = va.clone(); BaseVector::copy_from(&mut w, &vb); vec_f(&w) });
        if samelen {
            v.vec_exact("copy", "Vec copy_from", g, &xb);
        } else {
            v.must_panic("shape_contract", &format!("Vec copy_from of length {} into {}", xb.len(), xa.len()), g);
        }
    }
    // every vector result is an ordinary vector
    {
        let ix: Vec<usize> = c.idx.iter().map(|i| i % xa.len()).collect();
        v.vpost("Vec from_array", &guard(|| <Vec<T> as BaseVector<T>>::from_array(&va)));
        v.vpost("Vec fill", &guard(|| <Vec<T> as BaseVector<T>>::fill(xa.len(), x)));
        v.vpost("Vec take", &guard(|| BaseVector::take(&va, &ix)));
        v.vpost("Vec unique", &guard(|| BaseVector::unique(&va)));
        v.vpost("Vec mul_scalar", &guard(|| va.mul_scalar(x)));
        if samelen {
            v.vpost("Vec add", &guard(|| BaseVector::add(&va, &vb)));
            v.vpost("Vec div_mut", &guard(|| { let mut w = va.clone(); BaseVector::div_mut(&mut w, &vb); w }));
            v.vpost("Vec copy_from", &guard(|| { let mut w = va.clone(); BaseVector::copy_from(&mut w, &vb); w }));
        }
    }
    // mean / var / std of the vector (two-pass: accurate for any offset)
    stats_lines::<T>(&vec![xa.clone()], v);
}

// ------------------------------------------------------------------------------------------
// oracle 7: chains of operations.  a: start matrix; b: a second operand (used by the stacking steps when
// its shape fits); idx: the steps, STEP numbers each [code, p1..p5] (decoded against the current shape);
// nums: [x].  After every step the result is compared (1) with the same operation applied to the matrix
// REBUILT from the logical view of the previous result (`chain_equals_rebuilt`: an operation may not see
// anything of its operand beyond shape and entries), (2) with the definition of the operation on the
// logical view where that is exact or has a stated tolerance (`chain_definition`), (3) with the
// post-condition `storage_consistent`.  The last result is finally consumed by the reductions.
// ------------------------------------------------------------------------------------------
const STEP: usize = 6;
#[derive(Clone, Debug)]
enum Op {
    Slice(usize, usize, usize, usize),
    Take(Vec<usize>, u8),
    Reshape(usize, usize),
    Transpose,
    /// other operand: 0 = the matrix itself, 1 = b when its shape fits (else itself), 2 = its first column / row (a slice)
    HStack(usize),
    VStack(usize),
    /// false: m * m^T, true: m^T * m
    MatmulT(bool),
    /// ab(ta, m, tb) with itself
    Ab(bool, bool),
    /// element-wise op (0 add, 1 sub, 2 mul, 3 div) with |m| + 1; in place or copying
    Zip(usize, bool),
    Scalar(usize, bool),
    /// 0 negative, 1 abs, 2 binarize(x), 3 pow(2)
    Map(usize, bool),
    CopyInto,
    /// 0 from_row_vector(get_row(i)), 1 row_vector_from_array(get_row_as_vec(i)), 2 column_vector_from_vec(get_col_as_vec(i)),
    /// 3 from_vec(n, p, to_row_vector()), 4 from_array(p, n, iter()), 5 new(n, p, into Vec), 6 column_vector_from_array(get_row(i))
    Rewrap(usize, usize),
    /// 0 set, 1 add, 2 sub, 3 mul, 4 div element
    Elem(usize, usize, usize),
    Softmax,
    Scale(u8),
    Cov,
    CloneOf,
    Serde,
}
fn decode(s: &[usize], n: usize, p: usize) -> Op {
    let (p1, p2, p3, p4, p5) = (s[1], s[2], s[3], s[4], s[5]);
    match s[0] % 26 {
        0..=5 => {
            let (mut r0, mut c0) = (p1 % n, p3 % p);
            let (mut r1, mut c1) = (r0 + 1 + p2 % (n - r0), c0 + 1 + p4 % (p - c0));
            match p5 % 6 {
                1 => { r0 = 0; r1 = n; }                                  // all rows
                2 => { c0 = 0; c1 = p; }                                  // all columns
                3 => { r0 = 0; r1 = n; c0 = 0; c1 = 1 + p4 % p; }         // all rows, leading columns
                4 => { c0 = 0; c1 = p; r0 = 0; r1 = 1 + p2 % n; }         // all columns, leading rows
                _ => {}
            }
            Op::Slice(r0, r1, c0, c1)
        }
        6 | 7 => {
            let axis = (p1 % 2) as u8;
            let len = if axis == 0 { n } else { p };
            Op::Take((0..1 + p2 % 4).map(|i| (p3 + i * (p4 % 5 + 1)) % len).collect(), axis)
        }
        8 | 9 => {
            let divs: Vec<usize> = (1..=n * p).filter(|d| (n * p) % d == 0).collect();
            let k = divs[p1 % divs.len()];
            Op::Reshape(k, n * p / k)
        }
        10 | 11 => Op::Transpose,
        12 => Op::HStack(p1 % 3),
        13 => Op::VStack(p1 % 3),
        14 => Op::MatmulT(p1 % 2 == 1),
        15 => Op::Ab(p1 % 2 == 1, p2 % 2 == 1),
        16 => Op::Zip(p1 % 4, p2 % 2 == 1),
        17 => Op::Scalar(p1 % 4, p2 % 2 == 1),
        18 => Op::Map(p1 % 4, p2 % 2 == 1),
        19 => Op::CopyInto,
        20 | 21 => { let k = p1 % 7; Op::Rewrap(k, p2 % (if k == 2 { p } else { n })) }
        22 => Op::Elem(p1 % 5, p2 % n, p3 % p),
        23 => match p1 % 4 { 0 => Op::Softmax, 1 => Op::Scale(0), 2 => Op::Scale(1), _ => Op::Cov },
        24 => Op::CloneOf,
        _ => Op::Serde,
    }
}
fn scale_vectors<T: Sc>(len: usize, x: T) -> (Vec<T>, Vec<T>) {
    ((0..len).map(|i| T::of(0.25 * i as f64 - 0.5) + x).collect(), (0..len).map(|i| T::of(0.5 + 0.75 * i as f64)).collect())
}
/// the step on the implementation (panics are caught by the caller); reads `m` only through the public API
fn op_apply<T: Sc>(op: &Op, m: &DenseMatrix<T>, b: &DenseMatrix<T>, x: T) -> DenseMatrix<T> {
    let (n, p) = m.shape();
    match op {
        Op::Slice(r0, r1, c0, c1) => m.slice(*r0..*r1, *c0..*c1),
        Op::Take(ix, axis) => m.take(ix, *axis),
        Op::Reshape(k, l) => m.reshape(*k, *l),
        Op::Transpose => m.transpose(),
        Op::HStack(w) => {
            let o = match w { 1 if b.shape().0 == n => b.clone(), 2 => m.slice(0..n, 0..1), _ => m.clone() };
            m.h_stack(&o)
        }
        Op::VStack(w) => {
            let o = match w { 1 if b.shape().1 == p => b.clone(), 2 => m.slice(0..1, 0..p), _ => m.clone() };
            m.v_stack(&o)
        }
        Op::MatmulT(false) => m.matmul(&m.transpose()),
        Op::MatmulT(true) => m.transpose().matmul(m),
        Op::Ab(ta, tb) => m.ab(*ta, m, *tb),
        Op::Zip(which, inplace) => {
            let mut o = m.abs();
            o.add_scalar_mut(T::one());
            if *inplace {
                let mut w = m.clone();
                match which { 0 => { w.add_mut(&o); } 1 => { w.sub_mut(&o); } 2 => { w.mul_mut(&o); } _ => { w.div_mut(&o); } };
                w
            } else {
                match which { 0 => m.add(&o), 1 => m.sub(&o), 2 => m.mul(&o), _ => m.div(&o) }
            }
        }
        Op::Scalar(which, inplace) => {
            if *inplace {
                let mut w = m.clone();
                match which { 0 => { w.add_scalar_mut(x); } 1 => { w.sub_scalar_mut(x); } 2 => { w.mul_scalar_mut(x); } _ => { w.div_scalar_mut(x); } };
                w
            } else {
                match which { 0 => m.add_scalar(x), 1 => m.sub_scalar(x), 2 => m.mul_scalar(x), _ => m.div_scalar(x) }
            }
        }
        Op::Map(which, inplace) => {
            if *inplace {
                let mut w = m.clone();
                match which { 0 => { w.negative_mut(); } 1 => { w.abs_mut(); } 2 => { w.binarize_mut(x); } _ => { w.pow_mut(T::two()); } };
                w
            } else {
                match which { 0 => m.negative(), 1 => m.abs(), 2 => m.binarize(x), _ => m.clone().pow(T::two()) }
            }
        }
        Op::CopyInto => { let mut z = DenseMatrix::<T>::zeros(n, p); z.copy_from(m); z }
        Op::Rewrap(k, i) => match k {
            0 => DenseMatrix::<T>::from_row_vector(m.get_row(*i)),
            1 => DenseMatrix::<T>::row_vector_from_array(&m.get_row_as_vec(*i)),
            2 => DenseMatrix::<T>::column_vector_from_vec(m.get_col_as_vec(*i)),
            3 => DenseMatrix::<T>::from_vec(n, p, &m.clone().to_row_vector()),
            4 => DenseMatrix::<T>::from_array(p, n, &m.iter().collect::<Vec<T>>()),
            5 => DenseMatrix::<T>::new(n, p, m.clone().into()),
            _ => DenseMatrix::<T>::column_vector_from_array(&m.get_row(*i)),
        },
        Op::Elem(which, r, c) => {
            let mut w = m.clone();
            match which { 0 => w.set(*r, *c, x), 1 => w.add_element_mut(*r, *c, x), 2 => w.sub_element_mut(*r, *c, x), 3 => w.mul_element_mut(*r, *c, x), _ => w.div_element_mut(*r, *c, x) };
            w
        }
        Op::Softmax => { let mut w = m.clone(); w.softmax_mut(); w }
        Op::Scale(axis) => {
            let (mu, sd) = scale_vectors::<T>(if *axis == 0 { p } else { n }, x);
            let mut w = m.clone();
            w.scale_mut(&mu, &sd, *axis);
            w
        }
        Op::Cov => m.cov(),
        Op::CloneOf => m.clone(),
        Op::Serde => serde_json::from_value::<DenseMatrix<T>>(serde_json::to_value(m).unwrap()).unwrap(),
    }
}
enum Spec {
    /// the logical view of the result, entry for entry
    Exact(Rows),
    /// value and entrywise tolerance
    Close(Rows, Rows),
    /// the shapes do not fit: must be rejected
    Reject,
    /// no definition is evaluated at this step (transcendental / rounding-order dependent): only (1) and (3)
    Unspecified,
}
/// the step's definition on the logical view `a` (entries already representable in T)
fn op_spec<T: Sc>(op: &Op, a: &Rows, b: &Rows, x: T) -> Spec {
    let (n, p) = shape_of(a);
    let t = |v: f64| T::of(v);
    let map = |f: &dyn Fn(T) -> T| -> Rows { a.iter().map(|r| r.iter().map(|v| f(T::of(*v)).f()).collect()).collect() };
    match op {
        Op::Slice(r0, r1, c0, c1) => Spec::Exact((*r0..*r1).map(|r| (*c0..*c1).map(|c| a[r][c]).collect()).collect()),
        Op::Take(ix, 0) => Spec::Exact(ix.iter().map(|&i| a[i].clone()).collect()),
        Op::Take(ix, _) => Spec::Exact((0..n).map(|r| ix.iter().map(|&i| a[r][i]).collect()).collect()),
        Op::Reshape(k, l) => Spec::Exact(s_reshape(a, *k, *l)),
        Op::Transpose => Spec::Exact(s_transpose(a)),
        Op::HStack(w) => {
            let o: Rows = match w { 1 if shape_of(b).0 == n => b.clone(), 2 => a.iter().map(|r| vec![r[0]]).collect(), _ => a.clone() };
            Spec::Exact((0..n).map(|r| a[r].iter().chain(o[r].iter()).cloned().collect()).collect())
        }
        Op::VStack(w) => {
            let o: Rows = match w { 1 if shape_of(b).1 == p => b.clone(), 2 => vec![a[0].clone()], _ => a.clone() };
            Spec::Exact(a.iter().chain(o.iter()).cloned().collect())
        }
        Op::MatmulT(tr) => {
            let at = s_transpose(a);
            let (e, tl) = if *tr { s_matmul(&at, a, T::eps()) } else { s_matmul(a, &at, T::eps()) };
            Spec::Close(e, tl)
        }
        Op::Ab(ta, tb) => {
            let at = s_transpose(a);
            let (l, r) = (if *ta { &at } else { a }, if *tb { &at } else { a });
            if shape_of(l).1 != shape_of(r).0 {
                Spec::Reject
            } else {
                let (e, tl) = s_matmul(l, r, T::eps());
                Spec::Close(e, tl)
            }
        }
        Op::Zip(which, _) => Spec::Exact(map(&|v| { let o = v.abs() + T::one(); match which { 0 => v + o, 1 => v - o, 2 => v * o, _ => v / o } })),
        Op::Scalar(which, _) => Spec::Exact(map(&|v| match which { 0 => v + x, 1 => v - x, 2 => v * x, _ => v / x })),
        Op::Map(0, _) => Spec::Exact(map(&|v| -v)),
        Op::Map(1, _) => Spec::Exact(map(&|v| v.abs())),
        Op::Map(2, _) => Spec::Exact(map(&|v| if v > x { T::one() } else { T::zero() })),
        Op::Map(_, _) => {
            let e: Rows = a.iter().map(|r| r.iter().map(|v| v * v).collect()).collect();
            let tl: Rows = e.iter().map(|r| r.iter().map(|v| 16.0 * T::eps() * v.abs() + if T::F32 { 1e-37 } else { 1e-300 }).collect()).collect();
            Spec::Close(e, tl)
        }
        Op::CopyInto | Op::CloneOf | Op::Serde | Op::Rewrap(3, _) | Op::Rewrap(5, _) => Spec::Exact(a.clone()),
        Op::Rewrap(0, i) | Op::Rewrap(1, i) => Spec::Exact(vec![a[*i].clone()]),
        Op::Rewrap(2, i) => Spec::Exact((0..n).map(|r| vec![a[r][*i]]).collect()),
        Op::Rewrap(4, _) => Spec::Exact(s_reshape(a, p, n)),
        Op::Rewrap(_, i) => Spec::Exact(a[*i].iter().map(|v| vec![*v]).collect()),
        Op::Elem(which, r, c) => {
            let mut e = a.clone();
            let v = t(a[*r][*c]);
            e[*r][*c] = (match which { 0 => x, 1 => v + x, 2 => v - x, 3 => v * x, _ => v / x }).f();
            Spec::Exact(e)
        }
        Op::Scale(axis) => {
            let (mu, sd) = scale_vectors::<T>(if *axis == 0 { p } else { n }, x);
            Spec::Exact((0..n).map(|r| (0..p).map(|c| { let i = if *axis == 0 { c } else { r }; ((t(a[r][c]) - mu[i]) / sd[i]).f() }).collect()).collect())
        }
        Op::Softmax | Op::Cov => Spec::Unspecified,
    }
}
fn o_chain<T: Sc>(c: &Case, v: &mut Verdict) {
    let a = round_to::<T>(&c.a);
    let b = if c.b.is_empty() { a.clone() } else { round_to::<T>(&c.b) };
    let x = T::of(num(c, 0, 1.5));
    let lim = if T::F32 { 1e15 } else { 1e100 };
    let mb = mk::<T>(&b);
    let mut cur = mk::<T>(&a);
    let mut trail = format!("{}x{}", a.len(), a[0].len());
    for s in c.idx.chunks(STEP) {
        let (n, p) = cur.shape();
        if s.len() < STEP || n == 0 || p == 0 {
            break;
        }
        let vw = match guard(|| view(&cur)) { Ok(x) => x, Err(_) => break };
        let op = decode(s, n, p);
        trail = format!("{} -> {:?}", trail, op);
        // (1) the same step on the operand rebuilt from the logical view
        let reb = mk::<T>(&vw);
        let got = guard(|| op_apply(&op, &cur, &mb, x));
        let refr = guard(|| op_apply(&op, &reb, &mb, x));
        let (gv, rv) = (got.as_ref().map_err(|e| e.clone()).and_then(|g| guard(|| (g.shape(), view(g)))), refr.as_ref().map_err(|e| e.clone()).and_then(|g| guard(|| (g.shape(), view(g)))));
        let agree = match (&gv, &rv) { (Ok((s1, v1)), Ok((s2, v2))) => s1 == s2 && same_rows(v1, v2), (Err(_), Err(_)) => true, _ => false };
        v.chk(agree, "chain_equals_rebuilt", || format!("{}: the last step gives {} on the result of the previous steps (logical view {}) but {} on the matrix rebuilt from that view",
            trail, short(&gv), short(&vw), short(&rv)));
        // (2) the definition, (3) the post-condition (inside mat_exact / mat_close)
        let finite = flat(&vw).iter().all(|t| t.is_finite() && t.abs() < lim);
        match op_spec::<T>(&op, &vw, &b, x) {
            Spec::Reject => v.must_panic("shape_contract", &trail, got.clone()),
            Spec::Exact(e) if finite => v.mat_exact("chain_definition", &trail, got.clone(), &e),
            Spec::Close(e, tl) if finite => {
                // binary32 products of small entries underflow: absolute floor of a few subnormal steps per term
                let tl: Rows = tl.iter().map(|r| r.iter().map(|t| t + if T::F32 { 1e-43 * (n + p + 2) as f64 } else { 0.0 }).collect()).collect();
                v.mat_close("chain_definition", &trail, got.clone(), &e, &tl)
            }
            _ => {
                if !finite { v.excluded += 1; }
                if let Ok(g) = &got { v.post(&trail, g); }
            }
        }
        match got { Ok(g) => cur = g, Err(_) => return }
    }
    // consumers of the last result, against their definitions on its logical view
    let (n, p) = cur.shape();
    if n == 0 || p == 0 {
        return;
    }
    let vw = match guard(|| view(&cur)) { Ok(x) => x, Err(e) => { v.fail("chain_definition", format!("{}: reading the result panicked: {}", trail, e)); return; } };
    let fa = flat(&vw);
    if !fa.iter().all(|t| t.is_finite() && t.abs() < lim) {
        v.excluded += 1;
        return;
    }
    let eps = T::eps();
    let k = fa.len() as f64;
    let (s, sabs) = csum(&fa);
    // absolute floor: binary32 results in the subnormal range (squares of small entries underflow)
    let uf = if T::F32 { 1e-43 * (k + 2.0) } else { 1e-300 };
    v.num_close("chain_definition", &format!("{} -> sum", trail), guard(|| cur.sum().f()), s, 8.0 * (k + 1.0) * eps * sabs + uf);
    v.num_close("chain_definition", &format!("{} -> max", trail), guard(|| cur.max().f()), fa.iter().cloned().fold(f64::NEG_INFINITY, f64::max), 0.0);
    v.num_close("chain_definition", &format!("{} -> min", trail), guard(|| cur.min().f()), fa.iter().cloned().fold(f64::INFINITY, f64::min), 0.0);
    let n2 = csum(&fa.iter().map(|t| t * t).collect::<Vec<f64>>()).0.sqrt();
    if n2.is_finite() && n2 < if T::F32 { 1e18 } else { 1e150 } {
        v.num_close("chain_definition", &format!("{} -> norm2", trail), guard(|| cur.norm2().f()), n2, 8.0 * (k + 2.0) * eps * n2 + uf.sqrt());
    }
    v.num_close("chain_definition", &format!("{} -> norm(1)", trail), guard(|| cur.norm(T::one()).f()), sabs, 64.0 * (k + 2.0) * eps * sabs + uf);
    v.num_close("chain_definition", &format!("{} -> norm(+inf)", trail), guard(|| cur.norm(T::infinity()).f()), maxabs(&fa), 0.0);
    let mut u = fa.clone();
    u.sort_by(|p, q| p.partial_cmp(q).unwrap());
    u.dedup();
    v.vec_exact("chain_definition", &format!("{} -> unique", trail), guard(|| vec_f(&cur.unique())), &u);
    v.vec_exact("chain_definition", &format!("{} -> to_row_vector", trail), guard(|| vec_f(&cur.clone().to_row_vector())), &fa);
    v.vec_exact("chain_definition", &format!("{} -> iter", trail), guard(|| cur.iter().take(fa.len() + 8).map(|t| t.f()).collect()), &fa);
    let e = mk::<T>(&vw);
    v.chk(guard(|| cur == e) == Ok(true), "chain_definition", || format!("{} -> ==: the result (logical view {}) is not equal to the matrix with the same entries", trail, short(&vw)));
    v.chk(guard(|| e == cur) == Ok(true), "chain_definition", || format!("{} -> ==: the matrix with the same entries is not equal to the result (logical view {})", trail, short(&vw)));
    v.num_close("chain_definition", &format!("{} -> max_diff(matrix with the same entries)", trail), guard(|| cur.max_diff(&e).f()), 0.0, 0.0);
    // consumer -> consumer: the flattened vector and its reductions, and back to a matrix
    if let Some(rv) = v.must_ok("chain_definition", &format!("{} -> to_row_vector", trail), guard(|| cur.clone().to_row_vector())) {
        v.num_close("chain_definition", &format!("{} -> to_row_vector -> Vec sum", trail), guard(|| BaseVector::sum(&rv).f()), s, 8.0 * (k + 1.0) * eps * sabs + uf);
        v.vec_exact("chain_definition", &format!("{} -> to_row_vector -> Vec unique", trail), guard(|| vec_f(&BaseVector::unique(&rv))), &u);
        v.mat_exact("chain_definition", &format!("{} -> to_row_vector -> from_row_vector -> reshape", trail), guard(|| DenseMatrix::<T>::from_row_vector(rv.clone()).reshape(n, p)), &vw);
    }
}

// ------------------------------------------------------------------------------------------
// dispatch, bookkeeping, replay
// ------------------------------------------------------------------------------------------
fn run_case(c: &Case) -> Verdict {
    let mut v = Verdict::default();
    let r = guard(|| {
        let mut v = Verdict::default();
        macro_rules! go { ($f:ident) => { if c.f32m { $f::<f32>(c, &mut v) } else { $f::<f64>(c, &mut v) } }; }
        match c.entry.as_str() {
            "structure" => go!(o_structure),
            "binary" => go!(o_binary),
            "unary" => go!(o_unary),
            "softmax" => go!(o_softmax),
            "variance" => go!(o_variance),
            "vector" => go!(o_vector),
            "chain" => go!(o_chain),
            _ => v.fail("replay", format!("unknown entry {}", c.entry)),
        }
        v
    });
    match r {
        Ok(x) => v = x,
        Err(e) => v.fail("harness", format!("oracle {} itself panicked: {}", c.entry, e)),
    }
    v
}

/// number of results (matrices and vectors) the post-condition `storage_consistent` was evaluated on
static POSTS: std::sync::atomic::AtomicU64 = std::sync::atomic::AtomicU64::new(0);

fn record(out: &mut Out, c: &Case) {
    let v = run_case(c);
    let (n, p) = shape_of(&c.a);
    let mixed = flat(&c.a).iter().any(|x| *x < 0.0);
    out.eval(c.key(), n != p || mixed);
    out.count(&format!("search:{}:{}", c.entry, if c.f32m { "f32" } else { "f64" }));
    out.count(&format!("search:family:{}", c.family));
    let kind = if n == 1 && p == 1 { "1x1" } else if n == 1 { "1xN" } else if p == 1 { "Nx1" } else if n == p { "square" } else if n > p { "tall" } else { "wide" };
    out.count(&format!("search:shape:{}", kind));
    for _ in 0..v.excluded {
        out.count("search:excluded-near-tie-or-overflow");
    }
    POSTS.fetch_add(v.posts as u64, std::sync::atomic::Ordering::Relaxed);
    if c.entry == "chain" {
        out.count(&format!("search:chain:steps-{}", c.idx.len() / STEP));
    }
    for (id, what) in &v.known {
        out.known(id, what);
        out.count(&format!("known:{}", id));
    }
    for (oracle, what) in &v.fails {
        out.fail(oracle, what, c.to_json());
    }
}

fn replay(path: &str) -> i32 {
    let v = read_replay(path);
    let inp = if v.get("input").is_some() { v["input"].clone() } else { v.clone() };
    let c = Case::from_json(&inp);
    let r = run_case(&c);
    for (o, w) in &r.fails {
        println!("  {}: {}", o, w);
    }
    for (o, w) in &r.known {
        println!("  known finding {}: {}", o, w);
    }
    if !r.fails.is_empty() {
        println!("REPLAY: property=C03 still fails: {}", path);
        1
    } else {
        println!("REPLAY: property=C03 passes: {}", path);
        0
    }
}

// ------------------------------------------------------------------------------------------
// generators
// ------------------------------------------------------------------------------------------
const FAMILIES: [&str; 9] = ["dyadic-mixed", "positive", "all-negative", "all-equal", "large", "integers", "continuous", "offset", "tiny"];

fn gen_rows(rng: &mut Rng, n: usize, p: usize, fam: &str, f32m: bool) -> Rows {
    let konst = rng.uniform(-20.0, 20.0);
    let off_exp = if f32m { rng.usize_in(0, 3) } else { rng.usize_in(0, 8) };
    let off = (if rng.bool() { 1.0 } else { -1.0 }) * 10f64.powi(off_exp as i32) * rng.uniform(1.0, 9.0);
    let big = if f32m { 1e6 } else { *rng.pick(&[1e6, 1e9, 1e12]) };
    let r: Rows = (0..n)
        .map(|_| {
            (0..p)
                .map(|_| match fam {
                    "dyadic-mixed" => rng.dyadic(8, 3),
                    "positive" => rng.uniform(0.1, 10.0),
                    "all-negative" => -rng.uniform(0.1, 10.0),
                    "all-equal" => konst,
                    "large" => rng.uniform(-1.0, 1.0) * big,
                    "integers" => rng.int(-3, 3) as f64,
                    "continuous" => rng.normal() * 3.0,
                    "offset" => off + rng.uniform(-1.0, 1.0),
                    _ => rng.uniform(-1.0, 1.0) * 1e-6,
                })
                .collect()
        })
        .collect();
    if f32m { round_to::<f32>(&r) } else { r }
}

fn gen_shape(rng: &mut Rng, max: usize) -> (usize, usize) {
    match rng.below(8) {
        0 => (1, rng.usize_in(1, max)),
        1 => (rng.usize_in(1, max), 1),
        2 => (1, 1),
        3 => { let n = rng.usize_in(1, max); (n, n) }
        _ => (rng.usize_in(1, max), rng.usize_in(1, max)),
    }
}

/// pairs of shapes covering every compatible / incompatible pattern of the binary operations
fn gen_shape_pair(rng: &mut Rng, max: usize) -> ((usize, usize), (usize, usize)) {
    let (n, p) = gen_shape(rng, max);
    let other = |rng: &mut Rng, x: usize| { let mut y = rng.usize_in(1, max); if y == x { y = if x < max { x + 1 } else { x - 1 }.max(1); } y };
    match rng.below(12) {
        0 | 1 => ((n, p), (n, p)),
        2 => ((n, p), (p, n)),
        3 => ((n, p), (n, other(rng, p))),
        4 => ((n, p), (other(rng, n), p)),
        5 => ((n, p), (p, rng.usize_in(1, max))),
        6 => { let k = rng.usize_in(1, max); (if rng.bool() { (1, k) } else { (k, 1) }, if rng.bool() { (1, k) } else { (k, 1) }) }
        7 => { let k = rng.usize_in(1, max); let l = other(rng, k); (if rng.bool() { (1, k) } else { (k, 1) }, if rng.bool() { (1, l) } else { (l, 1) }) }
        8 => { let (k, l) = (rng.usize_in(2, 3), rng.usize_in(2, 3)); if rng.bool() { ((1, k * l), (k, l)) } else { ((k, l), (k * l, 1)) } }
        9 => ((n, p), (rng.usize_in(1, max), n)),
        10 => ((1, 1), gen_shape(rng, max)),
        _ => ((n, p), gen_shape(rng, max)),
    }
}

fn search(out: &mut Out, rng: &mut Rng, thorough: bool) {
    // corpus: the repaired defects D5, D6 (vector half), D14 and the known finding
    for f32m in [false, true] {
        record(out, &Case { entry: "softmax".into(), f32m, family: "corpus".into(), a: vec![vec![-1000.0, -1001.0, -1002.0]], ..Default::default() });
        record(out, &Case { entry: "binary".into(), f32m, family: "corpus".into(), a: vec![vec![1.0, 2.0, 3.0, 4.0]], b: vec![vec![5.0, 6.0], vec![7.0, 8.0]], nums: vec![0.25], dims: vec![0, 0], ..Default::default() });
    }
    record(out, &Case { entry: "variance".into(), f32m: false, family: "corpus".into(), a: vec![vec![1e8], vec![1e8 + 1.0], vec![1e8 + 2.0], vec![1e8 + 3.0]], ..Default::default() });
    record(out, &Case { entry: "vector".into(), f32m: false, family: "corpus".into(), a: vec![vec![1e8, 1e8 + 1.0, 1e8 + 2.0, 1e8 + 3.0]], b: vec![vec![1.0, 2.0, 3.0, 4.0]], idx: vec![3, 0, 0], nums: vec![1.5, 2.0, 0.25], ..Default::default() });

    // seeded change C03d_2 (a slice of all rows and leading / middle columns that kept the trailing columns in
    // its buffer, visible only to a following ==, sum, min, max, unique, max_diff, copy_from): the two-step inputs
    for f32m in [false, true] {
        let m = vec![vec![1.0, 2.0, 3.0, -40.0, 50.0], vec![4.0, 5.0, 6.0, -70.0, 80.0], vec![7.0, 8.0, 9.0, -100.0, 110.0]];
        // slice(0..3, 0..2), slice(0..3, 1..3), then the reductions; slice then copy_from; slice then transpose
        record(out, &Case { entry: "chain".into(), f32m, family: "corpus".into(), a: m.clone(), idx: vec![0, 0, 0, 0, 1, 3], nums: vec![1.5], ..Default::default() });
        record(out, &Case { entry: "chain".into(), f32m, family: "corpus".into(), a: m.clone(), idx: vec![0, 0, 0, 1, 1, 1], nums: vec![1.5], ..Default::default() });
        record(out, &Case { entry: "chain".into(), f32m, family: "corpus".into(), a: m.clone(), idx: vec![0, 0, 0, 0, 1, 3, 19, 0, 0, 0, 0, 0], nums: vec![1.5], ..Default::default() });
        record(out, &Case { entry: "chain".into(), f32m, family: "corpus".into(), a: vec![vec![3.0, -1.0, 4.0, -1.0, 5.0, -9.0]], idx: vec![0, 0, 0, 2, 2, 0, 10, 0, 0, 0, 0, 0], nums: vec![1.5], ..Default::default() });
        record(out, &Case { entry: "structure".into(), f32m, family: "corpus".into(), a: m, idx: vec![2, 0], dims: vec![0, 2, 0, 1, 1, 1], nums: vec![1.5], ..Default::default() });
    }

    let maxd = 12;
    let scale = if thorough { 200 } else { 16 };
    // chains of two and three operations (some of one, some of four) on shapes up to 6x6
    for i in 0..800 * scale {
        let f32m = i % 4 == 3;
        let fam = *rng.pick(&FAMILIES);
        let (n, p) = gen_shape(rng, 6);
        let (n2, p2) = match rng.below(4) { 0 => (n, rng.usize_in(1, 6)), 1 => (rng.usize_in(1, 6), p), 2 => (n, p), _ => gen_shape(rng, 6) };
        let steps = *rng.pick(&[1usize, 2, 2, 2, 3, 3, 3, 4]);
        let mut idx: Vec<usize> = (0..steps * STEP).map(|_| rng.below(1000)).collect();
        // half of the chains start with a slice (code 0..=5), a quarter of those with a full-row / full-column one
        if rng.bool() { idx[0] = rng.below(6); if rng.bool() { idx[5] = 6 * rng.below(100) + rng.usize_in(1, 4); } }
        let c = Case { entry: "chain".into(), f32m, family: fam.into(), a: gen_rows(rng, n, p, fam, f32m), b: gen_rows(rng, n2, p2, fam, f32m), idx,
            nums: vec![*rng.pick(&[1.5, -2.0, 0.5, 4.0, -0.75])], ..Default::default() };
        if i < 1 { out.sample(c.to_json()); }
        record(out, &c);
    }
    // small shapes exhaustively for the structural oracle
    for n in 1..=(if thorough { 6 } else { 4 }) {
        for p in 1..=(if thorough { 6 } else { 4 }) {
            for f32m in [false, true] {
                let fam = *rng.pick(&["dyadic-mixed", "integers", "all-negative"]);
                let idx: Vec<usize> = (0..rng.usize_in(1, 6)).map(|_| rng.below(64)).collect();
                record(out, &Case { entry: "structure".into(), f32m, family: fam.into(), a: gen_rows(rng, n, p, fam, f32m), idx, dims: (0..6).map(|_| rng.below(64)).collect(), nums: vec![rng.dyadic(4, 2)], ..Default::default() });
            }
        }
    }
    for i in 0..150 * scale {
        let f32m = i % 4 == 3;
        let fam = *rng.pick(&FAMILIES);
        let (n, p) = gen_shape(rng, maxd);
        let idx: Vec<usize> = (0..rng.usize_in(0, 2 * maxd)).map(|_| rng.below(1000)).collect();
        let c = Case { entry: "structure".into(), f32m, family: fam.into(), a: gen_rows(rng, n, p, fam, f32m), idx, dims: (0..6).map(|_| rng.below(1000)).collect(), nums: vec![rng.uniform(-3.0, 3.0)], ..Default::default() };
        if i < 2 { out.sample(c.to_json()); }
        record(out, &c);
    }
    for i in 0..600 * scale {
        let f32m = i % 4 == 3;
        let fam = *rng.pick(&FAMILIES);
        let fam2 = if rng.chance(0.7) { fam } else { *rng.pick(&FAMILIES) };
        let ((n1, p1), (n2, p2)) = gen_shape_pair(rng, if i % 3 == 0 { maxd } else { 5 });
        let a = gen_rows(rng, n1, p1, fam, f32m);
        let mut b = gen_rows(rng, n2, p2, fam2, f32m);
        if (n1, p1) == (n2, p2) && rng.chance(0.3) {
            // nearly equal operands for the equality tests
            b = a.clone();
            if rng.bool() { let (r, cc) = (rng.below(n1), rng.below(p1)); b[r][cc] += *rng.pick(&[0.125, -0.5, 1.0]); }
            if f32m { b = round_to::<f32>(&b); }
        }
        let c = Case { entry: "binary".into(), f32m, family: fam.into(), a, b, dims: vec![rng.below(1000), rng.below(1000)], nums: vec![*rng.pick(&[0.25, 0.0, 1.0, 7.5])], ..Default::default() };
        if i < 1 { out.sample(c.to_json()); }
        record(out, &c);
    }
    for i in 0..300 * scale {
        let f32m = i % 4 == 3;
        let fam = *rng.pick(&FAMILIES);
        let (n, p) = gen_shape(rng, maxd);
        let pw = *rng.pick(&[0.0, 1.0, 2.0, 3.0, 0.5, 1.5, 2.0]);
        let c = Case { entry: "unary".into(), f32m, family: fam.into(), a: gen_rows(rng, n, p, fam, f32m), nums: vec![*rng.pick(&[1.5, -2.0, 0.3, 4.0, -0.75]), pw, *rng.pick(&[0.0, -1.0, 0.5, 2.0])], ..Default::default() };
        record(out, &c);
    }
    for i in 0..200 * scale {
        let f32m = i % 4 == 3;
        let (n, p) = gen_shape(rng, maxd);
        let fam = *rng.pick(&["dyadic-mixed", "all-negative", "all-equal", "large", "integers", "continuous", "offset", "spread-700", "positive"]);
        let mut a = gen_rows(rng, n, p, if fam == "spread-700" { "continuous" } else { fam }, f32m);
        if fam == "spread-700" {
            let s = if f32m { 30.0 } else { 250.0 };
            for r in a.iter_mut() { for x in r.iter_mut() { *x = *x * s - 500.0; } }
            if f32m { a = round_to::<f32>(&a); }
        }
        if fam == "large" { for r in a.iter_mut() { for x in r.iter_mut() { *x = *x / 1e3; } } if f32m { a = round_to::<f32>(&a); } }
        record(out, &Case { entry: "softmax".into(), f32m, family: fam.into(), a, ..Default::default() });
    }
    // variance under a common offset: |mean|/spread from 1 to 1e8 (f32: to 1e4, vector routines only above 2)
    for i in 0..300 * scale {
        let f32m = i % 5 == 4;
        let (n, p) = gen_shape(rng, maxd);
        let e = if f32m { rng.usize_in(0, 4) } else { rng.usize_in(0, 8) };
        let spread = *rng.pick(&[1.0, 0.125, 8.0, 3.0]);
        let off = (if rng.bool() { 1.0 } else { -1.0 }) * 10f64.powi(e as i32) * spread * rng.uniform(1.0, 9.9);
        let lattice = rng.bool();
        let mut a: Rows = (0..n).map(|_| (0..p).map(|_| off + spread * if lattice { rng.int(0, 3) as f64 } else { rng.uniform(-0.5, 0.5) }).collect()).collect();
        if f32m { a = round_to::<f32>(&a); }
        let c = Case { entry: "variance".into(), f32m, family: format!("offset-1e{}", e), a, ..Default::default() };
        if i < 1 { out.sample(c.to_json()); }
        record(out, &c);
    }
    for i in 0..250 * scale {
        let f32m = i % 4 == 3;
        let fam = *rng.pick(&FAMILIES);
        let k = rng.usize_in(1, maxd);
        let l = if rng.chance(0.7) { k } else { rng.usize_in(1, maxd) };
        let a = gen_rows(rng, 1, k, fam, f32m);
        let mut b = gen_rows(rng, 1, l, fam, f32m);
        if k == l && rng.chance(0.3) { b = a.clone(); if rng.bool() { b[0][rng.below(k)] += 0.5; } if f32m { b = round_to::<f32>(&b); } }
        let idx: Vec<usize> = (0..rng.usize_in(0, 2 * maxd)).map(|_| rng.below(1000)).collect();
        record(out, &Case { entry: "vector".into(), f32m, family: fam.into(), a, b, idx, nums: vec![*rng.pick(&[1.5, -2.0, 0.3]), 2.0, *rng.pick(&[0.25, 0.0, 1.0])], ..Default::default() });
    }
}

// ------------------------------------------------------------------------------------------
// correspondence with the Coq model: terms over SC.C03.Corr, on the implementation's storage
// ------------------------------------------------------------------------------------------
fn lit_list<T: Sc>(v: &[T]) -> String {
    coq_list(v.iter().map(|x| coq_f64(x.f())))
}
/// `(M n p [column-major values])` from the implementation's own state
fn lit_dm<T: Sc>(m: &DenseMatrix<T>) -> String {
    let (n, p) = m.shape();
    let vals: Vec<T> = m.clone().into();
    format!("(M {} {} {})", coq_n(n), coq_n(p), lit_list(&vals))
}
fn o_dm<T: Sc>(r: Result<DenseMatrix<T>, String>) -> String {
    coq_option(r.ok().map(|m| lit_dm(&m)))
}
fn o_f<T: Sc>(r: Result<T, String>) -> String {
    coq_option(r.ok().map(|x| coq_f64(x.f())))
}
fn o_l<T: Sc>(r: Result<Vec<T>, String>) -> String {
    coq_option(r.ok().map(|v| lit_list(&v)))
}
fn o_b(r: Result<bool, String>) -> String {
    // a panic of an equality test is a disagreement with the model (which is total): encode as the negation trick
    match r { Ok(b) => coq_bool(b), Err(_) => "(negb true) (* panicked *)".to_string() }
}
#[derive(Clone, Copy, PartialEq)]
enum Kind { Exact, Div, Trans }
fn tol_of<T: Sc>(k: Kind) -> Option<f64> {
    match (k, T::F32) {
        (Kind::Exact, _) | (Kind::Div, false) => None,
        (Kind::Div, true) => Some(1e-5),
        (Kind::Trans, false) => Some(1e-9),
        (Kind::Trans, true) => Some(1e-5),
    }
}
fn cmp<T: Sc>(base: &str, k: Kind) -> String {
    match tol_of::<T>(k) { None => base.to_string(), Some(t) => format!("{}_tol {}", base, coq_f64(t)) }
}

struct Corr<'a> {
    out: &'a mut Out,
}
impl<'a> Corr<'a> {
    fn put<T: Sc>(&mut self, group: &str, term: String, shape: (usize, usize)) {
        let g = if T::F32 { format!("{}:f32", group) } else { group.to_string() };
        self.out.corr(&g, term, json!({"op": group, "f32": T::F32, "shape": [shape.0, shape.1]}));
    }
}

fn corr_data(rng: &mut Rng, n: usize, p: usize, f32m: bool) -> (Rows, &'static str) {
    if f32m {
        // small dyadic values: sums and products of a few of them are exact in binary32
        let fam = *rng.pick(&["dyadic-mixed", "all-negative", "all-equal", "integers"]);
        let k = rng.dyadic(2, 3);
        let r: Rows = (0..n).map(|_| (0..p).map(|_| match fam {
            "dyadic-mixed" => rng.dyadic(2, 3),
            "all-negative" => -(rng.int(1, 16) as f64) / 8.0,
            "all-equal" => k,
            _ => rng.int(-2, 2) as f64,
        }).collect()).collect();
        return (r, fam);
    }
    let fam = *rng.pick(&["dyadic-mixed", "dyadic-mixed", "all-negative", "all-equal", "integers", "integers", "continuous", "large"]);
    let mut r = gen_rows(rng, n, p, fam, false);
    if fam == "integers" {
        // signed zeros: `unique` must keep the first of a run, sums start from +0
        for row in r.iter_mut() { for x in row.iter_mut() { if *x == 0.0 && rng.chance(0.4) { *x = -0.0; } } }
    }
    (r, fam)
}

fn corr_unary<T: Sc>(k: &mut Corr, rng: &mut Rng, n: usize, p: usize) {
    let (a, _) = corr_data(rng, n, p, T::F32);
    // degenerate shapes (no rows / no columns) are built by zeros(): from_2d_vec cannot express 0 x p
    let m = if n == 0 || p == 0 { DenseMatrix::<T>::zeros(n, p) } else { mk::<T>(&a) };
    let la = lit_dm(&m);
    let sh = (n, p);
    let rt = rows_t::<T>(&a);
    let fl: Vec<T> = vec_t(&flat(&a));
    let x = T::of(*rng.pick(&[1.5, -2.0, 0.375, 4.0, -0.75, 3.0]));
    let ex = Kind::Exact;
    // construction
    k.put::<T>("from_array", format!("c_dm (x_from_vec {} {} {}) {}", coq_n(n), coq_n(p), lit_list(&fl), o_dm(guard(|| DenseMatrix::<T>::from_array(n, p, &fl)))), sh);
    if fl.len() > 1 {
        let short = &fl[..fl.len() - 1];
        k.put::<T>("from_array", format!("c_dm (x_from_vec {} {} {}) {}", coq_n(n), coq_n(p), lit_list(short), o_dm(guard(|| DenseMatrix::<T>::from_vec(n, p, short)))), sh);
    }
    k.put::<T>("from_2d_array", format!("c_dm (x_from_2d {}) {}", coq_list(rt.iter().map(|r| lit_list(r))), o_dm(guard(|| DenseMatrix::<T>::from_2d_vec(&rt)))), sh);
    k.put::<T>("vector_constructors", format!("c_dm (x_row_vector {l}) {} && c_dm (x_column_vector {l}) {} && c_dm (x_from_row_vector {l}) {}",
        o_dm(guard(|| DenseMatrix::<T>::row_vector_from_vec(fl.clone()))), o_dm(guard(|| DenseMatrix::<T>::column_vector_from_array(&fl))),
        o_dm(guard(|| DenseMatrix::<T>::from_row_vector(fl.clone()))), l = lit_list(&fl)), sh);
    k.put::<T>("fill_eye", format!("c_dm (x_fill {n} {p} {x}) {} && c_dm (x_zeros {n} {p}) {} && c_dm (x_ones {n} {p}) {} && c_dm (x_eye {n}) {}",
        o_dm(guard(|| DenseMatrix::<T>::fill(n, p, x))), o_dm(guard(|| DenseMatrix::<T>::zeros(n, p))), o_dm(guard(|| DenseMatrix::<T>::ones(n, p))),
        o_dm(guard(|| DenseMatrix::<T>::eye(n))), n = coq_n(n), p = coq_n(p), x = coq_f64(x.f())), sh);
    // get / set / element updates, in and out of range
    let (r, c) = (rng.below(n + 1), rng.below(p + 1));
    k.put::<T>("get_set", format!("c_f (x_get {la} {r} {c}) {} && c_dm (x_set {la} {r} {c} {x}) {}",
        o_f(guard(|| m.get(r, c))), o_dm(guard(|| { let mut w = m.clone(); w.set(r, c, x); w })), la = la, r = coq_n(r), c = coq_n(c), x = coq_f64(x.f())), sh);
    let which = rng.below(4);
    k.put::<T>("element_mut", format!("{} (x_elem {} {} {} {} {}) {}", cmp::<T>("c_dm", if which == 3 { Kind::Div } else { ex }), coq_n(which), la, coq_n(r), coq_n(c), coq_f64(x.f()),
        o_dm(guard(|| { let mut w = m.clone(); match which { 0 => w.add_element_mut(r, c, x), 1 => w.sub_element_mut(r, c, x), 2 => w.mul_element_mut(r, c, x), _ => w.div_element_mut(r, c, x) }; w }))), sh);
    // rows, columns, iteration order
    k.put::<T>("rows_columns", format!("c_l2 (x_get_row {la} {r}) {} {} && c_l (x_get_col {la} {c}) {}",
        o_l(guard(|| m.get_row(r))), o_l(guard(|| m.get_row_as_vec(r))), o_l(guard(|| m.get_col_as_vec(c))), la = la, r = coq_n(r), c = coq_n(c)), sh);
    let buflen = rng.below(p + 3);
    let buf: Vec<T> = (0..buflen).map(|i| T::of(-7.0 - i as f64)).collect();
    k.put::<T>("copy_row_col", format!("c_l (x_copy_row {la} {r} {b}) {} && c_l (x_copy_col {la} {c} {b}) {}",
        o_l(guard(|| { let mut w = buf.clone(); m.copy_row_as_vec(r, &mut w); w })), o_l(guard(|| { let mut w = buf.clone(); m.copy_col_as_vec(c, &mut w); w })),
        la = la, r = coq_n(r), c = coq_n(c), b = lit_list(&buf)), sh);
    k.put::<T>("iter_flatten", format!("c_l2 (x_iter {la}) {} {}", o_l(guard(|| m.iter().collect::<Vec<T>>())), o_l(guard(|| m.clone().to_row_vector())), la = la), sh);
    // structure
    k.put::<T>("transpose", format!("c_dm (x_transpose {}) {}", la, o_dm(guard(|| m.transpose()))), sh);
    {
        let (r0, c0) = (rng.below(n + 1), rng.below(p + 1));
        let (r1, c1) = (rng.below(n + 2), rng.below(p + 2));
        k.put::<T>("slice", format!("c_dm (x_slice {} {} {} {} {}) {}", la, coq_n(r0), coq_n(r1), coq_n(c0), coq_n(c1), o_dm(guard(|| m.slice(r0..r1, c0..c1)))), sh);
        let divs: Vec<usize> = (1..=n * p).filter(|d| (n * p) % d == 0).collect();
        let rn = if divs.is_empty() { rng.below(3) } else { *rng.pick(&divs) };
        let rp = if divs.is_empty() { if rng.bool() { 0 } else { rng.below(3) } } else if rng.chance(0.8) { n * p / rn } else { n * p / rn + 1 };
        k.put::<T>("reshape", format!("c_dm (x_reshape {} {} {}) {}", la, coq_n(rn), coq_n(rp), o_dm(guard(|| m.reshape(rn, rp)))), sh);
        for axis in 0..2u8 {
            let lim = if axis == 0 { n } else { p };
            let bad = rng.chance(0.2);
            let idx: Vec<usize> = (0..rng.below(5)).map(|_| rng.below((if bad { lim + 1 } else { lim }).max(1))).collect();
            k.put::<T>("take", format!("c_dm (x_take {} {} {}) {}", la, coq_list_n(&idx), coq_bool(axis == 0), o_dm(guard(|| m.take(&idx, axis)))), sh);
        }
    }
    // scalar arithmetic and maps: copying and in-place variants against the one model function
    let which = rng.below(4);
    k.put::<T>("scalar_arith", format!("{} (x_scalar {} {} {}) {} {}", cmp::<T>("c_dm2", if which == 3 { Kind::Div } else { ex }), coq_n(which), la, coq_f64(x.f()),
        o_dm(guard(|| match which { 0 => m.add_scalar(x), 1 => m.sub_scalar(x), 2 => m.mul_scalar(x), _ => m.div_scalar(x) })),
        o_dm(guard(|| { let mut w = m.clone(); match which { 0 => { w.add_scalar_mut(x); } 1 => { w.sub_scalar_mut(x); } 2 => { w.mul_scalar_mut(x); } _ => { w.div_scalar_mut(x); } }; w }))), sh);
    k.put::<T>("negative_abs", format!("c_dm2 (x_negative {la}) {} {} && c_dm2 (x_abs {la}) {} {}",
        o_dm(guard(|| m.negative())), o_dm(guard(|| { let mut w = m.clone(); w.negative_mut(); w })),
        o_dm(guard(|| m.abs())), o_dm(guard(|| { let mut w = m.clone(); w.abs_mut(); w })), la = la), sh);
    let th = T::of(*rng.pick(&[0.0, -1.0, 0.5, 2.0]));
    k.put::<T>("binarize", format!("c_dm2 (x_binarize {} {}) {} {}", la, coq_f64(th.f()), o_dm(guard(|| m.binarize(th))), o_dm(guard(|| { let mut w = m.clone(); w.binarize_mut(th); w }))), sh);
    {
        let small = maxabs(&flat(&a)) <= 64.0;
        if small {
            let pi = T::of(*rng.pick(&[0.0, 1.0, 2.0, 3.0]));
            k.put::<T>("pow", format!("{} (x_powg {} {}) {} {}", cmp::<T>("c_dm2", Kind::Trans), la, coq_f64(pi.f()),
                o_dm(guard(|| m.clone().pow(pi))), o_dm(guard(|| { let mut w = m.clone(); w.pow_mut(pi); w }))), sh);
            let pr = T::of(*rng.pick(&[0.5, 1.5, 2.0, 0.0]));
            let ma = m.abs();
            k.put::<T>("pow", format!("{} (x_pow {} {}) {} {}", cmp::<T>("c_dm2", Kind::Trans), lit_dm(&ma), coq_f64(pr.f()),
                o_dm(guard(|| ma.clone().pow(pr))), o_dm(guard(|| { let mut w = ma.clone(); w.pow_mut(pr); w }))), sh);
        }
    }
    // reductions
    k.put::<T>("sum_min_max", format!("{} (x_sum {la}) {} && c_fz (x_max {la}) {} && c_fz (x_min {la}) {}", cmp::<T>("c_f", ex),
        o_f(guard(|| m.sum())), o_f(guard(|| m.max())), o_f(guard(|| m.min())), la = la), sh);
    k.put::<T>("norms", format!("{} (x_norm2 {la}) {} && c_fz (x_norm_pinf {la}) {} && c_fz (x_norm_ninf {la}) {}", cmp::<T>("c_f", Kind::Div),
        o_f(guard(|| m.norm2())), o_f(guard(|| m.norm(T::infinity()))), o_f(guard(|| m.norm(T::neg_infinity()))), la = la), sh);
    if maxabs(&flat(&a)) <= 64.0 {
        let pn = T::of(*rng.pick(&[1.0, 2.0, 3.0, 0.5]));
        k.put::<T>("norm_p", format!("{} (x_norm_p {} {}) {}", cmp::<T>("c_f", Kind::Trans), la, coq_f64(pn.f()), o_f(guard(|| m.norm(pn)))), sh);
    }
    k.put::<T>("argmax", format!("c_nl (x_argmax {}) {}", la, coq_option(guard(|| m.argmax()).ok().map(|v| coq_list_n(&v)))), sh);
    k.put::<T>("unique", format!("c_l (x_unique {}) {}", la, o_l(guard(|| m.unique()))), sh);
    k.put::<T>("softmax", format!("{} (x_softmax {}) {}", cmp::<T>("c_dm", Kind::Trans), la, o_dm(guard(|| { let mut w = m.clone(); w.softmax_mut(); w }))), sh);
    // statistics
    k.put::<T>("column_mean", format!("{} (x_column_mean {}) {}", cmp::<T>("c_l", Kind::Div), la, o_l(guard(|| m.column_mean()))), sh);
    for axis in 0..2u8 {
        let ax = coq_bool(axis == 0);
        k.put::<T>("mean_var_std", format!("{c} (x_mean {la} {ax}) {} && {c} (x_var {la} {ax}) {} && {c} (x_std {la} {ax}) {}",
            o_l(guard(|| m.mean(axis))), o_l(guard(|| m.var(axis))), o_l(guard(|| m.std(axis))), c = cmp::<T>("c_l", Kind::Div), la = la, ax = ax), sh);
        let len = if axis == 0 { p } else { n };
        let short = len > 0 && rng.chance(0.15);
        let mu: Vec<T> = (0..(if short { len - 1 } else { len + rng.below(2) })).map(|_| T::of(rng.dyadic(2, 2))).collect();
        let sd: Vec<T> = (0..len + rng.below(2)).map(|_| T::of(rng.int(1, 12) as f64 / 4.0)).collect();
        k.put::<T>("scale", format!("{} (x_scale {} {} {} {}) {}", cmp::<T>("c_dm", Kind::Div), la, lit_list(&mu), lit_list(&sd), ax,
            o_dm(guard(|| { let mut w = m.clone(); w.scale_mut(&mu, &sd, axis); w }))), sh);
    }
    if !(T::F32 && n == 1) {
        k.put::<T>("cov", format!("{} (x_cov {}) {}", cmp::<T>("c_dm", Kind::Div), la, o_dm(guard(|| m.cov()))), sh);
    }
}

fn corr_binary<T: Sc>(k: &mut Corr, rng: &mut Rng, s1: (usize, usize), s2: (usize, usize)) {
    let (a, _) = corr_data(rng, s1.0, s1.1, T::F32);
    let (mut b, _) = corr_data(rng, s2.0, s2.1, T::F32);
    if s1 == s2 && rng.chance(0.35) {
        b = a.clone();
        if rng.bool() { let (r, c) = (rng.below(s1.0), rng.below(s1.1)); b[r][c] += *rng.pick(&[0.125, -0.5, 1.0]); }
    }
    let (ma, mb) = (mk::<T>(&a), mk::<T>(&b));
    let (la, lb) = (lit_dm(&ma), lit_dm(&mb));
    let sh = s1;
    for which in 0..4usize {
        let kind = if which == 3 { Kind::Div } else { Kind::Exact };
        k.put::<T>("elementwise", format!("{} (x_zip {} {} {}) {} {}", cmp::<T>("c_dm2", kind), coq_n(which), la, lb,
            o_dm(guard(|| match which { 0 => ma.add(&mb), 1 => ma.sub(&mb), 2 => ma.mul(&mb), _ => ma.div(&mb) })),
            o_dm(guard(|| { let mut w = ma.clone(); match which { 0 => { w.add_mut(&mb); } 1 => { w.sub_mut(&mb); } 2 => { w.mul_mut(&mb); } _ => { w.div_mut(&mb); } }; w }))), sh);
    }
    k.put::<T>("matmul", format!("c_dm (x_matmul {} {}) {}", la, lb, o_dm(guard(|| ma.matmul(&mb)))), sh);
    for (ta, tb) in [(false, false), (true, false), (false, true), (true, true)] {
        k.put::<T>("ab", format!("c_dm (x_ab {} {} {} {}) {}", la, coq_bool(ta), lb, coq_bool(tb), o_dm(guard(|| ma.ab(ta, &mb, tb)))), sh);
    }
    k.put::<T>("dot", format!("c_f (x_dot {} {}) {}", la, lb, o_f(guard(|| ma.dot(&mb)))), sh);
    k.put::<T>("stack", format!("c_dm (x_h_stack {la} {lb}) {} && c_dm (x_v_stack {la} {lb}) {}", o_dm(guard(|| ma.h_stack(&mb))), o_dm(guard(|| ma.v_stack(&mb))), la = la, lb = lb), sh);
    k.put::<T>("copy_from", format!("c_dm (x_copy_from {} {}) {}", la, lb, o_dm(guard(|| { let mut w = ma.clone(); w.copy_from(&mb); w }))), sh);
    let err = T::of(*rng.pick(&[0.0, 0.125, 0.5, 1.0]));
    k.put::<T>("equality", format!("c_b (x_approximate_eq {la} {lb} {}) {} && c_b (x_eq {} {la} {lb}) {}", coq_f64(err.f()), o_b(guard(|| ma.approximate_eq(&mb, err))),
        coq_f64(T::eps()), o_b(guard(|| ma == mb)), la = la, lb = lb), sh);
    k.put::<T>("max_diff", format!("c_fz (x_max_diff {} {}) {}", la, lb, o_f(guard(|| ma.max_diff(&mb)))), sh);
}

fn corr_vector<T: Sc>(k: &mut Corr, rng: &mut Rng, n1: usize, n2: usize) {
    let (a, _) = corr_data(rng, 1, n1, T::F32);
    let (mut b, _) = corr_data(rng, 1, n2, T::F32);
    if n1 == n2 && rng.chance(0.3) { b = a.clone(); }
    let (va, vb): (Vec<T>, Vec<T>) = (vec_t(&a[0]), vec_t(&b[0]));
    let (la, lb) = (lit_list(&va), lit_list(&vb));
    let sh = (n1, n2);
    let x = T::of(*rng.pick(&[1.5, -2.0, 0.375, 4.0]));
    k.put::<T>("vec_dot", format!("c_f (x_vdot {} {}) {}", la, lb, o_f(guard(|| BaseVector::dot(&va, &vb)))), sh);
    for which in 0..4usize {
        let kind = if which == 3 { Kind::Div } else { Kind::Exact };
        k.put::<T>("vec_elementwise", format!("{} (x_vzip {} {} {}) {} {}", cmp::<T>("c_l2", kind), coq_n(which), la, lb,
            o_l(guard(|| match which { 0 => BaseVector::add(&va, &vb), 1 => BaseVector::sub(&va, &vb), 2 => BaseVector::mul(&va, &vb), _ => BaseVector::div(&va, &vb) })),
            o_l(guard(|| { let mut w = va.clone(); match which { 0 => { BaseVector::add_mut(&mut w, &vb); } 1 => { BaseVector::sub_mut(&mut w, &vb); } 2 => { BaseVector::mul_mut(&mut w, &vb); } _ => { BaseVector::div_mut(&mut w, &vb); } }; w }))), sh);
    }
    let which = rng.below(4);
    k.put::<T>("vec_scalar", format!("{} (x_vscalar {} {} {}) {} {}", cmp::<T>("c_l2", if which == 3 { Kind::Div } else { Kind::Exact }), coq_n(which), la, coq_f64(x.f()),
        o_l(guard(|| match which { 0 => va.add_scalar(x), 1 => va.sub_scalar(x), 2 => va.mul_scalar(x), _ => va.div_scalar(x) })),
        o_l(guard(|| { let mut w = va.clone(); match which { 0 => { w.add_scalar_mut(x); } 1 => { w.sub_scalar_mut(x); } 2 => { w.mul_scalar_mut(x); } _ => { w.div_scalar_mut(x); } }; w }))), sh);
    k.put::<T>("vec_norms", format!("{} (x_vnorm2 {la}) {} && c_fz (x_vnorm_pinf {la}) {} && c_fz (x_vnorm_ninf {la}) {} && c_f (x_vsum {la}) {}", cmp::<T>("c_f", Kind::Div),
        o_f(guard(|| BaseVector::norm2(&va))), o_f(guard(|| BaseVector::norm(&va, T::infinity()))), o_f(guard(|| BaseVector::norm(&va, T::neg_infinity()))),
        o_f(guard(|| BaseVector::sum(&va))), la = la), sh);
    if maxabs(&a[0]) <= 64.0 {
        let pn = T::of(*rng.pick(&[1.0, 2.0, 3.0, 0.5]));
        k.put::<T>("vec_norm_p", format!("{} (x_vnorm_p {} {}) {}", cmp::<T>("c_f", Kind::Trans), la, coq_f64(pn.f()), o_f(guard(|| BaseVector::norm(&va, pn)))), sh);
    }
    let c = cmp::<T>("c_f", Kind::Div);
    k.put::<T>("vec_mean_var_std", format!("{c} (x_vmean {la}) {} && {c} (x_vvar {la}) {} && {c} (x_vstd {la}) {}",
        o_f(guard(|| va.mean())), o_f(guard(|| va.var())), o_f(guard(|| va.std())), c = c, la = la), sh);
    let err = T::of(*rng.pick(&[0.0, 0.125, 1.0]));
    k.put::<T>("vec_equality", format!("c_b (x_vapprox_eq {} {} {}) {}", la, lb, coq_f64(err.f()), o_b(guard(|| BaseVector::approximate_eq(&va, &vb, err)))), sh);
    let bad = rng.chance(0.2);
    let idx: Vec<usize> = (0..rng.below(6)).map(|_| rng.below(if bad { n1 + 1 } else { n1 })).collect();
    k.put::<T>("vec_take_copy_unique", format!("c_l (x_vtake {la} {}) {} && c_l (x_vcopy_from {la} {lb}) {} && c_l (x_vunique {la}) {} && c_l (x_vfill {} {}) {}",
        coq_list_n(&idx), o_l(guard(|| BaseVector::take(&va, &idx))), o_l(guard(|| { let mut w = va.clone(); BaseVector::copy_from(&mut w, &vb); w })),
        o_l(guard(|| BaseVector::unique(&va))), coq_n(n1), coq_f64(x.f()), o_l(guard(|| <Vec<T> as BaseVector<T>>::fill(n1, x))), la = la, lb = lb), sh);
}

fn correspondence(out: &mut Out, rng: &mut Rng, thorough: bool) {
    let mut k = Corr { out };
    // corpus: D5, D6 (vector), D14 on the model
    {
        let m = DenseMatrix::<f64>::from_2d_vec(&vec![vec![-1000.0, -1001.0, -1002.0]]);
        k.put::<f64>("softmax", format!("c_dm_tol {} (x_softmax {}) {}", coq_f64(1e-9), lit_dm(&m), o_dm(guard(|| { let mut w = m.clone(); w.softmax_mut(); w }))), (1, 3));
        let v: Vec<f64> = vec![1e8, 1e8 + 1.0, 1e8 + 2.0, 1e8 + 3.0];
        k.put::<f64>("vec_mean_var_std", format!("c_f (x_vvar {}) {}", lit_list(&v), o_f(guard(|| v.var()))), (1, 4));
        let a = DenseMatrix::<f64>::from_2d_vec(&vec![vec![1.0, 2.0, 3.0, 4.0]]);
        let b = DenseMatrix::<f64>::from_2d_vec(&vec![vec![5.0, 6.0], vec![7.0, 8.0]]);
        k.put::<f64>("dot", format!("c_f (x_dot {} {}) {}", lit_dm(&a), lit_dm(&b), o_f(guard(|| a.dot(&b)))), (1, 4));
        let col = DenseMatrix::<f64>::from_2d_vec(&v.iter().map(|x| vec![*x]).collect());
        k.put::<f64>("mean_var_std", format!("c_l (x_var {} true) {}", lit_dm(&col), o_l(guard(|| col.var(0)))), (4, 1));
    }
    let maxd = 6;
    // unary: every shape up to maxd x maxd at least once in the thorough tier, a stratified sample otherwise
    let mut shapes: Vec<(usize, usize)> = vec![];
    for n in 1..=maxd { for p in 1..=maxd { shapes.push((n, p)); } }
    rng.shuffle(&mut shapes);
    let must = [(1usize, 1usize), (1, 4), (4, 1), (1, 2), (3, 1), (2, 3), (3, 2)];
    let nun = shapes.len();
    let reps = if thorough { 4 } else { 1 };
    let mut chosen: Vec<(usize, usize)> = must.to_vec();
    chosen.extend(shapes.into_iter().filter(|s| !must.contains(s)).take(nun));
    for rep in 0..reps {
        for (i, (n, p)) in chosen.iter().enumerate() {
            corr_unary::<f64>(&mut k, rng, *n, *p);
            if (i + rep) % 3 == 0 {
                corr_unary::<f32>(&mut k, rng, *n, *p);
            }
        }
    }
    // degenerate shapes: outside the property's quantifier (1 <= rows, cols), kept as a fidelity check of the model
    for (n, p) in [(0usize, 0usize), (0, 3), (2, 0), (0, 1), (1, 0)] {
        corr_unary::<f64>(&mut k, rng, n, p);
    }
    corr_unary::<f32>(&mut k, rng, 0, 2);
    let nbin = if thorough { 700 } else { 140 };
    for i in 0..nbin {
        let (s1, s2) = gen_shape_pair(rng, maxd);
        corr_binary::<f64>(&mut k, rng, s1, s2);
        if i % 4 == 0 {
            let (s1, s2) = gen_shape_pair(rng, 4);
            corr_binary::<f32>(&mut k, rng, s1, s2);
        }
    }
    for i in 0..(if thorough { 240 } else { 48 }) {
        let n1 = rng.usize_in(1, 7);
        let n2 = if rng.chance(0.7) { n1 } else { rng.usize_in(1, 7) };
        corr_vector::<f64>(&mut k, rng, n1, n2);
        if i % 3 == 0 {
            corr_vector::<f32>(&mut k, rng, n1, n2);
        }
    }
}

fn main() {
    quiet_panics();
    let a = args();
    if let Some(p) = &a.replay {
        std::process::exit(replay(p));
    }
    let mut rng = Rng::new(a.seed);
    let mut out = Out::new(
        "C03",
        "search case = (oracle group, f64|f32, matrix/vector data[, second operand, index list, scalars]); every public method in the group is evaluated on it and compared with its definition on the logical view, every matrix/vector it returns or mutates passes the post-condition storage_consistent (= behaves like the matrix rebuilt from its logical view); group chain: 1-4 random operations applied in sequence, each step compared with the same step on the rebuilt operand and with its definition; non-trivial: non-square shape or data with negative entries; distinct by hash of all inputs",
    );
    let mut r1 = rng.fork();
    search(&mut out, &mut r1, a.thorough);
    let mut r2 = rng.fork();
    correspondence(&mut out, &mut r2, a.thorough);
    out.set("storage_consistent_checks", json!(POSTS.load(std::sync::atomic::Ordering::Relaxed)));
    out.finish(&a.out);
}
