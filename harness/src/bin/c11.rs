//! C11 — naive Bayes: correspondence cases for the Coq model (SC.C11.Corr) and the failing-input
//! search.  The search oracle is written from the property text (sufficient statistics by their
//! definitions, MAP decision by definition), independently of the implementation and of the model.
//! Parameters reach `fit` either as a struct literal (`build: None`) or through the public builder
//! methods called in a recorded order on `Default::default()` (`build: Some(steps)`); the oracle
//! `builder_order_irrelevant` demands that every call order (and every overridden earlier call) gives
//! the struct, the fitted model, its serialized state and its predictions of the struct literal
//! holding the requested values — which is judged by the definition-based oracles.
use serde_json::{json, Value};
use smartcore::linalg::naive::dense_matrix::DenseMatrix;
use smartcore::math::vector::RealNumberVector;
use smartcore::naive_bayes::bernoulli::{BernoulliNB, BernoulliNBParameters};
use smartcore::naive_bayes::categorical::{CategoricalNB, CategoricalNBParameters};
use smartcore::naive_bayes::gaussian::{GaussianNB, GaussianNBParameters};
use smartcore::naive_bayes::multinomial::{MultinomialNB, MultinomialNBParameters};
use std::collections::BTreeSet;
use vharness::*;

#[derive(Clone, Copy, PartialEq, Debug)]
enum Variant {
    G,
    M,
    B,
    C,
}
impl Variant {
    fn name(self) -> &'static str {
        match self {
            Variant::G => "gaussian",
            Variant::M => "multinomial",
            Variant::B => "bernoulli",
            Variant::C => "categorical",
        }
    }
    fn from_name(s: &str) -> Option<Variant> {
        match s {
            "gaussian" => Some(Variant::G),
            "multinomial" => Some(Variant::M),
            "bernoulli" => Some(Variant::B),
            "categorical" => Some(Variant::C),
            _ => None,
        }
    }
}

/// One call of a builder method of `XxxNBParameters`.
#[derive(Clone, Debug, PartialEq)]
enum Step {
    Alpha(f64),
    Priors(Vec<f64>),
    Binarize(f64),
}
impl Step {
    fn kind(&self) -> usize {
        match self {
            Step::Alpha(_) => 0,
            Step::Priors(_) => 1,
            Step::Binarize(_) => 2,
        }
    }
    /// does the variant's parameter struct have this builder method?
    fn applicable(&self, v: Variant) -> bool {
        match (self, v) {
            (Step::Alpha(_), Variant::G) => false,
            (Step::Alpha(_), _) => true,
            (Step::Priors(_), Variant::C) => false,
            (Step::Priors(_), _) => true,
            (Step::Binarize(_), Variant::B) => true,
            (Step::Binarize(_), _) => false,
        }
    }
    fn to_json(&self) -> Value {
        match self {
            Step::Alpha(a) => json!(["alpha", a]),
            Step::Priors(p) => json!(["priors", p]),
            Step::Binarize(t) => json!(["binarize", t]),
        }
    }
    fn from_json(v: &Value) -> Option<Step> {
        match v[0].as_str()? {
            "alpha" => Some(Step::Alpha(v[1].as_f64()?)),
            "priors" => Some(Step::Priors(f64s_from_json(&v[1]))),
            "binarize" => Some(Step::Binarize(v[1].as_f64()?)),
            _ => None,
        }
    }
    fn call(&self) -> String {
        match self {
            Step::Alpha(a) => format!(".with_alpha({:?})", a),
            Step::Priors(p) => format!(".with_priors(vec!{:?})", p),
            Step::Binarize(t) => format!(".with_binarize({:?})", t),
        }
    }
    fn coq(&self) -> String {
        match self {
            Step::Alpha(a) => format!("WithAlpha {}", coq_f64(*a)),
            Step::Priors(p) => format!("WithPriors {}", coq_list_f64(p)),
            Step::Binarize(t) => format!("WithBinarize {}", coq_f64(*t)),
        }
    }
}
fn calls(v: Variant, steps: &[Step]) -> String {
    let name = match v {
        Variant::G => "GaussianNBParameters",
        Variant::M => "MultinomialNBParameters",
        Variant::B => "BernoulliNBParameters",
        Variant::C => "CategoricalNBParameters",
    };
    format!("{}::default(){}", name, steps.iter().map(|s| s.call()).collect::<Vec<_>>().join(""))
}

/// (alpha, priors, binarize); a field the variant's struct does not have holds its neutral value
/// (alpha 1, priors None, binarize None).
type Fields = (f64, Option<Vec<f64>>, Option<f64>);

/// What the documentation promises for a call sequence on `Default::default()`: the documented
/// defaults (alpha = 1, priors = None, Bernoulli threshold = Some(0)), each field replaced by the
/// value of the LAST call that sets it.  Independent of the implementation.
fn requested_from_steps(v: Variant, steps: &[Step]) -> Fields {
    let mut f: Fields = (1.0, None, if v == Variant::B { Some(0.0) } else { None });
    for s in steps {
        match s {
            Step::Alpha(a) => f.0 = *a,
            Step::Priors(p) => f.1 = Some(p.clone()),
            Step::Binarize(t) => f.2 = Some(*t),
        }
    }
    f
}
fn fields_same(a: &Fields, b: &Fields) -> bool {
    format!("{:?}", a) == format!("{:?}", b)
}

#[derive(Clone, Debug)]
struct Case {
    v: Variant,
    x: Vec<Vec<f64>>,
    y: Vec<i64>,
    /// the REQUESTED parameter values (what the definition-based oracles and the Coq model use)
    alpha: f64,
    priors: Option<Vec<f64>>,
    binarize: Option<f64>,
    q: Vec<Vec<f64>>,
    family: String,
    /// two labels whose classes consist of the same rows in the same order (exact score ties)
    dup: Option<(i64, i64)>,
    /// None: parameters are passed as a struct literal holding the requested values;
    /// Some(steps): parameters are `Default::default()` followed by these builder calls, in order
    build: Option<Vec<Step>>,
}

impl Case {
    fn to_json(&self) -> Value {
        json!({"entry": self.v.name(), "x": self.x, "y": self.y, "alpha": self.alpha, "priors": self.priors,
               "binarize": self.binarize, "q": self.q, "family": self.family,
               "dup": self.dup.map(|(a, b)| vec![a, b]),
               "build": self.build.as_ref().map(|b| b.iter().map(|s| s.to_json()).collect::<Vec<Value>>()),
               "calls": self.build.as_ref().map(|b| calls(self.v, b))})
    }
    fn from_json(v: &Value) -> Option<Case> {
        let var = Variant::from_name(v["entry"].as_str()?)?;
        Some(Case {
            v: var,
            x: rows_from_json(&v["x"]),
            y: v["y"].as_array()?.iter().map(|t| t.as_i64().unwrap_or(0)).collect(),
            alpha: v["alpha"].as_f64().unwrap_or(1.0),
            priors: if v["priors"].is_null() { None } else { Some(f64s_from_json(&v["priors"])) },
            binarize: v["binarize"].as_f64(),
            q: rows_from_json(&v["q"]),
            family: v["family"].as_str().unwrap_or("replay").to_string(),
            dup: v["dup"].as_array().and_then(|a| if a.len() == 2 { Some((a[0].as_i64()?, a[1].as_i64()?)) } else { None }),
            build: match v["build"].as_array() {
                None => None,
                Some(a) => Some(a.iter().map(Step::from_json).collect::<Option<Vec<Step>>>()?),
            },
        })
    }
}

impl Case {
    /// the requested values restricted to the fields the variant's struct has
    fn requested(&self) -> Fields {
        match self.v {
            Variant::G => (1.0, self.priors.clone(), None),
            Variant::M => (self.alpha, self.priors.clone(), None),
            Variant::B => (self.alpha, self.priors.clone(), self.binarize),
            Variant::C => (self.alpha, None, None),
        }
    }
    fn literal(&self) -> Case {
        let mut c = self.clone();
        c.build = None;
        c
    }
    fn built(&self, steps: &[Step]) -> Case {
        let mut c = self.clone();
        c.build = Some(steps.to_vec());
        c
    }
    /// the case whose requested values are exactly what `steps` asks for
    fn with_steps(&self, steps: &[Step]) -> Case {
        let mut c = self.built(steps);
        let (a, p, b) = requested_from_steps(self.v, steps);
        c.alpha = a;
        c.priors = p;
        c.binarize = b;
        c
    }
}

// ------------------------------------------------------------------------------------------
// the implementation
// ------------------------------------------------------------------------------------------
#[derive(Clone, Debug, Default)]
struct Fit {
    classes: Vec<f64>,
    count: Vec<usize>,
    priors: Vec<f64>,
    theta: Vec<Vec<f64>>,
    var: Vec<Vec<f64>>,
    fcount: Vec<Vec<usize>>,
    flp: Vec<Vec<f64>>,
    ncat: Vec<usize>,
    catcount: Vec<Vec<Vec<usize>>>,
    coef: Vec<Vec<Vec<f64>>>,
}
struct ImplOut {
    /// the public fields of the parameter struct handed to `fit` (None: a builder method panicked)
    fields: Option<Fields>,
    /// Err = panic message, Ok(None) = fit returned Err
    fit: Result<Option<Fit>, String>,
    /// serde state of the fitted model
    state: Option<Value>,
    /// None when there is no fitted model; Err = predict panicked or returned Err
    pred: Option<Result<Vec<f64>, String>>,
}

fn serde_state<S: serde::Serialize>(m: &S) -> Value {
    serde_json::to_value(m).unwrap_or(Value::Null)
}
fn priors_of_state(v: &Value) -> Vec<f64> {
    f64s_from_json(&v["inner"]["distribution"]["class_priors"])
}

enum Params {
    G(GaussianNBParameters<f64>),
    M(MultinomialNBParameters<f64>),
    B(BernoulliNBParameters<f64>),
    C(CategoricalNBParameters<f64>),
}
impl Params {
    fn fields(&self) -> Fields {
        match self {
            Params::G(p) => (1.0, p.priors.clone(), None),
            Params::M(p) => (p.alpha, p.priors.clone(), None),
            Params::B(p) => (p.alpha, p.priors.clone(), p.binarize),
            Params::C(p) => (p.alpha, None, None),
        }
    }
}

/// The parameter struct of the case: the struct literal with the requested values, or
/// `Default::default()` followed by the recorded builder calls.  Calls the variant's struct does not
/// offer cannot be written against the API and are skipped (the generators never produce them).
fn make_params(c: &Case) -> Params {
    match (&c.build, c.v) {
        (None, Variant::G) => Params::G(GaussianNBParameters { priors: c.priors.clone() }),
        (None, Variant::M) => Params::M(MultinomialNBParameters { alpha: c.alpha, priors: c.priors.clone() }),
        (None, Variant::B) => Params::B(BernoulliNBParameters { alpha: c.alpha, priors: c.priors.clone(), binarize: c.binarize }),
        (None, Variant::C) => Params::C(CategoricalNBParameters { alpha: c.alpha }),
        (Some(steps), Variant::G) => {
            let mut p = GaussianNBParameters::<f64>::default();
            for s in steps {
                p = match s {
                    Step::Priors(v) => p.with_priors(v.clone()),
                    _ => p,
                };
            }
            Params::G(p)
        }
        (Some(steps), Variant::M) => {
            let mut p = MultinomialNBParameters::<f64>::default();
            for s in steps {
                p = match s {
                    Step::Alpha(a) => p.with_alpha(*a),
                    Step::Priors(v) => p.with_priors(v.clone()),
                    _ => p,
                };
            }
            Params::M(p)
        }
        (Some(steps), Variant::B) => {
            let mut p = BernoulliNBParameters::<f64>::default();
            for s in steps {
                p = match s {
                    Step::Alpha(a) => p.with_alpha(*a),
                    Step::Priors(v) => p.with_priors(v.clone()),
                    Step::Binarize(t) => p.with_binarize(*t),
                };
            }
            Params::B(p)
        }
        (Some(steps), Variant::C) => {
            let mut p = CategoricalNBParameters::<f64>::default();
            for s in steps {
                p = match s {
                    Step::Alpha(a) => p.with_alpha(*a),
                    _ => p,
                };
            }
            Params::C(p)
        }
    }
}

fn run_impl(c: &Case) -> ImplOut {
    let x = dense(&c.x);
    let y: Vec<f64> = c.y.iter().map(|l| *l as f64).collect();
    let q = dense(&c.q);
    let params = match guard(|| make_params(c)) {
        Ok(p) => p,
        Err(msg) => return ImplOut { fields: None, fit: Err(format!("parameter builder panicked: {}", msg)), state: None, pred: None },
    };
    let fields = Some(params.fields());
    macro_rules! finish {
        ($res:expr, $extract:expr) => {
            match $res {
                Err(msg) => ImplOut { fields, fit: Err(msg), state: None, pred: None },
                Ok(Err(_)) => ImplOut { fields, fit: Ok(None), state: None, pred: None },
                Ok(Ok(nb)) => {
                    let state = serde_state(&nb);
                    let fit: Fit = $extract(&nb, &state);
                    let pred = match guard(|| nb.predict(&q)) {
                        Err(msg) => Err(msg),
                        Ok(Err(e)) => Err(format!("Err: {}", e)),
                        Ok(Ok(v)) => Ok(v),
                    };
                    ImplOut { fields, fit: Ok(Some(fit)), state: Some(state), pred: Some(pred) }
                }
            }
        };
    }
    match params {
        Params::G(params) => {
            finish!(guard(|| GaussianNB::fit(&x, &y, params)), |nb: &GaussianNB<f64, DenseMatrix<f64>>, _st: &Value| Fit {
                classes: nb.classes().clone(),
                count: nb.class_count().clone(),
                priors: nb.class_priors().clone(),
                theta: nb.theta().clone(),
                var: nb.var().clone(),
                ..Default::default()
            })
        }
        Params::M(params) => {
            finish!(guard(|| MultinomialNB::fit(&x, &y, params)), |nb: &MultinomialNB<f64, DenseMatrix<f64>>, st: &Value| Fit {
                classes: nb.classes().clone(),
                count: nb.class_count().clone(),
                priors: priors_of_state(st),
                fcount: nb.feature_count().clone(),
                flp: nb.feature_log_prob().clone(),
                ..Default::default()
            })
        }
        Params::B(params) => {
            finish!(guard(|| BernoulliNB::fit(&x, &y, params)), |nb: &BernoulliNB<f64, DenseMatrix<f64>>, st: &Value| Fit {
                classes: nb.classes().clone(),
                count: nb.class_count().clone(),
                priors: priors_of_state(st),
                fcount: nb.feature_count().clone(),
                flp: nb.feature_log_prob().clone(),
                ..Default::default()
            })
        }
        Params::C(params) => {
            finish!(guard(|| CategoricalNB::fit(&x, &y, params)), |nb: &CategoricalNB<f64, DenseMatrix<f64>>, st: &Value| Fit {
                classes: nb.classes().clone(),
                count: nb.class_count().clone(),
                priors: priors_of_state(st),
                ncat: nb.n_categories().clone(),
                catcount: nb.category_count().clone(),
                coef: nb.feature_log_prob().clone(),
                ..Default::default()
            })
        }
    }
}

// ------------------------------------------------------------------------------------------
// the property, by its definitions
// ------------------------------------------------------------------------------------------
struct Spec {
    classes: Vec<i64>,
    rows_of: Vec<Vec<usize>>,
    counts: Vec<usize>,
    priors: Vec<f64>,
    /// x after the documented binarisation (Bernoulli with a threshold), otherwise x
    xb: Vec<Vec<f64>>,
    p: usize,
}

fn binarized(rows: &[Vec<f64>], th: Option<f64>) -> Vec<Vec<f64>> {
    match th {
        None => rows.to_vec(),
        Some(t) => rows.iter().map(|r| r.iter().map(|v| if *v > t { 1.0 } else { 0.0 }).collect()).collect(),
    }
}

fn spec_of(c: &Case) -> Spec {
    let classes: Vec<i64> = if c.v == Variant::C {
        (0..=*c.y.iter().max().unwrap()).collect()
    } else {
        c.y.iter().cloned().collect::<BTreeSet<i64>>().into_iter().collect()
    };
    let rows_of: Vec<Vec<usize>> = classes.iter().map(|l| (0..c.y.len()).filter(|i| c.y[*i] == *l).collect()).collect();
    let counts: Vec<usize> = rows_of.iter().map(|r| r.len()).collect();
    let n = c.y.len() as f64;
    let priors = match (&c.priors, c.v) {
        (Some(p), Variant::G) | (Some(p), Variant::M) | (Some(p), Variant::B) => p.clone(),
        _ => counts.iter().map(|k| *k as f64 / n).collect(),
    };
    let xb = if c.v == Variant::B { binarized(&c.x, c.binarize) } else { c.x.clone() };
    Spec { classes, rows_of, counts, priors, xb, p: c.x[0].len() }
}

fn close(a: f64, b: f64, rel: f64) -> bool {
    a == b || (a - b).abs() <= rel * 1f64.max(a.abs()).max(b.abs())
}

/// per class and feature: (mean, variance, scale) by the two-pass definitions
fn gaussian_moments(c: &Case, s: &Spec) -> Vec<Vec<(f64, f64, f64)>> {
    s.rows_of
        .iter()
        .map(|rows| {
            (0..s.p)
                .map(|j| {
                    let nk = rows.len() as f64;
                    let mean = rows.iter().map(|i| c.x[*i][j]).sum::<f64>() / nk;
                    let var = rows.iter().map(|i| (c.x[*i][j] - mean) * (c.x[*i][j] - mean)).sum::<f64>() / nk;
                    let scale = rows.iter().map(|i| c.x[*i][j].abs()).fold(0.0, f64::max);
                    (mean, var, scale)
                })
                .collect()
        })
        .collect()
}

/// smoothed probabilities of the count-based variants, by definition
/// multinomial / Bernoulli: [class][feature]; categorical: [feature][class][category]
fn multinomial_probs(c: &Case, s: &Spec) -> (Vec<Vec<usize>>, Vec<Vec<f64>>) {
    let mut fc = vec![vec![0usize; s.p]; s.classes.len()];
    for (k, rows) in s.rows_of.iter().enumerate() {
        for i in rows {
            for j in 0..s.p {
                fc[k][j] += c.x[*i][j] as usize;
            }
        }
    }
    let pr = fc
        .iter()
        .map(|row| {
            let tot: usize = row.iter().sum();
            row.iter().map(|n| (*n as f64 + c.alpha) / (tot as f64 + c.alpha * s.p as f64)).collect()
        })
        .collect();
    (fc, pr)
}
fn bernoulli_probs(c: &Case, s: &Spec) -> (Vec<Vec<usize>>, Vec<Vec<f64>>) {
    let mut fc = vec![vec![0usize; s.p]; s.classes.len()];
    for (k, rows) in s.rows_of.iter().enumerate() {
        for i in rows {
            for j in 0..s.p {
                if s.xb[*i][j] == 1.0 {
                    fc[k][j] += 1;
                }
            }
        }
    }
    let pr = fc
        .iter()
        .enumerate()
        .map(|(k, row)| row.iter().map(|n| (*n as f64 + c.alpha) / (s.counts[k] as f64 + 2.0 * c.alpha)).collect())
        .collect();
    (fc, pr)
}
fn categorical_probs(c: &Case, s: &Spec) -> (Vec<usize>, Vec<Vec<Vec<usize>>>, Vec<Vec<Vec<f64>>>) {
    let ncat: Vec<usize> = (0..s.p).map(|j| c.x.iter().map(|r| r[j] as usize).max().unwrap() + 1).collect();
    let mut cc = vec![];
    let mut pr = vec![];
    for j in 0..s.p {
        let mut ccj = vec![];
        let mut prj = vec![];
        for (k, rows) in s.rows_of.iter().enumerate() {
            let mut cnt = vec![0usize; ncat[j]];
            for i in rows {
                cnt[c.x[*i][j] as usize] += 1;
            }
            prj.push(cnt.iter().map(|n| (*n as f64 + c.alpha) / (s.counts[k] as f64 + ncat[j] as f64 * c.alpha)).collect::<Vec<f64>>());
            ccj.push(cnt);
        }
        cc.push(ccj);
        pr.push(prj);
    }
    (ncat, cc, pr)
}

/// log prior + sum of per-feature log-likelihoods for every class, from the definitions.
/// None: the row (or the training set) is outside the domain the property speaks about.
fn spec_scores(c: &Case, s: &Spec, row: &[f64]) -> Option<Vec<f64>> {
    let k = s.classes.len();
    let mut sc: Vec<f64> = s.priors.iter().map(|p| p.ln()).collect();
    match c.v {
        Variant::G => {
            let mom = gaussian_moments(c, s);
            for cl in 0..k {
                for j in 0..s.p {
                    let (mean, var, _) = mom[cl][j];
                    if !(var > 1e-8 * (mean * mean + var)) {
                        return None; // degenerate variance: the density is not defined / known cancellation regime
                    }
                    let d = row[j] - mean;
                    sc[cl] += -0.5 * (2.0 * std::f64::consts::PI * var).ln() - d * d / (2.0 * var);
                }
            }
        }
        Variant::M => {
            let (_, pr) = multinomial_probs(c, s);
            for cl in 0..k {
                for j in 0..s.p {
                    sc[cl] += row[j] * pr[cl][j].ln();
                }
            }
        }
        Variant::B => {
            let (_, pr) = bernoulli_probs(c, s);
            let rb = &binarized(&[row.to_vec()], c.binarize)[0];
            for cl in 0..k {
                for j in 0..s.p {
                    if rb[j] == 1.0 {
                        sc[cl] += pr[cl][j].ln();
                    } else if rb[j] == 0.0 {
                        sc[cl] += (1.0 - pr[cl][j]).ln();
                    } else {
                        return None; // not a binary row
                    }
                }
            }
        }
        Variant::C => {
            let (ncat, _, pr) = categorical_probs(c, s);
            for j in 0..s.p {
                let v = row[j];
                if !(v >= 0.0 && v.fract() == 0.0 && (v as usize) < ncat[j]) {
                    return None;
                }
                // "whose values occurred in training"
                if !c.x.iter().any(|r| r[j] == v) {
                    return None;
                }
            }
            for cl in 0..k {
                for j in 0..s.p {
                    sc[cl] += pr[j][cl][row[j] as usize].ln();
                }
            }
        }
    }
    Some(sc)
}

const MARGIN: f64 = 1e-6;
fn separated(a: f64, b: f64) -> bool {
    if a == f64::NEG_INFINITY || b == f64::NEG_INFINITY {
        return a != b;
    }
    (a - b).abs() > MARGIN * (1.0 + a.abs() + b.abs())
}

struct Verdict {
    failures: Vec<(String, String)>,
    excluded: Vec<String>,
    /// query rows whose prediction was compared with the definition's arg-max
    rows_checked: usize,
}

/// Evaluate every clause of the property on the implementation's outputs.
fn evaluate(c: &Case, io: &ImplOut) -> Verdict {
    let mut f: Vec<(String, String)> = vec![];
    let mut ex: Vec<String> = vec![];
    let s = spec_of(c);
    let k = s.classes.len();
    let fit = match &io.fit {
        Err(msg) => {
            f.push(("fit_total".into(), format!("fit panicked on a valid training set: {}", msg)));
            return Verdict { failures: f, excluded: ex, rows_checked: 0 };
        }
        Ok(None) => {
            f.push(("fit_total".into(), "fit returned Err on a valid training set".into()));
            return Verdict { failures: f, excluded: ex, rows_checked: 0 };
        }
        Ok(Some(fit)) => fit,
    };
    // class labels
    let want: Vec<f64> = s.classes.iter().map(|l| *l as f64).collect();
    if fit.classes != want {
        f.push(("class_labels".into(), format!("classes {:?}, expected {:?}", fit.classes, want)));
        return Verdict { failures: f, excluded: ex, rows_checked: 0 };
    }
    // class counts
    if fit.count != s.counts {
        f.push(("class_counts".into(), format!("class_count {:?}, expected {:?}", fit.count, s.counts)));
    }
    if fit.count.iter().sum::<usize>() != c.y.len() {
        f.push(("class_counts".into(), "class counts do not sum to the number of rows".into()));
    }
    // priors
    let user = c.priors.is_some() && c.v != Variant::C;
    if fit.priors.len() != k {
        f.push(("priors".into(), format!("{} priors for {} classes", fit.priors.len(), k)));
    } else if user {
        if fit.priors.iter().zip(s.priors.iter()).any(|(a, b)| a.to_bits() != b.to_bits()) {
            f.push(("priors".into(), format!("user priors not returned verbatim: {:?} vs {:?}", fit.priors, s.priors)));
        }
    } else {
        for cl in 0..k {
            if !close(fit.priors[cl], s.priors[cl], 1e-12) {
                f.push(("priors".into(), format!("prior of class {} is {}, class frequency is {}", s.classes[cl], fit.priors[cl], s.priors[cl])));
                break;
            }
        }
        if !close(fit.priors.iter().sum::<f64>(), 1.0, 1e-9) {
            f.push(("priors".into(), format!("priors sum to {}", fit.priors.iter().sum::<f64>())));
        }
    }
    // per-class feature statistics
    match c.v {
        Variant::G => {
            let mom = gaussian_moments(c, &s);
            if fit.theta.len() != k || fit.var.len() != k || fit.theta.iter().any(|r| r.len() != s.p) || fit.var.iter().any(|r| r.len() != s.p) {
                f.push(("gaussian_moments".into(), "theta / var have the wrong shape".into()));
            } else {
                'g: for cl in 0..k {
                    for j in 0..s.p {
                        let (mean, var, scale) = mom[cl][j];
                        let sc = scale.max(f64::MIN_POSITIVE);
                        if (fit.theta[cl][j] - mean).abs() > 1e-12 * sc {
                            f.push(("gaussian_moments".into(), format!("theta[{}][{}] = {:e}, class mean = {:e}", cl, j, fit.theta[cl][j], mean)));
                            break 'g;
                        }
                        // one-pass E[x^2]-E[x]^2: error <= ~n*eps*(mean^2+var) <= 1.4e-14*scale^2 for n <= 120
                        if (fit.var[cl][j] - var).abs() > 1e-12 * sc * sc {
                            f.push(("gaussian_moments".into(), format!("var[{}][{}] = {:e}, class variance = {:e}", cl, j, fit.var[cl][j], var)));
                            break 'g;
                        }
                    }
                }
            }
        }
        Variant::M | Variant::B => {
            let (fc, pr) = if c.v == Variant::M { multinomial_probs(c, &s) } else { bernoulli_probs(c, &s) };
            let name = if c.v == Variant::M { "multinomial_probs" } else { "bernoulli_probs" };
            if fit.fcount != fc {
                f.push((name.into(), format!("feature_count {:?}, expected {:?}", fit.fcount, fc)));
            }
            if fit.flp.len() != k || fit.flp.iter().any(|r| r.len() != s.p) {
                f.push((name.into(), "feature_log_prob has the wrong shape".into()));
            } else {
                'm: for cl in 0..k {
                    for j in 0..s.p {
                        if !close(fit.flp[cl][j], pr[cl][j].ln(), 1e-10) {
                            f.push((name.into(), format!("feature_log_prob[{}][{}] = {}, log of the smoothed frequency = {}", cl, j, fit.flp[cl][j], pr[cl][j].ln())));
                            break 'm;
                        }
                    }
                    if c.v == Variant::M {
                        let tot: f64 = fit.flp[cl].iter().map(|l| l.exp()).sum();
                        if !close(tot, 1.0, 1e-9) {
                            f.push((name.into(), format!("probabilities of class {} sum to {} over the features", cl, tot)));
                            break 'm;
                        }
                    }
                }
            }
        }
        Variant::C => {
            let (ncat, cc, pr) = categorical_probs(c, &s);
            if fit.ncat != ncat {
                f.push(("categorical_probs".into(), format!("n_categories {:?}, expected {:?}", fit.ncat, ncat)));
            } else if fit.catcount != cc {
                f.push(("categorical_probs".into(), format!("category_count {:?}, expected {:?}", fit.catcount, cc)));
            } else if fit.coef.len() != s.p || fit.coef.iter().any(|a| a.len() != k) {
                f.push(("categorical_probs".into(), "feature_log_prob has the wrong shape".into()));
            } else {
                'c: for j in 0..s.p {
                    for cl in 0..k {
                        if fit.coef[j][cl].len() != ncat[j] {
                            f.push(("categorical_probs".into(), "feature_log_prob has the wrong shape".into()));
                            break 'c;
                        }
                        for t in 0..ncat[j] {
                            if !close(fit.coef[j][cl][t], pr[j][cl][t].ln(), 1e-10) {
                                f.push(("categorical_probs".into(), format!("feature_log_prob[{}][{}][{}] = {}, log of the smoothed frequency = {}", j, cl, t, fit.coef[j][cl][t], pr[j][cl][t].ln())));
                                break 'c;
                            }
                        }
                        let tot: f64 = fit.coef[j][cl].iter().map(|l| l.exp()).sum();
                        if !close(tot, 1.0, 1e-9) {
                            f.push(("categorical_probs".into(), format!("probabilities of feature {} in class {} sum to {}", j, cl, tot)));
                            break 'c;
                        }
                    }
                }
            }
        }
    }
    // MAP decision
    let mut rows_checked = 0usize;
    let all_scores: Vec<Option<Vec<f64>>> = c.q.iter().map(|r| spec_scores(c, &s, r)).collect();
    let in_domain = all_scores.iter().all(|o| o.is_some());
    match &io.pred {
        None => {}
        Some(Err(msg)) => {
            if in_domain {
                f.push(("predict_total".into(), format!("predict failed on rows inside the property's domain: {}", msg)));
            } else {
                ex.push("excluded:predict-failed-outside-domain".into());
            }
        }
        Some(Ok(labels)) => {
            if labels.len() != c.q.len() {
                f.push(("predict_is_map".into(), "wrong number of predictions".into()));
            } else {
                for (i, osc) in all_scores.iter().enumerate() {
                    let sc = match osc {
                        None => {
                            ex.push("excluded:row-outside-domain".into());
                            continue;
                        }
                        Some(sc) => sc,
                    };
                    let best = sc.iter().cloned().fold(f64::NEG_INFINITY, f64::max);
                    let got = labels[i];
                    let pos = s.classes.iter().position(|l| *l as f64 == got);
                    match pos {
                        None => {
                            f.push(("predict_is_map".into(), format!("row {}: predicted label {} is not a class", i, got)));
                            break;
                        }
                        Some(pos) => {
                            if sc[pos] == best {
                                rows_checked += 1;
                                continue;
                            }
                            if !separated(sc[pos], best) {
                                ex.push("excluded:near-tie".into());
                                continue;
                            }
                            f.push(("predict_is_map".into(), format!("row {}: predicted class {} has log posterior {}, the maximum is {} (scores {:?})", i, got, sc[pos], best, sc)));
                            break;
                        }
                    }
                }
            }
        }
    }
    Verdict { failures: f, excluded: ex, rows_checked }
}

/// May the correspondence demand the model's exact arg-max?  Yes when, for every query row, every
/// pair of class scores is clearly separated or belongs to the structurally identical pair `dup`.
fn strict_ok(c: &Case) -> bool {
    let s = spec_of(c);
    for r in &c.q {
        match spec_scores(c, &s, r) {
            None => return false,
            Some(sc) => {
                for a in 0..sc.len() {
                    for b in (a + 1)..sc.len() {
                        let is_dup = match c.dup {
                            Some((l1, l2)) => (s.classes[a] == l1 && s.classes[b] == l2) || (s.classes[a] == l2 && s.classes[b] == l1),
                            None => false,
                        };
                        let both_impossible = sc[a] == f64::NEG_INFINITY && sc[b] == f64::NEG_INFINITY;
                        if !is_dup && !both_impossible && !separated(sc[a], sc[b]) {
                            return false;
                        }
                    }
                }
            }
        }
    }
    true
}

// ------------------------------------------------------------------------------------------
// builder_order_irrelevant: the parameter struct, the fitted model (accessors, serde state) and its
// predictions do not depend on HOW the requested values were put into the parameter struct
// ------------------------------------------------------------------------------------------
const BUILDER: &str = "builder_order_irrelevant";

fn same<T: std::fmt::Debug>(a: &T, b: &T) -> bool {
    // Debug of f64 is exact (shortest round-trip form, "-0.0", "NaN"), so this is a bit-level comparison
    format!("{:?}", a) == format!("{:?}", b)
}
fn clip(s: String) -> String {
    if s.len() > 600 { format!("{}…", s.chars().take(600).collect::<String>()) } else { s }
}
fn outcome(r: &Result<Option<Fit>, String>) -> String {
    match r {
        Ok(Some(_)) => "Ok(model)".into(),
        Ok(None) => "Err(Failed)".into(),
        Err(m) => format!("panic: {}", m),
    }
}

/// first difference between the struct-literal run and the builder-configured run on the same data
fn diff_runs(lit: &ImplOut, bld: &ImplOut) -> Option<String> {
    match (&lit.fit, &bld.fit) {
        (Ok(Some(a)), Ok(Some(b))) => {
            macro_rules! acc {
                ($f:ident, $name:expr) => {
                    if !same(&a.$f, &b.$f) {
                        return Some(clip(format!("{} = {:?}, the struct-literal fit has {:?}", $name, b.$f, a.$f)));
                    }
                };
            }
            acc!(classes, "classes()");
            acc!(count, "class_count()");
            acc!(priors, "class priors");
            acc!(theta, "theta()");
            acc!(var, "var()");
            acc!(fcount, "feature_count()");
            acc!(flp, "feature_log_prob()");
            acc!(ncat, "n_categories()");
            acc!(catcount, "category_count()");
            acc!(coef, "feature_log_prob()");
        }
        (Ok(None), Ok(None)) => {}
        (Err(a), Err(b)) if a == b => {}
        (a, b) => return Some(clip(format!("fit gives {}, with the struct literal {}", outcome(b), outcome(a)))),
    }
    if lit.state != bld.state {
        return Some("the serialized state of the fitted model differs from the struct-literal fit's".into());
    }
    if !same(&lit.pred, &bld.pred) {
        return Some(clip(format!("predictions on the probe rows are {:?}, the struct-literal fit predicts {:?}", bld.pred, lit.pred)));
    }
    None
}

/// The oracle for one call sequence (`c.build`), given the run with the struct literal holding the
/// requested values.  (a) the public fields of the built struct are the requested values;
/// (b) fit / accessors / serde state / predictions equal the struct-literal run.  A failure is
/// described together with the verdict of the definition-based oracles on the builder-configured model.
fn builder_check(c: &Case, lit: &ImplOut) -> Option<String> {
    let steps = c.build.as_ref()?;
    let bld = run_impl(c);
    let want = c.requested();
    let mut problems: Vec<String> = vec![];
    match &bld.fields {
        None => {}
        Some(f) => {
            if !fields_same(f, &want) {
                problems.push(clip(format!("the built struct has (alpha, priors, binarize) = {:?}, requested {:?}", f, want)));
            }
        }
    }
    if let Some(d) = diff_runs(lit, &bld) {
        problems.push(d);
    }
    if problems.is_empty() {
        return None;
    }
    let defs: Vec<String> = evaluate(c, &bld).failures.iter().map(|(o, w)| format!("{}: {}", o, w)).collect();
    Some(format!(
        "{}: {}{}",
        clip(calls(c.v, steps)),
        problems.join("; "),
        if defs.is_empty() { String::new() } else { format!(" -- judged by the definitions with the requested values: {}", clip(defs.join("; "))) }
    ))
}

fn permutations(n: usize) -> Vec<Vec<usize>> {
    if n == 0 {
        return vec![vec![]];
    }
    let mut out = vec![];
    for p in permutations(n - 1) {
        for pos in 0..=p.len() {
            let mut q = p.clone();
            q.insert(pos, n - 1);
            out.push(q);
        }
    }
    out
}

/// Every order of the calls `finals` (one per field to set), and for every order, every call
/// preceded — at every earlier position — by a call of the same method with another value
/// (`decoys[i]` has the kind of `finals[i]`), which the later call must override.
fn sequences(finals: &[Step], decoys: &[Step]) -> Vec<Vec<Step>> {
    let mut out = vec![];
    for perm in permutations(finals.len()) {
        let base: Vec<Step> = perm.iter().map(|i| finals[*i].clone()).collect();
        out.push(base.clone());
        for (pos, i) in perm.iter().enumerate() {
            for j in 0..=pos {
                let mut s = base.clone();
                s.insert(j, decoys[*i].clone());
                out.push(s);
            }
        }
    }
    out
}

// ------------------------------------------------------------------------------------------
// api_trait_twin: `smartcore::api::SupervisedEstimator::fit` / `Predictor::predict` (the entry points of
// `cross_validate` and every generic caller) give exactly what the inherent `fit` / `predict` give, on
// the training matrix and on the query rows, for the model fitted either way (Ok/Err included)
// ------------------------------------------------------------------------------------------
const TWIN: &str = twin::ORACLE;

fn twin_check(c: &Case) -> Option<twin::Diff> {
    if c.x.is_empty() || c.x[0].is_empty() || c.q.is_empty() {
        return None;
    }
    let x = dense(&c.x);
    let y: Vec<f64> = c.y.iter().map(|l| *l as f64).collect();
    let q = dense(&c.q);
    let params = guard(|| make_params(c)).ok()?;
    let probes = [("the training matrix", &x), ("the query rows", &q)];
    macro_rules! run {
        ($ty:ty, $p:expr) => {{
            let p = $p;
            twin::check(
                "SupervisedEstimator",
                "Predictor",
                "predict",
                || twin::fit_sup::<$ty, _, _, _>(&x, &y, p.clone()),
                || <$ty>::fit(&x, &y, p.clone()),
                |m: &$ty, z: &DenseMatrix<f64>| twin::predict(m, z),
                |m: &$ty, z: &DenseMatrix<f64>| m.predict(z),
                &probes,
                |m: &$ty| serde_json::to_string(m).unwrap_or_default(),
                true,
            )
        }};
    }
    match params {
        Params::G(p) => run!(GaussianNB<f64, DenseMatrix<f64>>, p),
        Params::M(p) => run!(MultinomialNB<f64, DenseMatrix<f64>>, p),
        Params::B(p) => run!(BernoulliNB<f64, DenseMatrix<f64>>, p),
        Params::C(p) => run!(CategoricalNB<f64, DenseMatrix<f64>>, p),
    }
}

fn twin_search(out: &mut Out, c: &Case) {
    let mut kd: Vec<f64> = c.x.iter().flatten().cloned().collect();
    kd.extend(c.y.iter().map(|l| *l as f64));
    kd.extend(c.q.iter().flatten().cloned());
    kd.push(c.alpha);
    kd.push(-7.0); // apart from the same case in the definition-based search
    out.eval(hash_f64s(&kd), true);
    out.count(&format!("twin:{}:cases", c.v.name()));
    if c.build.is_some() {
        out.count("twin:parameters-through-the-builder");
    }
    if c.v == Variant::B {
        out.count(&format!("twin:{}", c.family.trim_start_matches("builder:")));
    }
    if twin_check(c).is_some() {
        let small = shrink(c, TWIN);
        if let Some(d) = twin_check(&small) {
            let mut w = small.to_json();
            w["oracle"] = json!(TWIN);
            w["differing_call"] = json!(d.call);
            out.count(&format!("twin:failing:{}", c.v.name()));
            out.fail(TWIN, &format!("{}NB: {}: {}", c.v.name(), d.call, d.what), w);
        }
    }
}

// ------------------------------------------------------------------------------------------
// correspondence terms
// ------------------------------------------------------------------------------------------
fn coq_nmat(m: &[Vec<usize>]) -> String {
    coq_list(m.iter().map(|r| coq_list_n(r)))
}
fn emit_corr(out: &mut Out, c: &Case, group: &str) {
    let io = run_impl(c);
    let strict = guard(|| strict_ok(c)).unwrap_or(false);
    let cls = |f: &Fit| coq_list_z(&f.classes.iter().map(|l| *l as i64).collect::<Vec<i64>>());
    let exp_fit = match &io.fit {
        Ok(Some(f)) => Some(match c.v {
            Variant::G => format!("({}, {}, {}, {}, {})", cls(f), coq_list_n(&f.count), coq_list_f64(&f.priors), coq_rows_f64(&f.theta), coq_rows_f64(&f.var)),
            Variant::M | Variant::B => format!("({}, {}, {}, {}, {})", cls(f), coq_list_n(&f.count), coq_list_f64(&f.priors), coq_nmat(&f.fcount), coq_rows_f64(&f.flp)),
            Variant::C => format!(
                "({}, {}, {}, {}, {}, {})",
                cls(f),
                coq_list_n(&f.count),
                coq_list_f64(&f.priors),
                coq_list_n(&f.ncat),
                coq_list(f.catcount.iter().map(|m| coq_nmat(m))),
                coq_list(f.coef.iter().map(|m| coq_rows_f64(m)))
            ),
        }),
        _ => None,
    };
    let exp_pred = match &io.pred {
        Some(Ok(v)) => Some(coq_list_z(&v.iter().map(|l| *l as i64).collect::<Vec<i64>>())),
        _ => None,
    };
    let user = coq_option(c.priors.as_ref().map(|p| coq_list_f64(p)));
    let head = match c.v {
        Variant::G => format!("corr_gaussian {} {} {}", coq_rows_f64(&c.x), coq_list_z(&c.y), user),
        Variant::M => format!("corr_multinomial {} {} {} {}", coq_rows_f64(&c.x), coq_list_z(&c.y), coq_f64(c.alpha), user),
        Variant::B => format!(
            "corr_bernoulli {} {} {} {} {}",
            coq_rows_f64(&c.x),
            coq_list_z(&c.y),
            coq_f64(c.alpha),
            user,
            coq_option(c.binarize.map(coq_f64))
        ),
        Variant::C => format!("corr_categorical {} {} {}", coq_rows_f64(&c.x), coq_list_z(&c.y), coq_f64(c.alpha)),
    };
    let term = match (&c.build, &io.fields) {
        (None, _) => format!("{} {} {} {} {}", head, coq_rows_f64(&c.q), coq_bool(strict), coq_option(exp_fit), coq_option(exp_pred)),
        // the model applies the recorded calls to its own defaults; the implementation was configured
        // through its builder; the built struct's fields are compared as well
        (Some(steps), Some((fa, fp, fb))) => format!(
            "corr_{}_built {} ({}, {}, {}) {} {} {} {} {} {}",
            c.v.name(),
            coq_list(steps.iter().map(|s| s.coq())),
            coq_f64(*fa),
            coq_option(fp.as_ref().map(|p| coq_list_f64(p))),
            coq_option(fb.map(coq_f64)),
            coq_rows_f64(&c.x),
            coq_list_z(&c.y),
            coq_rows_f64(&c.q),
            coq_bool(strict),
            coq_option(exp_fit),
            coq_option(exp_pred)
        ),
        // a builder method panicked: the model's builder is total
        (Some(_), None) => "false".to_string(),
    };
    out.count(&format!("corr:{}:{}", group, if strict { "strict" } else { "tolerance" }));
    if matches!(io.pred, Some(Err(_))) {
        out.count(&format!("corr:{}:predict-panics", group));
    }
    if !matches!(io.fit, Ok(Some(_))) {
        out.count(&format!("corr:{}:fit-fails", group));
    }
    out.corr(group, term, c.to_json());
}

fn emit_corr_unique(out: &mut Out, y: &[i64]) {
    let yf: Vec<f64> = y.iter().map(|l| *l as f64).collect();
    if let Ok((u, ix)) = guard(|| yf.unique_with_indices()) {
        let term = format!(
            "corr_unique {} {} {}",
            coq_list_z(y),
            coq_list_z(&u.iter().map(|l| *l as i64).collect::<Vec<i64>>()),
            coq_list_n(&ix)
        );
        out.corr("unique_with_indices", term, json!({"entry": "unique", "y": y}));
    }
}

// ------------------------------------------------------------------------------------------
// generators
// ------------------------------------------------------------------------------------------
fn gen_label_values(rng: &mut Rng, k: usize, categorical: bool) -> (Vec<i64>, &'static str) {
    if categorical {
        // classes are enumerated 0..max: small non-negative labels, possibly with gaps
        return if rng.chance(0.5) {
            ((0..k as i64).collect(), "labels:0..k-1")
        } else {
            let mut v: Vec<i64> = (0..9).collect();
            rng.shuffle(&mut v);
            v.truncate(k);
            (v, "labels:gaps")
        };
    }
    let distinct = |rng: &mut Rng, lo: i64, hi: i64| {
        let mut v: Vec<i64> = vec![];
        while v.len() < k {
            let c = rng.int(lo, hi);
            if !v.contains(&c) {
                v.push(c);
            }
        }
        v
    };
    match rng.below(6) {
        0 => ((0..k as i64).collect(), "labels:0..k-1"),
        1 => ((1..=k as i64).collect(), "labels:1..k"),
        2 => (distinct(rng, -20, 20), "labels:small-signed"),
        3 => (distinct(rng, -1_000_000, 1_000_000), "labels:large"),
        4 => {
            let base = rng.int(-100, 100);
            let step = rng.int(2, 50);
            ((0..k as i64).map(|i| base + step * i).collect(), "labels:arithmetic")
        }
        _ => {
            let mut v: Vec<i64> = (0..k as i64).map(|i| i * 3 + 2).collect();
            v.reverse();
            (v, "labels:descending-gaps")
        }
    }
}

/// labels for n rows over k classes with skewed frequencies, at least `minc` rows per class
fn gen_labels(rng: &mut Rng, n: usize, k: usize, minc: usize, categorical: bool) -> (Vec<i64>, &'static str) {
    let k = k.min(n / minc).max(1);
    let (vals, style) = gen_label_values(rng, k, categorical);
    let skew = *rng.pick(&[1.0, 2.0, 4.0]);
    let w: Vec<f64> = (0..k).map(|i| f64::powi(skew, i as i32)).collect();
    let tot: f64 = w.iter().sum();
    let mut y: Vec<i64> = vec![];
    for cl in 0..k {
        for _ in 0..minc {
            y.push(vals[cl]);
        }
    }
    while y.len() < n {
        let mut u = rng.unit() * tot;
        let mut cl = 0;
        while cl + 1 < k && u >= w[cl] {
            u -= w[cl];
            cl += 1;
        }
        y.push(vals[cl]);
    }
    rng.shuffle(&mut y);
    (y, style)
}

fn gen_alpha(rng: &mut Rng) -> f64 {
    match rng.below(10) {
        0..=2 => 1.0,
        3 => 0.01,
        4 => 5.0,
        5 => 0.5,
        _ => (rng.uniform((0.01f64).ln(), (5.0f64).ln())).exp(),
    }
}

fn gen_priors(rng: &mut Rng, y: &[i64], prob: f64) -> Option<Vec<f64>> {
    if !rng.chance(prob) {
        return None;
    }
    let k = y.iter().collect::<BTreeSet<_>>().len();
    let w: Vec<f64> = (0..k).map(|_| rng.uniform(0.05, 1.0)).collect();
    let t: f64 = w.iter().sum();
    Some(w.iter().map(|v| v / t).collect())
}

fn class_pos(y: &[i64]) -> Vec<usize> {
    let u: Vec<i64> = y.iter().cloned().collect::<BTreeSet<i64>>().into_iter().collect();
    y.iter().map(|l| u.iter().position(|c| c == l).unwrap()).collect()
}

struct Sizes {
    nmax: usize,
    pmax: usize,
    kmax: usize,
    qmax: usize,
}

fn gen_sizes(rng: &mut Rng, sz: &Sizes) -> (usize, usize, usize, usize) {
    let n = if rng.chance(0.5) { rng.usize_in(2, sz.nmax.min(16)) } else { rng.usize_in(2, sz.nmax) };
    (n, rng.usize_in(1, sz.pmax), rng.usize_in(2, sz.kmax), rng.usize_in(1, sz.qmax))
}

fn gen_gaussian(rng: &mut Rng, sz: &Sizes) -> Case {
    let (n, p, k, nq) = gen_sizes(rng, sz);
    let single = rng.chance(0.06); // allow one-row classes (zero variance: outside the MAP clause)
    let (y, _) = gen_labels(rng, n.max(if single { 2 } else { 4 }), k, if single { 1 } else { 2 }, false);
    let n = y.len();
    let pos = class_pos(&y);
    let kk = pos.iter().max().unwrap() + 1;
    let fam = *rng.pick(&["unit", "unit", "scaled", "offset", "lattice"]);
    let scale: Vec<f64> = (0..p).map(|_| if fam == "scaled" { 10f64.powf(rng.uniform(-3.0, 3.0)) } else { 1.0 }).collect();
    // |mean| / spread stays below 1e3 (matrix-var-cancellation is a C03 finding for ratios >= 1e4)
    let offset: Vec<f64> = (0..p)
        .map(|j| if fam == "offset" { scale[j] * rng.uniform(10.0, 300.0) * if rng.bool() { 1.0 } else { -1.0 } } else { 0.0 })
        .collect();
    let sep = *rng.pick(&[0.0, 0.5, 2.0]);
    let centre: Vec<Vec<f64>> = (0..kk).map(|_| (0..p).map(|j| offset[j] + scale[j] * sep * rng.uniform(-3.0, 3.0)).collect()).collect();
    let sample = |rng: &mut Rng, cl: usize, j: usize| -> f64 {
        if fam == "lattice" {
            (centre[cl][j] * 2.0).round() / 2.0 + rng.dyadic(4, 3)
        } else {
            centre[cl][j] + scale[j] * rng.uniform(0.5, 1.5) * rng.normal()
        }
    };
    let x: Vec<Vec<f64>> = (0..n).map(|i| (0..p).map(|j| sample(rng, pos[i], j)).collect()).collect();
    let q: Vec<Vec<f64>> = (0..nq)
        .map(|_| match rng.below(4) {
            0 => x[rng.below(n)].clone(),
            1 => (0..p).map(|j| offset[j] + scale[j] * rng.uniform(-12.0, 12.0)).collect(),
            _ => {
                let cl = rng.below(kk);
                (0..p).map(|j| sample(rng, cl, j)).collect()
            }
        })
        .collect();
    let priors = gen_priors(rng, &y, 0.25);
    Case { v: Variant::G, x, y, alpha: 1.0, priors, binarize: None, q, family: format!("gaussian:{}{}", fam, if single { ":single-row-classes" } else { "" }), dup: None, build: None }
}

fn gen_multinomial(rng: &mut Rng, sz: &Sizes) -> Case {
    let (n, p, k, nq) = gen_sizes(rng, sz);
    let (y, _) = gen_labels(rng, n, k, 1, false);
    let pos = class_pos(&y);
    let kk = pos.iter().max().unwrap() + 1;
    let rate: Vec<Vec<usize>> = (0..kk).map(|_| (0..p).map(|_| *rng.pick(&[0, 0, 1, 2, 4, 6])).collect()).collect();
    let x: Vec<Vec<f64>> = (0..n).map(|i| (0..p).map(|j| rng.below(rate[pos[i]][j] + 1) as f64).collect()).collect();
    let q: Vec<Vec<f64>> = (0..nq)
        .map(|_| match rng.below(4) {
            0 => x[rng.below(n)].clone(),
            1 => vec![0.0; p],
            _ => (0..p).map(|_| rng.below(9) as f64).collect(),
        })
        .collect();
    let priors = gen_priors(rng, &y, 0.25);
    Case { v: Variant::M, x, y, alpha: gen_alpha(rng), priors, binarize: None, q, family: "multinomial:counts".into(), dup: None, build: None }
}

fn gen_bernoulli(rng: &mut Rng, sz: &Sizes) -> Case {
    let (n, p, k, nq) = gen_sizes(rng, sz);
    let (y, _) = gen_labels(rng, n, k, 1, false);
    let pos = class_pos(&y);
    let kk = pos.iter().max().unwrap() + 1;
    let prob: Vec<Vec<f64>> = (0..kk).map(|_| (0..p).map(|_| *rng.pick(&[0.0, 0.2, 0.5, 0.8, 1.0])).collect()).collect();
    let mode = rng.below(5);
    let (binarize, fam) = match mode {
        0 => (None, "bernoulli:binary-no-threshold"),
        // raw 0/1 data (training rows AND every query) under a threshold outside [0,1): binarisation maps
        // every feature to off (t >= 1) or on (t < 0), it is NOT the identity on data that already looks binary
        4 => (Some(*rng.pick(&[1.0, 1.5, 2.0, -0.5, -1.0, -0.001])), "bernoulli:binary-data-threshold-outside-unit"),
        1 => (Some(0.0), "bernoulli:default-threshold-0"),
        2 => (Some(*rng.pick(&[0.5, -0.25, 1.0, 2.5])), "bernoulli:lattice-threshold"),
        _ => (Some(rng.uniform(-1.0, 1.0)), "bernoulli:real-threshold"),
    };
    let th = binarize.unwrap_or(0.5);
    let value = |rng: &mut Rng, one: bool| -> f64 {
        match mode {
            0 | 4 => if one { 1.0 } else { 0.0 },
            1 => if one { *rng.pick(&[1.0, 2.0, 0.5, 7.25]) } else { *rng.pick(&[0.0, -1.0, -0.5, 0.0]) },
            // lattice values, including the threshold itself (not greater => 0)
            2 => if one { th + rng.int(1, 8) as f64 / 4.0 } else { th - rng.int(0, 8) as f64 / 4.0 },
            _ => if one { th + rng.uniform(1e-3, 3.0) } else { th - rng.uniform(0.0, 3.0) },
        }
    };
    let x: Vec<Vec<f64>> = (0..n).map(|i| (0..p).map(|j| { let one = rng.chance(prob[pos[i]][j]); value(rng, one) }).collect()).collect();
    let q: Vec<Vec<f64>> = (0..nq)
        .map(|_| if rng.chance(0.3) { x[rng.below(n)].clone() } else { (0..p).map(|_| { let one = rng.bool(); value(rng, one) }).collect() })
        .collect();
    let priors = gen_priors(rng, &y, 0.25);
    Case { v: Variant::B, x, y, alpha: gen_alpha(rng), priors, binarize, q, family: fam.into(), dup: None, build: None }
}

fn gen_categorical(rng: &mut Rng, sz: &Sizes, allow_unseen: bool) -> Case {
    let (n, p, k, nq) = gen_sizes(rng, sz);
    let (y, style) = gen_labels(rng, n, k, 1, true);
    let ncat: Vec<usize> = (0..p).map(|_| rng.usize_in(1, 5)).collect();
    let lab: Vec<i64> = y.iter().cloned().collect::<BTreeSet<i64>>().into_iter().collect();
    // class-dependent favourite category
    let fav: Vec<Vec<usize>> = lab.iter().map(|_| (0..p).map(|j| rng.below(ncat[j])).collect()).collect();
    let pos = class_pos(&y);
    let x: Vec<Vec<f64>> = (0..n)
        .map(|i| (0..p).map(|j| if rng.chance(0.5) { fav[pos[i]][j] as f64 } else { rng.below(ncat[j]) as f64 }).collect())
        .collect();
    let q: Vec<Vec<f64>> = (0..nq)
        .map(|_| {
            if rng.chance(0.3) {
                x[rng.below(n)].clone()
            } else {
                (0..p)
                    .map(|j| {
                        if allow_unseen && rng.chance(0.1) {
                            (ncat[j] + rng.below(3)) as f64
                        } else {
                            x[rng.below(n)][j] // a value that occurred in training, maybe never in the winning class
                        }
                    })
                    .collect()
            }
        })
        .collect();
    Case { v: Variant::C, x, y, alpha: gen_alpha(rng), priors: None, binarize: None, q, family: format!("categorical:{}", style), dup: None, build: None }
}

/// Duplicate one class under a second label: identical rows in identical order, so both classes get
/// bit-identical statistics and scores; the arg-max must then resolve an exact tie.
fn add_duplicate_class(rng: &mut Rng, c: &Case) -> Case {
    let mut d = c.clone();
    d.priors = None;
    let labs: Vec<i64> = c.y.iter().cloned().collect::<BTreeSet<i64>>().into_iter().collect();
    let src = *rng.pick(&labs);
    let new = if c.v == Variant::C {
        match (0..12).find(|l| !labs.contains(l)) {
            Some(l) => l,
            None => return d,
        }
    } else if rng.bool() { labs[0] - rng.int(1, 5) } else { labs[labs.len() - 1] + rng.int(1, 5) };
    let idx: Vec<usize> = (0..c.y.len()).filter(|i| c.y[*i] == src).collect();
    for i in idx {
        d.x.push(c.x[i].clone());
        d.y.push(new);
    }
    // queries from the duplicated class make the tied pair the likely winners
    for i in 0..c.y.len() {
        if c.y[i] == src && d.q.len() < c.q.len() + 2 {
            d.q.push(c.x[i].clone());
        }
    }
    d.dup = Some((src, new));
    d.family = format!("{}:duplicated-class", c.family);
    d
}

fn gen_case(rng: &mut Rng, v: Variant, sz: &Sizes, allow_unseen: bool) -> Case {
    match v {
        Variant::G => gen_gaussian(rng, sz),
        Variant::M => gen_multinomial(rng, sz),
        Variant::B => gen_bernoulli(rng, sz),
        Variant::C => gen_categorical(rng, sz, allow_unseen),
    }
}

/// A case whose requested parameter values are NOT the defaults, with the builder calls that request
/// them (`finals`: one call per field that is set; a field without a call keeps its documented
/// default) and, per call, a call of the same method with a different value (`decoys`).
fn gen_builder_case(rng: &mut Rng, v: Variant, sz: &Sizes) -> (Case, Vec<Step>, Vec<Step>) {
    let c = loop {
        let c = gen_case(rng, v, sz, false);
        // the builder cannot express `binarize: None`; a threshold of 0 is the default
        if v != Variant::B || matches!(c.binarize, Some(t) if t != 0.0) {
            break c;
        }
    };
    let alpha = loop {
        let a = gen_alpha(rng);
        if a != 1.0 {
            break a;
        }
    };
    let alpha2 = loop {
        let a = gen_alpha(rng);
        if a != 1.0 && a != alpha {
            break a;
        }
    };
    let pri = gen_priors(rng, &c.y, 1.0).unwrap();
    let pri2 = gen_priors(rng, &c.y, 1.0).unwrap();
    let th = c.binarize.unwrap_or(0.5);
    let th2 = th + *rng.pick(&[0.75, -0.5, 1.25, -1.75]);
    let all = [(Step::Alpha(alpha), Step::Alpha(alpha2)), (Step::Priors(pri), Step::Priors(pri2)), (Step::Binarize(th), Step::Binarize(th2))];
    let mut finals = vec![];
    let mut decoys = vec![];
    let p_in = if rng.chance(0.04) { 0.0 } else { 0.85 }; // now and then no call at all: Default::default() itself
    for (f, d) in all.iter() {
        if f.applicable(v) && rng.chance(p_in) {
            finals.push(f.clone());
            decoys.push(d.clone());
        }
    }
    if finals.is_empty() && p_in > 0.0 {
        for (f, d) in all.iter().filter(|(f, _)| f.applicable(v)) {
            finals.push(f.clone());
            decoys.push(d.clone());
        }
    }
    let mut c = c.with_steps(&finals).literal();
    c.family = format!("builder:{}", c.family);
    (c, finals, decoys)
}

// ------------------------------------------------------------------------------------------
// search driver
// ------------------------------------------------------------------------------------------
fn still_fails(c: &Case, oracle: &str) -> bool {
    if c.x.is_empty() || c.q.is_empty() || c.x[0].is_empty() {
        return false;
    }
    if oracle == TWIN {
        return twin_check(c).is_some();
    }
    if oracle == BUILDER {
        if c.build.is_none() {
            return false;
        }
        let lit = run_impl(&c.literal());
        return builder_check(c, &lit).is_some();
    }
    let io = run_impl(c);
    evaluate(c, &io).failures.iter().any(|(o, _)| o == oracle)
}

/// drop builder calls while the oracle still fails (the requested values follow the remaining calls);
/// `rev`: try the later calls first (which facet of a multi-field loss survives depends on the order)
fn shrink_steps(c: &Case, rev: bool) -> Case {
    let mut cur = c.clone();
    loop {
        let steps = match &cur.build {
            Some(s) => s.clone(),
            None => return cur,
        };
        let mut progress = false;
        for i0 in 0..steps.len() {
            let i = if rev { steps.len() - 1 - i0 } else { i0 };
            let mut t = steps.clone();
            t.remove(i);
            let cand = cur.with_steps(&t);
            if still_fails(&cand, BUILDER) {
                cur = cand;
                progress = true;
                break;
            }
        }
        if !progress {
            return cur;
        }
    }
}

/// greedy shrinking: fewer query rows, fewer training rows, fewer features
fn shrink(c: &Case, oracle: &str) -> Case {
    let mut cur = c.clone();
    let mut budget = 400;
    let mut progress = true;
    while progress && budget > 0 {
        progress = false;
        let mut i = 0;
        while i < cur.q.len() && cur.q.len() > 1 && budget > 0 {
            let mut t = cur.clone();
            t.q.remove(i);
            budget -= 1;
            if still_fails(&t, oracle) { cur = t; progress = true; } else { i += 1; }
        }
        let mut i = 0;
        while i < cur.x.len() && cur.x.len() > 2 && budget > 0 {
            let mut t = cur.clone();
            t.x.remove(i);
            t.y.remove(i);
            budget -= 1;
            let nclasses = t.y.iter().collect::<BTreeSet<_>>().len();
            let pri_ok = t.priors.as_ref().map(|p| p.len() == nclasses).unwrap_or(true);
            if pri_ok && still_fails(&t, oracle) { cur = t; progress = true; } else { i += 1; }
        }
        let mut j = 0;
        while cur.x[0].len() > 1 && j < cur.x[0].len() && budget > 0 {
            let mut t = cur.clone();
            for r in t.x.iter_mut() { r.remove(j); }
            for r in t.q.iter_mut() { r.remove(j); }
            budget -= 1;
            if still_fails(&t, oracle) { cur = t; progress = true; } else { j += 1; }
        }
    }
    cur
}

fn search_case(out: &mut Out, c: &Case) {
    let io = run_impl(c);
    let v = evaluate(c, &io);
    let s = spec_of(c);
    let mut kd: Vec<f64> = c.x.iter().flatten().cloned().collect();
    kd.extend(c.y.iter().map(|l| *l as f64));
    kd.extend(c.q.iter().flatten().cloned());
    kd.push(c.alpha);
    let unequal = s.counts.iter().filter(|n| **n > 0).collect::<BTreeSet<_>>().len() > 1;
    out.eval(hash_f64s(&kd), s.counts.iter().filter(|n| **n > 0).count() >= 2 && unequal);
    out.count(&format!("search:{}", c.family));
    out.count(&format!("search:classes={}", s.classes.len().min(6)));
    out.count(&format!("search:rows={}", match c.x.len() { 0..=8 => "2-8", 9..=32 => "9-32", _ => "33-120" }));
    if c.priors.is_some() {
        out.count("search:user-priors");
    }
    let zero_based = s.classes.iter().enumerate().all(|(i, l)| *l == i as i64);
    out.count(if zero_based { "search:labels-0..k-1" } else { "search:labels-not-0..k-1" });
    for e in &v.excluded {
        out.count(e);
    }
    for _ in 0..v.rows_checked {
        out.count("search:query-rows-checked-against-argmax");
    }
    for (oracle, what) in &v.failures {
        let small = shrink(c, oracle);
        // describe the failure of the shrunk input (that is what the replay file holds)
        let io2 = run_impl(&small);
        let what2 = evaluate(&small, &io2).failures.iter().find(|(o, _)| o == oracle).map(|(_, w)| w.clone()).unwrap_or_else(|| what.clone());
        let mut w = small.to_json();
        w["oracle"] = json!(oracle);
        out.fail(oracle, &what2, w);
    }
}

/// `c`: struct-literal case with the requested values (judged by the definition-based oracles in
/// `search_case`); every call sequence of `sequences(finals, decoys)` must reproduce its run.
fn builder_search(out: &mut Out, c: &Case, finals: &[Step], decoys: &[Step]) {
    search_case(out, c);
    let lit = run_impl(c);
    let name = c.v.name();
    out.count(&format!("builder:{}:cases", name));
    out.count(&format!("builder:{}:fields-set={}", name, finals.len()));
    let dflt = requested_from_steps(c.v, &[]);
    let non_default = !fields_same(&c.requested(), &dflt);
    let mut kd: Vec<f64> = c.x.iter().flatten().cloned().collect();
    kd.extend(c.y.iter().map(|l| *l as f64));
    kd.extend(c.q.iter().flatten().cloned());
    let mut failing: Vec<(Case, String)> = vec![];
    for s in sequences(finals, decoys) {
        let b = c.built(&s);
        let mut key = kd.clone();
        for st in &s {
            key.push(-1.0 - st.kind() as f64);
            match st {
                Step::Alpha(a) | Step::Binarize(a) => key.push(*a),
                Step::Priors(p) => key.extend(p.iter().cloned()),
            }
        }
        out.eval(hash_f64s(&key), non_default && s.len() >= 2);
        out.count(&format!("builder:{}:call-sequences", name));
        if s.len() > finals.len() {
            out.count("builder:sequences-with-an-overridden-earlier-call");
        }
        if let Some(what) = builder_check(&b, &lit) {
            out.count("builder:failing-call-sequences");
            failing.push((b, what));
        }
    }
    // one report per case: one of the shortest failing call sequences (a different one from report to
    // report, so that the stored replays show the different ways of failing), shrunk
    let len_of = |b: &Case| b.build.as_ref().map(|s| s.len()).unwrap_or(0);
    let shortest = failing.iter().map(|(b, _)| len_of(b)).min().unwrap_or(0);
    let cands: Vec<&(Case, String)> = failing.iter().filter(|(b, _)| len_of(b) == shortest).collect();
    if !cands.is_empty() {
        let (b, what) = cands[(out.n_fail() * 5 + 1) % cands.len()];
        let (small, what2) = if out.n_fail() < 10 {
            let small = shrink(&shrink_steps(b, out.n_fail() % 2 == 1), BUILDER);
            let lit2 = run_impl(&small.literal());
            let w = builder_check(&small, &lit2).unwrap_or_else(|| what.clone());
            (small, w)
        } else {
            (b.clone(), what.clone())
        };
        let mut w = small.to_json();
        w["oracle"] = json!(BUILDER);
        out.fail(BUILDER, &what2, w);
    }
}

fn corpus() -> Vec<Case> {
    // the data sets of the unit tests / doc examples (C11 has no repaired defect in DESIGN section 2)
    let g = Case {
        v: Variant::G,
        x: vec![vec![-1., -1.], vec![-2., -1.], vec![-3., -2.], vec![1., 1.], vec![2., 1.], vec![3., 2.]],
        y: vec![1, 1, 1, 2, 2, 2],
        alpha: 1.0,
        priors: None,
        binarize: None,
        q: vec![vec![-1., -1.], vec![2., 1.], vec![0.5, 0.25]],
        family: "corpus:gaussian".into(),
        dup: None,
        build: None,
    };
    let mut g2 = g.clone();
    g2.priors = Some(vec![0.3, 0.7]);
    let m = Case {
        v: Variant::M,
        x: vec![vec![1., 2., 0., 0., 0., 0.], vec![0., 2., 0., 0., 1., 0.], vec![0., 1., 0., 1., 0., 0.], vec![0., 1., 1., 0., 0., 1.]],
        y: vec![0, 0, 0, 1],
        alpha: 1.0,
        priors: None,
        binarize: None,
        q: vec![vec![0., 3., 1., 0., 0., 1.]],
        family: "corpus:multinomial".into(),
        dup: None,
        build: None,
    };
    let b = Case {
        v: Variant::B,
        x: vec![vec![1., 1., 0., 0., 0., 0.], vec![0., 1., 0., 0., 1., 0.], vec![0., 1., 0., 1., 0., 0.], vec![0., 1., 1., 0., 0., 1.]],
        y: vec![0, 0, 0, 1],
        alpha: 1.0,
        priors: None,
        binarize: Some(0.0),
        q: vec![vec![0., 1., 1., 0., 0., 1.]],
        family: "corpus:bernoulli".into(),
        dup: None,
        build: None,
    };
    let cx: Vec<Vec<f64>> = vec![
        vec![0., 2., 1., 0.], vec![0., 2., 1., 1.], vec![1., 2., 1., 0.], vec![2., 1., 1., 0.], vec![2., 0., 0., 0.],
        vec![2., 0., 0., 1.], vec![1., 0., 0., 1.], vec![0., 1., 1., 0.], vec![0., 0., 0., 0.], vec![2., 1., 0., 0.],
        vec![0., 1., 0., 1.], vec![1., 1., 1., 1.], vec![1., 2., 0., 0.], vec![2., 1., 1., 1.],
    ];
    let c = Case {
        v: Variant::C,
        x: cx.clone(),
        y: vec![0, 0, 1, 1, 1, 0, 1, 0, 1, 1, 1, 1, 1, 0],
        alpha: 1.0,
        priors: None,
        binarize: None,
        q: vec![cx[0].clone(), cx[4].clone(), vec![0., 2., 1., 1.]],
        family: "corpus:categorical".into(),
        dup: None,
        build: None,
    };
    vec![g, g2, m, b, c]
}

/// Fixed builder regression case: real-valued features thresholded at 0.5, skewed classes -1 / 4 / 7,
/// alpha = 0.25 and user priors far from the class frequencies, all three Bernoulli builder calls.
fn builder_corpus() -> (Case, Vec<Step>, Vec<Step>) {
    let x = vec![
        vec![0.9, 0.1, 0.7, 0.2], vec![0.8, 0.3, 0.2, 0.1], vec![0.7, 0.6, 0.9, 0.4], vec![0.2, 0.1, 0.8, 0.3],
        vec![0.9, 0.4, 0.6, 0.0], vec![0.6, 0.2, 0.1, 0.9], vec![0.1, 0.9, 0.3, 0.8], vec![0.7, 0.8, 0.4, 0.2],
        vec![0.3, 0.2, 0.1, 0.9], vec![0.4, 0.7, 0.9, 0.6], vec![0.1, 0.1, 0.2, 0.7],
    ];
    let c = Case {
        v: Variant::B,
        q: x.clone(),
        x,
        y: vec![-1, -1, -1, -1, -1, -1, 4, 4, 7, 7, 7],
        alpha: 0.25,
        priors: Some(vec![0.1, 0.3, 0.6]),
        binarize: Some(0.5),
        family: "corpus:builder:bernoulli".into(),
        dup: None,
        build: None,
    };
    let finals = vec![Step::Alpha(0.25), Step::Priors(vec![0.1, 0.3, 0.6]), Step::Binarize(0.5)];
    let decoys = vec![Step::Alpha(3.0), Step::Priors(vec![0.5, 0.25, 0.25]), Step::Binarize(-0.25)];
    (c, finals, decoys)
}

fn replay(path: &str) -> i32 {
    let v = read_replay(path);
    let inp = if v.get("input").is_some() { v["input"].clone() } else { v.clone() };
    if inp["entry"].as_str() == Some("unique") {
        // index vector of unique_with_indices, by definition
        let y: Vec<i64> = inp["y"].as_array().map(|a| a.iter().map(|t| t.as_i64().unwrap_or(0)).collect()).unwrap_or_default();
        let yf: Vec<f64> = y.iter().map(|l| *l as f64).collect();
        let ok = match guard(|| yf.unique_with_indices()) {
            Ok((u, ix)) => {
                let want: Vec<i64> = y.iter().cloned().collect::<BTreeSet<i64>>().into_iter().collect();
                u.iter().map(|l| *l as i64).collect::<Vec<i64>>() == want && ix.len() == y.len() && (0..y.len()).all(|i| ix[i] < want.len() && want[ix[i]] == y[i])
            }
            Err(_) => false,
        };
        println!("REPLAY: property=C11 {}: {}", if ok { "passes" } else { "still fails" }, path);
        return if ok { 0 } else { 1 };
    }
    let c = match Case::from_json(&inp) {
        Some(c) => c,
        None => {
            eprintln!("unknown replay entry");
            return 2;
        }
    };
    let mut builder_failure = None;
    if let Some(steps) = &c.build {
        // the recorded calls must be calls the variant offers and must request the recorded values
        if steps.iter().any(|s| !s.applicable(c.v)) || !fields_same(&requested_from_steps(c.v, steps), &c.requested()) {
            eprintln!("malformed replay: the builder calls do not request the recorded parameter values");
            return 2;
        }
        let lit = run_impl(&c.literal());
        builder_failure = builder_check(&c, &lit);
    }
    // the struct-literal fit, by the definitions
    let c0 = c.literal();
    let io = run_impl(&c0);
    let v = evaluate(&c0, &io);
    // the api-trait entry points against the inherent methods (parameters as recorded)
    let twin_failure = twin_check(&c);
    if !v.failures.is_empty() || builder_failure.is_some() || twin_failure.is_some() {
        for (o, w) in &v.failures {
            println!("  {}: {}", o, w);
        }
        if let Some(d) = &twin_failure {
            println!("  {}: {}NB: {}: {}", TWIN, c.v.name(), d.call, d.what);
        }
        if let Some(w) = &builder_failure {
            println!("  {}: {}", BUILDER, w);
        }
        println!("REPLAY: property=C11 still fails: {}", path);
        1
    } else {
        println!("REPLAY: property=C11 passes: {}", path);
        0
    }
}

fn main() {
    quiet_panics();
    let a = args();
    if let Some(p) = &a.replay {
        std::process::exit(replay(p));
    }
    let mut rng = Rng::new(a.seed);
    let mut out = Out::new(
        "C11",
        "search case = (variant, training matrix, integer labels, alpha, optional user priors, optional threshold, query rows), parameters as a struct literal; non-trivial: at least two non-empty classes with unequal counts; distinct by hash of (x, y, queries, alpha). builder case = such a case with non-default requested values plus one sequence of builder calls on Default::default() (every permutation of the calls, and every permutation with one earlier overridden call of the same method at every earlier position); non-trivial: requested values differ from the defaults and at least two calls; distinct by hash of (x, y, queries, call sequence). api-trait twin case = a search or builder case whose fit and predict go through smartcore::api::{SupervisedEstimator, Predictor} and through the inherent methods (training matrix and query rows, both fitted models); all results must coincide bit for bit",
    );
    out.max_samples = 5; // one per variant and one builder case
    let variants = [Variant::G, Variant::M, Variant::B, Variant::C];

    // ---- corpus ----
    for c in corpus() {
        search_case(&mut out, &c);
        emit_corr(&mut out, &c, c.v.name());
    }

    {
        let (c, finals, decoys) = builder_corpus();
        builder_search(&mut out, &c, &finals, &decoys);
        // alpha -> priors -> threshold, and threshold first
        emit_corr(&mut out, &c.built(&finals), "builder-bernoulli");
        emit_corr(&mut out, &c.built(&[finals[2].clone(), decoys[0].clone(), finals[1].clone(), finals[0].clone()]), "builder-bernoulli");
    }

    // ---- correspondence: small cases through the Coq model ----
    let small = Sizes { nmax: 12, pmax: 4, kmax: 4, qmax: 4 };
    let ncorr = if a.thorough { 400 } else { 90 };
    for v in variants.iter() {
        for i in 0..ncorr {
            let mut c = gen_case(&mut rng, *v, &small, true);
            if i % 4 == 3 {
                c = add_duplicate_class(&mut rng, &c);
            }
            emit_corr(&mut out, &c, v.name());
        }
    }
    // error paths and raw (unbinarised, non-binary) Bernoulli input: fidelity of the model only
    for i in 0..(if a.thorough { 40 } else { 12 }) {
        let v = variants[i % 4];
        let mut c = gen_case(&mut rng, v, &small, true);
        match rng.below(5) {
            0 => c.alpha = -0.5,
            1 => c.priors = Some(vec![0.5; c.y.iter().collect::<BTreeSet<_>>().len() + 1]),
            2 => { let r = rng.below(c.x.len()); c.x[r][0] = -1.5; }
            3 => { let r = rng.below(c.q.len()); c.q[r][0] = -2.0; }
            _ => { let r = rng.below(c.x.len()); c.x[r][0] = 2.0; c.binarize = None; }
        }
        emit_corr(&mut out, &c, "error-paths");
    }
    // parameters through the builder, in a random call order (possibly with an overridden earlier call):
    // the model applies the same calls to its defaults
    for (v, nq, nt) in [(Variant::B, 36, 150), (Variant::M, 24, 100), (Variant::G, 12, 50), (Variant::C, 12, 50)].iter() {
        for _ in 0..(if a.thorough { *nt } else { *nq }) {
            let (c, finals, decoys) = gen_builder_case(&mut rng, *v, &small);
            let seqs = sequences(&finals, &decoys);
            let s = rng.pick(&seqs).clone();
            out.count(&format!("corr:builder:calls={}", s.len()));
            emit_corr(&mut out, &c.built(&s), &format!("builder-{}", v.name()));
        }
    }
    for _ in 0..(if a.thorough { 60 } else { 16 }) {
        let n = rng.usize_in(1, 14);
        let k = rng.usize_in(1, 5);
        let (vals, _) = gen_label_values(&mut rng, k, false);
        let y: Vec<i64> = (0..n).map(|_| *rng.pick(&vals)).collect();
        emit_corr_unique(&mut out, &y);
    }

    // ---- search ----
    let full = Sizes { nmax: 120, pmax: 8, kmax: 5, qmax: 12 };
    let nsearch = if a.thorough { 40000 } else { 5000 };
    for i in 0..nsearch {
        for v in variants.iter() {
            let mut c = gen_case(&mut rng, *v, &full, false);
            if i % 10 == 9 {
                c = add_duplicate_class(&mut rng, &c);
            }
            search_case(&mut out, &c);
            if i < 1 {
                out.sample(c.to_json());
            }
        }
    }
    // ---- search: builder call orders ----
    for (v, nq, nt) in [(Variant::B, 500, 4000), (Variant::M, 400, 3000), (Variant::G, 200, 1500), (Variant::C, 200, 1500)].iter() {
        for i in 0..(if a.thorough { *nt } else { *nq }) {
            let (c, finals, decoys) = gen_builder_case(&mut rng, *v, &full);
            builder_search(&mut out, &c, &finals, &decoys);
            if i < 1 && *v == Variant::B {
                let seqs = sequences(&finals, &decoys);
                out.sample(c.built(&seqs[seqs.len() - 1]).to_json());
            }
        }
    }
    // ---- search: api-trait twins (last, so that the streams of the sections above are unchanged) ----
    for i in 0..(if a.thorough { 400 } else { 40 }) {
        for v in variants.iter() {
            let mut c = gen_case(&mut rng, *v, &full, true);
            if i % 10 == 9 {
                c = add_duplicate_class(&mut rng, &c);
            }
            twin_search(&mut out, &c);
            if i % 2 == 0 {
                let (c, finals, decoys) = gen_builder_case(&mut rng, *v, &full);
                let seqs = sequences(&finals, &decoys);
                let s = rng.pick(&seqs).clone();
                twin_search(&mut out, &c.built(&s));
            }
        }
    }
    out.finish(&a.out);
}
