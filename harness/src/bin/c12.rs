//! C12 — k-means and the BBD-tree assignment step.
//!
//! Correspondence (SC.C12.Corr): pruning test, tree construction, well-formedness of every dumped
//! tree, the assignment step on the dumped tree for arbitrary centroid sets, k-means++ replayed from
//! the recorded draws, whole fits replayed from the recorded seeding, predict (fitted and arbitrary
//! centroid sets; ordinary data and data with a large common offset).
//! Search: oracles written from the property text (exhaustive nearest-centroid search, cluster
//! means/sizes recomputed from the final labels), never from the model or the implementation.
//! Family predict-exact-near-tie (f32 and f64): fitted models on an integer lattice, queries whose two nearest
//! centroids are at squared distances N, N+1 (adjacent floats), decided in i128 with zero tolerance.
use serde_json::{json, Value};
use smartcore::algorithm::neighbour::bbd_tree::{BBDTree, VerifBBDNode};
use smartcore::cluster::kmeans::{KMeans, KMeansParameters, VerifKMeansSeeding, VERIF_KMEANS_SEEDING};
use smartcore::linalg::BaseMatrix;
use vharness::*;

// ------------------------------------------------------------------------------------------
// definitions from the property text
// ------------------------------------------------------------------------------------------
fn sqd(a: &[f64], b: &[f64]) -> f64 {
    let mut s = 0.0;
    for i in 0..a.len() {
        let d = a[i] - b[i];
        s += d * d;
    }
    s
}
fn distinct_rows(data: &[Vec<f64>]) -> usize {
    let mut seen: Vec<&Vec<f64>> = vec![];
    for r in data {
        if !seen.iter().any(|s| *s == r) {
            seen.push(r);
        }
    }
    seen.len()
}
/// smallest coordinate-wise (max-norm) gap between two *different* rows
fn min_separation(data: &[Vec<f64>]) -> f64 {
    let mut best = f64::INFINITY;
    for i in 0..data.len() {
        for j in 0..i {
            let g = data[i].iter().zip(data[j].iter()).map(|(a, b)| (a - b).abs()).fold(0.0, f64::max);
            if g > 0.0 && g < best {
                best = g;
            }
        }
    }
    best
}
/// predicate of known finding bbd-adjacent-float-split: two values 1 ulp apart in some coordinate at magnitude >= 9e5
fn has_adjacent_floats(data: &[Vec<f64>]) -> bool {
    for i in 0..data.len() {
        for j in 0..data.len() {
            for q in 0..data[i].len() {
                let (a, b) = (data[i][q], data[j][q]);
                if a.abs() >= 9e5 && a.is_finite() && b.is_finite() && (a > 0.0) == (b > 0.0) && a.to_bits().wrapping_sub(b.to_bits()) == 1 {
                    return true;
                }
            }
        }
    }
    false
}
/// predicate of known finding bbd-leaf-threshold-absolute: distinct rows within 1e-10 of each other in every coordinate
fn has_rows_within_leaf_threshold(data: &[Vec<f64>]) -> bool {
    min_separation(data) < 1e-10
}
fn max_abs(rows: &[Vec<f64>]) -> f64 {
    rows.iter().flatten().fold(0.0f64, |m, v| m.max(v.abs()))
}

// ------------------------------------------------------------------------------------------
// input families
// ------------------------------------------------------------------------------------------
#[derive(Clone, Copy, PartialEq, Debug)]
enum Fam {
    Continuous,
    Lattice,
    Clustered,
}
impl Fam {
    fn name(self) -> &'static str {
        match self {
            Fam::Continuous => "continuous",
            Fam::Lattice => "lattice",
            Fam::Clustered => "clustered",
        }
    }
}

fn gen_data(rng: &mut Rng, fam: Fam, n: usize, d: usize) -> Vec<Vec<f64>> {
    match fam {
        Fam::Continuous => {
            let scale = (2.0f64).powi(rng.int(-6, 8) as i32);
            let normal = rng.bool();
            let mut rows: Vec<Vec<f64>> = (0..n)
                .map(|_| (0..d).map(|_| if normal { rng.normal() * scale } else { rng.uniform(-scale, scale) }).collect())
                .collect();
            // a few exact duplicates
            if n > 3 && rng.chance(0.3) {
                for _ in 0..rng.usize_in(1, n / 3) {
                    let (a, b) = (rng.below(n), rng.below(n));
                    rows[a] = rows[b].clone();
                }
            }
            rows
        }
        Fam::Lattice => {
            // small dyadic lattice: exact ties, duplicates; all arithmetic of the pruning test is exact
            let mode = rng.below(3);
            let top = 1 + rng.below(6) as i64;
            (0..n)
                .map(|_| {
                    (0..d)
                        .map(|_| match mode {
                            0 => rng.int(-3, 3) as f64,
                            1 => rng.dyadic(4, 2),
                            _ => rng.int(0, top) as f64,
                        })
                        .collect()
                })
                .collect()
        }
        Fam::Clustered => {
            let c = rng.usize_in(1, 6);
            let centers: Vec<Vec<f64>> = (0..c).map(|_| (0..d).map(|_| rng.uniform(-10.0, 10.0)).collect()).collect();
            let sig = rng.uniform(0.05, 1.5);
            (0..n)
                .map(|_| {
                    let ce = &centers[rng.below(c)];
                    (0..d).map(|j| ce[j] + sig * rng.normal()).collect()
                })
                .collect()
        }
    }
}

/// Data whose coordinates share a LARGE COMMON OFFSET relative to their spread (time stamps, ids,
/// coordinates in a far-away frame): column j holds step_j * (M_j + small integers) with
/// |M_j| / range between 1e3 and 1e9 (some columns of a multi-column set stay plain, M_j = 0).
/// Everything is an integer multiple of a power of two below 2^53 * step, so the values are exact,
/// differences of values are exact, and two distinct values are >= step apart = at least ~1e4 ulp
/// (never 1-ulp neighbours: the predicate of known finding bbd-adjacent-float-split cannot hold;
/// step >= 2^-6 keeps distinct rows far above the 1e-10 leaf threshold).  Rows are grouped around
/// 1..6 lattice points (`centers`); `row(.., extra)` draws a row with the noise widened by `extra`.
struct OffsetFrame {
    step: Vec<f64>,
    base: Vec<i64>,
    centers: Vec<Vec<i64>>,
    width: i64,
    range: i64,
}
impl OffsetFrame {
    fn new(rng: &mut Rng, d: usize) -> OffsetFrame {
        let range = *rng.pick(&[8i64, 32, 128, 512]);
        let mut base: Vec<i64> = (0..d)
            .map(|_| {
                if d > 1 && rng.chance(0.3) {
                    0
                } else {
                    let m = ((range as f64) * (10.0f64).powf(rng.uniform(3.0, 9.0))).floor() as i64;
                    if rng.chance(0.25) {
                        -m
                    } else {
                        m
                    }
                }
            })
            .collect();
        if base.iter().all(|m| *m == 0) {
            let j = rng.below(d);
            base[j] = ((range as f64) * (10.0f64).powf(rng.uniform(3.0, 9.0))).floor() as i64;
        }
        // now and then the round numbers people actually have
        if rng.chance(0.15) {
            let j = rng.below(d);
            base[j] = *rng.pick(&[1_700_000_000i64, 2_000_000_000, 1_000_000_000_000, 4_294_967_296, 20_240_101_000_000]);
        }
        let step: Vec<f64> = (0..d).map(|_| (2.0f64).powi(rng.int(-6, 8) as i32)).collect();
        let c = rng.usize_in(1, 6);
        let centers: Vec<Vec<i64>> = (0..c).map(|_| (0..d).map(|_| rng.int(0, range)).collect()).collect();
        let width = rng.int(0, 3);
        OffsetFrame { step, base, centers, width, range }
    }
    fn ratio(&self) -> f64 {
        self.base.iter().map(|m| m.abs() as f64).fold(0.0, f64::max) / self.range as f64
    }
    fn row(&self, rng: &mut Rng, extra: i64) -> Vec<f64> {
        let ce = &self.centers[rng.below(self.centers.len())];
        (0..self.step.len()).map(|j| ((self.base[j] + ce[j] + rng.int(-self.width - extra, self.width + extra)) as f64) * self.step[j]).collect()
    }
    fn rows(&self, rng: &mut Rng, n: usize, extra: i64) -> Vec<Vec<f64>> {
        (0..n).map(|_| self.row(rng, extra)).collect()
    }
    fn bucket(&self) -> &'static str {
        let r = self.ratio();
        if r <= 1e5 {
            "offset/spread<=1e5"
        } else if r <= 1e7 {
            "offset/spread<=1e7"
        } else {
            "offset/spread<=1e9+"
        }
    }
}
/// offset data with at least k distinct rows
fn gen_offset_fit_data(rng: &mut Rng, n: usize, d: usize, k: usize) -> Option<(OffsetFrame, Vec<Vec<f64>>)> {
    for _ in 0..20 {
        let fr = OffsetFrame::new(rng, d);
        let data = fr.rows(rng, n, 0);
        if distinct_rows(&data) >= k {
            return Some((fr, data));
        }
    }
    None
}

/// centroid sets for the assignment step; returns (centroids, family name, on the data's dyadic lattice?)
fn gen_centroids(rng: &mut Rng, data: &[Vec<f64>], fam: Fam, k: usize) -> (Vec<Vec<f64>>, &'static str, bool) {
    let n = data.len();
    let d = data[0].len();
    let lo: Vec<f64> = (0..d).map(|j| data.iter().map(|r| r[j]).fold(f64::INFINITY, f64::min)).collect();
    let hi: Vec<f64> = (0..d).map(|j| data.iter().map(|r| r[j]).fold(f64::NEG_INFINITY, f64::max)).collect();
    let span = (0..d).map(|j| hi[j] - lo[j]).fold(0.0, f64::max).max(1e-3);
    let lat = fam == Fam::Lattice;
    let mode = rng.below(8);
    let mut exact = lat;
    let (mut cs, name): (Vec<Vec<f64>>, &'static str) = match mode {
        0 => (
            (0..k)
                .map(|_| (0..d).map(|j| if lat { rng.dyadic(4, 1) } else { rng.uniform(lo[j] - 0.1 * span, hi[j] + 0.1 * span) }).collect())
                .collect(),
            "in-range",
        ),
        1 => ((0..k).map(|_| data[rng.below(n)].clone()).collect(), "data-rows"),
        2 => {
            // midpoints of pairs of rows: many rows exactly equidistant from two centroids
            (
                (0..k)
                    .map(|_| {
                        let (a, b) = (rng.below(n), rng.below(n));
                        (0..d).map(|j| (data[a][j] + data[b][j]) / 2.0).collect()
                    })
                    .collect(),
                "midpoints",
            )
        }
        3 => {
            // far outside the data
            let f = if lat { *rng.pick(&[8.0, 64.0, 1024.0, 65536.0]) } else { *rng.pick(&[8.0, 64.0, 1024.0, 1048576.0]) };
            (
                (0..k)
                    .map(|_| {
                        (0..d)
                            .map(|j| if lat { (rng.int(-4, 4) as f64) * f } else { lo[j] + span * f * rng.uniform(-1.0, 1.0) })
                            .collect()
                    })
                    .collect(),
                "far",
            )
        }
        4 => {
            // means of a random partition (what Lloyd iterations produce)
            exact = false;
            let lab: Vec<usize> = (0..n).map(|_| rng.below(k)).collect();
            (
                (0..k)
                    .map(|c| {
                        let m: Vec<&Vec<f64>> = (0..n).filter(|i| lab[*i] == c).map(|i| &data[i]).collect();
                        if m.is_empty() {
                            data[rng.below(n)].clone()
                        } else {
                            (0..d).map(|j| m.iter().map(|r| r[j]).sum::<f64>() / m.len() as f64).collect()
                        }
                    })
                    .collect(),
                "partition-means",
            )
        }
        5 => {
            // one far, the rest inside; or all on a line through the data (degenerate geometry)
            let p = data[rng.below(n)].clone();
            let q = data[rng.below(n)].clone();
            (
                (0..k)
                    .map(|i| {
                        let t = if lat { (i as f64) - 1.0 } else { rng.uniform(-2.0, 3.0) };
                        (0..d).map(|j| p[j] + t * (q[j] - p[j])).collect()
                    })
                    .collect(),
                "collinear",
            )
        }
        6 => {
            // axis-aligned neighbours of a row: ties along box faces
            let p = data[rng.below(n)].clone();
            (
                (0..k)
                    .map(|_| {
                        let mut c = p.clone();
                        let j = rng.below(d);
                        c[j] += if lat { rng.int(-2, 2) as f64 } else { span * rng.uniform(-0.5, 0.5) };
                        c
                    })
                    .collect(),
                "axis-neighbours",
            )
        }
        _ => (
            (0..k)
                .map(|_| (0..d).map(|j| if lat { rng.int(-4, 4) as f64 } else { rng.uniform(lo[j], hi[j]) }).collect())
                .collect(),
            "box",
        ),
    };
    // coincident centroids
    if k >= 2 && rng.chance(0.3) {
        for _ in 0..rng.usize_in(1, k / 2) {
            let (a, b) = (rng.below(k), rng.below(k));
            cs[a] = cs[b].clone();
        }
    }
    (cs, name, exact)
}

// ------------------------------------------------------------------------------------------
// implementation calls
// ------------------------------------------------------------------------------------------
struct Assign {
    dist: f64,
    sums: Vec<Vec<f64>>,
    counts: Vec<usize>,
    memb: Vec<usize>,
}
fn run_clustering(
    tree: &BBDTree<f64>,
    centroids: &[Vec<f64>],
    sums0: &[Vec<f64>],
    counts0: &[usize],
    memb0: &[usize],
) -> Result<Assign, String> {
    guard(|| {
        let mut sums = sums0.to_vec();
        let mut counts = counts0.to_vec();
        let mut memb = memb0.to_vec();
        let dist = tree.verif_clustering(centroids, &mut sums, &mut counts, &mut memb);
        Assign { dist, sums, counts, memb }
    })
}
fn build_tree(data: &[Vec<f64>]) -> Result<BBDTree<f64>, String> {
    let m = dense(data);
    guard(|| BBDTree::new(&m))
}

struct Fitted {
    k: usize,
    y: Vec<usize>,
    size: Vec<usize>,
    distortion: Option<f64>,
    centroids: Vec<Vec<Option<f64>>>,
    model: KMeans<f64>,
    seeding: Option<VerifKMeansSeeding>,
}
/// Ok(None) = Err(Failed)
fn run_fit(data: &[Vec<f64>], k: usize, max_iter: usize) -> Result<Option<Fitted>, String> {
    let m = dense(data);
    VERIF_KMEANS_SEEDING.with(|r| r.borrow_mut().clear());
    let r = guard(|| KMeans::fit(&m, KMeansParameters::default().with_k(k).with_max_iter(max_iter)))?;
    let seeding = VERIF_KMEANS_SEEDING.with(|r| r.borrow_mut().pop());
    match r {
        Err(_) => Ok(None),
        Ok(model) => {
            let v = serde_json::to_value(&model).map_err(|e| e.to_string())?;
            let us = |x: &Value| -> Vec<usize> { x.as_array().map(|a| a.iter().map(|t| t.as_u64().unwrap_or(u64::MAX) as usize).collect()).unwrap_or_default() };
            let centroids = v["centroids"]
                .as_array()
                .map(|a| a.iter().map(|r| r.as_array().map(|r| r.iter().map(|x| x.as_f64()).collect()).unwrap_or_default()).collect())
                .unwrap_or_default();
            Ok(Some(Fitted {
                k: v["k"].as_u64().unwrap_or(u64::MAX) as usize,
                y: us(&v["_y"]),
                size: us(&v["size"]),
                distortion: v["_distortion"].as_f64(),
                centroids,
                model,
                seeding,
            }))
        }
    }
}
fn run_predict(model: &KMeans<f64>, x: &[Vec<f64>]) -> Result<Vec<f64>, String> {
    let m = dense(x);
    guard(|| model.predict(&m).map(|v| v.to_vec()).unwrap_or_default())
}

// ------------------------------------------------------------------------------------------
// oracles
// ------------------------------------------------------------------------------------------
/// The assignment step against exhaustive search.  Returns a description of the first violated clause.
fn assignment_violation(data: &[Vec<f64>], centroids: &[Vec<f64>], exact: bool, out: Option<&mut Out>) -> Option<(String, String)> {
    let n = data.len();
    let d = data[0].len();
    let k = centroids.len();
    let tree = match build_tree(data) {
        Ok(t) => t,
        Err(e) => return Some(("assignment_panic".into(), format!("BBDTree::new panicked: {}", e))),
    };
    // incoming buffers are arbitrary: the step must overwrite them
    let sums0 = vec![vec![7.5; d]; k];
    let counts0 = vec![3usize; k];
    let memb0 = vec![k + 5; n];
    let a = match run_clustering(&tree, centroids, &sums0, &counts0, &memb0) {
        Ok(a) => a,
        Err(e) => return Some(("assignment_panic".into(), format!("clustering panicked: {}", e))),
    };
    let mut near_ties = 0usize;
    let mut exh = 0.0;
    let mut own = 0.0;
    for i in 0..n {
        let m = a.memb[i];
        if m >= k {
            return Some(("assignment_nearest".into(), format!("row {} is attached to no centroid (label {})", i, m)));
        }
        let ds: Vec<f64> = centroids.iter().map(|c| sqd(&data[i], c)).collect();
        let dmin = ds.iter().cloned().fold(f64::INFINITY, f64::min);
        let dmax = ds.iter().cloned().fold(0.0, f64::max);
        let tol = if exact { 0.0 } else { 1e-9 * dmax };
        if !(ds[m] <= dmin + tol) {
            return Some((
                "assignment_nearest".into(),
                format!("row {} attached to centroid {} at squared distance {:e}, nearest is at {:e}", i, m, ds[m], dmin),
            ));
        }
        if ds[m] > dmin {
            near_ties += 1;
        }
        exh += dmin;
        own += ds[m];
    }
    if let Some(o) = out {
        if near_ties > 0 {
            o.count("search:assign:near-tie-within-tolerance");
        }
    }
    let scale = max_abs(data).max(1e-300);
    for c in 0..k {
        let members: Vec<usize> = (0..n).filter(|i| a.memb[*i] == c).collect();
        if a.counts[c] != members.len() {
            return Some(("assignment_counts".into(), format!("counts[{}] = {} but {} rows carry that label", c, a.counts[c], members.len())));
        }
        for q in 0..d {
            let s: f64 = members.iter().map(|i| data[*i][q]).sum();
            let tol = if exact { 0.0 } else { 1e-9 * scale * (members.len().max(1) as f64) };
            if !((a.sums[c][q] - s).abs() <= tol) {
                return Some(("assignment_sums".into(), format!("sums[{}][{}] = {:e}, sum of the attached rows = {:e}", c, q, a.sums[c][q], s)));
            }
        }
    }
    if a.counts.iter().sum::<usize>() != n {
        return Some(("assignment_counts".into(), "counts do not sum to n".into()));
    }
    // rounding of the cached means (sum / count) perturbs every term by ~eps*scale: absolute error
    // <= 2 e sqrt(n D) + n e^2 with e ~ eps*scale, on top of the relative part
    let sc = scale.max(max_abs(centroids));
    let tol = 1e-9 * (own.abs() + exh.abs()) + 1e-13 * sc * ((n as f64) * (own.abs() + exh.abs())).sqrt() + (n as f64) * 1e-26 * sc * sc + 1e-300;
    if !((a.dist - own).abs() <= tol) || !((a.dist - exh).abs() <= tol + 1e-8 * exh) {
        return Some((
            "assignment_distortion".into(),
            format!("returned distortion {:e}, distortion of the returned assignment {:e}, of exhaustive search {:e}", a.dist, own, exh),
        ));
    }
    None
}

/// drop rows / centroids while the same clause keeps failing
fn shrink_assignment(data: &[Vec<f64>], centroids: &[Vec<f64>], exact: bool, clause: &str) -> (Vec<Vec<f64>>, Vec<Vec<f64>>) {
    let mut data = data.to_vec();
    let mut cs = centroids.to_vec();
    let still = |d: &[Vec<f64>], c: &[Vec<f64>]| -> bool { matches!(assignment_violation(d, c, exact, None), Some((cl, _)) if cl == clause) };
    let mut budget = 4000usize;
    let mut progress = true;
    while progress && budget > 0 {
        progress = false;
        let mut i = 0;
        while i < data.len() && data.len() > 1 && budget > 0 {
            let mut t = data.clone();
            t.remove(i);
            budget -= 1;
            if still(&t, &cs) {
                data = t;
                progress = true;
            } else {
                i += 1;
            }
        }
        let mut j = 0;
        while j < cs.len() && cs.len() > 1 && budget > 0 {
            let mut t = cs.clone();
            t.remove(j);
            budget -= 1;
            if still(&data, &t) {
                cs = t;
                progress = true;
            } else {
                j += 1;
            }
        }
    }
    (data, cs)
}

fn check_assignment(out: &mut Out, data: &[Vec<f64>], centroids: &[Vec<f64>], exact: bool, fam: &str, cfam: &str) {
    let n = data.len();
    let k = centroids.len();
    let mut key: Vec<f64> = data.iter().flatten().cloned().collect();
    key.extend(centroids.iter().flatten());
    out.eval(hash_f64s(&key), k >= 2 && distinct_rows(data) >= 2);
    out.count(&format!("search:assign:{}:{}", fam, cfam));
    out.count(&format!("search:assign:n<={}", if n <= 10 { 10 } else if n <= 50 { 50 } else if n <= 150 { 150 } else { 300 }));
    out.count(&format!("search:assign:k={}", k));
    if exact {
        out.count("search:assign:exact-arithmetic(zero tolerance)");
    }
    if let Some((clause, what)) = assignment_violation(data, centroids, exact, Some(out)) {
        let (sd, sc) = shrink_assignment(data, centroids, exact, &clause);
        let what2 = assignment_violation(&sd, &sc, exact, None).map(|x| x.1).unwrap_or(what);
        out.fail(&clause, &what2, json!({"entry": "assign", "data": sd, "centroids": sc, "exact": exact}));
    }
}

thread_local! {
    /// predictions accepted although another centroid is closer by less than the margin (near ties)
    static PREDICT_NEAR_TIES: std::cell::Cell<usize> = std::cell::Cell::new(0);
}
/// "Predicting assigns every row to a centroid at minimal Euclidean distance": exhaustive search with
/// squared distances computed from the coordinate DIFFERENCES (x and c of the same magnitude subtract
/// exactly, so this is accurate to a few ulp of the distance itself whatever the common offset is).
/// A label is accepted when its centroid is within a relative margin 1e-9 of the minimum (near ties are
/// excluded from the verdict and counted).
fn predict_labels_violation(cents: &[Vec<f64>], x: &[Vec<f64>], lab: &[f64]) -> Option<(String, String)> {
    let k = cents.len();
    if lab.len() != x.len() {
        return Some(("predict_nearest".into(), "wrong number of predictions".into()));
    }
    for (i, l) in lab.iter().enumerate() {
        let li = *l as usize;
        if !(*l >= 0.0) || li as f64 != *l || li >= k {
            return Some(("predict_nearest".into(), format!("prediction {} for row {} is not a cluster index", l, i)));
        }
        let ds: Vec<f64> = cents.iter().map(|c| sqd(&x[i], c)).collect();
        let dmin = ds.iter().cloned().fold(f64::INFINITY, f64::min);
        let dmax = ds.iter().cloned().fold(0.0, f64::max);
        if !(ds[li] <= dmin + 1e-9 * dmin + 1e-12 * dmax) {
            return Some((
                "predict_nearest".into(),
                format!("row {} {:?} predicted {} at squared distance {:e}, nearest centroid at {:e}", i, x[i], li, ds[li], dmin),
            ));
        }
        if ds[li] > dmin {
            PREDICT_NEAR_TIES.with(|c| c.set(c.get() + 1));
        }
    }
    None
}
/// a model with the given centroids, through the public serde interface (predict only reads k and centroids)
fn model_from_centroids(cents: &[Vec<f64>]) -> Result<KMeans<f64>, String> {
    let k = cents.len();
    serde_json::from_value::<KMeans<f64>>(json!({"k": k, "_y": [], "size": vec![0usize; k], "_distortion": 0.0, "centroids": cents}))
        .map_err(|e| e.to_string())
}
/// predict for an ARBITRARY centroid set (coincident, far away, means of a partition ...) and arbitrary rows
fn predict_violation(cents: &[Vec<f64>], x: &[Vec<f64>]) -> Option<(String, String)> {
    let model = match model_from_centroids(cents) {
        Ok(m) => m,
        Err(e) => return Some(("predict_panic".into(), format!("model could not be rebuilt from its serde form: {}", e))),
    };
    match run_predict(&model, x) {
        Err(e) => Some(("predict_panic".into(), e)),
        Ok(lab) => predict_labels_violation(cents, x, &lab),
    }
}
fn shrink_predict(cents: &[Vec<f64>], x: &[Vec<f64>], clause: &str) -> (Vec<Vec<f64>>, Vec<Vec<f64>>) {
    let mut cs = cents.to_vec();
    let mut x = x.to_vec();
    let still = |c: &[Vec<f64>], x: &[Vec<f64>]| -> bool { matches!(predict_violation(c, x), Some((cl, _)) if cl == clause) };
    let mut progress = true;
    let mut budget = 2000usize;
    while progress && budget > 0 {
        progress = false;
        let mut i = 0;
        while i < x.len() && x.len() > 1 && budget > 0 {
            let mut t = x.clone();
            t.remove(i);
            budget -= 1;
            if still(&cs, &t) {
                x = t;
                progress = true;
            } else {
                i += 1;
            }
        }
        let mut j = 0;
        while j < cs.len() && cs.len() > 2 && budget > 0 {
            let mut t = cs.clone();
            t.remove(j);
            budget -= 1;
            if still(&t, &x) {
                cs = t;
                progress = true;
            } else {
                j += 1;
            }
        }
    }
    (cs, x)
}
fn check_predict(out: &mut Out, cents: &[Vec<f64>], x: &[Vec<f64>], fam: &str, cfam: &str) {
    let mut key: Vec<f64> = cents.iter().flatten().cloned().collect();
    key.extend(x.iter().flatten());
    out.eval(hash_f64s(&key), cents.len() >= 2 && distinct_rows(cents) >= 2);
    out.count(&format!("search:predict:{}:{}", fam, cfam));
    out.count(&format!("search:predict:k={}", cents.len()));
    let before = PREDICT_NEAR_TIES.with(|c| c.get());
    if let Some((clause, what)) = predict_violation(cents, x) {
        let (sc, sx) = shrink_predict(cents, x, &clause);
        let what2 = predict_violation(&sc, &sx).map(|v| v.1).unwrap_or(what);
        out.fail(&clause, &what2, json!({"entry": "predict", "centroids": sc, "x": sx}));
    }
    if PREDICT_NEAR_TIES.with(|c| c.get()) > before {
        out.count("search:predict:near-tie-within-margin(accepted)");
    }
}

/// k-means bookkeeping + predict on one fit. `queries`: extra rows to predict.
fn fit_violation(data: &[Vec<f64>], k: usize, max_iter: usize, queries: &[Vec<f64>]) -> Option<(String, String)> {
    let n = data.len();
    let d = data[0].len();
    let f = match run_fit(data, k, max_iter) {
        Err(e) => return Some(("fit_panic".into(), format!("fit panicked: {}", e))),
        Ok(None) => return Some(("fit_error".into(), "fit returned Err for k >= 2, max_iter >= 1".into())),
        Ok(Some(f)) => f,
    };
    if f.k != k || f.centroids.len() != k || f.size.len() != k || f.y.len() != n {
        return Some(("fit_shape".into(), format!("k = {}, {} centroids, {} sizes, {} labels", f.k, f.centroids.len(), f.size.len(), f.y.len())));
    }
    let mut cents: Vec<Vec<f64>> = vec![];
    for (c, row) in f.centroids.iter().enumerate() {
        if row.len() != d || row.iter().any(|v| v.map(|x| !x.is_finite()).unwrap_or(true)) {
            return Some(("centroids_finite".into(), format!("centroid {} is not finite: {:?}", c, row)));
        }
        cents.push(row.iter().map(|v| v.unwrap()).collect());
    }
    if f.size.iter().sum::<usize>() != n {
        return Some(("sizes_sum_to_n".into(), format!("sizes {:?} do not sum to n = {}", f.size, n)));
    }
    let scale = max_abs(data).max(1e-300);
    for c in 0..k {
        let members: Vec<usize> = (0..n).filter(|i| f.y[*i] == c).collect();
        if members.len() != f.size[c] {
            return Some(("sizes_are_counts".into(), format!("size[{}] = {} but {} rows carry the label", c, f.size[c], members.len())));
        }
        if !members.is_empty() {
            for q in 0..d {
                let mean = members.iter().map(|i| data[*i][q]).sum::<f64>() / members.len() as f64;
                if !((cents[c][q] - mean).abs() <= 1e-9 * scale) {
                    return Some((
                        "centroid_is_mean".into(),
                        format!("centroid[{}][{}] = {:e}, mean of its {} rows = {:e}", c, q, cents[c][q], members.len(), mean),
                    ));
                }
            }
        }
    }
    if f.y.iter().any(|l| *l >= k) {
        return Some(("sizes_are_counts".into(), "label out of range".into()));
    }
    // predict: training rows and fresh rows
    let mut x: Vec<Vec<f64>> = data.to_vec();
    x.extend(queries.iter().cloned());
    match run_predict(&f.model, &x) {
        Err(e) => return Some(("predict_panic".into(), e)),
        Ok(lab) => {
            if let Some(v) = predict_labels_violation(&cents, &x, &lab) {
                return Some(v);
            }
        }
    }
    None
}

fn check_fit(out: &mut Out, data: &[Vec<f64>], k: usize, max_iter: usize, queries: &[Vec<f64>], fam: &str, reps: usize) {
    let n = data.len();
    let mut key: Vec<f64> = data.iter().flatten().cloned().collect();
    key.push(k as f64);
    key.push(max_iter as f64);
    out.count(&format!("search:fit:{}", fam));
    out.count(&format!("search:fit:k={}", k));
    out.count(&format!("search:fit:max_iter<={}", if max_iter <= 1 { 1 } else if max_iter <= 5 { 5 } else if max_iter <= 20 { 20 } else { 100 }));
    out.count(&format!("search:fit:n<={}", if n <= 10 { 10 } else if n <= 50 { 50 } else if n <= 150 { 150 } else { 300 }));
    let before = PREDICT_NEAR_TIES.with(|c| c.get());
    for _ in 0..reps {
        // the seeding is drawn from an unseeded thread-local RNG: repeated fits explore initialisations
        out.eval(hash_f64s(&key), true);
        if let Some((clause, what)) = fit_violation(data, k, max_iter, queries) {
            out.fail(&clause, &what, json!({"entry": "fit", "data": data, "k": k, "max_iter": max_iter, "queries": queries, "repeat": 200}));
            return;
        }
    }
    if PREDICT_NEAR_TIES.with(|c| c.get()) > before {
        out.count("search:fit:predict-near-tie-within-margin(accepted)");
    }
}

// ------------------------------------------------------------------------------------------
// correspondence terms
// ------------------------------------------------------------------------------------------
fn coq_nodes(nodes: &[VerifBBDNode<f64>]) -> String {
    coq_list(nodes.iter().map(|n| {
        format!(
            "rn {} {} {} {} {} {} {} {}",
            coq_n(n.count),
            coq_n(n.index),
            coq_list_f64(&n.center),
            coq_list_f64(&n.radius),
            coq_list_f64(&n.sum),
            coq_f64(n.cost),
            coq_option(n.lower.map(coq_n)),
            coq_option(n.upper.map(coq_n))
        )
    }))
}

fn corr_tree_and_assign(out: &mut Out, rng: &mut Rng, data: &[Vec<f64>], fam: Fam, ncent: usize) {
    let slack = if fam == Fam::Lattice { 0.0 } else { 1e-12 * max_abs(data).max(1e-300) };
    corr_tree_and_assign_ex(out, rng, data, slack, fam, ncent)
}
/// `slack`: box-containment slack of corr_wf; `cfam`: family the centroid generator is run with
fn corr_tree_and_assign_ex(out: &mut Out, rng: &mut Rng, data: &[Vec<f64>], slack: f64, fam: Fam, ncent: usize) {
    let d = data[0].len();
    let n = data.len();
    let input = json!({"entry": "tree", "data": data});
    let tree = match build_tree(data) {
        Ok(t) => t,
        Err(_) => {
            out.corr("build", format!("corr_build_fails {}", coq_rows_f64(data)), input);
            return;
        }
    };
    let (nodes, perm, root) = tree.verif_dump();
    // the leaf rule of build_node merges rows closer than 1e-10: only then is the dump not well-formed
    if min_separation(data) > 4e-10 {
        out.corr(
            "wf_on_dump",
            format!("corr_wf {} {} {} {} {}", coq_f64(slack), coq_rows_f64(data), coq_nodes(&nodes), coq_list_n(&perm), coq_n(root)),
            input.clone(),
        );
    } else {
        out.count("corr:wf-skipped(rows closer than 4e-10)");
    }
    out.corr(
        "build_node",
        format!("corr_build {} {} {} {}", coq_rows_f64(data), coq_nodes(&nodes), coq_list_n(&perm), coq_n(root)),
        input,
    );
    for _ in 0..ncent {
        let k = rng.usize_in(1, 6);
        let (cs, _, _) = gen_centroids(rng, data, fam, k);
        let sums0: Vec<Vec<f64>> = (0..k).map(|_| (0..d).map(|_| rng.dyadic(4, 1)).collect()).collect();
        let counts0: Vec<usize> = (0..k).map(|_| rng.below(5)).collect();
        let memb0: Vec<usize> = (0..n).map(|_| rng.below(k + 2)).collect();
        if let Ok(a) = run_clustering(&tree, &cs, &sums0, &counts0, &memb0) {
            out.corr(
                "clustering_on_dump",
                format!(
                    "corr_clustering {} {} {} {} {} {} {} {} {} {} {}",
                    coq_nodes(&nodes),
                    coq_list_n(&perm),
                    coq_n(root),
                    coq_rows_f64(&cs),
                    coq_rows_f64(&sums0),
                    coq_list_n(&counts0),
                    coq_list_n(&memb0),
                    coq_f64(a.dist),
                    coq_rows_f64(&a.sums),
                    coq_list_n(&a.counts),
                    coq_list_n(&a.memb)
                ),
                json!({"entry": "assign", "data": data, "centroids": cs, "exact": false}),
            );
        }
    }
}

/// predict model vs implementation for an arbitrary centroid set (model rebuilt through serde)
fn corr_predict_case(out: &mut Out, cents: &[Vec<f64>], x: &[Vec<f64>]) {
    if let Ok(model) = model_from_centroids(cents) {
        if let Ok(lab) = run_predict(&model, x) {
            let lab: Vec<usize> = lab.iter().map(|v| *v as usize).collect();
            out.corr(
                "predict",
                format!("corr_predict {} {} {} {}", coq_n(cents.len()), coq_rows_f64(cents), coq_rows_f64(x), coq_list_n(&lab)),
                json!({"entry": "predict", "centroids": cents, "x": x}),
            );
        }
    }
}

fn corr_prune_case(out: &mut Out, rng: &mut Rng) {
    let d = rng.usize_in(1, 5);
    let lat = rng.chance(0.6);
    let v = |rng: &mut Rng| if lat { rng.dyadic(4, 1) } else { rng.uniform(-4.0, 4.0) };
    let center: Vec<f64> = (0..d).map(|_| v(rng)).collect();
    let radius: Vec<f64> = (0..d).map(|_| v(rng).abs()).collect();
    let k = rng.usize_in(2, 4);
    let mut cs: Vec<Vec<f64>> = (0..k).map(|_| (0..d).map(|_| v(rng)).collect()).collect();
    if rng.chance(0.2) {
        cs[1] = cs[0].clone();
    }
    let (b, t) = (rng.below(k), rng.below(k));
    if let Ok(r) = guard(|| BBDTree::<f64>::verif_prune(&center, &radius, &cs, b, t)) {
        out.corr(
            "prune",
            format!("corr_prune {} {} {} {} {} {}", coq_list_f64(&center), coq_list_f64(&radius), coq_rows_f64(&cs), coq_n(b), coq_n(t), coq_bool(r)),
            json!({"entry": "prune", "center": center, "radius": radius, "centroids": cs, "best": b, "test": t}),
        );
    }
}

fn corr_fit_case(out: &mut Out, data: &[Vec<f64>], k: usize, max_iter: usize) {
    let input = json!({"entry": "fit", "data": data, "k": k, "max_iter": max_iter, "queries": [], "repeat": 200});
    match run_fit(data, k, max_iter) {
        Err(_) => {
            if k >= 2 && max_iter >= 1 && distinct_rows(data) >= k {
                // a panic on an admissible input is for the search to report; nothing to replay
                out.count("corr:fit-panicked");
            }
        }
        Ok(None) => {
            out.corr(
                "fit_replayed",
                format!("corr_fit {} {} {} nil (Some None)", coq_rows_f64(data), coq_n(k), coq_n(max_iter)),
                input,
            );
        }
        Ok(Some(f)) => {
            let seeding = match &f.seeding {
                Some(s) => s.clone(),
                None => {
                    out.count("corr:fit-no-seeding-record");
                    return;
                }
            };
            let finite = f.distortion.is_some() && f.centroids.iter().flatten().all(|v| v.is_some());
            if !finite {
                out.count("corr:fit-nonfinite-skipped");
                return;
            }
            let cents: Vec<Vec<f64>> = f.centroids.iter().map(|r| r.iter().map(|v| v.unwrap()).collect()).collect();
            // k-means++ from its recorded draws
            if let Some(first) = data.iter().position(|r| r.iter().zip(seeding.first.iter()).all(|(a, b)| a.to_bits() == b.to_bits())) {
                out.corr(
                    "kmeans_plus_plus_replayed",
                    format!(
                        "corr_kpp {} {} {} {} {} {}",
                        coq_rows_f64(data),
                        coq_n(k),
                        coq_n(first),
                        coq_list_f64(&seeding.cutoffs),
                        coq_list_n(&seeding.chosen),
                        coq_list_n(&seeding.y)
                    ),
                    input.clone(),
                );
            }
            let exp = format!(
                "(Some (Some ({}, {}, {}, {}, {})))",
                coq_n(f.k),
                coq_list_n(&f.y),
                coq_list_n(&f.size),
                coq_f64(f.distortion.unwrap()),
                coq_rows_f64(&cents)
            );
            out.corr(
                "fit_replayed",
                format!("corr_fit {} {} {} {} {}", coq_rows_f64(data), coq_n(k), coq_n(max_iter), coq_list_n(&seeding.y), exp),
                input.clone(),
            );
            // predict on the training rows with the implementation's centroids
            if let Ok(lab) = run_predict(&f.model, data) {
                let lab: Vec<usize> = lab.iter().map(|v| *v as usize).collect();
                out.corr(
                    "predict",
                    format!("corr_predict {} {} {} {}", coq_n(k), coq_rows_f64(&cents), coq_rows_f64(data), coq_list_n(&lab)),
                    input,
                );
            }
        }
    }
}

// ------------------------------------------------------------------------------------------
// ------------------------------------------------------------------------------------------
// api_trait_twin: `smartcore::api::{UnsupervisedEstimator::fit, Predictor::predict}` against the inherent
// methods.  The seeding of fit is drawn from an unseeded generator, so the two fitted models are NOT
// compared with each other: Ok/Err of the two fits must agree, and for each of the two models predict
// through the trait equals the inherent predict, bit for bit, on the training matrix and on the query rows.
// A model with GIVEN centroids (rebuilt through serde, deterministic) is compared the same way.
// ------------------------------------------------------------------------------------------
fn twin_fit(data: &[Vec<f64>], k: usize, max_iter: usize, queries: &[Vec<f64>]) -> Option<twin::Diff> {
    type DM = smartcore::linalg::naive::dense_matrix::DenseMatrix<f64>;
    if data.is_empty() || data[0].is_empty() || queries.is_empty() {
        return None;
    }
    let m = dense(data);
    let q = dense(queries);
    let p = KMeansParameters::default().with_k(k).with_max_iter(max_iter);
    let probes = [("the training matrix", &m), ("the query rows", &q)];
    let d = twin::check(
        "UnsupervisedEstimator",
        "Predictor",
        "predict",
        || twin::fit_unsup::<KMeans<f64>, _, _>(&m, p.clone()),
        || KMeans::<f64>::fit(&m, p.clone()),
        |e: &KMeans<f64>, z: &DM| twin::predict(e, z),
        |e: &KMeans<f64>, z: &DM| e.predict(z),
        &probes,
        |_e: &KMeans<f64>| String::new(),
        false,
    );
    VERIF_KMEANS_SEEDING.with(|r| r.borrow_mut().clear());
    d
}
fn twin_given_centroids(cents: &[Vec<f64>], x: &[Vec<f64>]) -> Option<twin::Diff> {
    type DM = smartcore::linalg::naive::dense_matrix::DenseMatrix<f64>;
    if cents.is_empty() || x.is_empty() || x[0].is_empty() {
        return None;
    }
    let xm = dense(x);
    let probes = [("the rows", &xm)];
    twin::check(
        "serde",
        "Predictor",
        "predict",
        || Ok(model_from_centroids(cents).expect("model from centroids")),
        || Ok(model_from_centroids(cents).expect("model from centroids")),
        |e: &KMeans<f64>, z: &DM| twin::predict(e, z),
        |e: &KMeans<f64>, z: &DM| e.predict(z),
        &probes,
        |e: &KMeans<f64>| serde_json::to_string(e).unwrap_or_default(),
        true,
    )
}
fn check_twin(out: &mut Out, data: &[Vec<f64>], k: usize, max_iter: usize, queries: &[Vec<f64>], fam: &str) {
    let mut key: Vec<f64> = data.iter().flatten().cloned().collect();
    key.extend(queries.iter().flatten());
    key.extend(&[k as f64, max_iter as f64, -7.0]);
    out.eval(hash_f64s(&key), k >= 2 && distinct_rows(data) >= 2);
    out.count(&format!("twin:fit:{}", fam));
    if let Some(d) = twin_fit(data, k, max_iter, queries) {
        // shrink (every candidate is tried a few times: the seeding differs from fit to fit)
        let fails = |dd: &[Vec<f64>], qq: &[Vec<f64>]| (0..3).any(|_| twin_fit(dd, k, max_iter, qq).is_some());
        let (mut cd, mut cq) = (data.to_vec(), queries.to_vec());
        let mut progress = true;
        let mut budget = 150;
        while progress && budget > 0 {
            progress = false;
            let mut i = 0;
            while cq.len() > 1 && i < cq.len() && budget > 0 {
                let mut t = cq.clone();
                t.remove(i);
                budget -= 1;
                if fails(&cd, &t) { cq = t; progress = true; } else { i += 1; }
            }
            let mut i = 0;
            while cd.len() > k.max(2) && i < cd.len() && budget > 0 {
                let mut t = cd.clone();
                t.remove(i);
                budget -= 1;
                if distinct_rows(&t) >= k && fails(&t, &cq) { cd = t; progress = true; } else { i += 1; }
            }
        }
        let d2 = (0..5).find_map(|_| twin_fit(&cd, k, max_iter, &cq)).unwrap_or(d);
        out.count(&format!("twin:failing:{}", "KMeans"));
        out.fail(
            twin::ORACLE,
            &format!("KMeans: {}: {}", d2.call, d2.what),
            json!({"entry": "twin", "oracle": twin::ORACLE, "estimator": "KMeans", "data": cd, "k": k, "max_iter": max_iter, "queries": cq, "repeat": 20, "differing_call": d2.call}),
        );
    }
}
fn check_twin_centroids(out: &mut Out, cents: &[Vec<f64>], x: &[Vec<f64>]) {
    let mut key: Vec<f64> = cents.iter().flatten().cloned().collect();
    key.extend(x.iter().flatten());
    key.push(-8.0);
    out.eval(hash_f64s(&key), cents.len() >= 2);
    out.count("twin:predict-with-given-centroids");
    if twin_given_centroids(cents, x).is_some() {
        let mut cx = x.to_vec();
        let mut i = 0;
        while cx.len() > 1 && i < cx.len() {
            let mut t = cx.clone();
            t.remove(i);
            if twin_given_centroids(cents, &t).is_some() { cx = t; } else { i += 1; }
        }
        if let Some(d) = twin_given_centroids(cents, &cx) {
            out.count(&format!("twin:failing:{}", "KMeans(given centroids)"));
            out.fail(
                twin::ORACLE,
                &format!("KMeans: {}: {}", d.call, d.what),
                json!({"entry": "twin", "oracle": twin::ORACLE, "estimator": "KMeans", "centroids": cents, "x": cx, "differing_call": d.call}),
            );
        }
    }
}

// ------------------------------------------------------------------------------------------
// predict-exact-near-tie: "Predicting assigns every row to a centroid at minimal Euclidean distance",
// decided with an EXACT oracle (i128, no tolerance) on inputs where the two nearest centroids of a query
// are at squared distances N and N + delta (delta = 1, 2, 3) with N in the top binade of the integers the
// float type counts exactly ([2^23, 2^24) for f32, [2^52, 2^53) for f64): there N and N + 1 are ADJACENT
// floats, so any monotone but non-injective post-processing of the squared distance (a square root, a
// narrowing conversion, a division) merges them, and an arg-min over the merged values keeps the
// lower-index centroid even when the higher-index one is strictly closer.
//
// Everything lives on an integer lattice scaled by a power of two 2^e (scaling by a power of two commutes
// with every operation involved).  The model is FITTED with k = number of distinct rows, so every
// centroid is a data row (k-means++ never picks a zero-mass row, Lloyd leaves singletons and groups of
// duplicates where they are); centroids and their order are read from the fitted model's serde form.
// Soundness of the verdict (no false alarm) does not rest on that expectation: per query the oracle is
// applied only if, for EVERY centroid of the fitted model, the squared distance is either
//   * exactly computable in the float type: integer lattice coordinates below the exact-integer limit L
//     (2^24 / 2^53), hence exact differences, and exact squared distance < L, hence every square and every
//     partial sum is an integer below L — the implementation's value IS the exact value; or
//   * far: exact squared distance >= 4 L.  Differences are still exact; four roundings of squares and
//     sums lose a relative 5 * 2^-24 at most, so the computed value stays above L, i.e. above every
//     exactly computed one: a far centroid can never win the comparison, nor tie.
// Queries that do not qualify are skipped and counted.
// ------------------------------------------------------------------------------------------
trait Width: smartcore::math::num::RealNumber + std::iter::Sum + serde::Serialize + serde::de::DeserializeOwned {
    const BITS: u32;
    /// exact-integer limit of the type: 2^24 / 2^53
    const LIMIT: i128;
    fn of(v: f64) -> Self;
    fn to64(self) -> f64;
    /// do the correctly rounded square roots of the two integers (both below LIMIT) coincide in this type?
    fn sqrt_merges(a: i128, b: i128) -> bool;
}
impl Width for f32 {
    const BITS: u32 = 32;
    const LIMIT: i128 = 1 << 24;
    fn of(v: f64) -> f32 {
        v as f32
    }
    fn to64(self) -> f64 {
        self as f64
    }
    fn sqrt_merges(a: i128, b: i128) -> bool {
        (a as f32).sqrt() == (b as f32).sqrt()
    }
}
impl Width for f64 {
    const BITS: u32 = 64;
    const LIMIT: i128 = 1 << 53;
    fn of(v: f64) -> f64 {
        v
    }
    fn to64(self) -> f64 {
        self
    }
    fn sqrt_merges(a: i128, b: i128) -> bool {
        (a as f64).sqrt() == (b as f64).sqrt()
    }
}

#[derive(Clone, Debug)]
struct NearTie {
    width: u32,
    /// the lattice is 2^scale_exp * Z^4
    scale_exp: i32,
    data: Vec<Vec<i64>>,
    k: usize,
    max_iter: usize,
    queries: Vec<Vec<i64>>,
}
impl NearTie {
    fn to_json(&self, as_fitted: Option<&[Vec<i128>]>) -> Value {
        let fitted: Value = match as_fitted {
            Some(c) => json!(c.iter().map(|r| r.iter().map(|v| *v as i64).collect::<Vec<i64>>()).collect::<Vec<_>>()),
            None => Value::Null,
        };
        json!({
            "entry": "predict-exact-near-tie",
            "width": self.width,
            "scale_exp": self.scale_exp,
            "data": self.data,
            "k": self.k,
            "max_iter": self.max_iter,
            "queries": self.queries,
            "centroids_as_fitted": fitted,
            "repeat": 64,
            "note": "all numbers are integer lattice coordinates, the float value is coordinate * 2^scale_exp in the given width (f32/f64); fit(data, k, max_iter) then predict(queries); centroids_as_fitted = centroid order of the failing fit (the seeding is drawn from an unseeded generator): the replay first evaluates a model with exactly these centroids, then up to `repeat` fresh fits",
        })
    }
    fn from_json(v: &Value) -> NearTie {
        let ints = |x: &Value| -> Vec<Vec<i64>> {
            x.as_array()
                .map(|a| a.iter().map(|r| r.as_array().map(|r| r.iter().map(|t| t.as_i64().unwrap_or(0)).collect()).unwrap_or_default()).collect())
                .unwrap_or_default()
        };
        NearTie {
            width: v["width"].as_u64().unwrap_or(64) as u32,
            scale_exp: v["scale_exp"].as_i64().unwrap_or(0) as i32,
            data: ints(&v["data"]),
            k: v["k"].as_u64().unwrap_or(2) as usize,
            max_iter: v["max_iter"].as_u64().unwrap_or(100) as usize,
            queries: ints(&v["queries"]),
        }
    }
    fn floats<T: Width>(&self, rows: &[Vec<i64>]) -> Vec<Vec<T>> {
        let s = (2.0f64).powi(self.scale_exp);
        // |coordinate| < 2^32 and s is a power of two: the f64 product is exact; the conversion to the width is
        // exact for every coordinate below the width's exact-integer limit (checked by the caller's guard)
        rows.iter().map(|r| r.iter().map(|v| T::of(*v as f64 * s)).collect()).collect()
    }
}

#[derive(Default, Debug)]
struct NearTieStats {
    queries_decided: usize,
    queries_skipped: usize,
    /// some decided query has a unique nearest centroid whose squared distance has the same square root (in
    /// the width) as that of a lower-label centroid: the geometry the family is built to reach
    sensitive: bool,
    centroids_are_rows: bool,
}
enum NearTieOutcome {
    Decided(NearTieStats),
    Skipped(&'static str),
    /// description, centroids (lattice units) in label order
    Bad(String, Vec<Vec<i128>>),
}

fn nt_sqd(a: &[i128], b: &[i128]) -> i128 {
    a.iter().zip(b.iter()).map(|(x, y)| (x - y) * (x - y)).sum()
}

/// the clause, evaluated exactly on one model
fn nt_check_model<T: Width>(c: &NearTie, model: &KMeans<T>) -> NearTieOutcome {
    let unit = (2.0f64).powi(-c.scale_exp);
    let v = match serde_json::to_value(model) {
        Ok(v) => v,
        Err(_) => return NearTieOutcome::Skipped("model-not-serialisable"),
    };
    let rows = match v["centroids"].as_array() {
        Some(r) => r,
        None => return NearTieOutcome::Skipped("model-shape"),
    };
    if v["k"].as_u64() != Some(c.k as u64) || rows.len() != c.k {
        return NearTieOutcome::Skipped("model-shape");
    }
    let dim = c.data[0].len();
    let mut cents: Vec<Vec<i128>> = vec![];
    for r in rows {
        let r = match r.as_array() {
            Some(r) if r.len() == dim => r,
            _ => return NearTieOutcome::Skipped("model-shape"),
        };
        let mut row = vec![];
        for x in r {
            // a non-finite number serialises as null
            let u = match x.as_f64() {
                Some(f) => f * unit,
                None => return NearTieOutcome::Skipped("centroid-not-on-lattice"),
            };
            if !(u.is_finite() && u.fract() == 0.0 && u.abs() < T::LIMIT as f64) {
                return NearTieOutcome::Skipped("centroid-not-on-lattice");
            }
            row.push(u as i128);
        }
        cents.push(row);
    }
    let mut stats = NearTieStats::default();
    {
        let mut a: Vec<Vec<i128>> = cents.clone();
        let mut b: Vec<Vec<i128>> = c.data.iter().map(|r| r.iter().map(|v| *v as i128).collect()).collect();
        a.sort();
        b.sort();
        b.dedup();
        stats.centroids_are_rows = a == b;
    }
    let q = DenseMatrixOf::<T>::from_2d_vec(&c.floats::<T>(&c.queries));
    let lab: Vec<f64> = match guard(|| model.predict(&q).map(|v| v.iter().map(|l| l.to64()).collect::<Vec<f64>>())) {
        Err(e) => return NearTieOutcome::Bad(format!("predict panicked: {}", e), cents),
        Ok(Err(e)) => return NearTieOutcome::Bad(format!("predict returned Err: {}", e), cents),
        Ok(Ok(l)) => l,
    };
    if lab.len() != c.queries.len() {
        return NearTieOutcome::Bad(format!("{} predictions for {} rows", lab.len(), c.queries.len()), cents);
    }
    let lim = T::LIMIT;
    for (qi, qrow) in c.queries.iter().enumerate() {
        let qv: Vec<i128> = qrow.iter().map(|v| *v as i128).collect();
        let ds: Vec<i128> = cents.iter().map(|ce| nt_sqd(&qv, ce)).collect();
        let representable = qv.iter().all(|v| v.abs() < lim) && cents.iter().all(|ce| ce.iter().zip(qv.iter()).all(|(x, y)| (x - y).abs() < lim));
        if !representable || ds.iter().any(|d| *d >= lim && *d < 4 * lim) {
            stats.queries_skipped += 1;
            continue;
        }
        stats.queries_decided += 1;
        let l = lab[qi];
        let li = l as usize;
        if !(l >= 0.0) || li as f64 != l || li >= c.k {
            return NearTieOutcome::Bad(format!("f{}: prediction {} for row {:?} is not a cluster index", T::BITS, l, qrow), cents);
        }
        let dmin = *ds.iter().min().unwrap();
        let jmin = ds.iter().position(|d| *d == dmin).unwrap();
        if ds[li] != dmin {
            return NearTieOutcome::Bad(
                format!(
                    "f{}: row {:?} is assigned to centroid {} = {:?} at squared distance {}, but centroid {} = {:?} is strictly closer, at squared distance {} (exact integers in lattice units 2^{}; both are exactly representable in f{}, as is every intermediate value of the computation); squared distances to all centroids: {:?}",
                    T::BITS, qrow, li, cents[li], ds[li], jmin, cents[jmin], dmin, c.scale_exp, T::BITS, ds
                ),
                cents,
            );
        }
        if ds.iter().filter(|d| **d == dmin).count() == 1 && (0..jmin).any(|j| ds[j] < lim && T::sqrt_merges(ds[j], dmin)) {
            stats.sensitive = true;
        }
    }
    NearTieOutcome::Decided(stats)
}
type DenseMatrixOf<T> = smartcore::linalg::naive::dense_matrix::DenseMatrix<T>;

/// fit (unseeded k-means++: the label order is whatever this fit drew) and evaluate the clause on the fitted model
fn nt_fit_and_check<T: Width>(c: &NearTie) -> NearTieOutcome {
    let x = DenseMatrixOf::<T>::from_2d_vec(&c.floats::<T>(&c.data));
    let r = guard(|| KMeans::<T>::fit(&x, KMeansParameters::default().with_k(c.k).with_max_iter(c.max_iter)));
    VERIF_KMEANS_SEEDING.with(|r| r.borrow_mut().clear());
    match r {
        // panics / errors of fit are the business of the fit families
        Err(_) => NearTieOutcome::Skipped("fit-panicked"),
        Ok(Err(_)) => NearTieOutcome::Skipped("fit-returned-err"),
        Ok(Ok(model)) => nt_check_model::<T>(c, &model),
    }
}
/// the clause on a model with GIVEN centroids in the given label order (rebuilt through serde; deterministic)
fn nt_check_given<T: Width>(c: &NearTie, cents: &[Vec<i64>]) -> NearTieOutcome {
    let cf: Vec<Vec<f64>> = c.floats::<T>(cents).iter().map(|r| r.iter().map(|v| v.to64()).collect()).collect();
    let k = cents.len();
    match serde_json::from_value::<KMeans<T>>(json!({"k": k, "_y": [], "size": vec![0usize; k], "_distortion": 0.0, "centroids": cf})) {
        Ok(m) => nt_check_model::<T>(&NearTie { k, ..c.clone() }, &m),
        Err(_) => NearTieOutcome::Skipped("model-not-deserialisable"),
    }
}

fn nt_isqrt(n: u64) -> u64 {
    let mut r = (n as f64).sqrt() as u64;
    while r * r > n {
        r -= 1;
    }
    while (r + 1) * (r + 1) <= n {
        r += 1;
    }
    r
}
/// r = x^2 + y^2 by exhaustive search over x (random starting point, so that different representations are found)
fn nt_two_squares(rng: &mut Rng, r: u64) -> Option<(u64, u64)> {
    let top = nt_isqrt(r);
    let start = rng.next_u64() % (top + 1);
    for i in 0..=top {
        let x = (start + i) % (top + 1);
        let rest = r - x * x;
        let y = nt_isqrt(rest);
        if y * y == rest {
            return Some((x, y));
        }
    }
    None
}
/// n = sum of four squares (Lagrange): two coordinates are chosen, the rest is searched as a sum of two squares;
/// `tight`: the second coordinate is taken next to its maximum, which keeps the remainder below 2^30 for n < 2^53
fn nt_four_squares(rng: &mut Rng, n: u64, tight: bool) -> Option<[u64; 4]> {
    // n = 0 mod 8 forces all four coordinates to be even (squares are 0, 1, 4 mod 8): divide out
    if n > 0 && n % 8 == 0 {
        return nt_four_squares(rng, n / 4, tight).map(|w| [2 * w[0], 2 * w[1], 2 * w[2], 2 * w[3]]);
    }
    for attempt in 0..200 {
        let top = nt_isqrt(n);
        let x1 = match rng.below(4) {
            0 => top - (rng.next_u64() % 4).min(top),
            _ => rng.next_u64() % (top + 1),
        };
        let r1 = n - x1 * x1;
        let top2 = nt_isqrt(r1);
        let x2 = if tight || attempt >= 100 { top2 - (rng.next_u64() % 4).min(top2) } else { rng.next_u64() % (top2 + 1) };
        let r2 = r1 - x2 * x2;
        if r2 >= 1 << 30 {
            continue;
        }
        if let Some((x3, x4)) = nt_two_squares(rng, r2) {
            return Some([x1, x2, x3, x4]);
        }
    }
    None
}
fn nt_signed_perm(rng: &mut Rng, v: [u64; 4]) -> Vec<i64> {
    let mut w: Vec<i64> = v.iter().map(|x| if rng.bool() { *x as i64 } else { -(*x as i64) }).collect();
    rng.shuffle(&mut w);
    w
}
fn nt_four_squares_signed(rng: &mut Rng, n: u64, tight: bool) -> Option<Vec<i64>> {
    let w = nt_four_squares(rng, n, tight)?;
    Some(nt_signed_perm(rng, w))
}
/// a random integer 4-vector whose squared length lies in [lo, hi)
fn nt_random_vector(rng: &mut Rng, lo: u64, hi: u64) -> Option<Vec<i64>> {
    for _ in 0..50 {
        let target = lo as f64 + (hi - lo) as f64 * rng.unit();
        let mut g: Vec<f64> = (0..4).map(|_| rng.normal()).collect();
        // now and then a vector in a coordinate plane / along an axis
        if rng.chance(0.25) {
            for _ in 0..rng.usize_in(1, 3) {
                let j = rng.below(4);
                g[j] = 0.0;
            }
        }
        let len2: f64 = g.iter().map(|x| x * x).sum();
        if len2 < 1e-6 {
            continue;
        }
        let s = (target / len2).sqrt();
        let v: Vec<i64> = g.iter().map(|x| (x * s).round() as i64).collect();
        let n: u64 = v.iter().map(|x| (x * x) as u64).sum();
        if n >= lo && n < hi {
            return Some(v);
        }
    }
    None
}

/// One case: query q, centroids a = q + u (|u|^2 = N) and b = q + v (|v|^2 = N + delta), the mirrored query
/// q' = q + u + v (squared distances N + delta to a and N to b: whichever of a, b gets the higher label, one of
/// the two queries has its strictly nearer centroid there), optionally a third centroid at N + delta + delta',
/// and 0..4 far centroids (one coordinate 2^15.. / 2^30.. away, squared distance >= 2^30 / 2^60 from both queries).
fn gen_near_tie(rng: &mut Rng, width: u32) -> Option<(NearTie, u64, u64)> {
    let (bits, big, small): (u32, i64, i64) = if width == 32 { (24, 1 << 15, 1 << 12) } else { (53, 1 << 30, 1 << 26) };
    let (lo, hi) = (1u64 << (bits - 1), 1u64 << bits);
    let tight = width == 64;
    let delta: u64 = match rng.below(10) {
        0..=6 => 1,
        7..=8 => 2,
        _ => 3,
    };
    let (u, v, n) = match rng.below(3) {
        0 => {
            let u = nt_random_vector(rng, lo, hi - 8)?;
            let n: u64 = u.iter().map(|x| (x * x) as u64).sum();
            let v = nt_four_squares_signed(rng, n + delta, tight)?;
            (u, v, n)
        }
        1 => {
            let v = nt_random_vector(rng, lo + 8, hi - 4)?;
            let n: u64 = v.iter().map(|x| (x * x) as u64).sum::<u64>() - delta;
            let u = nt_four_squares_signed(rng, n, tight)?;
            (u, v, n)
        }
        _ => {
            let n = match rng.below(8) {
                0 => lo + rng.next_u64() % 64,
                1 => hi - 8 - rng.next_u64() % 64,
                _ => lo + rng.next_u64() % (hi - lo - 8),
            };
            let u = nt_four_squares_signed(rng, n, tight)?;
            let v = nt_four_squares_signed(rng, n + delta, tight)?;
            (u, v, n)
        }
    };
    let origin: Vec<i64> = if rng.bool() { vec![0; 4] } else { (0..4).map(|_| if width == 32 { rng.int(-1000, 1000) } else { rng.int(-(1 << 20), 1 << 20) }).collect() };
    let at = |w: &[i64]| -> Vec<i64> { (0..4).map(|j| origin[j] + w[j]).collect() };
    let mut rows: Vec<Vec<i64>> = vec![at(&u), at(&v)];
    if rng.chance(0.3) {
        let d2 = 1 + rng.next_u64() % 3;
        if n + delta + d2 < hi {
            if let Some(w) = nt_four_squares_signed(rng, n + delta + d2, tight) {
                rows.push(at(&w));
            }
        }
    }
    for _ in 0..rng.below(5) {
        let mut w: Vec<i64> = (0..4).map(|_| rng.int(-small, small)).collect();
        let j = rng.below(4);
        w[j] = (big + rng.int(0, big - 1)) * if rng.bool() { 1 } else { -1 };
        rows.push(at(&w));
    }
    rows.sort();
    rows.dedup();
    let k = rows.len();
    // duplicates of rows (their mean is the row itself), random row order
    for _ in 0..rng.below(3) {
        let r = rows[rng.below(rows.len())].clone();
        rows.push(r);
    }
    rng.shuffle(&mut rows);
    let uv: Vec<i64> = (0..4).map(|j| u[j] + v[j]).collect();
    let mut queries = vec![origin.clone(), at(&uv)];
    if rng.bool() {
        queries.swap(0, 1);
    }
    let scale_exp = if rng.bool() { 0 } else if width == 32 { rng.int(-10, 4) as i32 } else { rng.int(-26, 10) as i32 };
    let max_iter = *rng.pick(&[1usize, 2, 10, 100]);
    Some((NearTie { width, scale_exp, data: rows, k, max_iter, queries }, n, delta))
}

fn check_near_tie<T: Width>(out: &mut Out, rng: &mut Rng) -> bool {
    let tag = format!("search:predict-exact-near-tie:f{}", T::BITS);
    let (c, _n, delta) = match gen_near_tie(rng, T::BITS) {
        Some(x) => x,
        None => {
            out.count(&format!("{}:no-decomposition-found(case dropped)", tag));
            return false;
        }
    };
    let mut key: Vec<i64> = c.data.iter().flatten().cloned().collect();
    key.extend(c.queries.iter().flatten());
    key.extend(&[c.width as i64, c.scale_exp as i64, c.k as i64, c.max_iter as i64]);
    out.eval(hash_of(&key), true);
    out.count(&tag);
    out.count(&format!("{}:delta={}", tag, delta));
    out.count(&format!("{}:k={}", tag, c.k));
    match nt_fit_and_check::<T>(&c) {
        NearTieOutcome::Decided(s) => {
            if s.queries_decided > 0 {
                out.count(&format!("{}:decided-exactly(i128, zero tolerance)", tag));
            }
            if s.queries_skipped > 0 {
                out.count(&format!("{}:query-skipped(a squared distance neither exactly computable nor far)", tag));
            }
            if s.sensitive {
                out.count(&format!("{}:nearer-centroid-has-higher-label-and-equal-sqrt", tag));
            }
            if !s.centroids_are_rows {
                out.count(&format!("{}:centroids-differ-from-the-distinct-rows", tag));
            }
            false
        }
        NearTieOutcome::Skipped(why) => {
            out.count(&format!("{}:skipped({})", tag, why));
            false
        }
        NearTieOutcome::Bad(what, fitted) => {
            out.fail("predict_min_distance_exact", &what, c.to_json(Some(&fitted)));
            true
        }
    }
}

fn replay_near_tie<T: Width>(inp: &Value) -> Option<(String, String)> {
    let c = NearTie::from_json(inp);
    if c.data.is_empty() || c.data[0].is_empty() || c.queries.is_empty() {
        return None;
    }
    let bad = |o: NearTieOutcome| match o {
        NearTieOutcome::Bad(what, _) => Some(("predict_min_distance_exact".to_string(), what)),
        _ => None,
    };
    if inp["centroids_as_fitted"].is_array() {
        let cents = NearTie::from_json(&json!({"data": inp["centroids_as_fitted"]})).data;
        if let Some(b) = bad(nt_check_given::<T>(&c, &cents)) {
            return Some(b);
        }
    }
    (0..inp["repeat"].as_u64().unwrap_or(64)).find_map(|_| bad(nt_fit_and_check::<T>(&c)))
}

fn replay(path: &str) -> i32 {
    let v = read_replay(path);
    let inp = if v.get("input").is_some() { v["input"].clone() } else { v.clone() };
    let bad: Option<(String, String)> = match inp["entry"].as_str().unwrap_or("") {
        "predict-exact-near-tie" => {
            if inp["width"].as_u64() == Some(32) {
                replay_near_tie::<f32>(&inp)
            } else {
                replay_near_tie::<f64>(&inp)
            }
        }
        "assign" => {
            let data = rows_from_json(&inp["data"]);
            let cs = rows_from_json(&inp["centroids"]);
            assignment_violation(&data, &cs, inp["exact"].as_bool().unwrap_or(false), None)
        }
        "tree" => {
            let data = rows_from_json(&inp["data"]);
            let cs: Vec<Vec<f64>> = data.iter().take(3).cloned().collect();
            assignment_violation(&data, &cs, false, None)
        }
        "fit" => {
            let data = rows_from_json(&inp["data"]);
            let k = inp["k"].as_u64().unwrap_or(2) as usize;
            let mi = inp["max_iter"].as_u64().unwrap_or(100) as usize;
            let q = rows_from_json(&inp["queries"]);
            let reps = inp["repeat"].as_u64().unwrap_or(200) as usize;
            let mut r = None;
            if k < 2 || mi == 0 {
                if !matches!(run_fit(&data, k, mi), Ok(None)) {
                    r = Some(("fit_parameter_validation".to_string(), "fit accepted k < 2 or max_iter = 0".to_string()));
                }
            } else {
                for _ in 0..reps {
                    r = fit_violation(&data, k, mi, &q);
                    if r.is_some() {
                        break;
                    }
                }
            }
            r
        }
        "prune" => None,
        "twin" => {
            let d = if inp.get("centroids").is_some() {
                twin_given_centroids(&rows_from_json(&inp["centroids"]), &rows_from_json(&inp["x"]))
            } else {
                let data = rows_from_json(&inp["data"]);
                let q = rows_from_json(&inp["queries"]);
                let k = inp["k"].as_u64().unwrap_or(2) as usize;
                let mi = inp["max_iter"].as_u64().unwrap_or(100) as usize;
                (0..inp["repeat"].as_u64().unwrap_or(20)).find_map(|_| twin_fit(&data, k, mi, &q))
            };
            d.map(|d| (twin::ORACLE.to_string(), format!("{}: {}", d.call, d.what)))
        }
        "predict" => {
            let cs = rows_from_json(&inp["centroids"]);
            let x = rows_from_json(&inp["x"]);
            predict_violation(&cs, &x)
        }
        // tree construction only, in THIS process: an unbounded recursion aborts it (exit by signal)
        "build_probe" => {
            let data = rows_from_json(&inp["data"]);
            let f32m = inp["f32"].as_bool().unwrap_or(false);
            let r = if f32m {
                let m = dense32(&data);
                guard(|| {
                    BBDTree::new(&m);
                })
            } else {
                let m = dense(&data);
                guard(|| {
                    BBDTree::new(&m);
                })
            };
            match r {
                Ok(_) => None,
                Err(e) => Some(("build_panic".to_string(), format!("BBDTree::new panicked: {}", e))),
            }
        }
        _ => {
            eprintln!("unknown replay entry");
            return 2;
        }
    };
    match bad {
        Some((clause, what)) => {
            println!("REPLAY: property=C12 still fails ({}): {}: {}", clause, what, path);
            1
        }
        None => {
            println!("REPLAY: property=C12 passes: {}", path);
            0
        }
    }
}

fn pick_family(rng: &mut Rng) -> Fam {
    match rng.below(3) {
        0 => Fam::Continuous,
        1 => Fam::Lattice,
        _ => Fam::Clustered,
    }
}

/// data with at least k distinct rows (the property's precondition)
fn gen_fit_data(rng: &mut Rng, fam: Fam, n: usize, d: usize, k: usize) -> Option<Vec<Vec<f64>>> {
    for _ in 0..20 {
        let data = gen_data(rng, fam, n, d);
        if distinct_rows(&data) >= k {
            return Some(data);
        }
    }
    None
}

fn main() {
    quiet_panics();
    let a = args();
    if let Some(p) = &a.replay {
        std::process::exit(replay(p));
    }
    let mut rng = Rng::new(a.seed);
    let mut out = Out::new(
        "C12",
        "search case = (data set, centroid set) for the assignment step, (data set, k, max_iter, one draw of the unseeded seeding) for fit/predict; non-trivial: k >= 2 and >= 2 distinct rows; distinct by hash of (data, centroids) resp. (data, k, max_iter) — repeated fits of one data set count once. api-trait twin case = (data, k, max_iter, query rows) fitted through smartcore::api::UnsupervisedEstimator and through the inherent fit, or a model with given centroids: Predictor::predict must equal the inherent predict bit for bit on the same model. predict-exact-near-tie case = (float width, lattice data with k = number of distinct rows, max_iter, two query rows, one draw of the unseeded seeding), always non-trivial, distinct by hash of all of it",
    );

    // ---- corpus: the unit-test inputs and hand-made tie geometries ----
    let iris: Vec<Vec<f64>> = vec![
        vec![5.1, 3.5, 1.4, 0.2], vec![4.9, 3.0, 1.4, 0.2], vec![4.7, 3.2, 1.3, 0.2], vec![4.6, 3.1, 1.5, 0.2],
        vec![5.0, 3.6, 1.4, 0.2], vec![5.4, 3.9, 1.7, 0.4], vec![4.6, 3.4, 1.4, 0.3], vec![5.0, 3.4, 1.5, 0.2],
        vec![4.4, 2.9, 1.4, 0.2], vec![4.9, 3.1, 1.5, 0.1], vec![7.0, 3.2, 4.7, 1.4], vec![6.4, 3.2, 4.5, 1.5],
        vec![6.9, 3.1, 4.9, 1.5], vec![5.5, 2.3, 4.0, 1.3], vec![6.5, 2.8, 4.6, 1.5], vec![5.7, 2.8, 4.5, 1.3],
        vec![6.3, 3.3, 4.7, 1.6], vec![4.9, 2.4, 3.3, 1.0], vec![6.6, 2.9, 4.6, 1.3], vec![5.2, 2.7, 3.9, 1.4],
    ];
    check_assignment(&mut out, &iris, &[vec![4.86, 3.22, 1.61, 0.29], vec![6.23, 2.92, 4.48, 1.42]], false, "corpus", "iris");
    check_fit(&mut out, &iris, 2, 100, &[], "corpus", 5);
    // 1-D lattice, centroids exactly equidistant from rows; coincident centroids; a far centroid
    let line: Vec<Vec<f64>> = (0..9).map(|i| vec![i as f64]).collect();
    check_assignment(&mut out, &line, &[vec![2.0], vec![6.0]], true, "corpus", "tie");
    check_assignment(&mut out, &line, &[vec![4.0], vec![4.0], vec![4.0]], true, "corpus", "coincident");
    check_assignment(&mut out, &line, &[vec![3.0], vec![1.0e6], vec![-1.0e6]], true, "corpus", "far");
    let grid: Vec<Vec<f64>> = (0..16).map(|i| vec![(i % 4) as f64, (i / 4) as f64]).collect();
    check_assignment(&mut out, &grid, &[vec![0.5, 0.5], vec![2.5, 0.5], vec![0.5, 2.5], vec![2.5, 2.5], vec![1.5, 1.5]], true, "corpus", "tie");
    // duplicates only: leaf sum = 3*x is rounded, so the returned distortion is ~1e-35 rather than 0 (oracle tolerance)
    let dup = vec![vec![0.03772103298384219, 0.04267627805640927, 0.011702933137788214]; 3];
    check_assignment(&mut out, &dup, &[dup[0].clone()], false, "corpus", "duplicates");
    corr_tree_and_assign(&mut out, &mut rng, &iris, Fam::Continuous, 2);
    corr_tree_and_assign(&mut out, &mut rng, &grid, Fam::Lattice, 3);
    corr_fit_case(&mut out, &iris, 2, 100);

    // ---- correspondence ----
    let (n_prune, n_tree, n_fit) = if a.thorough { (300, 150, 200) } else { (80, 48, 80) };
    for _ in 0..n_prune {
        corr_prune_case(&mut out, &mut rng);
    }
    for i in 0..n_tree {
        let fam = pick_family(&mut rng);
        let n = if i % 6 == 0 { rng.usize_in(1, 3) } else { rng.usize_in(2, if a.thorough { 48 } else { 32 }) };
        let d = rng.usize_in(1, 4);
        let data = gen_data(&mut rng, fam, n, d);
        corr_tree_and_assign(&mut out, &mut rng, &data, fam, 3);
    }
    for i in 0..n_fit {
        let fam = pick_family(&mut rng);
        let k = rng.usize_in(2, 5);
        let n = rng.usize_in(k.max(2), if a.thorough { 40 } else { 28 });
        let d = rng.usize_in(1, 4);
        let max_iter = *rng.pick(&[1usize, 2, 3, 5, 10, 30, 100]);
        if let Some(data) = gen_fit_data(&mut rng, fam, n, d, k) {
            corr_fit_case(&mut out, &data, k, max_iter);
            if i % 10 == 0 {
                // parameter validation
                corr_fit_case(&mut out, &data, rng.below(2), max_iter);
                corr_fit_case(&mut out, &data, k, 0);
            }
        }
    }

    // ---- correspondence on data with a large common offset (tree, assignment step, fit, predict) ----
    let (n_otree, n_ofit, n_opred) = if a.thorough { (40, 60, 80) } else { (12, 20, 30) };
    for _ in 0..n_otree {
        let d = rng.usize_in(1, 3);
        let fr = OffsetFrame::new(&mut rng, d);
        let n = rng.usize_in(2, 24);
        let data = fr.rows(&mut rng, n, 0);
        out.count(&format!("corr:offset:{}", fr.bucket()));
        // lattice-valued: box bounds, centre and radius are exact, so the dump must be well-formed with slack 0
        corr_tree_and_assign_ex(&mut out, &mut rng, &data, 0.0, Fam::Clustered, 2);
    }
    for _ in 0..n_ofit {
        let k = rng.usize_in(2, 4);
        let n = rng.usize_in(k.max(3), 24);
        let d = rng.usize_in(1, 3);
        let max_iter = *rng.pick(&[1usize, 2, 5, 30, 100]);
        if let Some((fr, data)) = gen_offset_fit_data(&mut rng, n, d, k) {
            out.count(&format!("corr:offset:{}", fr.bucket()));
            corr_fit_case(&mut out, &data, k, max_iter);
        }
    }
    for _ in 0..n_opred {
        let d = rng.usize_in(1, 3);
        let fr = OffsetFrame::new(&mut rng, d);
        let n = rng.usize_in(2, 16);
        let data = fr.rows(&mut rng, n, 0);
        let k = rng.usize_in(2, 5);
        let (cs, _, _) = gen_centroids(&mut rng, &data, Fam::Clustered, k);
        let mut x = data.clone();
        x.extend(fr.rows(&mut rng, 4, 3));
        out.count(&format!("corr:offset:{}", fr.bucket()));
        corr_predict_case(&mut out, &cs, &x);
    }

    // ---- search: assignment step against exhaustive search ----
    let n_assign = if a.thorough { 60000 } else { 12000 };
    for i in 0..n_assign {
        let fam = pick_family(&mut rng);
        let n = match rng.below(10) {
            0..=3 => rng.usize_in(2, 12),
            4..=6 => rng.usize_in(10, 60),
            7..=8 => rng.usize_in(40, 150),
            _ => rng.usize_in(150, 300),
        };
        let d = rng.usize_in(1, 6);
        let data = gen_data(&mut rng, fam, n, d);
        if fam != Fam::Lattice && min_separation(&data) <= 4e-10 {
            out.count("search:assign:excluded(rows closer than 4e-10)");
            continue;
        }
        let reps = if n > 100 { 4 } else { 2 };
        for _ in 0..reps {
            let k = rng.usize_in(2, 8);
            let (cs, cname, exact) = gen_centroids(&mut rng, &data, fam, k);
            check_assignment(&mut out, &data, &cs, exact, fam.name(), cname);
            if i < 3 && out.n_fail() == 0 {
                out.sample(json!({"data_rows": n, "dim": d, "family": fam.name(), "centroids": cs}));
            }
        }
    }
    // exhaustive small scope: all 1-D lattice data sets {0..3}^n, n <= 4, against centroid pairs on the half-lattice
    {
        let vals = [0.0, 1.0, 2.0, 3.0];
        let cvals = [-1.0, 0.0, 0.5, 1.0, 1.5, 2.0, 2.5, 3.0, 7.0];
        for n in 2..=(if a.thorough { 5 } else { 4 }) {
            let total = 4usize.pow(n as u32);
            for code in 0..total {
                let data: Vec<Vec<f64>> = (0..n).map(|i| vec![vals[(code / 4usize.pow(i as u32)) % 4]]).collect();
                for a1 in 0..cvals.len() {
                    for a2 in a1..cvals.len() {
                        let cs = vec![vec![cvals[a1]], vec![cvals[a2]]];
                        let mut key: Vec<f64> = data.iter().flatten().cloned().collect();
                        key.push(cvals[a1]);
                        key.push(cvals[a2]);
                        out.eval(hash_f64s(&key), distinct_rows(&data) >= 2);
                        if let Some((clause, what)) = assignment_violation(&data, &cs, true, None) {
                            out.fail(&clause, &what, json!({"entry": "assign", "data": data, "centroids": cs, "exact": true}));
                        }
                    }
                }
            }
        }
        out.count("search:assign:exhaustive-1d-lattice");
    }

    // ---- search: fit bookkeeping and predict ----
    let n_fitsearch = if a.thorough { 10000 } else { 2000 };
    for _ in 0..n_fitsearch {
        let fam = pick_family(&mut rng);
        let k = rng.usize_in(2, 8);
        let n = match rng.below(10) {
            0..=3 => rng.usize_in(k, 15),
            4..=7 => rng.usize_in(k.max(10), 80),
            _ => rng.usize_in(80, 300),
        };
        let d = rng.usize_in(1, 6);
        let max_iter = match rng.below(4) {
            0 => 1,
            1 => rng.usize_in(2, 5),
            2 => rng.usize_in(6, 30),
            _ => rng.usize_in(31, 100),
        };
        let data = match gen_fit_data(&mut rng, fam, n, d, k) {
            Some(x) => x,
            None => {
                out.count("search:fit:excluded(fewer than k distinct rows)");
                continue;
            }
        };
        if fam != Fam::Lattice && min_separation(&data) <= 4e-10 {
            out.count("search:fit:excluded(rows closer than 4e-10)");
            continue;
        }
        let nq = rng.usize_in(0, 10);
        let mut queries = gen_data(&mut rng, fam, nq.max(1), d);
        queries.truncate(nq);
        let reps = if n <= 15 { 4 } else { 2 };
        check_fit(&mut out, &data, k, max_iter, &queries, fam.name(), reps);
    }
    // ---- api-trait twins (own stream derived from the seed: the streams of the other sections are unchanged) ----
    {
        let mut trng = Rng::new(a.seed ^ 0x7717_0c12);
        for i in 0..(if a.thorough { 500 } else { 60 }) {
            let fam = pick_family(&mut trng);
            let k = trng.usize_in(2, 6);
            let n = trng.usize_in(k.max(4), 40);
            let d = trng.usize_in(1, 4);
            let max_iter = *trng.pick(&[1usize, 2, 5, 30, 100]);
            let data = match gen_fit_data(&mut trng, fam, n, d, k) {
                Some(x) => x,
                None => continue,
            };
            if fam != Fam::Lattice && min_separation(&data) <= 4e-10 {
                continue;
            }
            let queries = gen_data(&mut trng, fam, 4, d);
            check_twin(&mut out, &data, k, max_iter, &queries, fam.name());
            if i % 2 == 0 {
                let (cs, _, _) = gen_centroids(&mut trng, &data, fam, k);
                check_twin_centroids(&mut out, &cs, &queries);
            }
            if i % 20 == 0 {
                // parameter validation through both entry points
                check_twin(&mut out, &data, trng.below(2), max_iter, &queries, "k<2");
                check_twin(&mut out, &data, k, 0, &queries, "max_iter=0");
            }
        }
    }
    // ---- search: data with a large common offset relative to its spread (offset/spread 1e3 .. 1e9) ----
    // (a) predict for arbitrary centroid sets, (b) the assignment step, (c) whole fits + predict.
    // regression input: three bursts of events 20 s apart, time-stamped in Unix seconds, plus a small feature
    {
        let t0 = 1_700_000_000.0f64;
        let mut rows: Vec<Vec<f64>> = vec![];
        for (burst, base) in [0.0f64, 20.0, 40.0].iter().enumerate() {
            for s in 0..6 {
                rows.push(vec![t0 + base + s as f64, (burst as f64) * 2.0 + (s % 2) as f64]);
            }
        }
        let cs: Vec<Vec<f64>> = (0..3).map(|b| vec![t0 + 20.0 * b as f64 + 2.5, 2.0 * b as f64 + 0.5]).collect();
        check_predict(&mut out, &cs, &rows, "corpus", "timestamps");
        check_assignment(&mut out, &rows, &cs, false, "corpus", "timestamps");
        check_fit(&mut out, &rows, 3, 100, &[], "corpus", 5);
        let line: Vec<Vec<f64>> = (0..12).map(|i| vec![2.0e9 + (i / 4) as f64 * 16.0 + (i % 4) as f64]).collect();
        check_predict(&mut out, &[vec![2.0e9 + 1.5], vec![2.0e9 + 17.5], vec![2.0e9 + 33.5]], &line, "corpus", "offset-1d");
        check_fit(&mut out, &line, 3, 100, &[], "corpus", 5);
    }
    let (n_opredict, n_oassign, n_ofitsearch) = if a.thorough { (20000, 8000, 3000) } else { (4000, 1500, 500) };
    for _ in 0..n_opredict {
        let d = rng.usize_in(1, 6);
        let fr = OffsetFrame::new(&mut rng, d);
        let n = rng.usize_in(2, 40);
        let data = fr.rows(&mut rng, n, 0);
        let k = rng.usize_in(2, 8);
        let (cs, cname, _) = gen_centroids(&mut rng, &data, Fam::Clustered, k);
        let mut x = data.clone();
        let nq = rng.usize_in(0, 10);
        x.extend(fr.rows(&mut rng, nq, 4));
        out.count(&format!("search:predict:{}", fr.bucket()));
        check_predict(&mut out, &cs, &x, "offset", cname);
    }
    // predict on ordinary data with arbitrary centroid sets as well (coincident / far centroids)
    for _ in 0..(n_opredict / 4) {
        let fam = pick_family(&mut rng);
        let d = rng.usize_in(1, 6);
        let n = rng.usize_in(2, 40);
        let data = gen_data(&mut rng, fam, n, d);
        let k = rng.usize_in(2, 8);
        let (cs, cname, _) = gen_centroids(&mut rng, &data, fam, k);
        check_predict(&mut out, &cs, &data, fam.name(), cname);
    }
    for _ in 0..n_oassign {
        let d = rng.usize_in(1, 6);
        let fr = OffsetFrame::new(&mut rng, d);
        let n = match rng.below(10) {
            0..=4 => rng.usize_in(2, 12),
            5..=8 => rng.usize_in(10, 80),
            _ => rng.usize_in(80, 300),
        };
        let data = fr.rows(&mut rng, n, 0);
        let k = rng.usize_in(2, 8);
        let (cs, cname, _) = gen_centroids(&mut rng, &data, Fam::Clustered, k);
        out.count(&format!("search:assign:{}", fr.bucket()));
        check_assignment(&mut out, &data, &cs, false, "offset", cname);
    }
    for _ in 0..n_ofitsearch {
        let k = rng.usize_in(2, 8);
        let n = match rng.below(10) {
            0..=3 => rng.usize_in(k, 15),
            4..=8 => rng.usize_in(k.max(10), 80),
            _ => rng.usize_in(80, 300),
        };
        let d = rng.usize_in(1, 6);
        let max_iter = match rng.below(3) {
            0 => 1,
            1 => rng.usize_in(2, 10),
            _ => rng.usize_in(11, 100),
        };
        let (fr, data) = match gen_offset_fit_data(&mut rng, n, d, k) {
            Some(x) => x,
            None => {
                out.count("search:fit:excluded(fewer than k distinct rows)");
                continue;
            }
        };
        let nq = rng.usize_in(0, 10);
        let queries = fr.rows(&mut rng, nq, 4);
        out.count(&format!("search:fit:{}", fr.bucket()));
        check_fit(&mut out, &data, k, max_iter, &queries, "offset", if n <= 15 { 4 } else { 2 });
    }
    // parameter validation (the unit test's clause)
    for (k, mi) in [(0usize, 10usize), (1, 10), (2, 0)] {
        out.eval(hash_of(&(k, mi)), false);
        if !matches!(run_fit(&iris, k, mi), Ok(None)) {
            out.fail("fit_parameter_validation", "fit accepted k < 2 or max_iter = 0", json!({"entry": "fit", "data": iris, "k": k, "max_iter": mi, "queries": [], "repeat": 1}));
        }
    }
    // ---- known findings (KNOWN_FINDINGS.txt), one small dedicated family each ----
    // bbd-adjacent-float-split: only the variant that panics at the root (begin = 0); the variant with the
    // degenerate node deeper in the tree recurses without bound and aborts the process, so it is never run here.
    for (bi, b) in [1.0e8f64, 1048576.0, 4.0e6, 3.0e9].iter().enumerate() {
        for d in 1..=2usize {
            let nb = f64::from_bits(b.to_bits() + 1);
            let mut r0 = vec![*b];
            let mut r1 = vec![nb];
            if d == 2 {
                r0.push(bi as f64);
                r1.push(bi as f64);
            }
            let data = vec![r0, r1];
            out.count("search:known-family:adjacent-float-split");
            out.eval(hash_f64s(&data.iter().flatten().cloned().collect::<Vec<f64>>()), true);
            let input = json!({"entry": "fit", "data": data, "k": 2, "max_iter": 10, "queries": [], "repeat": 3});
            match fit_violation(&data, 2, 10, &[]) {
                None => {}
                Some((clause, what)) => {
                    if clause == "fit_panic" && has_adjacent_floats(&data) {
                        out.known("bbd-adjacent-float-split", &format!("{} on data {:?}", what, data));
                        // the model fails on the same input (out of fuel / index underflow)
                        out.corr("build_node", format!("corr_build_fails {}", coq_rows_f64(&data)), json!({"entry": "tree", "data": data}));
                    } else {
                        out.fail(&clause, &what, input);
                    }
                }
            }
        }
    }
    // bbd-leaf-threshold-absolute: ordinary data scaled by 1e-12 (all rows within 1e-10 of each other);
    // ONLY the centroid-is-mean clause is suppressed.
    for _ in 0..(if a.thorough { 40 } else { 8 }) {
        let fam = pick_family(&mut rng);
        let k = rng.usize_in(2, 4);
        let n = rng.usize_in(k.max(3), 20);
        let d = rng.usize_in(1, 3);
        let base = match gen_fit_data(&mut rng, fam, n, d, k) {
            Some(x) => x,
            None => continue,
        };
        let m = max_abs(&base).max(1.0);
        let data: Vec<Vec<f64>> = base.iter().map(|r| r.iter().map(|v| v / m * 1e-12).collect()).collect();
        if distinct_rows(&data) < k {
            continue;
        }
        out.count("search:known-family:leaf-threshold");
        out.eval(hash_f64s(&data.iter().flatten().cloned().collect::<Vec<f64>>()), true);
        let input = json!({"entry": "fit", "data": data, "k": k, "max_iter": 10, "queries": [], "repeat": 20});
        match fit_violation(&data, k, 10, &[]) {
            None => {}
            Some((clause, what)) => {
                if clause == "centroid_is_mean" && has_rows_within_leaf_threshold(&data) {
                    out.known("bbd-leaf-threshold-absolute", &format!("{} (rows within 1e-10 of each other are merged into one leaf)", what));
                } else {
                    out.fail(&clause, &what, input);
                }
            }
        }
    }
    // ---- search: predict-exact-near-tie, f32 and f64, exact oracle (own stream derived from the seed: the
    // streams of the other sections, hence their corpus and replays, are unchanged) ----
    {
        let mut nrng = Rng::new(a.seed ^ 0x12f1_7e4a_c12d);
        let per_width = if a.thorough { 4000 } else { 400 };
        let (mut bad32, mut bad64) = (0, 0);
        for _ in 0..per_width {
            // a handful of failing inputs per width is enough for the report
            if bad32 < 3 && check_near_tie::<f32>(&mut out, &mut nrng) {
                bad32 += 1;
            }
            if bad64 < 3 && check_near_tie::<f64>(&mut out, &mut nrng) {
                bad64 += 1;
            }
        }
    }
    out.finish(&a.out);
}
