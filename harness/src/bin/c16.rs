//! C16 — data splitting never leaks: correspondence cases for the Coq model (SC.C16.Corr) and the
//! failing-input search (oracles written from the property text: partition / balance / blocks /
//! complement for KFold, permutation / attachment / size / leading rows for train_test_split,
//! per-fold fit / predict / scatter for cross_validate and cross_val_predict observed through an
//! instrumented estimator that records the rows it is fitted on and echoes row identifiers).
//!
//! The shuffled variants draw from an unseeded thread RNG.  Nothing here depends on the draw: the
//! oracles are statements about *every* permutation, and for the correspondence the permutation is
//! recovered from the implementation's own output (concatenated test folds / row identifiers).
use serde_json::{json, Value};
use smartcore::api::Predictor;
use smartcore::error::Failed;
use smartcore::linalg::naive::dense_matrix::DenseMatrix;
use smartcore::linalg::BaseMatrix;
use smartcore::model_selection::{cross_val_predict, cross_validate, train_test_split, BaseKFold, KFold};
use std::cell::RefCell;
use std::rc::Rc;
use vharness::*;

type Fold = (Vec<usize>, Vec<usize>);

// ------------------------------------------------------------------------------------------
// literals
// ------------------------------------------------------------------------------------------
fn nl(xs: &[usize]) -> String {
    if xs.is_empty() {
        "nil".into()
    } else {
        format!("([{}])%N", xs.iter().map(|x| x.to_string()).collect::<Vec<_>>().join(";"))
    }
}
fn zl(xs: &[i64]) -> String {
    if xs.is_empty() {
        "nil".into()
    } else {
        format!("([{}])%Z", xs.iter().map(|x| if *x < 0 { format!("({})", x) } else { x.to_string() }).collect::<Vec<_>>().join(";"))
    }
}
fn zrows(rows: &[Vec<i64>]) -> String {
    coq_list(rows.iter().map(|r| zl(r)))
}
fn folds_lit(f: &[Fold]) -> String {
    coq_list(f.iter().map(|(tr, te)| format!("({}, {})", nl(tr), nl(te))))
}
fn to_i(v: &[f64]) -> Vec<i64> {
    v.iter().map(|x| *x as i64).collect()
}
fn rows_i(m: &DenseMatrix<f64>) -> Vec<Vec<i64>> {
    let (n, p) = m.shape();
    (0..n).map(|r| (0..p).map(|c| m.get(r, c) as i64).collect()).collect()
}
fn rows_f(m: &DenseMatrix<f64>) -> Vec<Vec<f64>> {
    let (n, p) = m.shape();
    (0..n).map(|r| (0..p).map(|c| m.get(r, c)).collect()).collect()
}

// ------------------------------------------------------------------------------------------
// data: row i = [i, c1_i], target y_i ; all small integers, exact in f64
// ------------------------------------------------------------------------------------------
#[derive(Clone)]
struct Data {
    x: Vec<Vec<f64>>,
    y: Vec<f64>,
}
fn gen_data(rng: &mut Rng, n: usize) -> Data {
    Data {
        x: (0..n).map(|i| vec![i as f64, rng.below(100) as f64]).collect(),
        y: (0..n).map(|_| rng.below(100) as f64).collect(),
    }
}
fn data_json(d: &Data) -> Value {
    json!({"x": d.x, "y": d.y})
}
fn data_from_json(v: &Value) -> Data {
    Data { x: rows_from_json(&v["x"]), y: f64s_from_json(&v["y"]) }
}
fn xi(d: &Data) -> Vec<Vec<i64>> {
    d.x.iter().map(|r| to_i(r)).collect()
}

// ------------------------------------------------------------------------------------------
// the instrumented estimator (same functions as est_fit / est_predict / est_score of Corr.v)
// ------------------------------------------------------------------------------------------
#[derive(Default)]
struct Log {
    fits: Vec<(Vec<Vec<f64>>, Vec<f64>)>,
    predicts: Vec<(usize, Vec<Vec<f64>>, Vec<f64>)>, // (model number, rows, returned predictions)
    scores: Vec<(Vec<f64>, Vec<f64>, f64)>,
}
#[derive(Clone)]
struct Params {
    log: Rc<RefCell<Log>>,
    poison_fit: i64,
    poison_pred: i64,
    poison_short: i64,
}
struct Est {
    h: i64,
    no: usize,
    p: Params,
}
fn train_hash(rows: &[Vec<f64>], ys: &[f64]) -> i64 {
    rows.iter().zip(ys.iter()).enumerate().map(|(j, (r, y))| (j as i64 + 1) * (3 * r[0] as i64 + 5 * *y as i64 + 7 * r[1] as i64 + 1)).sum()
}
fn echo(h: i64, row: &[f64]) -> i64 {
    h * 131 + 7 * row[0] as i64 + row[1] as i64
}
fn score_fn(yt: &[f64], yp: &[f64]) -> i64 {
    yt.iter().zip(yp.iter()).enumerate().map(|(j, (a, b))| (j as i64 + 1) * (3 * *a as i64 + *b as i64)).sum()
}
fn est_fit(x: &DenseMatrix<f64>, y: &Vec<f64>, p: Params) -> Result<Est, Failed> {
    let rows = rows_f(x);
    let no = {
        let mut l = p.log.borrow_mut();
        l.fits.push((rows.clone(), y.clone()));
        l.fits.len() - 1
    };
    if rows.iter().any(|r| r[0] as i64 == p.poison_fit) {
        return Err(Failed::fit("poisoned training row"));
    }
    Ok(Est { h: train_hash(&rows, y), no, p })
}
impl Predictor<DenseMatrix<f64>, Vec<f64>> for Est {
    fn predict(&self, x: &DenseMatrix<f64>) -> Result<Vec<f64>, Failed> {
        let rows = rows_f(x);
        if rows.iter().any(|r| r[0] as i64 == self.p.poison_pred) {
            self.p.log.borrow_mut().predicts.push((self.no, rows, vec![]));
            return Err(Failed::predict("poisoned row"));
        }
        let mut out: Vec<f64> = rows.iter().map(|r| echo(self.h, r) as f64).collect();
        if rows.iter().any(|r| r[0] as i64 == self.p.poison_short) {
            out.pop();
        }
        self.p.log.borrow_mut().predicts.push((self.no, rows, out.clone()));
        Ok(out)
    }
}
fn new_params(poison: (i64, i64, i64)) -> Params {
    Params { log: Rc::new(RefCell::new(Log::default())), poison_fit: poison.0, poison_pred: poison.1, poison_short: poison.2 }
}

// ------------------------------------------------------------------------------------------
// oracle: the k-fold clause of the property, on a list of (train, test) index pairs
// ------------------------------------------------------------------------------------------
fn oracle_folds(n: usize, k: usize, shuffle: bool, folds: &[Fold]) -> Result<(), String> {
    if folds.len() != k {
        return Err(format!("{} (train, test) pairs instead of k = {}", folds.len(), k));
    }
    let mut seen = vec![0usize; n];
    for (j, (tr, te)) in folds.iter().enumerate() {
        for &i in te.iter().chain(tr.iter()) {
            if i >= n {
                return Err(format!("fold {}: index {} out of range", j, i));
            }
        }
        let mut in_te = vec![false; n];
        for &i in te {
            if in_te[i] {
                return Err(format!("fold {}: test index {} twice", j, i));
            }
            in_te[i] = true;
            seen[i] += 1;
        }
        let mut in_tr = vec![false; n];
        for &i in tr {
            if in_tr[i] {
                return Err(format!("fold {}: train index {} twice", j, i));
            }
            in_tr[i] = true;
        }
        for i in 0..n {
            if in_tr[i] == in_te[i] {
                return Err(format!("fold {}: train set is not the complement of the test set at index {} (in train: {}, in test: {})", j, i, in_tr[i], in_te[i]));
            }
        }
    }
    if let Some(i) = (0..n).find(|&i| seen[i] != 1) {
        return Err(format!("index {} is in {} test sets: the test sets do not partition 0..n-1", i, seen[i]));
    }
    let lens: Vec<usize> = folds.iter().map(|f| f.1.len()).collect();
    let (mn, mx) = (*lens.iter().min().unwrap(), *lens.iter().max().unwrap());
    if mx - mn > 1 {
        return Err(format!("test set sizes {:?} differ by more than one", lens));
    }
    if !shuffle {
        let mut start = 0;
        for (j, (_, te)) in folds.iter().enumerate() {
            let block: Vec<usize> = (start..start + te.len()).collect();
            if *te != block {
                return Err(format!("unshuffled fold {}: test set {:?} is not the consecutive block {:?}", j, te, block));
            }
            start += te.len();
        }
    }
    Ok(())
}

fn run_split(n: usize, k: usize, shuffle: bool) -> Result<Vec<Fold>, String> {
    guard(|| {
        let x: DenseMatrix<f64> = DenseMatrix::zeros(n, 1);
        let kf = KFold { n_splits: k, shuffle };
        let n_splits = kf.n_splits();
        let folds: Vec<Fold> = kf.split(&x).collect();
        assert!(n_splits == k, "n_splits() = {} for k = {}", n_splits, k);
        folds
    })
}

/// search case for KFold::split; `draws` repetitions when shuffled
fn check_split(out: &mut Out, n: usize, k: usize, shuffle: bool, draws: usize, family: &str) {
    let input = json!({"entry": "split", "n": n, "k": k, "shuffle": shuffle, "draws": draws});
    out.eval(hash_of(&(1u8, n, k, shuffle)), n % k != 0);
    out.count(&format!("search:split:{}:{}", family, if shuffle { "shuffled" } else { "plain" }));
    let mut all: Vec<Vec<Fold>> = vec![];
    for _ in 0..draws {
        match run_split(n, k, shuffle) {
            Err(msg) => {
                out.fail("kfold_partition", &format!("panic: {}", msg), input.clone());
                return;
            }
            Ok(folds) => {
                if let Err(what) = oracle_folds(n, k, shuffle, &folds) {
                    let mut w = input.clone();
                    w["got"] = json!(folds);
                    out.fail(if what.contains("consecutive block") { "kfold_blocks_unshuffled" } else { "kfold_partition" }, &what, w);
                    return;
                }
                all.push(folds);
            }
        }
    }
    // "with shuffling on the same holds for a random permutation": the draws are not all the same
    // and not all the unshuffled blocks (false-alarm probability <= C(10,5)^-5 ~ 1e-12)
    if shuffle && n >= 10 && draws >= 6 {
        let blocks_only = all.iter().all(|f| oracle_folds(n, k, false, f).is_ok());
        let all_same = all.iter().all(|f| *f == all[0]);
        if blocks_only || all_same {
            out.fail("kfold_shuffle", "shuffle = true never rearranged the indices over repeated draws", input.clone());
        }
    }
}

// ------------------------------------------------------------------------------------------
// train_test_split
// ------------------------------------------------------------------------------------------
type Tts = (Vec<Vec<f64>>, Vec<Vec<f64>>, Vec<f64>, Vec<f64>);
fn run_tts(d: &Data, ts: f32, shuffle: bool) -> Result<Tts, String> {
    guard(|| {
        let x = dense(&d.x);
        let (a, b, c, e) = train_test_split(&x, &d.y, ts, shuffle);
        (rows_f(&a), rows_f(&b), c, e)
    })
}
/// ((n as f32) * ts) as usize without a single-precision multiplication: the product of two
/// binary32 values is exact in binary64, and rounding it once to binary32 is the f32 product.
fn n_test_spec(n: usize, ts: f32) -> usize {
    let exact = (n as f32) as f64 * ts as f64;
    (exact as f32).trunc() as usize
}
fn oracle_tts(d: &Data, ts: f32, shuffle: bool, r: &Tts) -> Result<(), String> {
    let n = d.y.len();
    let (xtr, xte, ytr, yte) = r;
    if xtr.len() != ytr.len() || xte.len() != yte.len() {
        return Err("x and y parts have different lengths".into());
    }
    if xtr.len() + xte.len() != n {
        return Err(format!("train {} + test {} rows != n = {}", xtr.len(), xte.len(), n));
    }
    let want = n_test_spec(n, ts);
    if xte.len() != want {
        return Err(format!("test part has {} rows, the integer part of n*test_size in single precision is {}", xte.len(), want));
    }
    let mut seen = vec![0usize; n];
    for (rows, ys, part) in [(xtr, ytr, "train"), (xte, yte, "test")] {
        for (row, yv) in rows.iter().zip(ys.iter()) {
            let id = row[0];
            if !(id >= 0.0 && id < n as f64 && id.fract() == 0.0) {
                return Err(format!("{} part holds a row that is not an input row: {:?}", part, row));
            }
            let id = id as usize;
            if *row != d.x[id] {
                return Err(format!("{} part: row {} was altered: {:?} vs {:?}", part, id, row, d.x[id]));
            }
            if *yv != d.y[id] {
                return Err(format!("{} part: target of row {} is {} instead of its own {}", part, id, yv, d.y[id]));
            }
            seen[id] += 1;
        }
    }
    if let Some(i) = (0..n).find(|&i| seen[i] != 1) {
        return Err(format!("input row {} occurs {} times in train+test (not disjoint / not a permutation)", i, seen[i]));
    }
    if !shuffle {
        for (i, row) in xte.iter().enumerate() {
            if row[0] as usize != i {
                return Err(format!("unshuffled: test row {} is input row {}, not the leading rows in order", i, row[0]));
            }
        }
    }
    Ok(())
}
fn check_tts(out: &mut Out, d: &Data, ts: f32, shuffle: bool, draws: usize, family: &str) {
    let n = d.y.len();
    let input = json!({"entry": "tts", "data": data_json(d), "ts_bits": ts.to_bits(), "test_size": ts, "shuffle": shuffle, "draws": draws});
    let nt = n_test_spec(n, ts);
    out.eval(hash_of(&(2u8, n, ts.to_bits(), shuffle)), nt >= 1 && nt < n);
    out.count(&format!("search:tts:{}:{}", family, if shuffle { "shuffled" } else { "plain" }));
    let mut firsts: Vec<Vec<usize>> = vec![];
    for _ in 0..draws {
        match run_tts(d, ts, shuffle) {
            Err(msg) => {
                out.fail("tts_permutation", &format!("panic on test_size in (0,1] with n_test >= 1: {}", msg), input.clone());
                return;
            }
            Ok(r) => {
                if let Err(what) = oracle_tts(d, ts, shuffle, &r) {
                    let mut w = input.clone();
                    w["got"] = json!({"x_train": r.0, "x_test": r.1, "y_train": r.2, "y_test": r.3});
                    let oracle = if what.contains("integer part") { "tts_size" } else { "tts_permutation" };
                    out.fail(oracle, &what, w);
                    return;
                }
                firsts.push(r.1.iter().chain(r.0.iter()).map(|row| row[0] as usize).collect());
            }
        }
    }
    if shuffle && n >= 10 && draws >= 6 {
        let ident: Vec<usize> = (0..n).collect();
        if firsts.iter().all(|f| *f == ident) || firsts.iter().all(|f| *f == firsts[0]) {
            out.fail("tts_shuffle", "shuffle = true never rearranged the rows over repeated draws", input.clone());
        }
    }
}

// ------------------------------------------------------------------------------------------
// cross_validate / cross_val_predict with the instrumented estimator
// ------------------------------------------------------------------------------------------
struct CvRun {
    result: Result<Option<(Vec<f64>, Vec<f64>)>, String>, // cross_validate: (test_score, train_score)
    log: Log,
}
struct CvpRun {
    result: Result<Option<Vec<f64>>, String>,
    log: Log,
}
fn run_cv(d: &Data, k: usize, shuffle: bool, poison: (i64, i64, i64)) -> CvRun {
    let p = new_params(poison);
    let log = p.log.clone();
    let slog = p.log.clone();
    let result = guard(|| {
        let x = dense(&d.x);
        let score = |a: &Vec<f64>, b: &Vec<f64>| {
            let s = score_fn(a, b) as f64;
            slog.borrow_mut().scores.push((a.clone(), b.clone(), s));
            s
        };
        cross_validate(est_fit, &x, &d.y, p.clone(), KFold { n_splits: k, shuffle }, score).ok().map(|r| (r.test_score, r.train_score))
    });
    let l = std::mem::take(&mut *log.borrow_mut());
    CvRun { result, log: l }
}
fn run_cvp(d: &Data, k: usize, shuffle: bool, poison: (i64, i64, i64)) -> CvpRun {
    let p = new_params(poison);
    let log = p.log.clone();
    let result = guard(|| {
        let x = dense(&d.x);
        cross_val_predict(est_fit, &x, &d.y, p.clone(), KFold { n_splits: k, shuffle }).ok()
    });
    let l = std::mem::take(&mut *log.borrow_mut());
    CvpRun { result, log: l }
}

/// ids of a recorded row set, after checking that every row is an unaltered input row
fn ids_of(d: &Data, rows: &[Vec<f64>]) -> Result<Vec<usize>, String> {
    let n = d.y.len();
    let mut ids = vec![];
    for row in rows {
        let id = row[0];
        if !(id >= 0.0 && id < n as f64 && id.fract() == 0.0) || *row != d.x[id as usize] {
            return Err(format!("the estimator was handed a row that is not an input row: {:?}", row));
        }
        ids.push(id as usize);
    }
    Ok(ids)
}

/// Per-fold view of the log: model j was fitted on `train`, predicted the held-out rows `test`
/// (the predict call of model j on rows it has not seen), with the predictions it returned.
struct FoldView {
    train: Vec<usize>,
    test: Vec<usize>,
    test_preds: Vec<f64>,
    h: i64,
}
fn fold_views(d: &Data, k: usize, log: &Log) -> Result<Vec<FoldView>, String> {
    if log.fits.len() != k {
        return Err(format!("{} models were fitted instead of one per fold (k = {})", log.fits.len(), k));
    }
    let mut views = vec![];
    for (j, (rows, ys)) in log.fits.iter().enumerate() {
        let train = ids_of(d, rows)?;
        if ys.len() != train.len() {
            return Err(format!("fold {}: {} training rows with {} targets", j, train.len(), ys.len()));
        }
        for (i, id) in train.iter().enumerate() {
            if ys[i] != d.y[*id] {
                return Err(format!("fold {}: training row {} came with target {} instead of its own {}", j, id, ys[i], d.y[*id]));
            }
        }
        let mut held: Vec<(Vec<usize>, Vec<f64>)> = vec![];
        for (no, prows, preds) in log.predicts.iter() {
            if *no != j {
                continue;
            }
            let ids = ids_of(d, prows)?;
            let seen_any = ids.iter().any(|i| train.contains(i));
            let seen_all = ids.iter().all(|i| train.contains(i));
            if seen_any && !seen_all {
                return Err(format!("fold {}: leak: the model fitted on rows {:?} was asked to predict a batch mixing rows it has seen with unseen ones: {:?}", j, train, ids));
            }
            if !seen_any {
                held.push((ids, preds.clone()));
            }
        }
        if held.len() != 1 {
            return Err(format!("fold {}: the model fitted on rows {:?} was asked {} times to predict rows it has not seen (expected exactly once, for its held-out fold)", j, train, held.len()));
        }
        let (test, test_preds) = held.pop().unwrap();
        views.push(FoldView { train: train.clone(), test, test_preds, h: train_hash(rows, ys) });
    }
    Ok(views)
}
fn sorted(v: &[usize]) -> Vec<usize> {
    let mut s = v.to_vec();
    s.sort();
    s
}

fn oracle_cvp(d: &Data, k: usize, shuffle: bool, run: &CvpRun) -> Result<(), String> {
    let n = d.y.len();
    let y_hat = match &run.result {
        Err(m) => return Err(format!("panic: {}", m)),
        Ok(None) => return Err("Err(..) although fit and predict never fail".into()),
        Ok(Some(v)) => v,
    };
    let views = fold_views(d, k, &run.log)?;
    let folds: Vec<Fold> = views.iter().map(|v| (sorted(&v.train), sorted(&v.test))).collect();
    oracle_folds(n, k, shuffle, &folds).map_err(|e| format!("rows seen by the estimator: {}", e))?;
    if y_hat.len() != n {
        return Err(format!("{} predictions for {} samples", y_hat.len(), n));
    }
    for v in &views {
        for &i in &v.test {
            if v.train.contains(&i) {
                return Err(format!("sample {} is predicted by a model that was fitted on it", i));
            }
            let want = echo(v.h, &d.x[i]) as f64;
            if y_hat[i] != want {
                return Err(format!("prediction at position {} is {} but the out-of-fold model's prediction for sample {} is {}", i, y_hat[i], i, want));
            }
        }
    }
    Ok(())
}
fn oracle_cv(d: &Data, k: usize, shuffle: bool, run: &CvRun) -> Result<(), String> {
    let n = d.y.len();
    let (test_score, train_score) = match &run.result {
        Err(m) => return Err(format!("panic: {}", m)),
        Ok(None) => return Err("Err(..) although fit and predict never fail".into()),
        Ok(Some(v)) => v,
    };
    let views = fold_views(d, k, &run.log)?;
    let folds: Vec<Fold> = views.iter().map(|v| (sorted(&v.train), sorted(&v.test))).collect();
    oracle_folds(n, k, shuffle, &folds).map_err(|e| format!("rows seen by the estimator: {}", e))?;
    if test_score.len() != k || train_score.len() != k {
        return Err(format!("{} test scores / {} train scores for k = {}", test_score.len(), train_score.len(), k));
    }
    for (j, v) in views.iter().enumerate() {
        let yt: Vec<f64> = v.test.iter().map(|&i| d.y[i]).collect();
        let yp: Vec<f64> = v.test.iter().map(|&i| echo(v.h, &d.x[i]) as f64).collect();
        if v.test_preds != yp {
            return Err(format!("fold {}: estimator log inconsistent", j));
        }
        let want = score_fn(&yt, &yp) as f64;
        if test_score[j] != want {
            return Err(format!("test score of fold {} is {} but scoring the held-out rows {:?} against the fold's model gives {}", j, test_score[j], v.test, want));
        }
        let ytr: Vec<f64> = v.train.iter().map(|&i| d.y[i]).collect();
        let ptr: Vec<f64> = v.train.iter().map(|&i| echo(v.h, &d.x[i]) as f64).collect();
        let want_tr = score_fn(&ytr, &ptr) as f64;
        if train_score[j] != want_tr {
            return Err(format!("train score of fold {} is {} but scoring the training rows against the fold's model gives {}", j, train_score[j], want_tr));
        }
    }
    Ok(())
}
const NOPOISON: (i64, i64, i64) = (-1, -1, -1);
fn check_cv(out: &mut Out, d: &Data, k: usize, shuffle: bool, predict_mode: bool, draws: usize, family: &str) {
    let n = d.y.len();
    let entry = if predict_mode { "cvp" } else { "cv" };
    let input = json!({"entry": entry, "data": data_json(d), "k": k, "shuffle": shuffle, "draws": draws});
    let mut kd: Vec<f64> = d.x.iter().flatten().cloned().collect();
    kd.extend(d.y.iter());
    kd.extend([k as f64, shuffle as u8 as f64, predict_mode as u8 as f64]);
    out.eval(hash_f64s(&kd), n % k != 0);
    out.count(&format!("search:{}:{}:{}", entry, family, if shuffle { "shuffled" } else { "plain" }));
    for _ in 0..draws {
        let res = if predict_mode { oracle_cvp(d, k, shuffle, &run_cvp(d, k, shuffle, NOPOISON)) } else { oracle_cv(d, k, shuffle, &run_cv(d, k, shuffle, NOPOISON)) };
        if let Err(what) = res {
            let oracle = if predict_mode {
                if what.contains("position") { "cv_predict_positions" } else { "cv_no_leakage" }
            } else {
                "cv_scores_out_of_fold"
            };
            out.fail(oracle, &what, input.clone());
            return;
        }
    }
}

// ------------------------------------------------------------------------------------------
// correspondence cases
// ------------------------------------------------------------------------------------------
fn corr_split(out: &mut Out, n: usize, k: usize, shuffle: bool) {
    let input = json!({"entry": "split", "n": n, "k": k, "shuffle": shuffle, "draws": 1});
    let res = run_split(n, k, shuffle).ok();
    let indices: Vec<usize> = match (&res, shuffle) {
        (Some(f), true) => f.iter().flat_map(|p| p.1.iter().cloned()).collect(),
        _ => (0..n).collect(),
    };
    let exp = coq_option(res.as_ref().map(|f| folds_lit(f)));
    out.corr(if shuffle { "split_shuffled" } else { "split" }, format!("corr_split {} {} {} {}", coq_n(n), coq_n(k), nl(&indices), exp), input);
}
fn corr_hooks(out: &mut Out, n: usize, k: usize, shuffle: bool) {
    let input = json!({"entry": "split", "n": n, "k": k, "shuffle": shuffle, "draws": 1});
    let x: DenseMatrix<f64> = DenseMatrix::zeros(n, 1);
    let kf = KFold { n_splits: k, shuffle };
    if let Ok(ti) = guard(|| kf.verif_test_indices(&x)) {
        let indices: Vec<usize> = ti.iter().flatten().cloned().collect();
        out.corr(
            "test_indices",
            format!("corr_test_indices {} {} {} {} && is_perm_b {} {}", coq_n(n), coq_n(k), nl(&indices), coq_list(ti.iter().map(|f| nl(f))), coq_n(n), nl(&indices)),
            input.clone(),
        );
    }
    if let Ok(tm) = guard(|| kf.verif_test_masks(&x)) {
        let indices: Vec<usize> = tm.iter().flat_map(|m| (0..m.len()).filter(move |&i| m[i])).collect();
        out.corr(
            "test_masks",
            format!(
                "corr_test_masks {} {} {} {}",
                coq_n(n),
                coq_n(k),
                nl(&indices),
                coq_list(tm.iter().map(|m| coq_list(m.iter().map(|b| coq_bool(*b)))))
            ),
            input,
        );
    }
}
fn corr_tts(out: &mut Out, d: &Data, y_len: usize, ts: f32, shuffle: bool) {
    // y_len != n exercises the length-mismatch panic
    let mut d2 = d.clone();
    d2.y.resize(y_len, 0.0);
    let input = json!({"entry": "tts", "data": data_json(&d2), "ts_bits": ts.to_bits(), "shuffle": shuffle, "draws": 1});
    let res = run_tts(&d2, ts, shuffle).ok();
    let n = d2.y.len();
    let indices: Vec<usize> = match &res {
        Some(r) => r.1.iter().chain(r.0.iter()).map(|row| row[0] as usize).collect(),
        None => (0..n).collect(),
    };
    let exp = coq_option(res.as_ref().map(|r| {
        let xtr: Vec<Vec<i64>> = r.0.iter().map(|v| to_i(v)).collect();
        let xte: Vec<Vec<i64>> = r.1.iter().map(|v| to_i(v)).collect();
        format!("({}, {}, {}, {})", zrows(&xtr), zrows(&xte), zl(&to_i(&r.2)), zl(&to_i(&r.3)))
    }));
    out.corr(
        if shuffle { "tts_shuffled" } else { "tts" },
        format!("corr_tts {} {} {} {} {}", zrows(&xi(&d2)), zl(&to_i(&d2.y)), coq_z(ts.to_bits() as i64), nl(&indices), exp),
        input,
    );
}
fn corr_n_test(out: &mut Out, n: usize, ts: f32) {
    // the size arithmetic alone, for n beyond what a matrix in a correspondence term can hold
    let ok = !(ts <= 0.0 || ts > 1.0);
    let nt = ((n as f32) * ts) as usize;
    out.corr(
        "tts_size_f32",
        format!("corr_n_test {} {} {} {}", coq_n(n), coq_z(ts.to_bits() as i64), coq_bool(ok), coq_n(nt)),
        json!({"entry": "n_test", "n": n, "ts_bits": ts.to_bits()}),
    );
}
fn held_out_order(d: &Data, k: usize, log: &Log) -> Option<Vec<usize>> {
    fold_views(d, k, log).ok().map(|v| v.iter().flat_map(|f| f.test.iter().cloned()).collect())
}
fn corr_cv(out: &mut Out, d: &Data, k: usize, shuffle: bool, predict_mode: bool, poison: (i64, i64, i64)) {
    let n = d.x.len();
    let entry = if predict_mode { "cvp" } else { "cv" };
    let input = json!({"entry": entry, "data": data_json(d), "k": k, "shuffle": shuffle, "poison": [poison.0, poison.1, poison.2], "draws": 1});
    let ident: Vec<usize> = (0..n).collect();
    let head = format!("{} {} {}", coq_z(poison.0), coq_z(poison.1), coq_z(poison.2));
    if predict_mode {
        let run = run_cvp(d, k, shuffle, poison);
        let res = run.result.ok().flatten();
        let indices = if shuffle && res.is_some() {
            match held_out_order(d, k, &run.log) {
                Some(v) => v,
                None => ident, // log not interpretable: the term will disagree, which is the point
            }
        } else {
            ident
        };
        let exp = coq_option(res.map(|v| zl(&to_i(&v))));
        out.corr(
            if shuffle { "cross_val_predict_shuffled" } else { "cross_val_predict" },
            format!("corr_cross_val_predict {} {} {} {} {} {}", head, coq_n(k), nl(&indices), zrows(&xi(d)), zl(&to_i(&d.y)), exp),
            input,
        );
    } else {
        let run = run_cv(d, k, shuffle, poison);
        let res = run.result.ok().flatten();
        let indices = if shuffle && res.is_some() {
            match held_out_order(d, k, &run.log) {
                Some(v) => v,
                None => ident,
            }
        } else {
            ident
        };
        let exp = coq_option(res.map(|(te, tr)| format!("({}, {})", zl(&to_i(&te)), zl(&to_i(&tr)))));
        out.corr(
            if shuffle { "cross_validate_shuffled" } else { "cross_validate" },
            format!("corr_cross_validate {} {} {} {} {} {}", head, coq_n(k), nl(&indices), zrows(&xi(d)), zl(&to_i(&d.y)), exp),
            input,
        );
    }
}

// ------------------------------------------------------------------------------------------
// test_size generator: uniform, j/n boundaries (where single-precision rounding decides), extremes
// ------------------------------------------------------------------------------------------
fn gen_ts(rng: &mut Rng, n: usize) -> f32 {
    loop {
        let ts: f32 = match rng.below(8) {
            0 => 1.0,
            1 => rng.usize_in(1, n) as f32 / n as f32,
            2 => (rng.usize_in(1, n) as f64 / n as f64) as f32,
            3 => {
                // one ulp below / above a boundary j/n
                let b = (rng.usize_in(1, n) as f64 / n as f64) as f32;
                f32::from_bits((b.to_bits() as i64 + rng.int(-2, 2)) as u32)
            }
            4 => *rng.pick(&[0.1f32, 0.2, 0.25, 0.3, 0.33, 0.5, 0.7, 0.75, 0.9, 0.99]),
            _ => rng.unit() as f32,
        };
        if ts > 0.0 && ts <= 1.0 && n_test_spec(n, ts) >= 1 {
            return ts;
        }
    }
}

// ------------------------------------------------------------------------------------------
fn replay(path: &str) -> i32 {
    let v = read_replay(path);
    let inp = if v.get("input").is_some() { v["input"].clone() } else { v.clone() };
    let mut out = Out::new("C16", "replay");
    let shuffle = inp["shuffle"].as_bool().unwrap_or(false);
    let draws = (inp["draws"].as_u64().unwrap_or(1) as usize).max(if shuffle { 20 } else { 1 });
    let k = inp["k"].as_u64().unwrap_or(2) as usize;
    match inp["entry"].as_str().unwrap_or("") {
        "split" => {
            let n = inp["n"].as_u64().unwrap() as usize;
            check_split(&mut out, n, k, shuffle, draws, "replay");
        }
        "tts" => {
            let d = data_from_json(&inp["data"]);
            let ts = f32::from_bits(inp["ts_bits"].as_u64().unwrap() as u32);
            check_tts(&mut out, &d, ts, shuffle, draws, "replay");
        }
        "tts_big" => {
            // n too large to store in the replay: one column holding the row's own index, targets i mod 89
            let n = inp["n"].as_u64().unwrap() as usize;
            let ts = f32::from_bits(inp["ts_bits"].as_u64().unwrap() as u32);
            let res = run_tts_big(n, ts, shuffle);
            match res {
                Err(m) => {
                    println!("REPLAY: train_test_split(n = {}, test_size = {}) panicked: {}", n, ts, m);
                    out.fail("tts_permutation", &format!("panic on test_size in (0,1] with n_test >= 1: {}", m), inp.clone())
                }
                Ok(false) => out.fail("tts_permutation", "parts are not a disjoint cover with attached targets / wrong size", inp.clone()),
                Ok(true) => {}
            }
        }
        "cv" | "cvp" => {
            let d = data_from_json(&inp["data"]);
            check_cv(&mut out, &d, k, shuffle, inp["entry"] == "cvp", draws, "replay");
        }
        _ => {
            eprintln!("unknown replay entry");
            return 2;
        }
    }
    if out.n_fail() > 0 {
        println!("REPLAY: property=C16 still fails: {}", path);
        1
    } else {
        println!("REPLAY: property=C16 passes: {}", path);
        0
    }
}

/// train_test_split on n rows that are too many to list: one column holding the row's own index,
/// targets i mod 89.  Ok(true) iff the parts are a disjoint cover with attached targets and the stated size.
fn run_tts_big(n: usize, ts: f32, shuffle: bool) -> Result<bool, String> {
    guard(|| {
        let mut x: DenseMatrix<f64> = DenseMatrix::zeros(n, 1);
        for i in 0..n {
            x.set(i, 0, i as f64);
        }
        let y: Vec<f64> = (0..n).map(|i| (i % 89) as f64).collect();
        let (xtr, xte, ytr, yte) = train_test_split(&x, &y, ts, shuffle);
        let mut seen = vec![false; n];
        let mut ok = xte.shape().0 == n_test_spec(n, ts) && xtr.shape().0 + xte.shape().0 == n;
        for (m, yv) in [(&xtr, &ytr), (&xte, &yte)] {
            for r in 0..m.shape().0 {
                let id = m.get(r, 0) as usize;
                ok &= id < n && !seen[id] && yv[r] == (id % 89) as f64;
                if id < n {
                    seen[id] = true;
                }
            }
        }
        ok
    })
}

fn main() {
    quiet_panics();
    let a = args();
    if let Some(p) = &a.replay {
        std::process::exit(replay(p));
    }
    let mut rng = Rng::new(a.seed);
    let mut out = Out::new(
        "C16",
        "search case = (n, k, shuffle) for KFold::split, (rows with their own index, targets, test_size bits, shuffle) for train_test_split, (rows, targets, k, shuffle) for cross_validate / cross_val_predict with the recording estimator; non-trivial: k does not divide n (k-fold, cross-validation), 1 <= n_test < n (train_test_split); distinct by hash of the input; shuffled cases are evaluated on several draws of the unseeded permutation",
    );
    let t = a.thorough;

    // ---- corpus: the library's own documented examples (no defect of this property was repaired) ----
    check_split(&mut out, 33, 3, false, 1, "corpus");
    check_split(&mut out, 34, 3, false, 1, "corpus");
    check_split(&mut out, 22, 2, true, 8, "corpus");
    {
        let d = gen_data(&mut rng, 123);
        check_tts(&mut out, &d, 0.2, true, 6, "corpus");
        check_tts(&mut out, &d, 0.2, false, 1, "corpus");
    }
    // known finding tts-size-overshoot-above-2p24 (KNOWN_FINDINGS.txt): for n > 2^24 `n as f32` can round UP, and
    // with test_size = 1.0 the single-precision size n+1 exceeds n, so `indices[n_test..n]` panics.  The predicate:
    // n > 2^24, the single-precision product exceeds n, and the outcome is that slice-range panic.  Anything else
    // (a wrong split, another panic, or the same panic where the product does not exceed n) is a failure.
    for &(n, ts) in &[(16777219usize, 1.0f32)] {
        let overshoot = n > (1 << 24) && n_test_spec(n, ts) > n;
        let inp = json!({"entry": "tts_big", "n": n, "ts_bits": ts.to_bits(), "shuffle": false});
        out.eval(hash_of(&(n, ts.to_bits(), 77u8)), true);
        out.count("tts_big");
        match run_tts_big(n, ts, false) {
            Err(m) if overshoot && m.contains("out of range for slice") => out.known(
                "tts-size-overshoot-above-2p24",
                &format!("train_test_split(n = {}, test_size = {}) panicked: {} (single-precision size {} > n)", n, ts, m, n_test_spec(n, ts)),
            ),
            Err(m) => out.fail("tts_permutation", &format!("panic on test_size in (0,1] with n_test >= 1: {}", m), inp),
            Ok(false) => out.fail("tts_permutation", "parts are not a disjoint cover with attached targets / wrong size", inp),
            Ok(true) => {}
        }
    }

    // ================= correspondence =================
    // split, unshuffled: exhaustive 1 <= n <= N0, 0 <= k <= n+2 (k < 2 panics, k > n gives empty folds)
    let n0 = if t { 64 } else { 16 };
    for n in 1..=n0 {
        for k in 0..=(n + 2) {
            corr_split(&mut out, n, k, false);
        }
    }
    // larger n up to the quantifier's bound, random k
    for _ in 0..(if t { 0 } else { 40 }) {
        let n = rng.usize_in(n0 + 1, 64);
        let k = rng.usize_in(2, n);
        corr_split(&mut out, n, k, false);
    }
    // split, shuffled, and the private stages through the hooks
    for i in 0..(if t { 600 } else { 90 }) {
        let n = rng.usize_in(2, if i % 3 == 0 { 64 } else { 24 });
        let k = rng.usize_in(2, n);
        corr_split(&mut out, n, k, true);
        if i % 2 == 0 {
            corr_hooks(&mut out, n, k, i % 4 == 0);
        }
    }
    // train_test_split
    for i in 0..(if t { 900 } else { 160 }) {
        let n = rng.usize_in(1, if i % 4 == 0 { 64 } else { 20 });
        let d = gen_data(&mut rng, n);
        let (ts, y_len) = match rng.below(12) {
            0 => (*rng.pick(&[0.0f32, -0.5, 1.5, f32::NAN, 1.0000001, f32::INFINITY, -0.0, 1e-45]), n),
            1 => (rng.unit() as f32 * 0.9 / n as f32, n), // n_test = 0 -> panic
            2 => (gen_ts(&mut rng, n), if rng.bool() { n + 1 } else { n.saturating_sub(1) }),
            _ => (gen_ts(&mut rng, n), n),
        };
        corr_tts(&mut out, &d, y_len, ts, rng.bool());
    }
    for i in 0..(if t { 2000 } else { 150 }) {
        let n = match i % 4 {
            0 => rng.usize_in(1, 1000),
            1 => rng.usize_in(1, 1 << 24),
            2 => (1usize << 24) + rng.below(1 << 12),
            _ => rng.usize_in(1, 1usize << 40),
        };
        let ts = match rng.below(5) {
            0 => 1.0f32,
            1 => f32::from_bits(0x3F800000 - 1 - rng.below(4) as u32),
            2 => *rng.pick(&[0.0f32, -1.0, 1.5, f32::NAN, f32::INFINITY, 1e-30]),
            _ => rng.unit() as f32,
        };
        corr_n_test(&mut out, n, ts);
    }
    // the size arithmetic where rounding decides: bit neighbours of test_size = 1.0 and of k/n (the
    // product is then within an ulp of the integer k), n at and around 2^24 and 2^23 and small n.
    // Own generator, so that the cases above and below are the same as before this block existed.
    {
        let mut r2 = Rng::new(a.seed ^ 0x0C16_F32B);
        let p24 = 1usize << 24;
        let pick_n = |r: &mut Rng| -> usize {
            match r.below(7) {
                0 => p24 - r.below(40),
                1 => p24 + r.below(40),
                2 => (1usize << 23) - 20 + r.below(40),
                3 => r.usize_in(1, 64),
                4 => r.usize_in(1, 5000),
                _ => r.usize_in(1, p24),
            }
        };
        // neighbours of 1.0: 1.0 - j ulp accepted, 1.0 + j ulp rejected
        for _ in 0..(if t { 500 } else { 50 }) {
            let n = pick_n(&mut r2);
            let bits = (0x3F80_0000i64 + r2.int(-12, 2)) as u32;
            corr_n_test(&mut out, n, f32::from_bits(bits));
        }
        // neighbours of k/n, k in 1..=n (k = 1: the n_test = 0 / 1 boundary; k = n: 1.0 again)
        for i in 0..(if t { 1500 } else { 110 }) {
            let n = pick_n(&mut r2);
            let k = match i % 4 {
                0 => 1,
                1 => n - r2.below(n.min(3)),
                _ => r2.usize_in(1, n),
            };
            let q = if r2.bool() { (k as f64 / n as f64) as f32 } else { k as f32 / n as f32 };
            let bits = (q.to_bits() as i64 + r2.int(-3, 3)).clamp(1, 0x3F80_0002) as u32;
            corr_n_test(&mut out, n, f32::from_bits(bits));
        }
        // exact ties at unit spacing: test_size = m/2^s (m odd, > 1/2), n = 2^s*j + 2^(s-1) with
        // n*test_size = m*j + m/2 >= 2^23: the product is exactly half-way between two integers
        // (ties-to-even decides the size); the same above 2^24 where the spacing is 2 and more
        for _ in 0..(if t { 300 } else { 30 }) {
            let s = r2.usize_in(1, 5);
            let m = r2.usize_in(1usize << (s - 1), (1usize << s) - 1) | 1; // odd, in [2^(s-1), 2^s - 1]
            let ts = m as f32 / (1usize << s) as f32;
            let lo = (((1usize << 23) as f64 / ts as f64).ceil() as usize) >> s;
            let hi = if r2.chance(0.8) { (p24 >> s) - 1 } else { (p24 >> s) * 16 };
            let j = r2.usize_in(lo.min(hi), hi);
            let n = (j << s) + (1usize << (s - 1));
            corr_n_test(&mut out, n, ts);
        }
    }
    // cross_validate / cross_val_predict
    for i in 0..(if t { 600 } else { 100 }) {
        let n = rng.usize_in(2, if i % 5 == 0 { 40 } else { 16 });
        let k = if rng.chance(0.05) { rng.usize_in(0, 1) } else { rng.usize_in(2, n) };
        let d = gen_data(&mut rng, n);
        let pid = rng.below(n) as i64;
        let poison = match rng.below(8) {
            0 => (pid, -1, -1),
            1 => (-1, pid, -1),
            2 => (-1, -1, pid),
            _ => NOPOISON,
        };
        corr_cv(&mut out, &d, k, rng.chance(0.4), i % 2 == 0, poison);
    }

    // ================= search =================
    // KFold::split, unshuffled: exhaustively all 2 <= k <= n <= 64 (both tiers; it is cheap)
    for n in 2..=64 {
        for k in 2..=n {
            check_split(&mut out, n, k, false, 1, "exhaustive");
        }
    }
    out.sample(json!({"entry": "split", "n": 34, "k": 3, "shuffle": false, "folds": run_split(7, 3, false).ok()}));
    // shuffled: repeated draws; exhaustive (n, k) up to 24 / 64, random beyond
    let ns = if t { 64 } else { 40 };
    for n in 2..=ns {
        for k in 2..=n {
            check_split(&mut out, n, k, true, if t { 8 } else { 6 }, "exhaustive");
        }
    }
    for _ in 0..(if t { 10000 } else { 1500 }) {
        let n = rng.usize_in(2, if t { 400 } else { 128 });
        let k = rng.usize_in(2, n);
        let sh = rng.bool();
        check_split(&mut out, n, k, sh, if sh { 6 } else { 1 }, "random");
    }
    // train_test_split: every n up to 64 (quick) / 200 (thorough) with several test sizes
    let nt = if t { 300 } else { 100 };
    for n in 1..=nt {
        let d = gen_data(&mut rng, n);
        for r in 0..(if t { 30 } else { 16 }) {
            let ts = gen_ts(&mut rng, n);
            let sh = r % 2 == 1;
            check_tts(&mut out, &d, ts, sh, if sh { 6 } else { 1 }, "all-n");
            if n == 10 && r == 0 {
                out.sample(json!({"entry": "tts", "n": n, "test_size": ts, "n_test": n_test_spec(n, ts)}));
            }
        }
    }
    for _ in 0..(if t { 1000 } else { 100 }) {
        let n = rng.usize_in(65, if t { 5000 } else { 1000 });
        let d = gen_data(&mut rng, n);
        let ts = gen_ts(&mut rng, n);
        let sh = rng.bool();
        check_tts(&mut out, &d, ts, sh, if sh { 6 } else { 1 }, "random-large");
    }
    // cross-validation with the recording estimator: exhaustive (n, k) up to 20 / 64 unshuffled,
    // every third pair shuffled; random beyond
    let nc = if t { 64 } else { 32 };
    for n in 2..=nc {
        let d = gen_data(&mut rng, n);
        for k in 2..=n {
            check_cv(&mut out, &d, k, false, true, 1, "exhaustive");
            check_cv(&mut out, &d, k, false, false, 1, "exhaustive");
            if (n + k) % 2 == 0 {
                check_cv(&mut out, &d, k, true, true, 3, "exhaustive");
                check_cv(&mut out, &d, k, true, false, 3, "exhaustive");
            }
        }
    }
    for _ in 0..(if t { 8000 } else { 1000 }) {
        let n = rng.usize_in(2, if t { 150 } else { 64 });
        let kmax = if rng.bool() { n.min(10) } else { n };
        let k = rng.usize_in(2, kmax);
        let d = gen_data(&mut rng, n);
        let sh = rng.bool();
        check_cv(&mut out, &d, k, sh, rng.bool(), if sh { 3 } else { 1 }, "random");
    }
    out.finish(&a.out);
}
