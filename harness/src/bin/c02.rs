//! C02 — eigen-decomposition (src/linalg/evd.rs).
//!
//! * search: the property's predicate, written from the property text as the Rust twin of the Coq
//!   validators `check_evd_sym` / `check_evd_gen` (SC.C02.Validator; residuals evaluated with
//!   compensated dot products so that the twin is accurate far below the tolerances), over the
//!   input families of the property's quantifier, orders 1..30, f64 and f32;
//! * correspondence: the modelled routines (`tred2` bit-exact, `tql2` as a whole by tolerance and up to
//!   column signs on well-separated spectra, `elmhes`, `eltran` bit-exact, `sort`, the tail of `tql2`,
//!   `balance`, `balbak`, the 2x2 branch of `hqr2`) against SC.C02.Corr, on random inputs and on the implementation's own
//!   intermediate state (the stages of evd(false) are run one by one through the cfg-guarded
//!   wrappers and must reproduce evd(false) bit for bit); and a sample of the implementation's
//!   outputs (plus corrupted copies) re-decided by the Coq validators themselves, whose verdict
//!   must equal the twin's.
#![allow(non_snake_case)]
use serde_json::{json, Value};
use smartcore::linalg::evd::*;
use smartcore::linalg::naive::dense_matrix::DenseMatrix;
use smartcore::linalg::BaseMatrix;
use smartcore::math::num::RealNumber;
use vharness::*;

type Mat = Vec<Vec<f64>>;

const EPS64: f64 = f64::EPSILON;
const EPS32: f64 = f32::EPSILON as f64;

// ------------------------------------------------------------------------------------------
// running the implementation
// ------------------------------------------------------------------------------------------
fn to_dense<T: RealNumber>(rows: &Mat) -> DenseMatrix<T> {
    let r: Vec<Vec<T>> = rows.iter().map(|r| r.iter().map(|x| T::from(*x).unwrap()).collect()).collect();
    DenseMatrix::from_2d_vec(&r)
}
fn from_dense<T: RealNumber>(m: &DenseMatrix<T>) -> Mat {
    let (n, p) = m.shape();
    (0..n).map(|r| (0..p).map(|c| m.get(r, c).to_f64().unwrap()).collect()).collect()
}
fn vec64<T: RealNumber>(v: &[T]) -> Vec<f64> {
    v.iter().map(|x| x.to_f64().unwrap()).collect()
}
fn cols_of(m: &Mat) -> Mat {
    let n = m.len();
    let p = if n > 0 { m[0].len() } else { 0 };
    (0..p).map(|c| (0..n).map(|r| m[r][c]).collect()).collect()
}

#[derive(Clone, Debug)]
struct Evd {
    d: Vec<f64>,
    e: Vec<f64>,
    V: Mat,
}

fn evd_t<T: RealNumber>(rows: &Mat, symmetric: bool) -> Result<Evd, String> {
    let a: DenseMatrix<T> = to_dense(rows);
    match a.evd(symmetric) {
        Ok(r) => Ok(Evd { d: vec64(&r.d), e: vec64(&r.e), V: from_dense(&r.V) }),
        Err(f) => Err(format!("Err({:?})", f)),
    }
}
/// evd on a (persistent) helper thread: Err("...") for a panic, an `Err` result or a time-out
struct Worker {
    tx: std::sync::mpsc::Sender<(Mat, bool, bool)>,
    rx: std::sync::mpsc::Receiver<Result<Evd, String>>,
}
static WORKER: std::sync::Mutex<Option<Worker>> = std::sync::Mutex::new(None);
fn spawn_worker() -> Option<Worker> {
    let (tx, jrx) = std::sync::mpsc::channel::<(Mat, bool, bool)>();
    let (rtx, rx) = std::sync::mpsc::channel();
    std::thread::Builder::new()
        .stack_size(64 << 20)
        .spawn(move || {
            while let Ok((r, symmetric, f32m)) = jrx.recv() {
                let res = match guard(|| if f32m { evd_t::<f32>(&r, symmetric) } else { evd_t::<f64>(&r, symmetric) }) {
                    Err(p) => Err(format!("panic: {}", p)),
                    Ok(x) => x,
                };
                if rtx.send(res).is_err() {
                    break;
                }
            }
        })
        .ok()?;
    Some(Worker { tx, rx })
}
fn run_evd(rows: &Mat, symmetric: bool, f32m: bool) -> Result<Evd, String> {
    let mut w = WORKER.lock().unwrap();
    if w.is_none() {
        *w = spawn_worker();
    }
    let wk = w.as_ref().expect("worker thread");
    if wk.tx.send((rows.clone(), symmetric, f32m)).is_err() {
        *w = None;
        return Err("worker thread died".into());
    }
    match wk.rx.recv_timeout(std::time::Duration::from_secs(30)) {
        Ok(r) => r,
        Err(_) => {
            *w = None; // abandon the stuck thread
            Err("no result within 30 s".into())
        }
    }
}

/// the stages of evd(false), one by one through the verification wrappers
struct Staged {
    a_bal: Mat,
    scale: Vec<f64>,
    d_pre: Vec<f64>,
    e_pre: Vec<f64>,
    v_pre: Mat,
    v_bak: Mat,
    fin: Evd,
}
fn staged_t<T: RealNumber>(rows: &Mat) -> Staged {
    let n = rows.len();
    let mut a: DenseMatrix<T> = to_dense(rows);
    let scale = verif_balance(&mut a);
    let a_bal = from_dense(&a);
    let perm = verif_elmhes(&mut a);
    let mut v: DenseMatrix<T> = DenseMatrix::eye(n);
    verif_eltran(&a, &mut v, &perm);
    let mut d = vec![T::zero(); n];
    let mut e = vec![T::zero(); n];
    verif_hqr2(&mut a, &mut v, &mut d, &mut e);
    let (d_pre, e_pre, v_pre) = (vec64(&d), vec64(&e), from_dense(&v));
    verif_balbak(&mut v, &scale);
    let v_bak = from_dense(&v);
    verif_sort(&mut d, &mut e, &mut v);
    Staged { a_bal, scale: vec64(&scale), d_pre, e_pre, v_pre, v_bak, fin: Evd { d: vec64(&d), e: vec64(&e), V: from_dense(&v) } }
}

fn same_bits(a: &[f64], b: &[f64]) -> bool {
    a.len() == b.len() && a.iter().zip(b).all(|(x, y)| x.to_bits() == y.to_bits() || (x.is_nan() && y.is_nan()))
}
fn same_mat(a: &Mat, b: &Mat) -> bool {
    a.len() == b.len() && a.iter().zip(b).all(|(x, y)| same_bits(x, y))
}

// ------------------------------------------------------------------------------------------
// the oracle: Rust twin of SC.C02.Validator
// ------------------------------------------------------------------------------------------
fn two_sum(a: f64, b: f64) -> (f64, f64) {
    let s = a + b;
    let bb = s - a;
    (s, (a - (s - bb)) + (b - bb))
}
fn two_prod(a: f64, b: f64) -> (f64, f64) {
    let p = a * b;
    (p, a.mul_add(b, -p))
}
/// sum of the products, as if accumulated in twice the working precision (Ogita, Rump, Oishi: Dot2)
fn dot2<I: Iterator<Item = (f64, f64)>>(it: I) -> f64 {
    let mut s = 0.0;
    let mut c = 0.0;
    for (a, b) in it {
        let (p, ep) = two_prod(a, b);
        let (t, es) = two_sum(s, p);
        s = t;
        c += ep + es;
    }
    s + c
}
fn maxabs(m: &Mat) -> f64 {
    m.iter().flatten().fold(0.0f64, |a, x| a.max(x.abs()))
}
fn all_finite(m: &Mat) -> bool {
    m.iter().flatten().all(|x| x.is_finite())
}
fn square(n: usize, m: &Mat) -> bool {
    m.len() == n && m.iter().all(|r| r.len() == n)
}
/// (A v - lam v)_i
fn resid(a: &Mat, v: &[f64], lam: f64, i: usize) -> f64 {
    dot2(a[i].iter().cloned().zip(v.iter().cloned()).chain(std::iter::once((-lam, v[i]))))
}

/// outcome of a validator: `ok` is the verdict; `ratio` the largest (observed / allowed) over the
/// tolerance clauses (0/0 = 0, x/0 = inf); `clause` names the first clause that failed
#[derive(Clone, Debug)]
struct Verdict {
    ok: bool,
    ratio: f64,
    clause: String,
    per: Vec<(String, f64)>,
}
impl Verdict {
    fn new() -> Self {
        Verdict { ok: true, ratio: 0.0, clause: String::new(), per: vec![] }
    }
    fn hard(&mut self, cond: bool, clause: &str) {
        if !cond && self.ok {
            self.ok = false;
            self.clause = clause.to_string();
        }
    }
    fn tol(&mut self, observed: f64, allowed: f64, clause: &str) {
        let r = if observed == 0.0 { 0.0 } else if allowed == 0.0 { f64::INFINITY } else { observed / allowed };
        if !(r <= self.ratio) {
            self.ratio = if r.is_nan() { f64::INFINITY } else { r };
        }
        let key = clause.split(" column").next().unwrap_or(clause).to_string();
        match self.per.iter_mut().find(|p| p.0 == key) {
            Some(p) => p.1 = p.1.max(r),
            None => self.per.push((key, r)),
        }
        if !(observed <= allowed) && self.ok {
            self.ok = false;
            self.clause = format!("{} (observed {:e}, allowed {:e})", clause, observed, allowed);
        }
    }
    /// a tolerance clause is within a factor 4 of its limit: float evaluation of the twin and exact
    /// evaluation in Coq may legitimately differ
    fn borderline(&self) -> bool {
        self.ratio > 0.25 && self.ratio < 4.0
    }
}

/// twin of `check_evd_sym`: A V ~ V diag(d) within tol*max|A|, V^T V ~ I within tol, d non-increasing, e = 0
fn check_evd_sym(tol: f64, a: &Mat, v: &Mat, d: &[f64], e: &[f64]) -> Verdict {
    let n = a.len();
    let mut r = Verdict::new();
    r.hard(square(n, a) && square(n, v) && d.len() == n && e.len() == n, "shapes");
    r.hard(all_finite(a) && all_finite(v) && d.iter().chain(e.iter()).all(|x| x.is_finite()), "a returned value is not finite");
    if !r.ok {
        return r;
    }
    let nrm = maxabs(a);
    let vc = cols_of(v);
    let mut worst = 0.0f64;
    for j in 0..n {
        for i in 0..n {
            worst = worst.max(resid(a, &vc[j], d[j], i).abs());
        }
    }
    r.tol(worst, tol * nrm, "A*V = V*diag(d)");
    let mut worst = 0.0f64;
    for i in 0..n {
        for j in 0..n {
            let g = dot2(vc[i].iter().cloned().zip(vc[j].iter().cloned()).chain(std::iter::once((-1.0, if i == j { 1.0 } else { 0.0 }))));
            worst = worst.max(g.abs());
        }
    }
    r.tol(worst, tol, "V^T*V = I");
    r.hard((0..n.saturating_sub(1)).all(|j| d[j + 1] <= d[j]), "eigenvalues not in non-increasing order");
    r.hard(e.iter().all(|x| *x == 0.0), "imaginary part not zero");
    r
}

fn conj_paired(d: &[f64], e: &[f64]) -> bool {
    let mut l: Vec<(f64, f64)> = d.iter().cloned().zip(e.iter().cloned()).collect();
    while !l.is_empty() {
        let (x, y) = l.remove(0);
        if y == 0.0 {
            continue;
        }
        match l.iter().position(|p| p.0 == x && p.1 == -y) {
            Some(k) => {
                l.remove(k);
            }
            None => return false,
        }
    }
    true
}

/// twin of `check_evd_gen`: conjugate pairs, sum d = tr A within tol1*max|A|, sum (d^2 - e^2) = tr A^2
/// within tol2*max|A|^2, and for every real eigenvalue d_j: column j non-zero and
/// |A v - d_j v|_i <= tolv * max|A| * max|v|
fn check_evd_gen(tol1: f64, tol2: f64, tolv: f64, a: &Mat, v: &Mat, d: &[f64], e: &[f64]) -> Verdict {
    check_evd_gen_skip(tol1, tol2, tolv, a, v, d, e, &[])
}
/// the same, not examining the eigenvector columns flagged in `skip` (used only to decide whether a
/// failure is confined to the columns of a known finding; `skip` empty = the validator twin)
#[allow(clippy::too_many_arguments)]
fn check_evd_gen_skip(tol1: f64, tol2: f64, tolv: f64, a: &Mat, v: &Mat, d: &[f64], e: &[f64], skip: &[bool]) -> Verdict {
    let n = a.len();
    let mut r = Verdict::new();
    r.hard(square(n, a) && square(n, v) && d.len() == n && e.len() == n, "shapes");
    r.hard(all_finite(a) && all_finite(v) && d.iter().chain(e.iter()).all(|x| x.is_finite()), "a returned value is not finite");
    if !r.ok {
        return r;
    }
    r.hard(conj_paired(d, e), "complex eigenvalues do not come in conjugate pairs");
    let nrm = maxabs(a);
    let tr = dot2(d.iter().map(|x| (*x, 1.0)).chain((0..n).map(|i| (-a[i][i], 1.0))));
    r.tol(tr.abs(), tol1 * nrm, "sum of eigenvalues = trace(A)");
    let ac = cols_of(a);
    let tr2 = dot2(
        d.iter().map(|x| (*x, *x)).chain(e.iter().map(|x| (-*x, *x))).chain((0..n).flat_map(|i| {
            let (row, col) = (&a[i], &ac[i]);
            row.iter().cloned().zip(col.iter().cloned()).map(|(p, q)| (-p, q)).collect::<Vec<_>>()
        })),
    );
    r.tol(tr2.abs(), tol2 * (nrm * nrm), "sum of squared eigenvalues = trace(A^2)");
    let vc = cols_of(v);
    for j in 0..n {
        if e[j] == 0.0 && !skip.get(j).copied().unwrap_or(false) {
            let vm = vc[j].iter().fold(0.0f64, |m, x| m.max(x.abs()));
            r.hard(vm > 0.0, &format!("eigenvector column {} of a real eigenvalue is zero", j));
            let mut worst = 0.0f64;
            for i in 0..n {
                worst = worst.max(resid(a, &vc[j], d[j], i).abs());
            }
            r.tol(worst, tolv * (nrm * vm), &format!("A*v = d*v for real eigenvalue column {}", j));
        }
    }
    r
}

// tolerances: multiples of n * eps (see `calib` in the evidence for the observed maxima)
const C_SYM: f64 = 64.0;
const C_TR: f64 = 256.0;
const C_TR2: f64 = 2048.0;
const C_VEC: f64 = 1024.0;
fn tol_sym(n: usize, f32m: bool) -> f64 {
    C_SYM * (n as f64) * if f32m { EPS32 } else { EPS64 }
}
fn tols_gen(n: usize, f32m: bool) -> (f64, f64, f64) {
    let u = (n as f64) * if f32m { EPS32 } else { EPS64 };
    (C_TR * u, C_TR2 * u, C_VEC * u)
}

fn narrow(rows: &Mat, f32m: bool) -> Mat {
    if f32m { rows.iter().map(|r| r.iter().map(|v| *v as f32 as f64).collect()).collect() } else { rows.clone() }
}

fn input_json(kind: &str, family: &str, rows: &Mat, f32m: bool, info: &Info) -> Value {
    json!({"entry": kind, "family": if info.family.is_empty() { family } else { info.family.as_str() }, "n": rows.len(), "f32": f32m, "a": rows, "real_spectrum": info.lambda, "multiplicity": info.mult})
}

/// what the generator knows about the matrix by construction
#[derive(Clone, Debug, Default)]
struct Info {
    /// the spectrum, when it is known to working accuracy (symmetric: any; general: all real and well separated)
    lambda: Option<Vec<f64>>,
    /// largest algebraic multiplicity of an eigenvalue the construction put in (0 = nothing known)
    mult: usize,
    /// generator family of the matrix (kept in the replay: two known findings are family-specific)
    family: String,
}
fn info_l(l: Option<Vec<f64>>) -> Info {
    Info { lambda: l, mult: 0, family: String::new() }
}

/// A known finding (KNOWN_FINDINGS.txt) reproduced by the search.  An id that the coordinator has
/// not listed yet (reported, pending) is counted as a named exclusion instead, so that the verdict does
/// not depend on the timing of that edit; once listed it is reported through `out.known`.
fn finding(out: &mut Out, id: &str, what: &str) {
    let listed = std::fs::read_to_string("/verif/KNOWN_FINDINGS.txt")
        .map(|t| t.lines().any(|l| l.starts_with("finding:") && l.contains("property=C02") && l.contains(&format!("id={} ", id))))
        .unwrap_or(false);
    if listed {
        out.known(id, what);
    } else {
        out.count(&format!("search:excluded-unlisted-finding:{}", id));
    }
    out.count(&format!("search:known-finding-reproduced:{}", id));
}

/// Predicate of the known finding hqr2-f32-repeated-eigenvalue-nonfinite (KNOWN_FINDINGS.txt): f32,
/// general call, at least three computed real eigenvalues agree within 1e-4*max|d|, and the ONLY failing
/// clause is "a returned value is not finite" or the eigenvector residual (or zero column) of columns
/// belonging to that repeated eigenvalue.  Returns the flags of the columns of such a cluster.
fn repeated_real_cluster(d: &[f64], e: &[f64]) -> Vec<bool> {
    let n = d.len();
    let real = |i: usize| e[i] == 0.0 && d[i].is_finite();
    let dmax = (0..n).filter(|i| d[*i].is_finite()).fold(0.0f64, |m, i| m.max(d[i].abs()));
    (0..n).map(|j| real(j) && (0..n).filter(|i| real(*i) && (d[*i] - d[j]).abs() <= 1e-4 * dmax).count() >= 3).collect()
}
#[allow(clippy::too_many_arguments)]
fn is_f32_repeated_eigenvalue_finding(f32m: bool, t: (f64, f64, f64), b: &Mat, y: &Mat, r: &Evd) -> bool {
    if !f32m {
        return false;
    }
    let cluster = repeated_real_cluster(&r.d, &r.e);
    if !cluster.iter().any(|c| *c) {
        return false;
    }
    let finite = all_finite(&r.V) && all_finite(y) && r.d.iter().chain(r.e.iter()).all(|x| x.is_finite());
    if !finite {
        return true; // the first (hard) clause: nothing else can be evaluated on non-finite values
    }
    check_evd_gen_skip(t.0, t.1, t.2, b, y, &r.d, &r.e, &cluster).ok
}

/// Predicate of the known finding hqr2-f32-eigenvector-underflow (KNOWN_FINDINGS.txt): f32, general call,
/// the ONLY failing clause is "eigenvector column j of a real eigenvalue is zero" (one or several j), AND
/// evd(false) of the same entries in f64 succeeds, passes the f64 validator, and returns for every such j a
/// non-zero column with max|v_j| < 1.2e-38 (below the f32 normal range).  Columns are matched by index j
/// (with a check that it is the same eigenvalue); if the two runs order the eigenvalues differently, a
/// real f64 eigenvalue within 1e-3*max|d| of d[j] with such a column is accepted instead.
fn is_f32_eigenvector_underflow_finding(f32m: bool, a: &Mat, t: (f64, f64, f64), b: &Mat, y: &Mat, r: &Evd) -> bool {
    if !f32m {
        return false;
    }
    let n = a.len();
    if !(square(n, &r.V) && r.d.len() == n && r.e.len() == n) {
        return false;
    }
    if !(all_finite(&r.V) && all_finite(y) && r.d.iter().chain(r.e.iter()).all(|x| x.is_finite())) {
        return false;
    }
    let zero_col: Vec<bool> = (0..n).map(|j| r.e[j] == 0.0 && (0..n).all(|i| r.V[i][j] == 0.0)).collect();
    if !zero_col.iter().any(|z| *z) {
        return false;
    }
    // nothing else fails
    if !check_evd_gen_skip(t.0, t.1, t.2, b, y, &r.d, &r.e, &zero_col).ok {
        return false;
    }
    // the same entries in f64
    let r64 = match run_evd(a, false, false) {
        Ok(x) => x,
        Err(_) => return false,
    };
    if !(square(n, &r64.V) && r64.d.len() == n && r64.e.len() == n) {
        return false;
    }
    let (t1, t2, tv) = tols_gen(n, false);
    let (b64, y64, _s) = balanced_view(a, &r64.V, &r64.e, false);
    if !check_evd_gen(t1, t2, tv, &b64, &y64, &r64.d, &r64.e).ok {
        return false;
    }
    let dmax = r.d.iter().fold(0.0f64, |m, x| m.max(x.abs()));
    let tiny = |k: usize| -> bool {
        let vm = (0..n).fold(0.0f64, |m, i| m.max(r64.V[i][k].abs()));
        r64.e[k] == 0.0 && vm > 0.0 && vm < 1.2e-38
    };
    let same = |k: usize, j: usize| (r64.d[k] - r.d[j]).abs() <= 1e-3 * dmax;
    if std::env::var("VERIF_C02_DEBUG").is_ok() {
        for j in (0..n).filter(|j| zero_col[*j]) {
            let vm = (0..n).fold(0.0f64, |m, i| m.max(r64.V[i][j].abs()));
            eprintln!("C02 debug: zero column {}: d32 = {:e}, f64 run: d = {:e}, e = {:e}, max|v| = {:e}, matched by index = {}", j, r.d[j], r64.d[j], r64.e[j], vm, same(j, j) && tiny(j));
        }
    }
    (0..n).filter(|j| zero_col[*j]).all(|j| (same(j, j) && tiny(j)) || (!(same(j, j) && r64.e[j] == 0.0) && (0..n).any(|k| same(k, j) && tiny(k))))
}

/// Predicate of the known finding hqr-no-convergence-multiple-eigenvalue, decidable from the input alone:
/// a small relative perturbation of the matrix (which the solver does handle) has at least two
/// eigenvalues within 0.05*max|A| of each other, i.e. the matrix has, to working accuracy, a multiple
/// eigenvalue (Jordan blocks make the shifted QR iteration converge only linearly and hqr gives up after
/// 30 sweeps).  It is used IN ADDITION to the generator's own record that it built a repeated eigenvalue
/// with a Jordan block into the matrix ("multiplicity" >= 2 in the replay).
fn near_multiple_eigenvalue(a: &Mat, f32m: bool) -> bool {
    let nrm = maxabs(a);
    let rels: [f64; 3] = if f32m { [1e-5, 1e-4, 1e-3] } else { [1e-10, 1e-8, 1e-6] };
    for (k, rel) in rels.iter().enumerate() {
        let mut rng = Rng::new(hash_f64s(&a.iter().flatten().cloned().collect::<Vec<f64>>()).wrapping_add(k as u64));
        let p: Mat = a.iter().map(|r| r.iter().map(|x| x + rel * nrm * rng.uniform(-1.0, 1.0)).collect()).collect();
        if let Ok(r) = run_evd(&narrow(&p, f32m), false, f32m) {
            let n = r.d.len();
            return (0..n).any(|j| (0..n).filter(|i| (r.d[*i] - r.d[j]).hypot(r.e[*i] - r.e[j]) <= 0.05 * nrm).count() >= 2);
        }
    }
    false
}

fn is_pow2(x: f64) -> bool {
    x.is_finite() && x > 0.0 && x.is_normal() && (x.to_bits() & ((1u64 << 52) - 1)) == 0
}
fn balance_scale(a: &Mat, f32m: bool) -> Option<Vec<f64>> {
    let a0 = a.clone();
    guard(move || {
        if f32m {
            let mut m: DenseMatrix<f32> = to_dense(&a0);
            vec64(&verif_balance(&mut m))
        } else {
            let mut m: DenseMatrix<f64> = to_dense(&a0);
            vec64(&verif_balance(&mut m))
        }
    })
    .ok()
}
/// The general-matrix clauses are evaluated in the coordinates in which the solver works: with the
/// power-of-two scaling S that `balance` returns, B = S^-1 A S and Y = S^-1 V (both formed exactly; if
/// anything is inexact S = I is used).  B y = d y  <=>  A (S y) = d (S y), tr B = tr A, tr B^2 = tr A^2
/// (theorems C02_balbak_correct / C02_similarity_*), and the residual is measured against |B|, the
/// norm in which the algorithm is backward stable (for a badly balanced A this is the sharper test).
/// Columns of complex eigenvalues, about which the property says nothing, are blanked.
fn balanced_view(a: &Mat, v: &Mat, e: &[f64], f32m: bool) -> (Mat, Mat, Vec<f64>) {
    let n = a.len();
    let ones = vec![1.0; n];
    let mask = |y: &Mat| -> Mat { (0..n).map(|i| (0..n).map(|j| if j < e.len() && e[j] != 0.0 { 0.0 } else { y[i][j] }).collect()).collect() };
    if !square(n, v) {
        return (a.clone(), v.clone(), ones);
    }
    let plain = (a.clone(), mask(v), ones);
    let s = match balance_scale(a, f32m) {
        Some(s) if s.len() == n && s.iter().all(|x| is_pow2(*x)) => s,
        _ => return plain,
    };
    let mut b = zeros(n);
    let mut y = zeros(n);
    for i in 0..n {
        for k in 0..n {
            b[i][k] = a[i][k] * s[k] / s[i];
            if !(b[i][k] * s[i] / s[k] == a[i][k]) {
                return plain;
            }
            y[i][k] = v[i][k] / s[i];
            if v[i][k].is_finite() && !(y[i][k] * s[i] == v[i][k]) {
                return plain;
            }
        }
    }
    (b, mask(&y), s)
}

struct Calib {
    sym: f64,
    gen: f64,
    eig: f64,
    per: std::collections::BTreeMap<String, f64>,
}
impl Calib {
    fn new() -> Self {
        Calib { sym: 0.0, gen: 0.0, eig: 0.0, per: Default::default() }
    }
    fn note(&mut self, v: &Verdict, width: &str) {
        for (k, r) in &v.per {
            let e = self.per.entry(format!("{} [{}]", k, width)).or_insert(0.0);
            if *r > *e {
                *e = *r;
            }
        }
    }
}

/// the symmetric clause of the property on one input
fn oracle_sym(out: &mut Out, cal: &mut Calib, rows: &Mat, f32m: bool, family: &str, info: &Info) -> Option<Evd> {
    let lambda = &info.lambda;
    let a = narrow(rows, f32m);
    let n = a.len();
    out.eval(hash_f64s(&a.iter().flatten().cloned().chain(std::iter::once(if f32m { 1.0 } else { 0.0 })).collect::<Vec<f64>>()), n >= 3);
    out.count(&format!("search:sym:{}:{}", family, if f32m { "f32" } else { "f64" }));
    out.count(&format!("search:n={}", if n <= 3 { format!("{}", n) } else if n <= 8 { "4-8".into() } else if n <= 16 { "9-16".into() } else { "17-30".into() }));
    let input = input_json("sym", family, &a, f32m, info);
    match run_evd(&a, true, f32m) {
        Err(msg) => {
            out.fail("evd_sym", &format!("evd(true) did not return a decomposition: {}", msg), input);
            None
        }
        Ok(r) => {
            let v = check_evd_sym(tol_sym(n, f32m), &a, &r.V, &r.d, &r.e);
            if !v.ok && f32m && v.clause.starts_with("V^T*V = I") && {
                // known finding sym-f32-subnormal-rotations: ONLY orthogonality fails, and the QL sweeps have
                // worked on quantities in the f32 subnormal range
                let dmax = r.d.iter().fold(0.0f64, |m, x| m.max(x.abs()));
                let mut r2 = r.clone();
                r2.V = (0..n).map(|i| (0..n).map(|j| if i == j { 1.0 } else { 0.0 }).collect()).collect();
                let others = {
                    let mut w = Verdict::new();
                    let vc = cols_of(&r.V);
                    let mut worst = 0.0f64;
                    for j in 0..n {
                        for i in 0..n {
                            worst = worst.max(resid(&a, &vc[j], r.d[j], i).abs());
                        }
                    }
                    w.tol(worst, tol_sym(n, true) * maxabs(&a), "A*V = V*diag(d)");
                    w.hard((0..n.saturating_sub(1)).all(|j| r.d[j + 1] <= r.d[j]) && r.e.iter().all(|x| *x == 0.0), "order");
                    w.ok
                };
                others && r.d.iter().any(|x| *x != 0.0 && x.abs() < 1e-30 * dmax)
            } {
                finding(out, "sym-f32-subnormal-rotations", "evd(true) on an f32 rank-deficient symmetric matrix returned a V that is far from orthogonal (plane rotations formed from subnormal numbers in tql2)");
                return Some(r);
            }
            cal.sym = cal.sym.max(v.ratio);
            cal.note(&v, if f32m { "f32" } else { "f64" });
            if !v.ok {
                out.fail("evd_sym", &v.clause, input);
            } else if let Some(lam) = lambda {
                // the constructed spectrum (symmetric eigenvalues are perfectly conditioned)
                let mut l = lam.clone();
                l.sort_by(|x, y| y.partial_cmp(x).unwrap());
                let scale = l.iter().fold(0.0f64, |m, x| m.max(x.abs()));
                let worst = l.iter().zip(r.d.iter()).fold(0.0f64, |m, (x, y)| m.max((x - y).abs()));
                let allowed = 4.0 * tol_sym(n, f32m) * scale;
                cal.eig = cal.eig.max(if worst == 0.0 { 0.0 } else { worst / allowed });
                if !(worst <= allowed) {
                    out.fail("evd_sym_spectrum", &format!("eigenvalues differ from the constructed spectrum by {:e} (allowed {:e})", worst, allowed), input);
                }
            }
            Some(r)
        }
    }
}

/// the general clause of the property on one input; `lambda`: the matrix was constructed with this
/// all-real, well-separated spectrum (then the full identity A V = V diag(d) is required)
fn oracle_gen(out: &mut Out, cal: &mut Calib, rows: &Mat, f32m: bool, family: &str, info: &Info) -> Option<Evd> {
    let lambda = &info.lambda;
    let a = narrow(rows, f32m);
    let n = a.len();
    out.eval(hash_f64s(&a.iter().flatten().cloned().chain(std::iter::once(if f32m { 3.0 } else { 2.0 })).collect::<Vec<f64>>()), n >= 3);
    out.count(&format!("search:gen:{}:{}", family, if f32m { "f32" } else { "f64" }));
    out.count(&format!("search:n={}", if n <= 3 { format!("{}", n) } else if n <= 8 { "4-8".into() } else if n <= 16 { "9-16".into() } else { "17-30".into() }));
    let input = input_json("gen", family, &a, f32m, info);
    match run_evd(&a, false, f32m) {
        Err(msg) => {
            if msg == "panic: Too many iterations in hqr" && info.mult >= 2 && near_multiple_eigenvalue(&a, f32m) {
                finding(out, "hqr-no-convergence-multiple-eigenvalue", "evd(false) panicked 'Too many iterations in hqr' on a matrix constructed with a repeated (defective) eigenvalue");
                return None;
            }
            if msg == "panic: Too many iterations in hqr" && ["companion", "hessenberg", "lattice", "sparse"].contains(&info.family.as_str()) {
                finding(out, "hqr-no-convergence-shift-cycle", "evd(false) panicked 'Too many iterations in hqr' on a structured (companion / Hessenberg / integer) matrix on which the shifted QR iteration stagnates");
                return None;
            }
            out.fail("evd_gen", &format!("evd(false) did not return a decomposition: {}", msg), input);
            None
        }
        Ok(r) => {
            let (t1, t2, tv) = tols_gen(n, f32m);
            let (b, y, _s) = balanced_view(&a, &r.V, &r.e, f32m);
            let v = check_evd_gen(t1, t2, tv, &b, &y, &r.d, &r.e);
            cal.gen = cal.gen.max(v.ratio);
            cal.note(&v, if f32m { "f32" } else { "f64" });
            if r.e.iter().any(|x| *x != 0.0) {
                out.count("search:gen:has-complex-pairs");
            }
            if !v.ok && std::env::var("VERIF_C02_DEBUG").is_ok() {
                eprintln!("C02 debug: clause = {}; d = {:?}; e = {:?}; cluster = {:?}", v.clause, r.d, r.e, repeated_real_cluster(&r.d, &r.e));
            }
            if !v.ok && is_f32_repeated_eigenvalue_finding(f32m, (t1, t2, tv), &b, &y, &r) {
                finding(out, "hqr2-f32-repeated-eigenvalue-nonfinite", "evd(false) in f32 returned non-finite values / a wrong eigenvector column for a real eigenvalue of multiplicity >= 3 (the back-substitution of hqr2 divides by the perturbation it substitutes for a zero pivot and the growth overflows in single precision)");
                return None;
            }
            if !v.ok && is_f32_eigenvector_underflow_finding(f32m, &a, (t1, t2, tv), &b, &y, &r) {
                finding(out, "hqr2-f32-eigenvector-underflow", "evd(false) in f32 returned an exactly zero column of V for a real eigenvalue: the un-normalised eigenvector (max|v| < 1.2e-38 in the f64 run of the same entries, where A*v = d*v holds) underflows in single precision");
                return None;
            }
            if !v.ok {
                out.fail("evd_gen", &v.clause, input);
            } else if let Some(lam) = lambda {
                out.count("search:gen:full-identity-clause");
                if r.e.iter().any(|x| *x != 0.0) {
                    out.fail("evd_gen_real_spectrum", "a matrix with an all-real, well-separated spectrum got complex eigenvalues (the full identity A*V = V*diag(d) is lost)", input);
                } else {
                    let mut l = lam.clone();
                    l.sort_by(|x, y| y.partial_cmp(x).unwrap());
                    let mut dd = r.d.clone();
                    dd.sort_by(|x, y| y.partial_cmp(x).unwrap());
                    let scale = maxabs(&a);
                    let worst = l.iter().zip(dd.iter()).fold(0.0f64, |m, (x, y)| m.max((x - y).abs()));
                    // eigenvalue condition numbers are bounded by cond(X) <= 16 by construction
                    let allowed = 64.0 * tv * scale;
                    cal.eig = cal.eig.max(if worst == 0.0 { 0.0 } else { worst / allowed });
                    if !(worst <= allowed) {
                        out.fail("evd_gen_real_spectrum", &format!("eigenvalues differ from the constructed well-separated real spectrum by {:e} (allowed {:e})", worst, allowed), input);
                    }
                }
            }
            Some(r)
        }
    }
}

// ------------------------------------------------------------------------------------------
// input families
// ------------------------------------------------------------------------------------------
fn zeros(n: usize) -> Mat {
    vec![vec![0.0; n]; n]
}
fn matmul(a: &Mat, b: &Mat) -> Mat {
    let n = a.len();
    let m = b[0].len();
    let k = b.len();
    (0..n).map(|i| (0..m).map(|j| (0..k).map(|t| a[i][t] * b[t][j]).sum()).collect()).collect()
}
fn transpose(a: &Mat) -> Mat {
    cols_of(a)
}
fn rand_entry(rng: &mut Rng, mode: usize) -> f64 {
    match mode {
        0 => rng.uniform(-1.0, 1.0),
        1 => rng.normal(),
        2 => rng.int(-3, 3) as f64,
        _ => rng.dyadic(4, 4),
    }
}
fn rand_mat(rng: &mut Rng, n: usize, m: usize) -> Mat {
    let mode = rng.below(4);
    (0..n).map(|_| (0..m).map(|_| rand_entry(rng, mode)).collect()).collect()
}
/// random orthogonal matrix: product of n Householder reflections
fn rand_orth(rng: &mut Rng, n: usize) -> Mat {
    let mut q = zeros(n);
    for i in 0..n {
        q[i][i] = 1.0;
    }
    for _ in 0..n.min(6).max(1) {
        let u: Vec<f64> = (0..n).map(|_| rng.normal()).collect();
        let nn: f64 = u.iter().map(|x| x * x).sum();
        if nn == 0.0 {
            continue;
        }
        // q <- q (I - 2 u u^T / nn)
        for i in 0..n {
            let s: f64 = (0..n).map(|k| q[i][k] * u[k]).sum::<f64>() * 2.0 / nn;
            for k in 0..n {
                q[i][k] -= s * u[k];
            }
        }
    }
    q
}
fn symmetrize(a: &mut Mat) {
    let n = a.len();
    for i in 0..n {
        for j in 0..i {
            a[i][j] = a[j][i];
        }
    }
}
fn scale_mat(a: &mut Mat, s: f64) {
    for r in a.iter_mut() {
        for x in r.iter_mut() {
            *x *= s;
        }
    }
}
fn pick_n(rng: &mut Rng) -> usize {
    match rng.below(10) {
        0 => rng.usize_in(1, 3),
        1..=4 => rng.usize_in(2, 8),
        5..=7 => rng.usize_in(9, 16),
        _ => rng.usize_in(17, 30),
    }
}
fn q_lam_qt(rng: &mut Rng, lam: &[f64]) -> Mat {
    let n = lam.len();
    let q = rand_orth(rng, n);
    let mut a = zeros(n);
    for i in 0..n {
        for j in i..n {
            a[i][j] = (0..n).map(|k| q[i][k] * lam[k] * q[j][k]).sum();
        }
    }
    symmetrize(&mut a);
    a
}
fn block_diag(blocks: &[Mat]) -> Mat {
    let n: usize = blocks.iter().map(|b| b.len()).sum();
    let mut a = zeros(n);
    let mut o = 0;
    for b in blocks {
        for i in 0..b.len() {
            for j in 0..b.len() {
                a[o + i][o + j] = b[i][j];
            }
        }
        o += b.len();
    }
    a
}
fn rand_sym(rng: &mut Rng, n: usize) -> Mat {
    let mut a = rand_mat(rng, n, n);
    symmetrize(&mut a);
    a
}

const SYM_FAMILIES: [&str; 10] =
    ["random", "repeated-eigenvalues", "diagonal", "block-diagonal", "rank-deficient", "scaled", "lattice", "tridiagonal", "special", "clustered"];

/// (matrix, constructed spectrum if known exactly enough)
fn gen_sym(rng: &mut Rng, family: &str, n: usize) -> (Mat, Option<Vec<f64>>) {
    match family {
        "random" => (rand_sym(rng, n), None),
        "repeated-eigenvalues" => {
            let k = rng.usize_in(1, 3.min(n));
            let vals: Vec<f64> = (0..k).map(|_| rng.int(-4, 4) as f64 * 0.5).collect();
            let lam: Vec<f64> = (0..n).map(|_| *rng.pick(&vals)).collect();
            (q_lam_qt(rng, &lam), Some(lam))
        }
        "diagonal" => {
            let mut a = zeros(n);
            let mode = rng.below(3);
            for i in 0..n {
                a[i][i] = match mode {
                    0 => rng.int(-3, 3) as f64,
                    1 => rng.uniform(-5.0, 5.0),
                    _ => (i as f64) - 2.0,
                };
            }
            let lam = (0..n).map(|i| a[i][i]).collect();
            (a, Some(lam))
        }
        "block-diagonal" => {
            let mut blocks = vec![];
            let mut left = n;
            while left > 0 {
                let b = rng.usize_in(1, left.min(5));
                blocks.push(if rng.chance(0.2) { zeros(b) } else { rand_sym(rng, b) });
                left -= b;
            }
            (block_diag(&blocks), None)
        }
        "rank-deficient" => {
            let r = rng.usize_in(0, n.saturating_sub(1));
            if r == 0 {
                return (zeros(n), Some(vec![0.0; n]));
            }
            let b = rand_mat(rng, n, r);
            let mut a = matmul(&b, &transpose(&b));
            symmetrize(&mut a);
            if rng.bool() {
                scale_mat(&mut a, -1.0);
            }
            (a, None)
        }
        "scaled" => {
            let (mut a, lam) = match rng.below(3) {
                0 => gen_sym(rng, "random", n),
                1 => gen_sym(rng, "repeated-eigenvalues", n),
                _ => gen_sym(rng, "rank-deficient", n),
            };
            let s = 10f64.powi(rng.int(-12, 12) as i32);
            scale_mat(&mut a, s);
            (a, lam.map(|l| l.iter().map(|x| x * s).collect()))
        }
        "lattice" => {
            let mut a = zeros(n);
            let hi = rng.int(1, 2);
            for i in 0..n {
                for j in i..n {
                    a[i][j] = rng.int(-hi, hi) as f64;
                }
            }
            symmetrize(&mut a);
            (a, None)
        }
        "tridiagonal" => {
            let mut a = zeros(n);
            let toeplitz = rng.bool();
            for i in 0..n {
                a[i][i] = if toeplitz { 2.0 } else { rng.int(-2, 2) as f64 };
                if i + 1 < n {
                    // zero off-diagonal entries split the problem (deflation at l)
                    let o = if toeplitz { -1.0 } else if rng.chance(0.25) { 0.0 } else { rng.uniform(-1.0, 1.0) };
                    a[i][i + 1] = o;
                    a[i + 1][i] = o;
                }
            }
            (a, None)
        }
        "special" => {
            let mut a = zeros(n);
            match rng.below(5) {
                0 => {
                    for i in 0..n {
                        for j in 0..n {
                            a[i][j] = 1.0;
                        }
                    }
                    let mut lam = vec![0.0; n];
                    lam[0] = n as f64;
                    (a, Some(lam))
                }
                1 => {
                    for i in 0..n {
                        a[i][i] = 1.0;
                    }
                    (a, Some(vec![1.0; n]))
                }
                2 => {
                    for i in 0..n {
                        a[i][n - 1 - i] = 1.0;
                    }
                    (a, None)
                }
                3 => {
                    for i in 0..n {
                        for j in 0..n {
                            a[i][j] = 1.0 / ((i + j + 1) as f64);
                        }
                    }
                    symmetrize(&mut a);
                    (a, None)
                }
                _ => {
                    // Wilkinson W_n^+: pairs of very close eigenvalues
                    let m = (n as f64 - 1.0) / 2.0;
                    for i in 0..n {
                        a[i][i] = (i as f64 - m).abs();
                        if i + 1 < n {
                            a[i][i + 1] = 1.0;
                            a[i + 1][i] = 1.0;
                        }
                    }
                    (a, None)
                }
            }
        }
        _ => {
            // clustered: eigenvalues 1 + k*delta for a tiny delta
            let delta = 10f64.powi(-(rng.int(6, 14) as i32));
            let lam: Vec<f64> = (0..n).map(|k| if rng.bool() { 1.0 + (k as f64) * delta } else { rng.uniform(-2.0, 2.0) }).collect();
            (q_lam_qt(rng, &lam), Some(lam))
        }
    }
}

thread_local! {
    /// largest algebraic multiplicity the last call of `gen_gen` built into its matrix (0 = unknown)
    static LAST_MULT: std::cell::Cell<usize> = std::cell::Cell::new(0);
}
fn max_repeat(xs: &[f64]) -> usize {
    xs.iter().map(|x| xs.iter().filter(|y| *y == x).count()).max().unwrap_or(0)
}
/// generator + what it knows by construction
fn gen_gen_info(rng: &mut Rng, family: &str, n: usize, f32m: bool) -> (Mat, Info) {
    LAST_MULT.with(|c| c.set(0));
    let (m, lam) = gen_gen(rng, family, n, f32m);
    (m, Info { lambda: lam, mult: LAST_MULT.with(|c| c.get()), family: family.to_string() })
}

const GEN_FAMILIES: [&str; 14] = [
    "random", "triangular", "companion", "rotation-blocks", "badly-balanced", "normal", "real-separated", "scaled", "lattice",
    "permutation", "symmetric-input", "sparse", "defective", "hessenberg",
];

fn rotation_blocks(rng: &mut Rng, n: usize) -> Mat {
    let mut blocks = vec![];
    let mut left = n;
    while left > 0 {
        if left >= 2 && rng.chance(0.7) {
            let th = rng.uniform(0.05, 3.09);
            let r = if rng.bool() { 1.0 } else { rng.uniform(0.2, 3.0) };
            blocks.push(vec![vec![r * th.cos(), -r * th.sin()], vec![r * th.sin(), r * th.cos()]]);
            left -= 2;
        } else {
            blocks.push(vec![vec![rng.uniform(-3.0, 3.0)]]);
            left -= 1;
        }
    }
    block_diag(&blocks)
}

fn gen_gen(rng: &mut Rng, family: &str, n: usize, f32m: bool) -> (Mat, Option<Vec<f64>>) {
    match family {
        "random" => (rand_mat(rng, n, n), None),
        "triangular" => {
            let mut a = rand_mat(rng, n, n);
            let upper = rng.bool();
            for i in 0..n {
                for j in 0..n {
                    if (upper && j < i) || (!upper && j > i) {
                        a[i][j] = 0.0;
                    }
                }
            }
            let dg: Vec<f64> = (0..n).map(|i| a[i][i]).collect();
            LAST_MULT.with(|c| c.set(max_repeat(&dg)));
            (a, None)
        }
        "companion" => {
            // monic polynomial with coefficients c_0..c_{n-1}: last column / first row form
            let mut a = zeros(n);
            let mode = rng.below(3);
            let coef: Vec<f64> = (0..n).map(|_| if mode == 0 { rng.int(-2, 2) as f64 } else { rng.uniform(-1.0, 1.0) }).collect();
            let top = rng.bool();
            for i in 0..n {
                if top {
                    a[0][i] = -coef[n - 1 - i];
                    if i + 1 < n {
                        a[i + 1][i] = 1.0;
                    }
                } else {
                    a[i][n - 1] = -coef[i];
                    if i + 1 < n {
                        a[i + 1][i] = 1.0;
                    }
                }
            }
            (a, None)
        }
        "rotation-blocks" => {
            let b = rotation_blocks(rng, n);
            if rng.bool() {
                // hide the block structure behind a permutation similarity
                let mut p: Vec<usize> = (0..n).collect();
                rng.shuffle(&mut p);
                let mut a = zeros(n);
                for i in 0..n {
                    for j in 0..n {
                        a[p[i]][p[j]] = b[i][j];
                    }
                }
                (a, None)
            } else {
                (b, None)
            }
        }
        "badly-balanced" => {
            let b = rand_mat(rng, n, n);
            let _ = f32m;
            let k: Vec<i32> = (0..n).map(|_| rng.int(-10, 10) as i32).collect();
            let mut a = zeros(n);
            for i in 0..n {
                for j in 0..n {
                    a[i][j] = b[i][j] * 2f64.powi(k[j] - k[i]);
                }
            }
            (a, None)
        }
        "normal" => {
            match rng.below(4) {
                0 => {
                    // skew-symmetric
                    let mut a = rand_mat(rng, n, n);
                    for i in 0..n {
                        a[i][i] = 0.0;
                        for j in 0..i {
                            a[i][j] = -a[j][i];
                        }
                    }
                    (a, None)
                }
                1 => {
                    // circulant
                    let c: Vec<f64> = (0..n).map(|_| rng.uniform(-1.0, 1.0)).collect();
                    ((0..n).map(|i| (0..n).map(|j| c[(j + n - i) % n]).collect()).collect(), None)
                }
                _ => {
                    // Q B Q^T with B rotation blocks (normal) and Q orthogonal
                    let b = rotation_blocks(rng, n);
                    let q = rand_orth(rng, n);
                    (matmul(&matmul(&q, &b), &transpose(&q)), None)
                }
            }
        }
        "real-separated" => {
            // X diag(lam) X^-1, X = Q1 diag(s) Q2 with s in [1,4] (cond <= 4), lam distinct with gaps >= 1/2
            let mut lam: Vec<f64> = (0..n).map(|k| (k as f64) * rng.uniform(0.5, 1.0) - (n as f64) / 4.0).collect();
            for k in 1..n {
                if lam[k] - lam[k - 1] < 0.5 {
                    lam[k] = lam[k - 1] + 0.5 + rng.uniform(0.0, 0.5);
                }
            }
            rng.shuffle(&mut lam);
            let q1 = rand_orth(rng, n);
            let q2 = rand_orth(rng, n);
            let s: Vec<f64> = (0..n).map(|_| rng.uniform(1.0, 4.0)).collect();
            // X = q1 diag(s) q2, X^-1 = q2^T diag(1/s) q1^T
            let mut x = zeros(n);
            let mut xi = zeros(n);
            for i in 0..n {
                for j in 0..n {
                    x[i][j] = (0..n).map(|k| q1[i][k] * s[k] * q2[k][j]).sum();
                    xi[i][j] = (0..n).map(|k| q2[k][i] / s[k] * q1[j][k]).sum();
                }
            }
            let mut xl = x.clone();
            for i in 0..n {
                for j in 0..n {
                    xl[i][j] = x[i][j] * lam[j];
                }
            }
            (matmul(&xl, &xi), Some(lam))
        }
        "scaled" => {
            let (mut a, lam) = match rng.below(4) {
                0 => gen_gen(rng, "random", n, f32m),
                1 => gen_gen(rng, "rotation-blocks", n, f32m),
                2 => gen_gen(rng, "real-separated", n, f32m),
                _ => gen_gen(rng, "triangular", n, f32m),
            };
            // ordinary scales only: the 1e-12..1e12 rescaling of the property is for symmetric inputs
            let s = 10f64.powi(rng.int(-3, 3) as i32);
            scale_mat(&mut a, s);
            (a, lam.map(|l| l.iter().map(|x| x * s).collect()))
        }
        "lattice" => {
            let hi = rng.int(1, 3);
            ((0..n).map(|_| (0..n).map(|_| rng.int(-hi, hi) as f64).collect()).collect(), None)
        }
        "permutation" => {
            let mut p: Vec<usize> = (0..n).collect();
            if rng.bool() {
                p.rotate_left(1); // one n-cycle: the textbook case that needs the exceptional shifts
            } else {
                rng.shuffle(&mut p);
            }
            let mut a = zeros(n);
            let w = if rng.bool() { 1.0 } else { rng.uniform(0.5, 2.0) };
            for i in 0..n {
                a[i][p[i]] = w;
            }
            (a, None)
        }
        "symmetric-input" => (rand_sym(rng, n), None),
        "sparse" => {
            // sparse off-diagonal integers, continuous diagonal (a zero diagonal makes most of these
            // matrices nilpotent, i.e. instances of the known finding without a constructed multiplicity)
            let dens = rng.uniform(0.1, 0.5);
            let mut a: Mat = (0..n).map(|_| (0..n).map(|_| if rng.chance(dens) { rng.int(-3, 3) as f64 } else { 0.0 }).collect()).collect();
            for i in 0..n {
                a[i][i] = rng.uniform(-3.0, 3.0);
            }
            (a, None)
        }
        "defective" => {
            // Jordan blocks, optionally behind a well-conditioned similarity
            let mut a = zeros(n);
            let mut i = 0;
            while i < n {
                let b = rng.usize_in(1, (n - i).min(4));
                let l = rng.int(-2, 2) as f64;
                for k in 0..b {
                    a[i + k][i + k] = l;
                    if k + 1 < b {
                        a[i + k][i + k + 1] = 1.0;
                    }
                }
                i += b;
            }
            let dg: Vec<f64> = (0..n).map(|i| a[i][i]).collect();
            LAST_MULT.with(|c| c.set(max_repeat(&dg)));
            if rng.bool() {
                let q = rand_orth(rng, n);
                (matmul(&matmul(&q, &a), &transpose(&q)), None)
            } else {
                (a, None)
            }
        }
        _ => {
            // upper Hessenberg, some sub-diagonal entries zero or tiny (deflation tests of hqr2),
            // sometimes with a zero diagonal (the `s == 0 -> anorm` branch of the deflation test)
            // (continuous entries there: an unreduced integer Hessenberg block with zero diagonal tends to have
            // an exactly repeated, hence defective, eigenvalue - an instance of the known finding)
            let mut a = rand_mat(rng, n, n);
            if rng.chance(0.3) {
                a = (0..n).map(|_| (0..n).map(|_| rng.uniform(-1.0, 1.0)).collect()).collect();
                for i in 0..n {
                    a[i][i] = 0.0;
                }
            }
            for i in 0..n {
                for j in 0..n {
                    if i > j + 1 {
                        a[i][j] = 0.0;
                    }
                }
                if i > 0 {
                    match rng.below(6) {
                        0 => a[i][i - 1] = 0.0,
                        1 => a[i][i - 1] *= 1e-14,
                        _ => {}
                    }
                }
            }
            (a, None)
        }
    }
}

// ------------------------------------------------------------------------------------------
// correspondence cases
// ------------------------------------------------------------------------------------------
fn small_vals(rng: &mut Rng, n: usize, with_nan: bool) -> Vec<f64> {
    let mode = rng.below(4);
    (0..n)
        .map(|_| match mode {
            0 => rng.int(-2, 2) as f64,
            1 => rng.uniform(-3.0, 3.0),
            2 => {
                if with_nan && rng.chance(0.15) {
                    f64::NAN
                } else if rng.chance(0.1) {
                    f64::INFINITY
                } else if rng.chance(0.1) {
                    -0.0
                } else {
                    rng.int(-1, 1) as f64
                }
            }
            _ => rng.dyadic(2, 2),
        })
        .collect()
}

fn corr_sort_case(out: &mut Out, d: &[f64], e: &[f64], v: &Mat, group: &str) {
    let n = d.len();
    let (d0, e0, v0) = (d.to_vec(), e.to_vec(), v.clone());
    let res = guard(|| {
        let mut dd = d0.clone();
        let mut ee = e0.clone();
        let mut vv: DenseMatrix<f64> = to_dense(&v0);
        verif_sort(&mut dd, &mut ee, &mut vv);
        (dd, ee, from_dense(&vv))
    });
    let input = json!({"entry": "sort", "n": n, "d": d.iter().map(|x| hex_f64(*x)).collect::<Vec<_>>(), "e": e.iter().map(|x| hex_f64(*x)).collect::<Vec<_>>(), "V": v.iter().map(|r| r.iter().map(|x| hex_f64(*x)).collect::<Vec<_>>()).collect::<Vec<_>>()});
    match res {
        Err(msg) => out.fail("sort_panic", &format!("evd::sort panicked: {}", msg), input),
        Ok((xd, xe, xv)) => {
            // the theorem's conclusion on the implementation's result: a joint permutation
            let mut before: Vec<Vec<u64>> = (0..n).map(|j| std::iter::once(d[j]).chain(std::iter::once(e[j])).chain((0..n).map(|k| v[k][j])).map(|x| if x.is_nan() { u64::MAX } else { x.to_bits() }).collect()).collect();
            let mut after: Vec<Vec<u64>> = (0..n).map(|j| std::iter::once(xd[j]).chain(std::iter::once(xe[j])).chain((0..n).map(|k| xv[k][j])).map(|x| if x.is_nan() { u64::MAX } else { x.to_bits() }).collect()).collect();
            before.sort();
            after.sort();
            if before != after {
                out.fail("sort_joint_perm", "the (d, e, column) triples after evd::sort are not a permutation of the triples before", input.clone());
            }
            out.corr(
                group,
                format!(
                    "corr_sort {} {} {} {} {} {}",
                    coq_list_f64(d), coq_list_f64(e), coq_rows_f64(&cols_of(v)), coq_list_f64(&xd), coq_list_f64(&xe), coq_rows_f64(&cols_of(&xv))
                ),
                input,
            );
        }
    }
}

fn corr_tql2_sort_case(out: &mut Out, d: &[f64], v: &Mat) {
    let n = d.len();
    let (d0, v0) = (d.to_vec(), v.clone());
    let res = guard(|| {
        let mut dd = d0.clone();
        let mut ee = vec![0.0f64; n];
        let mut vv: DenseMatrix<f64> = to_dense(&v0);
        verif_tql2(&mut vv, &mut dd, &mut ee);
        (dd, ee, from_dense(&vv))
    });
    let input = json!({"entry": "tql2_sort", "n": n, "d": d, "V": v});
    match res {
        Err(msg) => out.fail("tql2_sort_panic", &format!("tql2 on a diagonal problem panicked: {}", msg), input),
        Ok((xd, xe, xv)) => {
            if !(0..n.saturating_sub(1)).all(|j| xd[j + 1] <= xd[j]) || xe.iter().any(|x| *x != 0.0) {
                out.fail("tql2_sort_desc", "d is not non-increasing after the tail of tql2", input.clone());
            }
            out.corr(
                "tql2_sort",
                format!("corr_tql2_sort {} {} {} {}", coq_list_f64(d), coq_rows_f64(&cols_of(v)), coq_list_f64(&xd), coq_rows_f64(&cols_of(&xv))),
                input,
            );
        }
    }
}

fn corr_balance_case(out: &mut Out, a: &Mat, group: &str) {
    let a0 = a.clone();
    let res = with_watchdog(20, move || {
        let mut m: DenseMatrix<f64> = to_dense(&a0);
        let s = verif_balance(&mut m);
        (from_dense(&m), s)
    });
    let input = json!({"entry": "balance", "a": a});
    match res {
        Some(Ok((xa, xs))) => {
            // conclusion of the similarity theorem on the implementation's result (exact: powers of two)
            let n = a.len();
            let mut ok = true;
            for i in 0..n {
                for j in 0..n {
                    let want = a[i][j] * xs[j] / xs[i];
                    if !(xa[i][j] == want || (want.is_nan() && xa[i][j].is_nan())) {
                        ok = false;
                    }
                }
            }
            if !ok && all_finite(&xa) && xa.iter().flatten().all(|x| *x == 0.0 || x.abs() > 1e-290) {
                out.fail("balance_similarity", "balanced matrix is not D^-1 A D for the returned scale", input.clone());
            }
            out.corr(group, format!("corr_balance {} {} {}", coq_rows_f64(a), coq_rows_f64(&xa), coq_list_f64(&xs)), input);
        }
        _ => out.fail("balance_panic", "balance panicked or did not terminate", input),
    }
}

fn corr_balbak_case(out: &mut Out, v: &Mat, s: &[f64], group: &str) {
    let (v0, s0) = (v.clone(), s.to_vec());
    if let Ok(xv) = guard(|| {
        let mut m: DenseMatrix<f64> = to_dense(&v0);
        verif_balbak(&mut m, &s0);
        from_dense(&m)
    }) {
        out.corr(group, format!("corr_balbak {} {} {}", coq_rows_f64(v), coq_list_f64(s), coq_rows_f64(&xv)), json!({"entry": "balbak", "v": v, "scale": s}));
    }
}

fn corr_hqr2_case(out: &mut Out, a: &Mat) {
    let a0 = a.clone();
    let res = guard(|| {
        let mut m: DenseMatrix<f64> = to_dense(&a0);
        let mut v: DenseMatrix<f64> = DenseMatrix::eye(2);
        let mut d = vec![0.0f64; 2];
        let mut e = vec![0.0f64; 2];
        verif_hqr2(&mut m, &mut v, &mut d, &mut e);
        (d, e)
    });
    let input = json!({"entry": "hqr2_2x2", "a": a});
    match res {
        Err(msg) => out.fail("hqr2_2x2_panic", &format!("hqr2 panicked on a 2x2 matrix: {}", msg), input),
        Ok((d, e)) => out.corr(
            "hqr2_2x2",
            format!("corr_hqr2_2x2 {} {} {} {} {} {}", coq_f64(a[0][0]), coq_f64(a[0][1]), coq_f64(a[1][0]), coq_f64(a[1][1]), coq_list_f64(&d), coq_list_f64(&e)),
            input,
        ),
    }
}


/// tred2 through the wrapper: (rows of V, d, e) as the implementation leaves them
fn run_tred2(a: &Mat) -> Result<(Mat, Vec<f64>, Vec<f64>), String> {
    let a0 = a.clone();
    guard(move || {
        let n = a0.len();
        let mut v: DenseMatrix<f64> = to_dense(&a0);
        let mut d = vec![0.0f64; n];
        let mut e = vec![0.0f64; n];
        verif_tred2(&mut v, &mut d, &mut e);
        (from_dense(&v), d, e)
    })
}

/// tred2: the Gallina transliteration must reproduce (V, d, e) bit for bit; the conclusion of
/// C02_tred2_tridiagonalises (V^T V = I, A V = V tridiag(d, e)) is also evaluated on the
/// implementation's result, up to rounding
fn corr_tred2_case(out: &mut Out, a: &Mat, group: &str) {
    let n = a.len();
    let input = json!({"entry": "tred2", "a": a});
    match run_tred2(a) {
        Err(msg) => out.fail("tred2_panic", &format!("tred2 panicked: {}", msg), input),
        Ok((xv, xd, xe)) => {
            if all_finite(&xv) && xd.iter().chain(xe.iter()).all(|x| x.is_finite()) {
                let scale = maxabs(a).max(f64::MIN_POSITIVE);
                let tol = 256.0 * (n as f64) * EPS64;
                let mut worst = 0.0f64;
                for i in 0..n {
                    for j in 0..n {
                        let g = dot2((0..n).map(|k| (xv[k][i], xv[k][j]))) - if i == j { 1.0 } else { 0.0 };
                        worst = worst.max(g.abs());
                        // (A V)_ij - (V T)_ij
                        let av = dot2((0..n).map(|k| (a[i][k], xv[k][j])));
                        let mut vt = xv[i][j] * xd[j];
                        if j >= 1 {
                            vt += xv[i][j - 1] * xe[j];
                        }
                        if j + 1 < n {
                            vt += xv[i][j + 1] * xe[j + 1];
                        }
                        worst = worst.max((av - vt).abs() / scale);
                    }
                }
                out.count("corr:tred2-conclusion-evaluated");
                if worst > tol && maxabs(a) > 1e-290 && maxabs(a) < 1e150 {
                    out.fail("tred2_similarity", &format!("tred2: V^T V = I / A V = V T violated by {:e} (allowed {:e})", worst, tol), input.clone());
                }
            }
            out.corr(group, format!("corr_tred2 {} {} {} {}", coq_rows_f64(a), coq_rows_f64(&xv), coq_list_f64(&xd), coq_list_f64(&xe)), input);
        }
    }
}

/// tql2 as a whole on the state tred2 leaves: model (QL sweeps with sqrt(a^2+b^2) for hypot, then the
/// final sort) against the implementation, by tolerance and up to the sign of each column.  Only
/// spectra that are well separated relative to the tolerance are sent (otherwise neither the order
/// nor the vectors are determined); the others are counted.
fn corr_tql2_case(out: &mut Out, a: &Mat) {
    let n = a.len();
    let (v, d, e) = match run_tred2(a) {
        Ok(t) => t,
        Err(_) => return,
    };
    let (v0, d0, e0) = (v.clone(), d.clone(), e.clone());
    let res = guard(move || {
        let mut vv: DenseMatrix<f64> = to_dense(&v0);
        let mut dd = d0.clone();
        let mut ee = e0.clone();
        verif_tql2(&mut vv, &mut dd, &mut ee);
        (from_dense(&vv), dd, ee)
    });
    let input = json!({"entry": "tql2", "a": a, "V": v, "d": d, "e": e});
    match res {
        Err(_) => out.count("corr:tql2-skipped-panic"), // reported by the search oracle
        Ok((xv, xd, _xe)) => {
            let scale = d.iter().chain(e.iter()).fold(0.0f64, |m, x| m.max(x.abs()));
            let sep = (0..n.saturating_sub(1)).all(|j| xd[j] - xd[j + 1] >= 0.02 * scale);
            if !(all_finite(&xv) && xd.iter().all(|x| x.is_finite()) && scale > 1e-3 && scale < 1e3 && sep) {
                out.count("corr:tql2-skipped-close-eigenvalues");
                return;
            }
            out.corr(
                "tql2",
                format!("corr_tql2 (0x1p-30)%float {} {} {} {} {}", coq_rows_f64(&v), coq_list_f64(&d), coq_list_f64(&e), coq_rows_f64(&xv), coq_list_f64(&xd)),
                input,
            );
        }
    }
}

/// elmhes and eltran through the wrappers, bit-exact against the models
fn corr_hess_case(out: &mut Out, a: &Mat, group: &str) {
    let n = a.len();
    if n == 0 {
        return;
    }
    let a0 = a.clone();
    let res = guard(move || {
        let mut m: DenseMatrix<f64> = to_dense(&a0);
        let perm = verif_elmhes(&mut m);
        let mut v: DenseMatrix<f64> = DenseMatrix::eye(n);
        verif_eltran(&m, &mut v, &perm);
        (from_dense(&m), perm, from_dense(&v))
    });
    let input = json!({"entry": "elmhes", "a": a});
    match res {
        Err(msg) => out.fail("elmhes_panic", &format!("elmhes/eltran panicked: {}", msg), input),
        Ok((xa, perm, xv)) => {
            out.corr(&format!("elmhes{}", group), format!("corr_elmhes {} {} {}", coq_rows_f64(a), coq_rows_f64(&xa), coq_list_n(&perm)), input.clone());
            out.corr(&format!("eltran{}", group), format!("corr_eltran {} {} {}", coq_rows_f64(&xa), coq_list_n(&perm), coq_rows_f64(&xv)), json!({"entry": "eltran", "a": xa, "perm": perm}));
            if n <= 6 && all_finite(&xa) && all_finite(&xv) {
                corr_hqr2_full_case(out, &xa, &xv, &format!("hqr2{}", if group.is_empty() { "@elmhes-output" } else { group }));
            }
        }
    }
}


/// hqr2 as a whole through the wrapper, bit-exact against the model (working array, V, d, e); a panic
/// of the implementation must be a `None` of the model
fn corr_hqr2_full_case(out: &mut Out, a: &Mat, v: &Mat, group: &str) {
    let n = a.len();
    if n == 0 {
        return;
    }
    let (a0, v0) = (a.clone(), v.clone());
    let res = with_watchdog(20, move || {
        guard(move || {
            let mut m: DenseMatrix<f64> = to_dense(&a0);
            let mut vv: DenseMatrix<f64> = to_dense(&v0);
            let mut d = vec![0.0f64; n];
            let mut e = vec![0.0f64; n];
            verif_hqr2(&mut m, &mut vv, &mut d, &mut e);
            (from_dense(&m), from_dense(&vv), d, e)
        })
    });
    let input = json!({"entry": "hqr2", "a": a, "v": v});
    match res {
        Some(Ok(Ok((xa, xv, xd, xe)))) => out.corr(
            group,
            format!("corr_hqr2 {} {} {} {} {} {}", coq_rows_f64(a), coq_rows_f64(v), coq_rows_f64(&xa), coq_rows_f64(&xv), coq_list_f64(&xd), coq_list_f64(&xe)),
            input,
        ),
        Some(Ok(Err(_))) => out.corr(&format!("{}:panic", group), format!("corr_hqr2_panics {} {}", coq_rows_f64(a), coq_rows_f64(v)), input),
        _ => out.count("corr:hqr2-skipped-watchdog"),
    }
}


/// evd(false) end to end against the composed model (bit-exact on V, d, e; a panic must be a `None`)
fn corr_evd_gen_case(out: &mut Out, a: &Mat) {
    if a.is_empty() {
        return;
    }
    let input = json!({"entry": "evd_gen_model", "a": a});
    match run_evd(a, false, false) {
        Ok(r) => out.corr("evd_gen_model", format!("corr_evd_gen {} {} {} {}", coq_rows_f64(a), coq_rows_f64(&r.V), coq_list_f64(&r.d), coq_list_f64(&r.e)), input),
        Err(msg) => {
            if msg.contains("Too many iterations in hqr") {
                out.corr("evd_gen_model:panic", format!("corr_evd_gen_panics {}", coq_rows_f64(a)), input)
            } else {
                out.count("corr:evd_gen_model-skipped-other-error")
            }
        }
    }
}

/// run the stages of evd(false) one by one, require that they reproduce evd(false) bit for bit, and
/// hand the intermediate states to the models
fn corr_staged(out: &mut Out, rows: &Mat, with_models: bool) {
    let a = rows.clone();
    let input = json!({"entry": "staged", "a": rows});
    let r0 = rows.clone();
    let st = match guard(move || staged_t::<f64>(&r0)) {
        Ok(s) => s,
        Err(_) => return, // a panic of the pipeline is reported by the search oracle
    };
    match run_evd(&a, false, false) {
        Ok(r) => {
            out.count("search:staged-pipeline-equals-evd");
            if !(same_bits(&r.d, &st.fin.d) && same_bits(&r.e, &st.fin.e) && same_mat(&r.V, &st.fin.V)) {
                out.fail("staged_pipeline", "balance; elmhes; eltran; hqr2; balbak; sort run through the verification wrappers differs from evd(false)", input);
                return;
            }
        }
        Err(_) => return,
    }
    if with_models {
        corr_balance_case(out, &a, "balance@impl-state");
        corr_balbak_case(out, &st.v_pre, &st.scale, "balbak@impl-state");
        if all_finite(&st.v_bak) {
            corr_sort_case(out, &st.d_pre, &st.e_pre, &st.v_bak, "sort@impl-state");
        }
        corr_hess_case(out, &st.a_bal, "@impl-state");
    }
}

fn corrupt(rng: &mut Rng, r: &Evd, symmetric: bool) -> (Evd, &'static str) {
    let n = r.d.len();
    let mut c = r.clone();
    let scale = r.d.iter().fold(0.0f64, |m, x| m.max(x.abs())).max(1e-300);
    let vs = maxabs(&r.V).max(1e-300);
    match rng.below(if symmetric { 5 } else { 6 }) {
        0 => {
            let j = rng.below(n);
            c.d[j] += 1e-3 * scale;
            (c, "eigenvalue perturbed")
        }
        1 => {
            let (i, j) = (rng.below(n), rng.below(n));
            c.V[i][j] += 1e-3 * vs;
            (c, "eigenvector entry perturbed")
        }
        2 if n >= 2 => {
            c.d.swap(0, n - 1);
            (c, "eigenvalues swapped without their vectors")
        }
        3 if n >= 2 => {
            let (i, j) = (0, n - 1);
            for k in 0..n {
                let t = c.V[k][i];
                c.V[k][i] = c.V[k][j];
                c.V[k][j] = t;
            }
            (c, "eigenvector columns swapped without their values")
        }
        4 => {
            let j = rng.below(n);
            for k in 0..n {
                c.V[k][j] = 0.0;
            }
            (c, "eigenvector column zeroed")
        }
        _ => {
            let j = rng.below(n);
            c.e[j] += 0.5 * scale;
            (c, "imaginary part perturbed")
        }
    }
}

fn corr_validator_sym(out: &mut Out, rng: &mut Rng, a: &Mat, r: &Evd, f32m: bool) {
    let n = a.len();
    let tol = tol_sym(n, f32m);
    let (cand, what) = if rng.chance(0.4) { corrupt(rng, r, true) } else { (r.clone(), "as returned") };
    let v = check_evd_sym(tol, a, &cand.V, &cand.d, &cand.e);
    if v.borderline() {
        out.count("corr:validator-sym:skipped-borderline");
        return;
    }
    out.count(&format!("corr:validator-sym:verdict-{}", v.ok));
    out.corr(
        "check_evd_sym",
        format!("corr_check_sym {} {} {} {} {} {}", coq_f64(tol), coq_rows_f64(a), coq_rows_f64(&cand.V), coq_list_f64(&cand.d), coq_list_f64(&cand.e), coq_bool(v.ok)),
        json!({"entry": "validator_sym", "a": a, "f32": f32m, "candidate": what, "twin_verdict": v.ok, "twin_ratio": v.ratio}),
    );
}
fn corr_validator_gen(out: &mut Out, rng: &mut Rng, a: &Mat, r: &Evd, f32m: bool) {
    let n = a.len();
    let (t1, t2, tv) = tols_gen(n, f32m);
    let (cand, what) = if rng.chance(0.4) { corrupt(rng, r, false) } else { (r.clone(), "as returned") };
    let (b, y, s) = balanced_view(a, &cand.V, &cand.e, f32m);
    let (a, cand) = (&b, Evd { d: cand.d.clone(), e: cand.e.clone(), V: y });
    let v = check_evd_gen(t1, t2, tv, a, &cand.V, &cand.d, &cand.e);
    if v.borderline() {
        out.count("corr:validator-gen:skipped-borderline");
        return;
    }
    out.count(&format!("corr:validator-gen:verdict-{}", v.ok));
    out.corr(
        "check_evd_gen",
        format!(
            "corr_check_gen {} {} {} {} {} {} {} {}",
            coq_f64(t1), coq_f64(t2), coq_f64(tv), coq_rows_f64(a), coq_rows_f64(&cand.V), coq_list_f64(&cand.d), coq_list_f64(&cand.e), coq_bool(v.ok)
        ),
        json!({"entry": "validator_gen", "balanced_a": a, "scale": s, "f32": f32m, "candidate": what, "twin_verdict": v.ok, "twin_ratio": v.ratio}),
    );
}

// ------------------------------------------------------------------------------------------
fn replay(path: &str) -> i32 {
    let v = read_replay(path);
    let inp = if v.get("input").is_some() { v["input"].clone() } else { v.clone() };
    let mut out = Out::new("C02", "replay");
    let mut cal = Calib::new();
    let f32m = inp["f32"].as_bool().unwrap_or(false);
    let lambda = Info {
        lambda: if inp["real_spectrum"].is_array() { Some(f64s_from_json(&inp["real_spectrum"])) } else { None },
        mult: inp["multiplicity"].as_u64().unwrap_or(0) as usize,
        family: inp["family"].as_str().unwrap_or("").to_string(),
    };
    let unhex = |v: &Value| -> Vec<f64> { v.as_array().map(|a| a.iter().map(|x| f64::from_bits(u64::from_str_radix(x.as_str().unwrap_or("0"), 16).unwrap_or(0))).collect()).unwrap_or_default() };
    match inp["entry"].as_str().unwrap_or("") {
        "sym" => {
            oracle_sym(&mut out, &mut cal, &rows_from_json(&inp["a"]), f32m, "replay", &lambda);
        }
        "gen" => {
            oracle_gen(&mut out, &mut cal, &rows_from_json(&inp["a"]), f32m, "replay", &lambda);
        }
        "staged" => corr_staged(&mut out, &rows_from_json(&inp["a"]), false),
        "balance" => corr_balance_case(&mut out, &rows_from_json(&inp["a"]), "replay"),
        "sort" => {
            let v: Mat = inp["V"].as_array().map(|a| a.iter().map(|r| unhex(r)).collect()).unwrap_or_default();
            corr_sort_case(&mut out, &unhex(&inp["d"]), &unhex(&inp["e"]), &v, "replay");
        }
        "tql2_sort" => corr_tql2_sort_case(&mut out, &f64s_from_json(&inp["d"]), &rows_from_json(&inp["V"])),
        "hqr2_2x2" => corr_hqr2_case(&mut out, &rows_from_json(&inp["a"])),
        "tred2" => corr_tred2_case(&mut out, &rows_from_json(&inp["a"]), "replay"),
        "tql2" => corr_tql2_case(&mut out, &rows_from_json(&inp["a"])),
        "elmhes" => corr_hess_case(&mut out, &rows_from_json(&inp["a"]), "@replay"),
        "evd_gen_model" => corr_evd_gen_case(&mut out, &rows_from_json(&inp["a"])),
        "hqr2" => corr_hqr2_full_case(&mut out, &rows_from_json(&inp["a"]), &rows_from_json(&inp["v"]), "hqr2@replay"),
        _ => {
            eprintln!("unknown replay entry");
            return 2;
        }
    }
    if out.n_fail() > 0 {
        println!("REPLAY: property=C02 still fails: {}", path);
        1
    } else {
        println!("REPLAY: property=C02 passes: {}", path);
        0
    }
}

fn main() {
    quiet_panics();
    let a = args();
    if let Some(p) = &a.replay {
        std::process::exit(replay(p));
    }
    let mut rng = Rng::new(a.seed);
    let mut out = Out::new(
        "C02",
        "search case = (square matrix, symmetric flag, float width); the predicate is the Rust twin of the Coq validators check_evd_sym / check_evd_gen on the result of evd(); non-trivial: order >= 3; distinct by hash of (entries, flag, width)",
    );
    let mut cal = Calib::new();

    // ---- corpus: D4 (an eigenvalue that moves to position 0 made `sort` overflow in debug builds) ----
    let d4: Vec<Mat> = vec![
        vec![vec![1.0, 0.0], vec![0.0, 2.0]],
        vec![vec![0.0, 1.0, 0.0], vec![0.0, 0.0, 1.0], vec![-6.0, 11.0, -6.0]],
        vec![vec![0.9, 0.4, 0.7], vec![0.4, 0.5, 0.3], vec![0.8, 0.3, 0.8]],
        vec![vec![3.0, -2.0, 1.0, 1.0], vec![4.0, -1.0, 1.0, 1.0], vec![1.0, 1.0, 3.0, -2.0], vec![1.0, 1.0, 4.0, -1.0]],
    ];
    for m in &d4 {
        oracle_gen(&mut out, &mut cal, m, false, "corpus", &Info::default());
        oracle_gen(&mut out, &mut cal, m, true, "corpus", &Info::default());
        corr_staged(&mut out, m, true);
    }
    corr_sort_case(&mut out, &[1.0, 2.0], &[0.0, 0.0], &vec![vec![1.0, 0.0], vec![0.0, 1.0]], "sort");
    // the two known findings, on their minimal inputs
    let jordan4 = vec![vec![1.0, 0.0, 0.0, 0.0], vec![-1.0, 1.0, 0.0, 0.0], vec![-2.0, 1.0, 1.0, 0.0], vec![2.0, -1.0, 1.0, 1.0]];
    oracle_gen(&mut out, &mut cal, &jordan4, false, "corpus", &Info { lambda: None, mult: 4, family: "defective".into() });
    let comp4 = vec![vec![0.0, 0.0, 0.0, -2.0], vec![1.0, 0.0, 0.0, -2.0], vec![0.0, 1.0, 0.0, 1.0], vec![0.0, 0.0, 1.0, 2.0]];
    oracle_gen(&mut out, &mut cal, &comp4, false, "corpus", &Info { lambda: None, mult: 0, family: "companion".into() });
    // hqr2 on the states these two reach: the model must panic (None) exactly when the code does
    for m0 in [&jordan4, &comp4] {
        corr_hess_case(&mut out, m0, "");
        let m1 = (*m0).clone();
        if let Ok(b) = guard(move || {
            let mut m: DenseMatrix<f64> = to_dense(&m1);
            let _ = verif_balance(&mut m);
            from_dense(&m)
        }) {
            corr_hess_case(&mut out, &b, "");
        }
    }
    // known finding hqr2-f32-repeated-eigenvalue-nonfinite on its recorded input (corpus file, both tiers)
    {
        let path = "/verif/corpus/C02/known_hqr2_f32_repeated_eigenvalue_nonfinite.json";
        let m = if std::path::Path::new(path).exists() { rows_from_json(&read_replay(path)["input"]["a"]) } else { vec![] };
        if m.len() == 9 {
            oracle_gen(&mut out, &mut cal, &m, true, "corpus", &Info { lambda: None, mult: 0, family: "hessenberg".into() });
        } else {
            out.count("search:corpus-file-missing:known_hqr2_f32_repeated_eigenvalue_nonfinite");
        }
    }
    // known finding hqr2-f32-eigenvector-underflow on its recorded input (corpus file, both tiers)
    {
        let path = "/verif/corpus/C02/known_hqr2_f32_eigenvector_underflow.json";
        let m = if std::path::Path::new(path).exists() { rows_from_json(&read_replay(path)["input"]["a"]) } else { vec![] };
        if m.len() == 21 {
            oracle_gen(&mut out, &mut cal, &m, true, "corpus", &Info { lambda: None, mult: 0, family: "hessenberg".into() });
        } else {
            out.count("search:corpus-file-missing:known_hqr2_f32_eigenvector_underflow");
        }
    }
    let ones28: Mat = vec![vec![1.0; 28]; 28];
    oracle_sym(&mut out, &mut cal, &ones28, true, "corpus", &Info::default());
    oracle_sym(&mut out, &mut cal, &ones28, false, "corpus", &Info::default());
    let tsym = vec![vec![0.9, 0.4, 0.7], vec![0.4, 0.5, 0.3], vec![0.7, 0.3, 0.8]];
    oracle_sym(&mut out, &mut cal, &tsym, false, "corpus", &Info::default());

    // ---- correspondence: modelled helpers on random inputs ----
    let k = if a.thorough { 6 } else { 2 };
    for _ in 0..40 * k {
        let n = rng.usize_in(1, 7);
        let d = small_vals(&mut rng, n, true);
        let e = small_vals(&mut rng, n, false);
        let v: Mat = (0..n).map(|_| (0..n).map(|_| rng.int(-9, 9) as f64).collect()).collect();
        corr_sort_case(&mut out, &d, &e, &v, "sort");
    }
    for _ in 0..30 * k {
        let n = rng.usize_in(1, 7);
        let d: Vec<f64> = small_vals(&mut rng, n, false);
        let v: Mat = (0..n).map(|_| (0..n).map(|_| rng.int(-9, 9) as f64).collect()).collect();
        corr_tql2_sort_case(&mut out, &d, &v);
    }
    for i in 0..30 * k {
        let n = rng.usize_in(1, 6);
        let fam = ["random", "badly-balanced", "sparse", "lattice", "triangular", "scaled"][i % 6];
        let (m, _) = gen_gen(&mut rng, fam, n, false);
        corr_balance_case(&mut out, &m, "balance");
    }
    for _ in 0..12 * k {
        let n = rng.usize_in(1, 6);
        let v = rand_mat(&mut rng, n, n);
        let s: Vec<f64> = (0..n).map(|_| 2f64.powi(rng.int(-20, 20) as i32)).collect();
        corr_balbak_case(&mut out, &v, &s, "balbak");
    }
    for i in 0..40 * k {
        let mode = i % 5;
        let mut m: Mat = (0..2).map(|_| (0..2).map(|_| match mode { 0 => rng.int(-4, 4) as f64, 1 => rng.dyadic(3, 3), _ => rng.uniform(-2.0, 2.0) }).collect()).collect();
        if mode == 3 {
            m[1][0] *= 1e-17; // negligible sub-diagonal: two single roots
        }
        if mode == 4 {
            m[0][0] = -0.0; // p = -0.0 or +0.0 : copysign on a signed zero
            m[1][1] = 0.0;
            if rng.bool() {
                m[1][1] = m[0][0];
            }
        }
        corr_hqr2_case(&mut out, &m);
    }
    // ---- correspondence: tred2 (bit-exact), tql2 (tolerance), elmhes/eltran (bit-exact) ----
    for i in 0..24 * k {
        let n = rng.usize_in(1, 7);
        let fam = ["random", "lattice", "diagonal", "block-diagonal", "tridiagonal", "rank-deficient", "scaled", "repeated-eigenvalues"][i % 8];
        let (mut m, _) = gen_sym(&mut rng, fam, n);
        if i % 5 == 4 && n >= 3 {
            // a row that is zero left of the diagonal: the `scale == 0` branch of tred2
            let r = rng.usize_in(1, n - 1);
            for j in 0..r {
                m[r][j] = 0.0;
                m[j][r] = 0.0;
            }
        }
        corr_tred2_case(&mut out, &m, "tred2");
    }
    for _ in 0..16 * k {
        let n = rng.usize_in(1, 6);
        // distinct integer eigenvalues: well separated
        let mut pool: Vec<i64> = (-9..=9).collect();
        let mut lam = Vec::new();
        for _ in 0..n {
            let idx = rng.usize_in(0, pool.len() - 1);
            lam.push(pool.remove(idx) as f64);
        }
        let m = q_lam_qt(&mut rng, &lam);
        corr_tql2_case(&mut out, &m);
    }
    for i in 0..20 * k {
        let n = rng.usize_in(1, 7);
        let fam = ["random", "lattice", "sparse", "triangular", "companion", "badly-balanced"][i % 6];
        let (m, _) = gen_gen(&mut rng, fam, n, false);
        corr_hess_case(&mut out, &m, "");
    }
    // (the cases below draw from their own generator so that the inputs of the search stay what they were)
    let mut rng2 = Rng::new(a.seed ^ 0x6871_7232_5f63_3032);
    // ---- correspondence: hqr2 as a whole (bit-exact) on upper Hessenberg inputs with V = I ----
    for i in 0..24 * k {
        let n = rng2.usize_in(1, 6);
        let fam = ["random", "lattice", "rotation-blocks", "triangular", "companion", "hessenberg", "real-separated", "normal"][i % 8];
        let (mut m, _) = gen_gen(&mut rng2, fam, n, false);
        for r in 0..n {
            for c in 0..n {
                if r > c + 1 {
                    m[r][c] = 0.0;
                }
            }
        }
        let eye: Mat = (0..n).map(|r| (0..n).map(|c| if r == c { 1.0 } else { 0.0 }).collect()).collect();
        corr_hqr2_full_case(&mut out, &m, &eye, "hqr2");
    }
    // ---- correspondence: evd(false) end to end against the composed model ----
    corr_evd_gen_case(&mut out, &jordan4);
    corr_evd_gen_case(&mut out, &comp4);
    for i in 0..28 * k {
        let n = rng2.usize_in(1, 6);
        let fam = GEN_FAMILIES[i % GEN_FAMILIES.len()];
        let (m, _) = gen_gen(&mut rng2, fam, n, false);
        corr_evd_gen_case(&mut out, &m);
    }
    // ---- correspondence: hqr2 on inputs that drive the overflow-guard rescaling of the back-substitution
    //      (close eigenvalues, huge couplings: components beyond 1/sqrt(eps)), real and complex blocks ----
    for i in 0..6 * k {
        let n = rng2.usize_in(3, 6);
        let big = [1e6, 1e9, 1e12][i % 3];
        let eye: Mat = (0..n).map(|r| (0..n).map(|c| if r == c { 1.0 } else { 0.0 }).collect()).collect();
        let mut m = zeros(n);
        for r in 0..n {
            m[r][r] = 1.0 + 1e-3 * (r as f64) + 1e-4 * rng2.uniform(0.0, 1.0);
            for c in r + 1..n {
                m[r][c] = big * rng2.uniform(0.5, 1.0);
            }
        }
        corr_hqr2_full_case(&mut out, &m, &eye, "hqr2:overflow-guard");
        // the same with 2x2 rotation-like diagonal blocks (complex pairs)
        let nb = n - n % 2;
        let mut mc = zeros(n);
        for r in 0..n {
            for c in r..n {
                mc[r][c] = big * rng2.uniform(0.5, 1.0);
            }
            mc[r][r] = 1.0 + 1e-3 * ((r / 2) as f64);
        }
        for b in (0..nb).step_by(2) {
            mc[b][b + 1] = 1.0;
            mc[b + 1][b] = -1.0 - 1e-4 * rng2.uniform(0.0, 1.0);
            mc[b + 1][b + 1] = mc[b][b];
        }
        corr_hqr2_full_case(&mut out, &mc, &eye, "hqr2:overflow-guard");
    }
    // ---- correspondence: stages of evd(false) on the implementation's own state ----
    for i in 0..30 * k {
        let n = rng.usize_in(1, 6);
        let fam = GEN_FAMILIES[i % GEN_FAMILIES.len()];
        let (m, _) = gen_gen(&mut rng, fam, n, false);
        corr_staged(&mut out, &m, true);
    }
    // ---- correspondence: implementation outputs re-decided by the Coq validators ----
    for i in 0..36 * k {
        let n = rng.usize_in(1, 6);
        let f32m = i % 4 == 3;
        let fam = SYM_FAMILIES[i % SYM_FAMILIES.len()];
        let (m, _) = gen_sym(&mut rng, fam, n);
        let m = narrow(&m, f32m);
        if let Ok(r) = run_evd(&m, true, f32m) {
            corr_validator_sym(&mut out, &mut rng, &m, &r, f32m);
        }
    }
    for i in 0..42 * k {
        let n = rng.usize_in(1, 6);
        let f32m = i % 4 == 3;
        let fam = GEN_FAMILIES[i % GEN_FAMILIES.len()];
        let (m, _) = gen_gen(&mut rng, fam, n, f32m);
        let m = narrow(&m, f32m);
        if let Ok(r) = run_evd(&m, false, f32m) {
            corr_validator_gen(&mut out, &mut rng, &m, &r, f32m);
        }
    }

    // ---- search ----
    let per_family = std::env::var("VERIF_C02_N").ok().and_then(|s| s.parse().ok()).unwrap_or(if a.thorough { 4000 } else { 800 });
    for fam in SYM_FAMILIES.iter() {
        for i in 0..per_family {
            let n = pick_n(&mut rng);
            let (m, lam) = gen_sym(&mut rng, fam, n);
            let f32m = i % 3 == 2;
            let lam = if f32m && *fam != "diagonal" && *fam != "special" { None } else { lam };
            let r = oracle_sym(&mut out, &mut cal, &m, f32m, fam, &info_l(lam));
            if i == 0 && r.is_some() && n <= 4 {
                out.sample(json!({"family": fam, "symmetric": true, "a": m}));
            }
        }
    }
    for fam in GEN_FAMILIES.iter() {
        for i in 0..per_family {
            let n = pick_n(&mut rng);
            let f32m = i % 3 == 2;
            let (m, info) = gen_gen_info(&mut rng, fam, n, f32m);
            oracle_gen(&mut out, &mut cal, &m, f32m, fam, &info);
            if i % 4 == 0 && !f32m {
                corr_staged(&mut out, &m, false);
            }
        }
    }
    // orders 1 and 2 exhaustively over a small lattice (all branch combinations of the 2x2 code)
    for a00 in -1..=1 {
        oracle_sym(&mut out, &mut cal, &vec![vec![a00 as f64]], false, "order-1", &info_l(Some(vec![a00 as f64])));
        oracle_gen(&mut out, &mut cal, &vec![vec![a00 as f64]], false, "order-1", &Info::default());
        for a01 in -1..=1 {
            for a10 in -1..=1 {
                for a11 in -1..=1 {
                    let m = vec![vec![a00 as f64, a01 as f64], vec![a10 as f64, a11 as f64]];
                    oracle_gen(&mut out, &mut cal, &m, (a00 + a11) % 2 == 0, "order-2-lattice", &Info::default());
                    if a01 == a10 {
                        oracle_sym(&mut out, &mut cal, &m, false, "order-2-lattice", &Info::default());
                    }
                }
            }
        }
    }
    out.set("calib", json!({"max_ratio_observed_over_allowed": {"sym": cal.sym, "gen": cal.gen, "constructed_spectrum": cal.eig, "per_clause": cal.per},
                             "tolerances": {"sym": "64 n eps", "trace": "256 n eps", "trace2": "2048 n eps", "eigvec": "1024 n eps"}}));
    out.finish(&a.out);
}
