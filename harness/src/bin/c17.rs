//! C17 — distance functions: correspondence cases for the Coq model (SC.C17.Corr) and the
//! failing-input search.  The search oracle is written from the property text: closed forms are
//! evaluated in double-double arithmetic on the exact values of the float inputs (so the only error
//! left is the implementation's own rounding, bounded by a first-order analysis of the *definition*,
//! not of the code), Mahalanobis' closed form is evaluated from the covariance by an independent
//! Cholesky solve, and the metric axioms are checked on triples.
use serde_json::{json, Value};
use smartcore::linalg::naive::dense_matrix::DenseMatrix;
use smartcore::linalg::BaseMatrix;
use smartcore::math::distance::mahalanobis::Mahalanobis;
use smartcore::math::distance::{Distance, Distances};
use smartcore::math::num::RealNumber;
use vharness::*;

// largest observed |impl - definition| / allowance per oracle (goes into the evidence: how much slack
// the rounding allowances have on this run)
thread_local! {
    static STATS: std::cell::RefCell<std::collections::BTreeMap<String, f64>> = std::cell::RefCell::new(std::collections::BTreeMap::new());
}
fn note(label: &str, ratio: f64) {
    if ratio.is_finite() {
        STATS.with(|s| {
            let mut s = s.borrow_mut();
            let e = s.entry(label.to_string()).or_insert(0.0);
            if ratio > *e {
                *e = ratio;
            }
        });
    }
}

// ------------------------------------------------------------------------------------------
// double-double arithmetic (reference values)
// ------------------------------------------------------------------------------------------
#[derive(Clone, Copy, Debug)]
struct DD(f64, f64);
fn two_sum(a: f64, b: f64) -> (f64, f64) {
    let s = a + b;
    let bb = s - a;
    (s, (a - (s - bb)) + (b - bb))
}
fn two_prod(a: f64, b: f64) -> (f64, f64) {
    let p = a * b;
    (p, a.mul_add(b, -p))
}
impl DD {
    fn of(a: f64) -> DD {
        DD(a, 0.0)
    }
    fn diff(a: f64, b: f64) -> DD {
        let (s, e) = two_sum(a, -b);
        DD(s, e)
    }
    fn add(self, o: DD) -> DD {
        let (s, e) = two_sum(self.0, o.0);
        let (h, l) = two_sum(s, e + self.1 + o.1);
        DD(h, l)
    }
    fn neg(self) -> DD {
        DD(-self.0, -self.1)
    }
    fn sub(self, o: DD) -> DD {
        self.add(o.neg())
    }
    fn mul(self, o: DD) -> DD {
        let (p, e) = two_prod(self.0, o.0);
        let (h, l) = two_sum(p, e + self.0 * o.1 + self.1 * o.0);
        DD(h, l)
    }
    fn abs(self) -> DD {
        if self.0 < 0.0 || (self.0 == 0.0 && self.1 < 0.0) {
            self.neg()
        } else {
            self
        }
    }
    fn powi(self, p: u32) -> DD {
        let mut r = DD::of(1.0);
        for _ in 0..p {
            r = r.mul(self);
        }
        r
    }
    fn val(self) -> f64 {
        self.0 + self.1
    }
    /// p-th root of a non-negative value (one Newton correction in double-double)
    fn root(self, p: u32) -> f64 {
        if !(self.0 > 0.0) {
            return 0.0;
        }
        if p == 1 {
            return self.val();
        }
        let r0 = if p == 2 { self.0.sqrt() } else { self.0.powf(1.0 / p as f64) };
        let f = DD::of(r0).powi(p).sub(self);
        let der = p as f64 * r0.powi(p as i32 - 1);
        if der == 0.0 || !der.is_finite() {
            return r0;
        }
        r0 - f.val() / der
    }
}

// ------------------------------------------------------------------------------------------
// the implementation
// ------------------------------------------------------------------------------------------
#[derive(Clone, Copy, Debug, PartialEq)]
enum Kind {
    Euclid,
    Manhattan,
    Minkowski(u16),
    Hamming,
}
impl Kind {
    fn name(&self) -> String {
        match self {
            Kind::Euclid => "euclid".into(),
            Kind::Manhattan => "manhattan".into(),
            Kind::Minkowski(_) => "minkowski".into(),
            Kind::Hamming => "hamming".into(),
        }
    }
    fn p(&self) -> u16 {
        if let Kind::Minkowski(p) = self {
            *p
        } else {
            0
        }
    }
    fn from_json(v: &Value) -> Kind {
        match v["kind"].as_str().unwrap_or("") {
            "euclid" => Kind::Euclid,
            "manhattan" => Kind::Manhattan,
            "hamming" => Kind::Hamming,
            _ => Kind::Minkowski(v["p"].as_u64().unwrap_or(1) as u16),
        }
    }
}

fn run_dist<T: RealNumber>(kind: Kind, x: &Vec<T>, y: &Vec<T>) -> T {
    match kind {
        Kind::Euclid => Distances::euclidian().distance(x, y),
        Kind::Manhattan => Distances::manhattan().distance(x, y),
        Kind::Minkowski(p) => Distances::minkowski(p).distance(x, y),
        Kind::Hamming => Distances::hamming().distance(x, y),
    }
}
fn to32(x: &[f64]) -> Vec<f32> {
    x.iter().map(|v| *v as f32).collect()
}
fn snap32(x: &[f64]) -> Vec<f64> {
    x.iter().map(|v| *v as f32 as f64).collect()
}
/// distance through the public API; a panic is `Err`
fn dist(kind: Kind, x: &[f64], y: &[f64], f32m: bool) -> Result<f64, String> {
    if f32m {
        let (a, b) = (to32(x), to32(y));
        guard(|| run_dist::<f32>(kind, &a, &b) as f64)
    } else {
        let (a, b) = (x.to_vec(), y.to_vec());
        guard(|| run_dist::<f64>(kind, &a, &b))
    }
}

enum Maha {
    F64(Mahalanobis<f64, DenseMatrix<f64>>),
    F32(Mahalanobis<f32, DenseMatrix<f32>>),
}
fn rows64(m: &DenseMatrix<f64>) -> Vec<Vec<f64>> {
    let (n, p) = m.shape();
    (0..n).map(|r| (0..p).map(|c| m.get(r, c)).collect()).collect()
}
fn rows32(m: &DenseMatrix<f32>) -> Vec<Vec<f64>> {
    let (n, p) = m.shape();
    (0..n).map(|r| (0..p).map(|c| m.get(r, c) as f64).collect()).collect()
}
impl Maha {
    fn from_cov(cov: &[Vec<f64>], f32m: bool) -> Result<Maha, String> {
        if f32m {
            let m = dense32(cov);
            guard(|| Maha::F32(Mahalanobis::new_from_covariance(&m)))
        } else {
            let m = dense(cov);
            guard(|| Maha::F64(Mahalanobis::new_from_covariance(&m)))
        }
    }
    fn from_data(data: &[Vec<f64>], f32m: bool) -> Result<Maha, String> {
        if f32m {
            let m = dense32(data);
            guard(|| Maha::F32(Distances::mahalanobis(&m)))
        } else {
            let m = dense(data);
            guard(|| Maha::F64(Distances::mahalanobis(&m)))
        }
    }
    fn distance(&self, x: &[f64], y: &[f64]) -> Result<f64, String> {
        match self {
            Maha::F64(m) => {
                let (a, b) = (x.to_vec(), y.to_vec());
                guard(|| m.distance(&a, &b))
            }
            Maha::F32(m) => {
                let (a, b) = (to32(x), to32(y));
                guard(|| m.distance(&a, &b) as f64)
            }
        }
    }
    fn sigma(&self) -> Vec<Vec<f64>> {
        match self {
            Maha::F64(m) => rows64(&m.sigma),
            Maha::F32(m) => rows32(&m.sigma),
        }
    }
    fn sigma_inv(&self) -> Vec<Vec<f64>> {
        match self {
            Maha::F64(m) => rows64(&m.sigmaInv),
            Maha::F32(m) => rows32(&m.sigmaInv),
        }
    }
}

// ------------------------------------------------------------------------------------------
// the definitions (reference values) and the rounding allowance of each
// ------------------------------------------------------------------------------------------
fn unit(f32m: bool) -> f64 {
    if f32m {
        (2.0f64).powi(-24)
    } else {
        (2.0f64).powi(-53)
    }
}
fn min_pos(f32m: bool) -> f64 {
    if f32m {
        1.4e-45
    } else {
        4.95e-324
    }
}
fn ref_dist(kind: Kind, x: &[f64], y: &[f64]) -> f64 {
    let n = x.len();
    match kind {
        Kind::Euclid => {
            let mut s = DD::of(0.0);
            for i in 0..n {
                let d = DD::diff(x[i], y[i]);
                s = s.add(d.mul(d));
            }
            s.root(2)
        }
        Kind::Manhattan => {
            let mut s = DD::of(0.0);
            for i in 0..n {
                s = s.add(DD::diff(x[i], y[i]).abs());
            }
            s.val()
        }
        Kind::Minkowski(p) => {
            let mut s = DD::of(0.0);
            for i in 0..n {
                s = s.add(DD::diff(x[i], y[i]).abs().powi(p as u32));
            }
            s.root(p as u32)
        }
        Kind::Hamming => {
            let c = (0..n).filter(|i| x[*i] != y[*i]).count();
            c as f64 / n as f64
        }
    }
}
/// |impl - definition| allowed for one distance value `r` of vectors of length n:
/// (relative part, absolute floor from underflow of the smallest terms)
fn allowance(kind: Kind, n: usize, r: f64, f32m: bool) -> f64 {
    let u = unit(f32m);
    let nf = n as f64;
    match kind {
        Kind::Euclid => 2.0 * (nf + 4.0) * u * r + (nf * min_pos(f32m)).sqrt() * 4.0,
        Kind::Manhattan => 2.0 * (nf + 4.0) * u * r,
        Kind::Minkowski(p) => {
            let pf = p as f64;
            let lnr = if r > 0.0 { r.ln().abs() } else { 0.0 };
            2.0 * (nf + pf + 8.0 + 2.0 * lnr) * u * r + (nf * min_pos(f32m) * 4.0).powf(1.0 / pf) * 4.0
        }
        Kind::Hamming => 2.0 * u * r,
    }
}

// ------------------------------------------------------------------------------------------
// input families
// ------------------------------------------------------------------------------------------
const FAMILIES: [&str; 9] = ["normal", "lattice", "huge", "tiny", "mixed", "equal", "one-coordinate", "near-equal", "collinear"];

/// largest decimal exponent E such that vectors with components ~ 10^E keep every intermediate
/// of the closed form inside the normal range (the property is about finite results)
fn max_exp(kind: Kind, f32m: bool) -> f64 {
    let full = if f32m { 17.0 } else { 150.0 };
    match kind {
        Kind::Minkowski(p) => (if f32m { 34.0 } else { 290.0 }) / (p.max(2) as f64) - 1.0,
        _ => full,
    }
}
fn gen_triple(rng: &mut Rng, kind: Kind, n: usize, fam: usize, f32m: bool) -> (Vec<f64>, Vec<f64>, Vec<f64>) {
    let emax = max_exp(kind, f32m);
    let scale = match FAMILIES[fam] {
        "huge" => 10f64.powf(rng.uniform(0.65 * emax, emax)),
        "tiny" => 10f64.powf(-rng.uniform(0.65 * emax, emax - 2.0)),
        _ => 10f64.powf(rng.uniform(-2.0, 2.0)),
    };
    let comp = |rng: &mut Rng| -> f64 {
        match FAMILIES[fam] {
            "lattice" | "collinear" => rng.int(-8, 8) as f64 * 0.5,
            "mixed" => rng.normal() * 10f64.powf(rng.uniform(-0.4 * emax.min(8.0), 0.4 * emax.min(8.0))),
            _ => rng.normal() * scale,
        }
    };
    let x: Vec<f64> = (0..n).map(|_| comp(rng)).collect();
    let mut y: Vec<f64>;
    let mut z: Vec<f64>;
    match FAMILIES[fam] {
        "equal" => {
            y = x.clone();
            z = (0..n).map(|_| comp(rng)).collect();
            if rng.bool() {
                z = x.clone();
            }
        }
        "one-coordinate" => {
            y = x.clone();
            let i = rng.below(n);
            y[i] = x[i] * (1.0 + rng.uniform(0.01, 1.0)) + scale * rng.uniform(0.01, 1.0);
            z = y.clone();
            let j = rng.below(n);
            z[j] = y[j] * (1.0 - rng.uniform(0.01, 0.5)) - scale * rng.uniform(0.01, 1.0);
        }
        "near-equal" => {
            y = x.iter().map(|v| v * (1.0 + 1e-3 * rng.normal()) + 1e-3 * scale * rng.normal()).collect();
            z = y.iter().map(|v| v * (1.0 + 1e-3 * rng.normal()) + 1e-3 * scale * rng.normal()).collect();
        }
        "collinear" => {
            // y on the segment x..z (the triangle inequality is an equality in exact arithmetic)
            let d: Vec<f64> = (0..n).map(|_| rng.int(-8, 8) as f64 * 0.5).collect();
            let (a, b) = (rng.int(0, 4) as f64, rng.int(0, 4) as f64);
            y = (0..n).map(|i| x[i] + a * d[i]).collect();
            z = (0..n).map(|i| y[i] + b * d[i]).collect();
        }
        _ => {
            y = (0..n).map(|_| comp(rng)).collect();
            z = (0..n).map(|_| comp(rng)).collect();
        }
    }
    if kind == Kind::Hamming {
        // categorical data: few distinct values so that coordinates coincide
        let k = rng.usize_in(1, 4) as i64;
        let cat = |rng: &mut Rng| rng.int(0, k) as f64;
        let x2: Vec<f64> = (0..n).map(|_| cat(rng)).collect();
        let (y2, z2): (Vec<f64>, Vec<f64>) = match FAMILIES[fam] {
            "equal" => (x2.clone(), (0..n).map(|_| cat(rng)).collect()),
            "one-coordinate" => {
                let mut y2 = x2.clone();
                let i = rng.below(n);
                y2[i] += 1.0;
                let mut z2 = y2.clone();
                let j = rng.below(n);
                z2[j] += 2.0;
                (y2, z2)
            }
            _ => ((0..n).map(|_| cat(rng)).collect(), (0..n).map(|_| cat(rng)).collect()),
        };
        return (x2, y2, z2);
    }
    if f32m {
        (snap32(&x), snap32(&y), snap32(&z))
    } else {
        (x, y, z)
    }
}

// ------------------------------------------------------------------------------------------
// oracles
// ------------------------------------------------------------------------------------------
fn metric_input(kind: Kind, x: &[f64], y: &[f64], z: &[f64], f32m: bool) -> Value {
    json!({"entry": "metric", "kind": kind.name(), "p": kind.p(), "f32": f32m, "x": x, "y": y, "z": z})
}

/// closed form, non-negativity, identity, symmetry, triangle inequality for one triple
fn check_metric(out: &mut Out, kind: Kind, x: &[f64], y: &[f64], z: &[f64], f32m: bool, fam: &str) {
    let n = x.len();
    let input = metric_input(kind, x, y, z, f32m);
    let mut kd: Vec<f64> = x.iter().chain(y.iter()).chain(z.iter()).cloned().collect();
    kd.push(kind.p() as f64 + if f32m { 0.5 } else { 0.0 });
    kd.push(match kind {
        Kind::Euclid => 1.0,
        Kind::Manhattan => 2.0,
        Kind::Minkowski(_) => 3.0,
        Kind::Hamming => 4.0,
    });
    out.eval(hash_f64s(&kd), n >= 2 && x != y && y != z);
    out.count(&format!("search:{}:{}", kind.name(), if f32m { "f32" } else { "f64" }));
    out.count(&format!("search:family:{}", fam));
    out.count(&format!("search:n:{}", if n <= 1 { "1" } else if n <= 5 { "2-5" } else if n <= 15 { "6-15" } else { "16-30" }));
    if let Kind::Minkowski(p) = kind {
        out.count(&format!("search:minkowski:p={}", p));
    }
    let pairs: [(&str, &[f64], &[f64]); 6] = [("xy", x, y), ("yz", y, z), ("xz", x, z), ("yx", y, x), ("xx", x, x), ("zz", z, z)];
    let mut d = [0.0f64; 6];
    for (k, (nm, a, b)) in pairs.iter().enumerate() {
        match dist(kind, a, b, f32m) {
            Ok(v) => d[k] = v,
            Err(msg) => {
                out.fail("closed_form", &format!("panic on equal-length finite vectors ({}): {}", nm, msg), input);
                return;
            }
        }
    }
    let r: Vec<f64> = pairs.iter().map(|(_, a, b)| ref_dist(kind, a, b)).collect();
    let al: Vec<f64> = r.iter().map(|v| allowance(kind, n, *v, f32m)).collect();
    // closed forms
    for k in 0..3 {
        if al[k] > 0.0 {
            note(&format!("closed_form:{}:{}", kind.name(), if f32m { "f32" } else { "f64" }), (d[k] - r[k]).abs() / al[k]);
        }
        if !((d[k] - r[k]).abs() <= al[k]) {
            let mut w = input.clone();
            w["pair"] = json!(pairs[k].0);
            w["expected"] = json!(r[k]);
            w["got"] = json!(d[k]);
            w["allowed"] = json!(al[k]);
            out.fail("closed_form", &format!("{} distance differs from its definition beyond rounding", kind.name()), w);
            return;
        }
    }
    // non-negative (and a number)
    for k in 0..4 {
        if !(d[k] >= 0.0) {
            let mut w = input.clone();
            w["pair"] = json!(pairs[k].0);
            w["got"] = json!(format!("{}", d[k]));
            out.fail("non_negative", "distance is negative or NaN", w);
            return;
        }
    }
    // identical arguments
    if d[4] != 0.0 || d[5] != 0.0 {
        let mut w = input.clone();
        w["got"] = json!([d[4], d[5]]);
        out.fail("identity", "d(x,x) is not zero", w);
        return;
    }
    // symmetry up to rounding
    if !((d[0] - d[3]).abs() <= al[0]) {
        let mut w = input.clone();
        w["got"] = json!([d[0], d[3]]);
        out.fail("symmetry", "d(x,y) differs from d(y,x) beyond rounding", w);
        return;
    }
    // triangle inequality up to rounding
    if al[0] + al[1] + al[2] > 0.0 {
        note(&format!("triangle_excess:{}", kind.name()), (d[2] - d[0] - d[1]) / (al[0] + al[1] + al[2]));
    }
    if !(d[2] <= d[0] + d[1] + al[0] + al[1] + al[2]) {
        let mut w = input.clone();
        w["got"] = json!({"d_xz": d[2], "d_xy": d[0], "d_yz": d[1]});
        out.fail("triangle", "d(x,z) > d(x,y) + d(y,z) beyond rounding", w);
    }
}

/// Minkowski of order 1 / 2 against Manhattan / Euclidian of the implementation
fn check_minkowski_special(out: &mut Out, x: &[f64], y: &[f64], f32m: bool) {
    let n = x.len();
    for (p, other) in [(1u16, Kind::Manhattan), (2u16, Kind::Euclid)] {
        let input = json!({"entry": "minkowski_special", "p": p, "f32": f32m, "x": x, "y": y});
        let mut kd: Vec<f64> = x.iter().chain(y.iter()).cloned().collect();
        kd.push(100.0 + p as f64 + if f32m { 0.5 } else { 0.0 });
        out.eval(hash_f64s(&kd), n >= 2 && x != y);
        out.count(&format!("search:minkowski_{}_vs_{}", p, other.name()));
        match (dist(Kind::Minkowski(p), x, y, f32m), dist(other, x, y, f32m)) {
            (Ok(a), Ok(b)) => {
                let al = allowance(Kind::Minkowski(p), n, b, f32m) + allowance(other, n, b, f32m);
                if al > 0.0 {
                    note(&format!("minkowski_{}_vs_{}", p, other.name()), (a - b).abs() / al);
                }
                if !((a - b).abs() <= al) {
                    let mut w = input.clone();
                    w["got"] = json!({"minkowski": a, "other": b, "allowed": al});
                    out.fail("minkowski_special_orders", &format!("Minkowski of order {} differs from {}", p, other.name()), w);
                }
            }
            (a, b) => out.fail("minkowski_special_orders", &format!("panic: {:?} {:?}", a.err(), b.err()), input),
        }
    }
}

/// vectors of different length are rejected (the implementation's rejection is a panic)
fn check_mismatch(out: &mut Out, kind: Kind, x: &[f64], y: &[f64], f32m: bool) {
    let input = json!({"entry": "mismatch", "kind": kind.name(), "p": kind.p(), "f32": f32m, "x": x, "y": y});
    let mut kd: Vec<f64> = x.iter().chain(y.iter()).cloned().collect();
    kd.push(200.0 + x.len() as f64 * 64.0 + kind.p() as f64);
    out.eval(hash_f64s(&kd), true);
    out.count(&format!("search:mismatch:{}", kind.name()));
    if let Ok(v) = dist(kind, x, y, f32m) {
        let mut w = input.clone();
        w["got"] = json!(format!("{}", v));
        out.fail("length_mismatch_rejected", "vectors of different length were accepted", w);
    }
}

// ---- Mahalanobis ----
fn matvec(a: &[Vec<f64>], v: &[f64]) -> Vec<f64> {
    a.iter().map(|r| r.iter().zip(v).map(|(p, q)| p * q).sum()).collect()
}
/// cyclic Jacobi eigenvalue iteration for a symmetric matrix: (lambda_min, lambda_max)
fn sym_eig_range(a: &[Vec<f64>]) -> (f64, f64) {
    let n = a.len();
    let mut m: Vec<Vec<f64>> = a.to_vec();
    for _sweep in 0..60 {
        let mut off = 0.0;
        let mut diag = 0.0;
        for i in 0..n {
            diag += m[i][i] * m[i][i];
            for j in 0..n {
                if i != j {
                    off += m[i][j] * m[i][j];
                }
            }
        }
        if off <= 1e-30 * diag || off == 0.0 {
            break;
        }
        for p in 0..n {
            for q in (p + 1)..n {
                if m[p][q] == 0.0 {
                    continue;
                }
                let theta = (m[q][q] - m[p][p]) / (2.0 * m[p][q]);
                let t = theta.signum() / (theta.abs() + (theta * theta + 1.0).sqrt());
                let t = if theta == 0.0 { 1.0 } else { t };
                let c = 1.0 / (t * t + 1.0).sqrt();
                let s = t * c;
                for k in 0..n {
                    let (akp, akq) = (m[k][p], m[k][q]);
                    m[k][p] = c * akp - s * akq;
                    m[k][q] = s * akp + c * akq;
                }
                for k in 0..n {
                    let (apk, aqk) = (m[p][k], m[q][k]);
                    m[p][k] = c * apk - s * aqk;
                    m[q][k] = s * apk + c * aqk;
                }
            }
        }
    }
    let mut lo = f64::INFINITY;
    let mut hi = f64::NEG_INFINITY;
    for i in 0..n {
        lo = lo.min(m[i][i]);
        hi = hi.max(m[i][i]);
    }
    (lo, hi)
}
/// solve S w = z for symmetric positive definite S by Cholesky with two refinement steps
fn spd_solve(s: &[Vec<f64>], z: &[f64]) -> Option<Vec<f64>> {
    let n = s.len();
    let mut l = vec![vec![0.0; n]; n];
    for i in 0..n {
        for j in 0..=i {
            let mut v = s[i][j];
            for k in 0..j {
                v -= l[i][k] * l[j][k];
            }
            if i == j {
                if !(v > 0.0) {
                    return None;
                }
                l[i][i] = v.sqrt();
            } else {
                l[i][j] = v / l[j][j];
            }
        }
    }
    let solve = |b: &[f64]| -> Vec<f64> {
        let mut y = vec![0.0; n];
        for i in 0..n {
            let mut v = b[i];
            for k in 0..i {
                v -= l[i][k] * y[k];
            }
            y[i] = v / l[i][i];
        }
        let mut w = vec![0.0; n];
        for i in (0..n).rev() {
            let mut v = y[i];
            for k in (i + 1)..n {
                v -= l[k][i] * w[k];
            }
            w[i] = v / l[i][i];
        }
        w
    };
    let mut w = solve(z);
    for _ in 0..2 {
        // residual in double-double
        let r: Vec<f64> = (0..n)
            .map(|i| {
                let mut acc = DD::of(z[i]);
                for k in 0..n {
                    acc = acc.sub(DD::of(s[i][k]).mul(DD::of(w[k])));
                }
                acc.val()
            })
            .collect();
        let dw = solve(&r);
        for i in 0..n {
            w[i] += dw[i];
        }
    }
    Some(w)
}
/// the definition of the sample covariance (two-pass, divisor m - 1)
fn ref_cov(data: &[Vec<f64>]) -> (Vec<Vec<f64>>, Vec<f64>) {
    let m = data.len();
    let n = data[0].len();
    let mu: Vec<f64> = (0..n)
        .map(|c| {
            let mut s = DD::of(0.0);
            for r in 0..m {
                s = s.add(DD::of(data[r][c]));
            }
            s.val() / m as f64
        })
        .collect();
    let mut c = vec![vec![0.0; n]; n];
    for i in 0..n {
        for j in 0..n {
            let mut s = DD::of(0.0);
            for r in 0..m {
                s = s.add(DD::of(data[r][i] - mu[i]).mul(DD::of(data[r][j] - mu[j])));
            }
            c[i][j] = s.val() / (m as f64 - 1.0);
        }
    }
    (c, mu)
}
fn ref_maha(sigma: &[Vec<f64>], a: &[f64], b: &[f64]) -> Option<f64> {
    let z: Vec<f64> = a.iter().zip(b).map(|(p, q)| p - q).collect();
    let w = spd_solve(sigma, &z)?;
    let mut s = DD::of(0.0);
    for i in 0..z.len() {
        s = s.add(DD::of(z[i]).mul(DD::of(w[i])));
    }
    Some(s.root(2))
}

const COND_MAX_64: f64 = 1e4;
const COND_MAX_32: f64 = 1e2;

/// Mahalanobis built from a covariance (`data == None`) or from data rows; triple x, y, z
fn check_maha(out: &mut Out, cov: Option<&[Vec<f64>]>, data: Option<&[Vec<f64>]>, x: &[f64], y: &[f64], z: &[f64], f32m: bool, fam: &str) {
    let input = match (cov, data) {
        (Some(c), _) => json!({"entry": "maha_cov", "cov": c, "x": x, "y": y, "z": z, "f32": f32m}),
        (_, Some(d)) => json!({"entry": "maha_data", "data": d, "x": x, "y": y, "z": z, "f32": f32m}),
        _ => return,
    };
    let n = x.len();
    let u = unit(f32m);
    // the covariance the definition speaks about
    let (sigma_ref, cov_scale): (Vec<Vec<f64>>, Option<Vec<f64>>) = match (cov, data) {
        (Some(c), _) => (c.to_vec(), None),
        (_, Some(d)) => {
            let (c, mu) = ref_cov(d);
            (c, Some(mu))
        }
        _ => unreachable!(),
    };
    let (lmin, lmax) = sym_eig_range(&sigma_ref);
    let cond = if lmin > 0.0 { lmax / lmin } else { f64::INFINITY };
    let cmax = if f32m { COND_MAX_32 } else { COND_MAX_64 };
    if !(cond <= cmax) {
        out.count("search:mahalanobis:excluded-condition-number");
        return;
    }
    let mut kd: Vec<f64> = x.iter().chain(y.iter()).chain(z.iter()).cloned().collect();
    kd.extend(sigma_ref.iter().flatten());
    kd.push(if f32m { 1.0 } else { 0.0 });
    out.eval(hash_f64s(&kd), n >= 2 && x != y && y != z);
    out.count(&format!("search:mahalanobis:{}:{}", if cov.is_some() { "from-covariance" } else { "from-data" }, if f32m { "f32" } else { "f64" }));
    out.count(&format!("search:mahalanobis:family:{}", fam));
    out.count(&format!("search:mahalanobis:cond:{}", if cond < 10.0 { "<10" } else if cond < 100.0 { "<1e2" } else if cond < 1e3 { "<1e3" } else { "<=1e4" }));
    out.count(&format!("search:n:{}", if n <= 1 { "1" } else if n <= 5 { "2-5" } else if n <= 15 { "6-15" } else { "16-30" }));
    let m = match if let Some(c) = cov { Maha::from_cov(c, f32m) } else { Maha::from_data(data.unwrap(), f32m) } {
        Ok(m) => m,
        Err(msg) => {
            out.fail("mahalanobis_closed_form", &format!("construction panicked on a well-conditioned positive-definite covariance: {}", msg), input);
            return;
        }
    };
    let nf = n as f64;
    // (a) stored covariance = the definition
    let sig = m.sigma();
    for i in 0..n {
        for j in 0..n {
            let al = match (&cov_scale, data) {
                // two-pass definition: (m+4) roundings relative to sqrt(c_ii c_jj); the error of the computed
                // mean enters only in second order (the centred values sum to zero): m^2 u^2 |mu_i mu_j|
                (Some(mu), Some(d)) => {
                    let mf = d.len() as f64;
                    8.0 * (mf + 4.0) * u * (sigma_ref[i][i] * sigma_ref[j][j]).sqrt() + 8.0 * mf * mf * u * u * (mu[i] * mu[j]).abs()
                }
                _ => 0.0,
            };
            if al > 0.0 {
                note(&format!("mahalanobis_covariance:{}", if f32m { "f32" } else { "f64" }), (sig[i][j] - sigma_ref[i][j]).abs() / al);
            }
            if !((sig[i][j] - sigma_ref[i][j]).abs() <= al) {
                let mut w = input.clone();
                w["at"] = json!([i, j]);
                w["expected"] = json!(sigma_ref[i][j]);
                w["got"] = json!(sig[i][j]);
                out.fail("mahalanobis_covariance", "stored sigma differs from the sample covariance (divisor m-1) / the given covariance", w);
                return;
            }
        }
    }
    // (b) stored inverse times covariance = identity, up to the conditioning
    let sinv = m.sigma_inv();
    let res_al = 32.0 * nf * u * cond;
    for i in 0..n {
        for j in 0..n {
            let mut s = DD::of(0.0);
            for k in 0..n {
                s = s.add(DD::of(sinv[i][k]).mul(DD::of(sig[k][j])));
            }
            let e = s.val() - if i == j { 1.0 } else { 0.0 };
            note(&format!("mahalanobis_inverse_residual:{}", if f32m { "f32" } else { "f64" }), e.abs() / res_al);
            if !(e.abs() <= res_al) {
                let mut w = input.clone();
                w["at"] = json!([i, j]);
                w["residual"] = json!(e);
                w["allowed"] = json!(res_al);
                out.fail("mahalanobis_inverse", "sigmaInv * sigma is not the identity within cond * n * eps", w);
                return;
            }
        }
    }
    // (c) closed form and metric axioms
    let pairs: [(&str, &[f64], &[f64]); 6] = [("xy", x, y), ("yz", y, z), ("xz", x, z), ("yx", y, x), ("xx", x, x), ("zz", z, z)];
    let mut d = [0.0f64; 6];
    for (k, (nm, a, b)) in pairs.iter().enumerate() {
        match m.distance(a, b) {
            Ok(v) => d[k] = v,
            Err(msg) => {
                out.fail("mahalanobis_closed_form", &format!("panic ({}): {}", nm, msg), input);
                return;
            }
        }
    }
    // allowance for d^2: |delta sigmaInv| <= c n u cond |sigmaInv|, summation of n^2 terms
    let al2 = |a: &[f64], b: &[f64]| -> f64 {
        let zz: f64 = a.iter().zip(b).map(|(p, q)| (p - q) * (p - q)).sum();
        u * zz / lmin * (32.0 * nf * cond + 2.0 * nf * nf * nf.sqrt() + 16.0)
    };
    let mut al = [0.0f64; 3];
    for k in 0..3 {
        let r = match ref_maha(&sigma_ref, pairs[k].1, pairs[k].2) {
            Some(r) => r,
            None => {
                out.count("search:mahalanobis:excluded-reference-not-spd");
                return;
            }
        };
        let a2 = al2(pairs[k].1, pairs[k].2);
        // |d - r| = |d^2 - r^2| / (d + r)
        al[k] = if r > 0.0 { (a2 / r).min(a2.sqrt()) } else { 0.0 };
        if al[k] > 0.0 {
            note(&format!("mahalanobis_closed_form:{}", if f32m { "f32" } else { "f64" }), (d[k] - r).abs() / al[k]);
        }
        if !((d[k] - r).abs() <= al[k]) {
            let mut w = input.clone();
            w["pair"] = json!(pairs[k].0);
            w["expected"] = json!(r);
            w["got"] = json!(format!("{}", d[k]));
            w["allowed"] = json!(al[k]);
            out.fail("mahalanobis_closed_form", "distance differs from sqrt((x-y)^T Sigma^-1 (x-y)) beyond the conditioning allowance", w);
            return;
        }
    }
    for k in 0..4 {
        if !(d[k] >= 0.0) {
            let mut w = input.clone();
            w["pair"] = json!(pairs[k].0);
            w["got"] = json!(format!("{}", d[k]));
            out.fail("non_negative", "Mahalanobis distance is negative or NaN", w);
            return;
        }
    }
    if d[4] != 0.0 || d[5] != 0.0 {
        out.fail("identity", "Mahalanobis d(x,x) is not zero", input);
        return;
    }
    if !((d[0] - d[3]).abs() <= 8.0 * u * d[0]) {
        let mut w = input.clone();
        w["got"] = json!([d[0], d[3]]);
        out.fail("symmetry", "Mahalanobis d(x,y) differs from d(y,x)", w);
        return;
    }
    if !(d[2] <= d[0] + d[1] + al[0] + al[1] + al[2]) {
        let mut w = input.clone();
        w["got"] = json!({"d_xz": d[2], "d_xy": d[0], "d_yz": d[1]});
        out.fail("triangle", "Mahalanobis d(x,z) > d(x,y) + d(y,z) beyond rounding", w);
    }
}

/// identity covariance: Mahalanobis coincides with Euclidian; wrong lengths are rejected
fn check_maha_identity(out: &mut Out, x: &[f64], y: &[f64], f32m: bool) {
    let n = x.len();
    let input = json!({"entry": "maha_identity", "x": x, "y": y, "f32": f32m});
    let mut kd: Vec<f64> = x.iter().chain(y.iter()).cloned().collect();
    kd.push(300.0 + if f32m { 0.5 } else { 0.0 });
    out.eval(hash_f64s(&kd), n >= 2 && x != y);
    out.count("search:mahalanobis:identity");
    let id: Vec<Vec<f64>> = (0..n).map(|i| (0..n).map(|j| if i == j { 1.0 } else { 0.0 }).collect()).collect();
    let m = match Maha::from_cov(&id, f32m) {
        Ok(m) => m,
        Err(msg) => {
            out.fail("mahalanobis_identity_is_euclidean", &format!("construction panicked: {}", msg), input);
            return;
        }
    };
    match (m.distance(x, y), dist(Kind::Euclid, x, y, f32m)) {
        (Ok(a), Ok(b)) => {
            if !((a - b).abs() <= 2.0 * allowance(Kind::Euclid, n, b, f32m)) {
                let mut w = input.clone();
                w["got"] = json!({"mahalanobis": a, "euclid": b});
                out.fail("mahalanobis_identity_is_euclidean", "Mahalanobis with identity covariance differs from Euclidian", w);
            }
        }
        (a, b) => out.fail("mahalanobis_identity_is_euclidean", &format!("panic: {:?} {:?}", a.err(), b.err()), input.clone()),
    }
    // wrong lengths (shorter / longer, either side)
    let mut xs = x.to_vec();
    xs.pop();
    let mut xl = x.to_vec();
    xl.push(1.0);
    for (a, b) in [(&xs, &y.to_vec()), (&x.to_vec(), &xs), (&xl, &y.to_vec()), (&x.to_vec(), &xl), (&xs, &xs), (&xl, &xl)] {
        out.count("search:mismatch:mahalanobis");
        if let Ok(v) = m.distance(a, b) {
            let w = json!({"entry": "maha_mismatch", "n": n, "x": a, "y": b, "f32": f32m, "got": format!("{}", v)});
            out.fail("length_mismatch_rejected", "Mahalanobis accepted a vector whose length differs from the covariance", w);
            return;
        }
    }
}

// ---- generators for covariances / data ----
fn random_orthogonal(rng: &mut Rng, n: usize) -> Vec<Vec<f64>> {
    // modified Gram-Schmidt of a Gaussian matrix (rows)
    let mut q: Vec<Vec<f64>> = vec![];
    while q.len() < n {
        let mut v: Vec<f64> = (0..n).map(|_| rng.normal()).collect();
        for _ in 0..2 {
            for b in &q {
                let d: f64 = v.iter().zip(b).map(|(p, r)| p * r).sum();
                for i in 0..n {
                    v[i] -= d * b[i];
                }
            }
        }
        let nrm: f64 = v.iter().map(|t| t * t).sum::<f64>().sqrt();
        if nrm > 1e-6 {
            q.push(v.iter().map(|t| t / nrm).collect());
        }
    }
    q
}
/// SPD matrix with prescribed condition number `cond` and overall scale `scale`
fn gen_spd(rng: &mut Rng, n: usize, cond: f64, scale: f64, f32m: bool) -> Vec<Vec<f64>> {
    let q = random_orthogonal(rng, n);
    let lam: Vec<f64> = (0..n)
        .map(|i| {
            if n == 1 || i == 0 {
                1.0
            } else if i == 1 {
                cond
            } else {
                cond.powf(rng.unit())
            }
        })
        .collect();
    let mut s = vec![vec![0.0; n]; n];
    for i in 0..n {
        for j in 0..=i {
            let mut v = 0.0;
            for k in 0..n {
                v += q[k][i] * lam[k] * q[k][j];
            }
            let v = v * scale;
            let v = if f32m { v as f32 as f64 } else { v };
            s[i][j] = v;
            s[j][i] = v;
        }
    }
    s
}
fn gen_data(rng: &mut Rng, m: usize, n: usize, cond: f64, f32m: bool) -> Vec<Vec<f64>> {
    // rows = mean + A * g with A = Q diag(sqrt(lambda)): population covariance has condition `cond`
    let q = random_orthogonal(rng, n);
    let lam: Vec<f64> = (0..n).map(|i| if i == 0 { 1.0 } else { cond.powf(rng.unit()) }).collect();
    // a quarter of the data sets sit far from the origin (|mean| up to 1e6 sd; single precision 1e2)
    let off = if rng.below(4) == 0 { 10f64.powf(rng.uniform(0.0, if f32m { 2.0 } else { 6.0 })) } else { 1.0 };
    let mean: Vec<f64> = (0..n).map(|_| rng.uniform(-3.0, 3.0) * off).collect();
    (0..m)
        .map(|_| {
            let g: Vec<f64> = (0..n).map(|k| rng.normal() * lam[k].sqrt()).collect();
            (0..n)
                .map(|i| {
                    let v = mean[i] + (0..n).map(|k| q[k][i] * g[k]).sum::<f64>();
                    if f32m { v as f32 as f64 } else { v }
                })
                .collect()
        })
        .collect()
}
fn maha_vectors(rng: &mut Rng, n: usize, scale: f64, fam: usize, f32m: bool) -> (Vec<f64>, Vec<f64>, Vec<f64>) {
    let g = |rng: &mut Rng| -> Vec<f64> { (0..n).map(|_| rng.normal() * scale).collect() };
    let x = g(rng);
    let (y, z) = match fam {
        0 => (g(rng), g(rng)),
        1 => (x.clone(), g(rng)),
        2 => {
            let mut y = x.clone();
            let i = rng.below(n);
            y[i] += scale * rng.uniform(0.1, 1.0);
            let mut z = y.clone();
            let j = rng.below(n);
            z[j] -= scale * rng.uniform(0.1, 1.0);
            (y, z)
        }
        _ => {
            // collinear: y between x and z
            let d = g(rng);
            let y: Vec<f64> = (0..n).map(|i| x[i] + 0.5 * d[i]).collect();
            let z: Vec<f64> = (0..n).map(|i| y[i] + 0.25 * d[i]).collect();
            (y, z)
        }
    };
    if f32m {
        (snap32(&x), snap32(&y), snap32(&z))
    } else {
        (x, y, z)
    }
}
const MAHA_FAMILIES: [&str; 4] = ["random", "equal", "one-coordinate", "collinear"];

// ------------------------------------------------------------------------------------------
// correspondence cases
// ------------------------------------------------------------------------------------------
fn bits32(v: f64) -> String {
    coq_z((v as f32).to_bits() as i64)
}
fn coq_list_b32(xs: &[f64]) -> String {
    coq_list(xs.iter().map(|x| bits32(*x)))
}
fn coq_rows_b32(rows: &[Vec<f64>]) -> String {
    coq_list(rows.iter().map(|r| coq_list_b32(r)))
}
fn jf(xs: &[f64]) -> Value {
    // replay-safe rendering (NaN / inf are not JSON numbers)
    json!(xs.iter().map(|v| if v.is_finite() { json!(v) } else { json!(format!("{}", v)) }).collect::<Vec<Value>>())
}

fn corr_dist(out: &mut Out, kind: Kind, x: &[f64], y: &[f64], f32m: bool) {
    let res = dist(kind, x, y, f32m).ok();
    let input = json!({"entry": "corr", "kind": kind.name(), "p": kind.p(), "f32": f32m, "x": jf(x), "y": jf(y)});
    let group = format!("{}:{}", kind.name(), if f32m { "f32" } else { "f64" });
    let term = if f32m {
        let e = coq_option(res.map(bits32));
        match kind {
            Kind::Euclid => format!("corr32_euclid {} {} {}", coq_list_b32(x), coq_list_b32(y), e),
            Kind::Manhattan => format!("corr32_manhattan {} {} {}", coq_list_b32(x), coq_list_b32(y), e),
            Kind::Hamming => format!("corr32_hamming {} {} {}", coq_list_b32(x), coq_list_b32(y), e),
            Kind::Minkowski(p) => format!("corr32_minkowski {} {} {} {} {}", coq_f64(2e-5), coq_n(p as usize), coq_list_b32(x), coq_list_b32(y), e),
        }
    } else {
        let e = coq_option(res.map(coq_f64));
        match kind {
            Kind::Euclid => format!("corr_euclid {} {} {}", coq_list_f64(x), coq_list_f64(y), e),
            Kind::Manhattan => format!("corr_manhattan {} {} {}", coq_list_f64(x), coq_list_f64(y), e),
            Kind::Hamming => format!("corr_hamming_f {} {} {}", coq_list_f64(x), coq_list_f64(y), e),
            Kind::Minkowski(p) => format!("corr_minkowski {} {} {} {} {}", coq_f64(1e-9), coq_n(p as usize), coq_list_f64(x), coq_list_f64(y), e),
        }
    };
    out.corr(&group, term, input);
}

fn corr_hamming_int(out: &mut Out, x: &[i64], y: &[i64], f32m: bool) {
    let (a, b): (Vec<i64>, Vec<i64>) = (x.to_vec(), y.to_vec());
    let input = json!({"entry": "corr_hamming_int", "f32": f32m, "x": x, "y": y});
    if f32m {
        let res = guard(|| {
            let h: f32 = Distances::hamming().distance(&a, &b);
            h as f64
        })
        .ok();
        out.corr("hamming-int:f32", format!("corr32_hamming_z {} {} {}", coq_list_z(x), coq_list_z(y), coq_option(res.map(bits32))), input);
    } else {
        let res = guard(|| {
            let h: f64 = Distances::hamming().distance(&a, &b);
            h
        })
        .ok();
        out.corr("hamming-int:f64", format!("corr_hamming_z {} {} {}", coq_list_z(x), coq_list_z(y), coq_option(res.map(coq_f64))), input);
    }
}

/// Mahalanobis::distance of the model on the implementation's stored inverse; cov on the data
fn corr_maha(out: &mut Out, cov: Option<&[Vec<f64>]>, data: Option<&[Vec<f64>]>, x: &[f64], y: &[f64], f32m: bool) {
    let built = if let Some(c) = cov { Maha::from_cov(c, f32m) } else { Maha::from_data(data.unwrap(), f32m) };
    let input = json!({"entry": "corr_maha", "cov": cov, "data": data, "x": x, "y": y, "f32": f32m});
    let m = match built {
        Ok(m) => m,
        Err(_) => return,
    };
    let sig = m.sigma();
    let sinv = m.sigma_inv();
    let n = sig.len();
    let res = m.distance(x, y).ok();
    let sfx = if f32m { "f32" } else { "f64" };
    if f32m {
        out.corr(
            &format!("mahalanobis-distance:{}", sfx),
            format!("corr32_mahalanobis {} {} {} {} {}", coq_n(n), coq_rows_b32(&sinv), coq_list_b32(x), coq_list_b32(y), coq_option(res.map(bits32))),
            input.clone(),
        );
    } else {
        out.corr(
            &format!("mahalanobis-distance:{}", sfx),
            format!("corr_mahalanobis_wf {} {} {} {} {} {}", coq_f64(1e-6), coq_n(n), coq_rows_f64(&sinv), coq_list_f64(x), coq_list_f64(y), coq_option(res.map(coq_f64))),
            input.clone(),
        );
    }
    if let Some(d) = data {
        let ncols = d[0].len();
        if f32m {
            out.corr(&format!("cov:{}", sfx), format!("corr32_cov {} {} (Some {})", coq_n(ncols), coq_rows_b32(d), coq_rows_b32(&sig)), input);
        } else {
            out.corr(&format!("cov:{}", sfx), format!("corr_cov {} {} (Some {})", coq_n(ncols), coq_rows_f64(d), coq_rows_f64(&sig)), input);
        }
    }
}

// ------------------------------------------------------------------------------------------
// replay
// ------------------------------------------------------------------------------------------
/// evaluate the oracle that belongs to one replay / corpus input; false = unknown entry
fn replay_into(out: &mut Out, inp: &Value, fam: &str) -> bool {
    let f32m = inp["f32"].as_bool().unwrap_or(false);
    let x = f64s_from_json(&inp["x"]);
    let y = f64s_from_json(&inp["y"]);
    let z = f64s_from_json(&inp["z"]);
    match inp["entry"].as_str().unwrap_or("") {
        "metric" => check_metric(out, Kind::from_json(inp), &x, &y, &z, f32m, fam),
        "minkowski_special" => check_minkowski_special(out, &x, &y, f32m),
        "mismatch" => check_mismatch(out, Kind::from_json(inp), &x, &y, f32m),
        "maha_cov" => {
            let c = rows_from_json(&inp["cov"]);
            check_maha(out, Some(&c), None, &x, &y, &z, f32m, fam);
        }
        "maha_data" => {
            let d = rows_from_json(&inp["data"]);
            check_maha(out, None, Some(&d), &x, &y, &z, f32m, fam);
        }
        "maha_identity" => check_maha_identity(out, &x, &y, f32m),
        "maha_mismatch" => {
            let n = inp["n"].as_u64().unwrap_or(1) as usize;
            let id: Vec<Vec<f64>> = (0..n).map(|i| (0..n).map(|j| if i == j { 1.0 } else { 0.0 }).collect()).collect();
            out.count("search:mismatch:mahalanobis");
            if let Ok(m) = Maha::from_cov(&id, f32m) {
                if m.distance(&x, &y).is_ok() {
                    out.fail("length_mismatch_rejected", "Mahalanobis accepted a vector whose length differs from the covariance", inp.clone());
                }
            }
        }
        _ => return false,
    }
    true
}

fn replay(path: &str) -> i32 {
    let v = read_replay(path);
    let inp = if v.get("input").is_some() { v["input"].clone() } else { v.clone() };
    let mut out = Out::new("C17", "replay");
    if !replay_into(&mut out, &inp, "replay") {
        eprintln!("unknown replay entry");
        return 2;
    }
    if out.n_fail() > 0 {
        println!("REPLAY: property=C17 still fails: {}", path);
        1
    } else {
        println!("REPLAY: property=C17 passes: {}", path);
        0
    }
}

/// the minimised regression inputs of /verif/corpus/C17 (replay format), sorted by name
fn run_corpus(out: &mut Out) {
    let dir = "/verif/corpus/C17";
    let mut files: Vec<std::path::PathBuf> = match std::fs::read_dir(dir) {
        Ok(rd) => rd.filter_map(|e| e.ok().map(|e| e.path())).filter(|p| p.extension().map(|e| e == "json").unwrap_or(false)).collect(),
        Err(_) => return,
    };
    files.sort();
    for f in files {
        if let Ok(txt) = std::fs::read_to_string(&f) {
            if let Ok(v) = serde_json::from_str::<Value>(&txt) {
                let inp = if v.get("input").is_some() { v["input"].clone() } else { v.clone() };
                if replay_into(out, &inp, "corpus") {
                    out.count("search:corpus-file");
                }
            }
        }
    }
}

// ------------------------------------------------------------------------------------------
fn main() {
    quiet_panics();
    let a = args();
    if let Some(p) = &a.replay {
        std::process::exit(replay(p));
    }
    let mut rng = Rng::new(a.seed);
    let mut out = Out::new(
        "C17",
        "search case = (distance kind, width, triple x,y,z of equal length [, covariance or data]); non-trivial: length >= 2 and x != y and y != z (pair checks: x != y); distinct by hash of (data, kind, order, width)",
    );
    let kinds_basic = [Kind::Euclid, Kind::Manhattan, Kind::Hamming];

    // ---- corpus: minimised regression inputs, then the vectors of the repository's own unit tests ----
    run_corpus(&mut out);
    let (t1, t2) = (vec![1.0, 2.0, 3.0], vec![4.0, 5.0, 6.0]);
    for k in [Kind::Euclid, Kind::Manhattan, Kind::Minkowski(1), Kind::Minkowski(2), Kind::Minkowski(3), Kind::Hamming] {
        check_metric(&mut out, k, &t1, &t2, &vec![0.0, 0.0, 0.0], false, "corpus");
        corr_dist(&mut out, k, &t1, &t2, false);
    }
    let tdata = vec![vec![64.0, 580.0, 29.0], vec![66.0, 570.0, 33.0], vec![68.0, 590.0, 37.0], vec![69.0, 660.0, 46.0], vec![73.0, 600.0, 55.0]];
    corr_maha(&mut out, None, Some(&tdata), &vec![68.0, 600.0, 40.0], &vec![66.0, 640.0, 44.0], false);
    corr_dist(&mut out, Kind::Minkowski(0), &t1, &t2, false); // p = 0 is rejected

    // ---- correspondence ----
    let ncorr = if a.thorough { 400 } else { 108 };
    for i in 0..ncorr {
        for f32m in [false, true] {
            if f32m && i % 2 == 1 {
                continue;
            }
            let n = match i % 6 {
                0 => 1,
                1 => 30,
                _ => rng.usize_in(1, 30),
            };
            let fam = i % FAMILIES.len();
            for k in kinds_basic.iter().cloned().chain(std::iter::once(Kind::Minkowski((i % 9) as u16))) {
                let (x, y, _) = gen_triple(&mut rng, k, n, fam, f32m);
                corr_dist(&mut out, k, &x, &y, f32m);
            }
        }
    }
    // lengths that differ, empty vectors, special values (the model follows IEEE there too)
    for i in 0..(if a.thorough { 30 } else { 10 }) {
        let n = rng.usize_in(0, 6);
        let m = if i % 2 == 0 { n + 1 + rng.below(2) } else { n };
        let special = [f64::NAN, f64::INFINITY, f64::NEG_INFINITY, -0.0, 0.0, 1.0, -2.5, 1e308, 5e-324];
        let x: Vec<f64> = (0..n).map(|_| *rng.pick(&special)).collect();
        let y: Vec<f64> = (0..m).map(|_| *rng.pick(&special)).collect();
        for k in kinds_basic {
            corr_dist(&mut out, k, &x, &y, false);
            if k != Kind::Hamming || n > 0 {
                corr_dist(&mut out, k, &x, &y, true);
            }
        }
        let xf: Vec<f64> = (0..n).map(|_| rng.normal()).collect();
        let yf: Vec<f64> = (0..m).map(|_| rng.normal()).collect();
        corr_dist(&mut out, Kind::Minkowski(rng.usize_in(0, 8) as u16), &xf, &yf, false);
        let xi: Vec<i64> = (0..n).map(|_| rng.int(-2, 2)).collect();
        let yi: Vec<i64> = (0..m).map(|_| rng.int(-2, 2)).collect();
        corr_hamming_int(&mut out, &xi, &yi, i % 3 == 0);
    }
    // Mahalanobis: model on the implementation's stored inverse (bit-exact), cov (bit-exact)
    let nmaha = if a.thorough { 320 } else { 80 };
    for i in 0..nmaha {
        let f32m = i % 5 == 4;
        let n = if f32m { rng.usize_in(1, 5) } else { rng.usize_in(1, 10) };
        let cond = 10f64.powf(rng.uniform(0.0, if f32m { 2.0 } else { 4.0 }));
        let (x, y, _) = maha_vectors(&mut rng, n, 1.0, i % 4, f32m);
        if i % 2 == 0 {
            let sc = 10f64.powf(rng.uniform(-2.0, 2.0));
            let c = gen_spd(&mut rng, n, cond, sc, f32m);
            corr_maha(&mut out, Some(&c), None, &x, &y, f32m);
            if i % 4 == 0 {
                // wrong length against the covariance (either argument, shorter or longer)
                let mut xl = x.clone();
                xl.push(0.5);
                let mut xs = x.clone();
                xs.pop();
                match (i / 4) % 4 {
                    0 => corr_maha(&mut out, Some(&c), None, &xl, &y, f32m),
                    1 => corr_maha(&mut out, Some(&c), None, &xs, &y, f32m),
                    2 => corr_maha(&mut out, Some(&c), None, &x, &xl, f32m),
                    _ => corr_maha(&mut out, Some(&c), None, &x, &xs, f32m),
                }
            }
        } else {
            let m = n + 1 + rng.usize_in(1, if f32m { 4 } else { 12 });
            let d = gen_data(&mut rng, m, n, cond, f32m);
            corr_maha(&mut out, None, Some(&d), &x, &y, f32m);
        }
    }

    // ---- search: metric axioms and closed forms ----
    let reps = if a.thorough { 1000 } else { 24 };
    let mut all_kinds: Vec<Kind> = vec![Kind::Euclid, Kind::Manhattan, Kind::Hamming];
    for p in 1..=8u16 {
        all_kinds.push(Kind::Minkowski(p));
    }
    for rep in 0..reps {
        for n in 1..=30usize {
            for fam in 0..FAMILIES.len() {
                for &k in &all_kinds {
                    let f32m = (rep + n + fam) % 3 == 2;
                    let (x, y, z) = gen_triple(&mut rng, k, n, fam, f32m);
                    check_metric(&mut out, k, &x, &y, &z, f32m, FAMILIES[fam]);
                    if out.n_fail() == 0 && rep == 0 && n == 3 && fam < 4 && k == Kind::Euclid {
                        out.sample(metric_input(k, &x, &y, &z, f32m));
                    }
                }
                // special orders, identity covariance, rejected lengths
                let f32m = (rep + n) % 2 == 1;
                let (x, y, _) = gen_triple(&mut rng, Kind::Minkowski(2), n, fam, f32m);
                check_minkowski_special(&mut out, &x, &y, f32m);
                let (x, y, _) = gen_triple(&mut rng, Kind::Euclid, n, fam, f32m);
                check_maha_identity(&mut out, &x, &y, f32m);
                let k = all_kinds[(rep + n + fam) % all_kinds.len()];
                let mut ys = y.clone();
                if rng.bool() {
                    ys.pop();
                } else {
                    ys.push(0.0);
                }
                check_mismatch(&mut out, k, &x, &ys, f32m);
                check_mismatch(&mut out, k, &ys, &x, f32m);
            }
        }
    }
    // ---- search: Mahalanobis from covariances and from data ----
    let nm = if a.thorough { 100000 } else { 4000 };
    for i in 0..nm {
        let f32m = i % 4 == 3;
        let n = if i % 10 == 0 { 30 } else if i % 10 == 1 { 1 } else { rng.usize_in(1, if f32m { 12 } else { 30 }) };
        let cmax: f64 = if f32m { 1.9 } else { 3.95 };
        let cond = 10f64.powf(rng.uniform(0.0, cmax));
        let scale = 10f64.powf(rng.uniform(-3.0, 3.0));
        let fam = i % 4;
        if i % 3 != 2 {
            let c = gen_spd(&mut rng, n, cond, scale * scale, f32m);
            let (x, y, z) = maha_vectors(&mut rng, n, scale, fam, f32m);
            check_maha(&mut out, Some(&c), None, &x, &y, &z, f32m, MAHA_FAMILIES[fam]);
        } else {
            let m = 3 * n + 2 + rng.below(20);
            let d = gen_data(&mut rng, m, n, cond.powf(0.8), f32m);
            let (x, y, z) = maha_vectors(&mut rng, n, 1.0, fam, f32m);
            check_maha(&mut out, None, Some(&d), &x, &y, &z, f32m, MAHA_FAMILIES[fam]);
        }
    }
    let stats: std::collections::BTreeMap<String, f64> = STATS.with(|s| s.borrow().clone());
    out.set("max_observed_error_over_allowance", json!(stats));
    out.finish(&a.out);
}
