//! C17 — distance functions: correspondence cases for the Coq model (SC.C17.Corr) and the
//! failing-input search.  The search oracle is written from the property text: closed forms are
//! evaluated in double-double arithmetic on the exact values of the float inputs (so the only error
//! left is the implementation's own rounding, bounded by a first-order analysis of the *definition*,
//! not of the code), Mahalanobis' closed form is evaluated from the covariance by an independent
//! Cholesky solve, and the metric axioms are checked on triples.  Besides the random families the
//! search enumerates STRUCTURED inputs (small-integer covariances with exact zeros / cancellations /
//! equalities, given directly or arising as the sample covariance of designed integer data, judged
//! also by an exact rational reference; lattice vectors with special shapes for the elementary
//! distances): a special case taken by mistake only shows on inputs that have the structure.
use serde_json::{json, Value};
use smartcore::linalg::naive::dense_matrix::DenseMatrix;
use smartcore::linalg::BaseMatrix;
use smartcore::math::distance::mahalanobis::Mahalanobis;
use smartcore::math::distance::{Distance, Distances};
use smartcore::math::num::RealNumber;
use vharness::*;

// largest observed |impl - definition| / allowance per oracle (goes into the evidence: how much slack
// the rounding allowances have on this run)
thread_local! {
    static STATS: std::cell::RefCell<std::collections::BTreeMap<String, f64>> = std::cell::RefCell::new(std::collections::BTreeMap::new());
}
/// a failing input; the distribution also gets the uncapped number of failures per oracle
fn vfail(out: &mut Out, oracle: &str, what: &str, input: Value) {
    out.count(&format!("violations:{}", oracle));
    out.fail(oracle, what, input);
}
fn note(label: &str, ratio: f64) {
    if ratio.is_finite() {
        STATS.with(|s| {
            let mut s = s.borrow_mut();
            let e = s.entry(label.to_string()).or_insert(0.0);
            if ratio > *e {
                *e = ratio;
            }
        });
    }
}

// ------------------------------------------------------------------------------------------
// double-double arithmetic (reference values)
// ------------------------------------------------------------------------------------------
#[derive(Clone, Copy, Debug)]
struct DD(f64, f64);
fn two_sum(a: f64, b: f64) -> (f64, f64) {
    let s = a + b;
    let bb = s - a;
    (s, (a - (s - bb)) + (b - bb))
}
fn two_prod(a: f64, b: f64) -> (f64, f64) {
    let p = a * b;
    (p, a.mul_add(b, -p))
}
impl DD {
    fn of(a: f64) -> DD {
        DD(a, 0.0)
    }
    fn diff(a: f64, b: f64) -> DD {
        let (s, e) = two_sum(a, -b);
        DD(s, e)
    }
    fn add(self, o: DD) -> DD {
        let (s, e) = two_sum(self.0, o.0);
        let (h, l) = two_sum(s, e + self.1 + o.1);
        DD(h, l)
    }
    fn neg(self) -> DD {
        DD(-self.0, -self.1)
    }
    fn sub(self, o: DD) -> DD {
        self.add(o.neg())
    }
    fn mul(self, o: DD) -> DD {
        let (p, e) = two_prod(self.0, o.0);
        let (h, l) = two_sum(p, e + self.0 * o.1 + self.1 * o.0);
        DD(h, l)
    }
    fn abs(self) -> DD {
        if self.0 < 0.0 || (self.0 == 0.0 && self.1 < 0.0) {
            self.neg()
        } else {
            self
        }
    }
    fn powi(self, p: u32) -> DD {
        let mut r = DD::of(1.0);
        for _ in 0..p {
            r = r.mul(self);
        }
        r
    }
    fn val(self) -> f64 {
        self.0 + self.1
    }
    /// p-th root of a non-negative value (one Newton correction in double-double)
    fn root(self, p: u32) -> f64 {
        if !(self.0 > 0.0) {
            return 0.0;
        }
        if p == 1 {
            return self.val();
        }
        let r0 = if p == 2 { self.0.sqrt() } else { self.0.powf(1.0 / p as f64) };
        let f = DD::of(r0).powi(p).sub(self);
        let der = p as f64 * r0.powi(p as i32 - 1);
        if der == 0.0 || !der.is_finite() {
            return r0;
        }
        r0 - f.val() / der
    }
}

// ------------------------------------------------------------------------------------------
// the implementation
// ------------------------------------------------------------------------------------------
#[derive(Clone, Copy, Debug, PartialEq)]
enum Kind {
    Euclid,
    Manhattan,
    Minkowski(u16),
    Hamming,
}
impl Kind {
    fn name(&self) -> String {
        match self {
            Kind::Euclid => "euclid".into(),
            Kind::Manhattan => "manhattan".into(),
            Kind::Minkowski(_) => "minkowski".into(),
            Kind::Hamming => "hamming".into(),
        }
    }
    fn p(&self) -> u16 {
        if let Kind::Minkowski(p) = self {
            *p
        } else {
            0
        }
    }
    fn from_json(v: &Value) -> Kind {
        match v["kind"].as_str().unwrap_or("") {
            "euclid" => Kind::Euclid,
            "manhattan" => Kind::Manhattan,
            "hamming" => Kind::Hamming,
            _ => Kind::Minkowski(v["p"].as_u64().unwrap_or(1) as u16),
        }
    }
}

fn run_dist<T: RealNumber>(kind: Kind, x: &Vec<T>, y: &Vec<T>) -> T {
    match kind {
        Kind::Euclid => Distances::euclidian().distance(x, y),
        Kind::Manhattan => Distances::manhattan().distance(x, y),
        Kind::Minkowski(p) => Distances::minkowski(p).distance(x, y),
        Kind::Hamming => Distances::hamming().distance(x, y),
    }
}
fn to32(x: &[f64]) -> Vec<f32> {
    x.iter().map(|v| *v as f32).collect()
}
fn snap32(x: &[f64]) -> Vec<f64> {
    x.iter().map(|v| *v as f32 as f64).collect()
}
/// distance through the public API; a panic is `Err`
fn dist(kind: Kind, x: &[f64], y: &[f64], f32m: bool) -> Result<f64, String> {
    if f32m {
        let (a, b) = (to32(x), to32(y));
        guard(|| run_dist::<f32>(kind, &a, &b) as f64)
    } else {
        let (a, b) = (x.to_vec(), y.to_vec());
        guard(|| run_dist::<f64>(kind, &a, &b))
    }
}

enum Maha {
    F64(Mahalanobis<f64, DenseMatrix<f64>>),
    F32(Mahalanobis<f32, DenseMatrix<f32>>),
}
fn rows64(m: &DenseMatrix<f64>) -> Vec<Vec<f64>> {
    let (n, p) = m.shape();
    (0..n).map(|r| (0..p).map(|c| m.get(r, c)).collect()).collect()
}
fn rows32(m: &DenseMatrix<f32>) -> Vec<Vec<f64>> {
    let (n, p) = m.shape();
    (0..n).map(|r| (0..p).map(|c| m.get(r, c) as f64).collect()).collect()
}
impl Maha {
    fn from_cov(cov: &[Vec<f64>], f32m: bool) -> Result<Maha, String> {
        if f32m {
            let m = dense32(cov);
            guard(|| Maha::F32(Mahalanobis::new_from_covariance(&m)))
        } else {
            let m = dense(cov);
            guard(|| Maha::F64(Mahalanobis::new_from_covariance(&m)))
        }
    }
    fn from_data(data: &[Vec<f64>], f32m: bool) -> Result<Maha, String> {
        if f32m {
            let m = dense32(data);
            guard(|| Maha::F32(Distances::mahalanobis(&m)))
        } else {
            let m = dense(data);
            guard(|| Maha::F64(Distances::mahalanobis(&m)))
        }
    }
    fn distance(&self, x: &[f64], y: &[f64]) -> Result<f64, String> {
        match self {
            Maha::F64(m) => {
                let (a, b) = (x.to_vec(), y.to_vec());
                guard(|| m.distance(&a, &b))
            }
            Maha::F32(m) => {
                let (a, b) = (to32(x), to32(y));
                guard(|| m.distance(&a, &b) as f64)
            }
        }
    }
    fn sigma(&self) -> Vec<Vec<f64>> {
        match self {
            Maha::F64(m) => rows64(&m.sigma),
            Maha::F32(m) => rows32(&m.sigma),
        }
    }
    fn sigma_inv(&self) -> Vec<Vec<f64>> {
        match self {
            Maha::F64(m) => rows64(&m.sigmaInv),
            Maha::F32(m) => rows32(&m.sigmaInv),
        }
    }
}

// ------------------------------------------------------------------------------------------
// the definitions (reference values) and the rounding allowance of each
// ------------------------------------------------------------------------------------------
fn unit(f32m: bool) -> f64 {
    if f32m {
        (2.0f64).powi(-24)
    } else {
        (2.0f64).powi(-53)
    }
}
fn min_pos(f32m: bool) -> f64 {
    if f32m {
        1.4e-45
    } else {
        4.95e-324
    }
}
fn ref_dist(kind: Kind, x: &[f64], y: &[f64]) -> f64 {
    let n = x.len();
    match kind {
        Kind::Euclid => {
            let mut s = DD::of(0.0);
            for i in 0..n {
                let d = DD::diff(x[i], y[i]);
                s = s.add(d.mul(d));
            }
            s.root(2)
        }
        Kind::Manhattan => {
            let mut s = DD::of(0.0);
            for i in 0..n {
                s = s.add(DD::diff(x[i], y[i]).abs());
            }
            s.val()
        }
        Kind::Minkowski(p) => {
            let mut s = DD::of(0.0);
            for i in 0..n {
                s = s.add(DD::diff(x[i], y[i]).abs().powi(p as u32));
            }
            s.root(p as u32)
        }
        Kind::Hamming => {
            let c = (0..n).filter(|i| x[*i] != y[*i]).count();
            c as f64 / n as f64
        }
    }
}
/// |impl - definition| allowed for one distance value `r` of vectors of length n:
/// (relative part, absolute floor from underflow of the smallest terms)
fn allowance(kind: Kind, n: usize, r: f64, f32m: bool) -> f64 {
    let u = unit(f32m);
    let nf = n as f64;
    match kind {
        Kind::Euclid => 2.0 * (nf + 4.0) * u * r + (nf * min_pos(f32m)).sqrt() * 4.0,
        Kind::Manhattan => 2.0 * (nf + 4.0) * u * r,
        Kind::Minkowski(p) => {
            let pf = p as f64;
            let lnr = if r > 0.0 { r.ln().abs() } else { 0.0 };
            2.0 * (nf + pf + 8.0 + 2.0 * lnr) * u * r + (nf * min_pos(f32m) * 4.0).powf(1.0 / pf) * 4.0
        }
        Kind::Hamming => 2.0 * u * r,
    }
}

// ------------------------------------------------------------------------------------------
// input families
// ------------------------------------------------------------------------------------------
const FAMILIES: [&str; 9] = ["normal", "lattice", "huge", "tiny", "mixed", "equal", "one-coordinate", "near-equal", "collinear"];

/// largest decimal exponent E such that vectors with components ~ 10^E keep every intermediate
/// of the closed form inside the normal range (the property is about finite results)
fn max_exp(kind: Kind, f32m: bool) -> f64 {
    let full = if f32m { 17.0 } else { 150.0 };
    match kind {
        Kind::Minkowski(p) => (if f32m { 34.0 } else { 290.0 }) / (p.max(2) as f64) - 1.0,
        _ => full,
    }
}
fn gen_triple(rng: &mut Rng, kind: Kind, n: usize, fam: usize, f32m: bool) -> (Vec<f64>, Vec<f64>, Vec<f64>) {
    let emax = max_exp(kind, f32m);
    let scale = match FAMILIES[fam] {
        "huge" => 10f64.powf(rng.uniform(0.65 * emax, emax)),
        "tiny" => 10f64.powf(-rng.uniform(0.65 * emax, emax - 2.0)),
        _ => 10f64.powf(rng.uniform(-2.0, 2.0)),
    };
    let comp = |rng: &mut Rng| -> f64 {
        match FAMILIES[fam] {
            "lattice" | "collinear" => rng.int(-8, 8) as f64 * 0.5,
            "mixed" => rng.normal() * 10f64.powf(rng.uniform(-0.4 * emax.min(8.0), 0.4 * emax.min(8.0))),
            _ => rng.normal() * scale,
        }
    };
    let x: Vec<f64> = (0..n).map(|_| comp(rng)).collect();
    let mut y: Vec<f64>;
    let mut z: Vec<f64>;
    match FAMILIES[fam] {
        "equal" => {
            y = x.clone();
            z = (0..n).map(|_| comp(rng)).collect();
            if rng.bool() {
                z = x.clone();
            }
        }
        "one-coordinate" => {
            y = x.clone();
            let i = rng.below(n);
            y[i] = x[i] * (1.0 + rng.uniform(0.01, 1.0)) + scale * rng.uniform(0.01, 1.0);
            z = y.clone();
            let j = rng.below(n);
            z[j] = y[j] * (1.0 - rng.uniform(0.01, 0.5)) - scale * rng.uniform(0.01, 1.0);
        }
        "near-equal" => {
            y = x.iter().map(|v| v * (1.0 + 1e-3 * rng.normal()) + 1e-3 * scale * rng.normal()).collect();
            z = y.iter().map(|v| v * (1.0 + 1e-3 * rng.normal()) + 1e-3 * scale * rng.normal()).collect();
        }
        "collinear" => {
            // y on the segment x..z (the triangle inequality is an equality in exact arithmetic)
            let d: Vec<f64> = (0..n).map(|_| rng.int(-8, 8) as f64 * 0.5).collect();
            let (a, b) = (rng.int(0, 4) as f64, rng.int(0, 4) as f64);
            y = (0..n).map(|i| x[i] + a * d[i]).collect();
            z = (0..n).map(|i| y[i] + b * d[i]).collect();
        }
        _ => {
            y = (0..n).map(|_| comp(rng)).collect();
            z = (0..n).map(|_| comp(rng)).collect();
        }
    }
    if kind == Kind::Hamming {
        // categorical data: few distinct values so that coordinates coincide
        let k = rng.usize_in(1, 4) as i64;
        let cat = |rng: &mut Rng| rng.int(0, k) as f64;
        let x2: Vec<f64> = (0..n).map(|_| cat(rng)).collect();
        let (y2, z2): (Vec<f64>, Vec<f64>) = match FAMILIES[fam] {
            "equal" => (x2.clone(), (0..n).map(|_| cat(rng)).collect()),
            "one-coordinate" => {
                let mut y2 = x2.clone();
                let i = rng.below(n);
                y2[i] += 1.0;
                let mut z2 = y2.clone();
                let j = rng.below(n);
                z2[j] += 2.0;
                (y2, z2)
            }
            _ => ((0..n).map(|_| cat(rng)).collect(), (0..n).map(|_| cat(rng)).collect()),
        };
        return (x2, y2, z2);
    }
    if f32m {
        (snap32(&x), snap32(&y), snap32(&z))
    } else {
        (x, y, z)
    }
}

// ------------------------------------------------------------------------------------------
// oracles
// ------------------------------------------------------------------------------------------
fn metric_input(kind: Kind, x: &[f64], y: &[f64], z: &[f64], f32m: bool) -> Value {
    json!({"entry": "metric", "kind": kind.name(), "p": kind.p(), "f32": f32m, "x": x, "y": y, "z": z})
}

/// closed form, non-negativity, identity, symmetry, triangle inequality for one triple
fn check_metric(out: &mut Out, kind: Kind, x: &[f64], y: &[f64], z: &[f64], f32m: bool, fam: &str) {
    let n = x.len();
    let input = metric_input(kind, x, y, z, f32m);
    let mut kd: Vec<f64> = x.iter().chain(y.iter()).chain(z.iter()).cloned().collect();
    kd.push(kind.p() as f64 + if f32m { 0.5 } else { 0.0 });
    kd.push(match kind {
        Kind::Euclid => 1.0,
        Kind::Manhattan => 2.0,
        Kind::Minkowski(_) => 3.0,
        Kind::Hamming => 4.0,
    });
    out.eval(hash_f64s(&kd), n >= 2 && x != y && y != z);
    out.count(&format!("search:{}:{}", kind.name(), if f32m { "f32" } else { "f64" }));
    out.count(&format!("search:family:{}", fam));
    out.count(&format!("search:n:{}", if n <= 1 { "1" } else if n <= 5 { "2-5" } else if n <= 15 { "6-15" } else { "16-30" }));
    if let Kind::Minkowski(p) = kind {
        out.count(&format!("search:minkowski:p={}", p));
    }
    let pairs: [(&str, &[f64], &[f64]); 6] = [("xy", x, y), ("yz", y, z), ("xz", x, z), ("yx", y, x), ("xx", x, x), ("zz", z, z)];
    let mut d = [0.0f64; 6];
    for (k, (nm, a, b)) in pairs.iter().enumerate() {
        match dist(kind, a, b, f32m) {
            Ok(v) => d[k] = v,
            Err(msg) => {
                vfail(out, "closed_form", &format!("panic on equal-length finite vectors ({}): {}", nm, msg), input);
                return;
            }
        }
    }
    let r: Vec<f64> = pairs.iter().map(|(_, a, b)| ref_dist(kind, a, b)).collect();
    let al: Vec<f64> = r.iter().map(|v| allowance(kind, n, *v, f32m)).collect();
    // closed forms
    for k in 0..3 {
        if al[k] > 0.0 {
            note(&format!("closed_form:{}:{}", kind.name(), if f32m { "f32" } else { "f64" }), (d[k] - r[k]).abs() / al[k]);
        }
        if !((d[k] - r[k]).abs() <= al[k]) {
            let mut w = input.clone();
            w["pair"] = json!(pairs[k].0);
            w["expected"] = json!(r[k]);
            w["got"] = json!(d[k]);
            w["allowed"] = json!(al[k]);
            vfail(out, "closed_form", &format!("{} distance differs from its definition beyond rounding", kind.name()), w);
            return;
        }
    }
    // non-negative (and a number)
    for k in 0..4 {
        if !(d[k] >= 0.0) {
            let mut w = input.clone();
            w["pair"] = json!(pairs[k].0);
            w["got"] = json!(format!("{}", d[k]));
            vfail(out, "non_negative", "distance is negative or NaN", w);
            return;
        }
    }
    // identical arguments
    if d[4] != 0.0 || d[5] != 0.0 {
        let mut w = input.clone();
        w["got"] = json!([d[4], d[5]]);
        vfail(out, "identity", "d(x,x) is not zero", w);
        return;
    }
    // symmetry up to rounding
    if !((d[0] - d[3]).abs() <= al[0]) {
        let mut w = input.clone();
        w["got"] = json!([d[0], d[3]]);
        vfail(out, "symmetry", "d(x,y) differs from d(y,x) beyond rounding", w);
        return;
    }
    // triangle inequality up to rounding
    if al[0] + al[1] + al[2] > 0.0 {
        note(&format!("triangle_excess:{}", kind.name()), (d[2] - d[0] - d[1]) / (al[0] + al[1] + al[2]));
    }
    if !(d[2] <= d[0] + d[1] + al[0] + al[1] + al[2]) {
        let mut w = input.clone();
        w["got"] = json!({"d_xz": d[2], "d_xy": d[0], "d_yz": d[1]});
        vfail(out, "triangle", "d(x,z) > d(x,y) + d(y,z) beyond rounding", w);
    }
}

/// Minkowski of order 1 / 2 against Manhattan / Euclidian of the implementation
fn check_minkowski_special(out: &mut Out, x: &[f64], y: &[f64], f32m: bool) {
    let n = x.len();
    for (p, other) in [(1u16, Kind::Manhattan), (2u16, Kind::Euclid)] {
        let input = json!({"entry": "minkowski_special", "p": p, "f32": f32m, "x": x, "y": y});
        let mut kd: Vec<f64> = x.iter().chain(y.iter()).cloned().collect();
        kd.push(100.0 + p as f64 + if f32m { 0.5 } else { 0.0 });
        out.eval(hash_f64s(&kd), n >= 2 && x != y);
        out.count(&format!("search:minkowski_{}_vs_{}", p, other.name()));
        match (dist(Kind::Minkowski(p), x, y, f32m), dist(other, x, y, f32m)) {
            (Ok(a), Ok(b)) => {
                let al = allowance(Kind::Minkowski(p), n, b, f32m) + allowance(other, n, b, f32m);
                if al > 0.0 {
                    note(&format!("minkowski_{}_vs_{}", p, other.name()), (a - b).abs() / al);
                }
                if !((a - b).abs() <= al) {
                    let mut w = input.clone();
                    w["got"] = json!({"minkowski": a, "other": b, "allowed": al});
                    vfail(out, "minkowski_special_orders", &format!("Minkowski of order {} differs from {}", p, other.name()), w);
                }
            }
            (a, b) => vfail(out, "minkowski_special_orders", &format!("panic: {:?} {:?}", a.err(), b.err()), input),
        }
    }
}

/// vectors of different length are rejected (the implementation's rejection is a panic)
fn check_mismatch(out: &mut Out, kind: Kind, x: &[f64], y: &[f64], f32m: bool) {
    let input = json!({"entry": "mismatch", "kind": kind.name(), "p": kind.p(), "f32": f32m, "x": x, "y": y});
    let mut kd: Vec<f64> = x.iter().chain(y.iter()).cloned().collect();
    kd.push(200.0 + x.len() as f64 * 64.0 + kind.p() as f64);
    out.eval(hash_f64s(&kd), true);
    out.count(&format!("search:mismatch:{}", kind.name()));
    if let Ok(v) = dist(kind, x, y, f32m) {
        let mut w = input.clone();
        w["got"] = json!(format!("{}", v));
        vfail(out, "length_mismatch_rejected", "vectors of different length were accepted", w);
    }
}

// ---- Mahalanobis ----
fn matvec(a: &[Vec<f64>], v: &[f64]) -> Vec<f64> {
    a.iter().map(|r| r.iter().zip(v).map(|(p, q)| p * q).sum()).collect()
}
/// cyclic Jacobi eigenvalue iteration for a symmetric matrix: (lambda_min, lambda_max)
fn sym_eig_range(a: &[Vec<f64>]) -> (f64, f64) {
    let n = a.len();
    let mut m: Vec<Vec<f64>> = a.to_vec();
    for _sweep in 0..60 {
        let mut off = 0.0;
        let mut diag = 0.0;
        for i in 0..n {
            diag += m[i][i] * m[i][i];
            for j in 0..n {
                if i != j {
                    off += m[i][j] * m[i][j];
                }
            }
        }
        if off <= 1e-30 * diag || off == 0.0 {
            break;
        }
        for p in 0..n {
            for q in (p + 1)..n {
                if m[p][q] == 0.0 {
                    continue;
                }
                let theta = (m[q][q] - m[p][p]) / (2.0 * m[p][q]);
                let t = theta.signum() / (theta.abs() + (theta * theta + 1.0).sqrt());
                let t = if theta == 0.0 { 1.0 } else { t };
                let c = 1.0 / (t * t + 1.0).sqrt();
                let s = t * c;
                for k in 0..n {
                    let (akp, akq) = (m[k][p], m[k][q]);
                    m[k][p] = c * akp - s * akq;
                    m[k][q] = s * akp + c * akq;
                }
                for k in 0..n {
                    let (apk, aqk) = (m[p][k], m[q][k]);
                    m[p][k] = c * apk - s * aqk;
                    m[q][k] = s * apk + c * aqk;
                }
            }
        }
    }
    let mut lo = f64::INFINITY;
    let mut hi = f64::NEG_INFINITY;
    for i in 0..n {
        lo = lo.min(m[i][i]);
        hi = hi.max(m[i][i]);
    }
    (lo, hi)
}
/// solve S w = z for symmetric positive definite S by Cholesky with two refinement steps
fn spd_solve(s: &[Vec<f64>], z: &[f64]) -> Option<Vec<f64>> {
    let n = s.len();
    let mut l = vec![vec![0.0; n]; n];
    for i in 0..n {
        for j in 0..=i {
            let mut v = s[i][j];
            for k in 0..j {
                v -= l[i][k] * l[j][k];
            }
            if i == j {
                if !(v > 0.0) {
                    return None;
                }
                l[i][i] = v.sqrt();
            } else {
                l[i][j] = v / l[j][j];
            }
        }
    }
    let solve = |b: &[f64]| -> Vec<f64> {
        let mut y = vec![0.0; n];
        for i in 0..n {
            let mut v = b[i];
            for k in 0..i {
                v -= l[i][k] * y[k];
            }
            y[i] = v / l[i][i];
        }
        let mut w = vec![0.0; n];
        for i in (0..n).rev() {
            let mut v = y[i];
            for k in (i + 1)..n {
                v -= l[k][i] * w[k];
            }
            w[i] = v / l[i][i];
        }
        w
    };
    let mut w = solve(z);
    for _ in 0..2 {
        // residual in double-double
        let r: Vec<f64> = (0..n)
            .map(|i| {
                let mut acc = DD::of(z[i]);
                for k in 0..n {
                    acc = acc.sub(DD::of(s[i][k]).mul(DD::of(w[k])));
                }
                acc.val()
            })
            .collect();
        let dw = solve(&r);
        for i in 0..n {
            w[i] += dw[i];
        }
    }
    Some(w)
}
/// the definition of the sample covariance (two-pass, divisor m - 1)
fn ref_cov(data: &[Vec<f64>]) -> (Vec<Vec<f64>>, Vec<f64>) {
    let m = data.len();
    let n = data[0].len();
    let mu: Vec<f64> = (0..n)
        .map(|c| {
            let mut s = DD::of(0.0);
            for r in 0..m {
                s = s.add(DD::of(data[r][c]));
            }
            s.val() / m as f64
        })
        .collect();
    let mut c = vec![vec![0.0; n]; n];
    for i in 0..n {
        for j in 0..n {
            let mut s = DD::of(0.0);
            for r in 0..m {
                s = s.add(DD::of(data[r][i] - mu[i]).mul(DD::of(data[r][j] - mu[j])));
            }
            c[i][j] = s.val() / (m as f64 - 1.0);
        }
    }
    (c, mu)
}
fn ref_maha(sigma: &[Vec<f64>], a: &[f64], b: &[f64]) -> Option<f64> {
    let z: Vec<f64> = a.iter().zip(b).map(|(p, q)| p - q).collect();
    let w = spd_solve(sigma, &z)?;
    let mut s = DD::of(0.0);
    for i in 0..z.len() {
        s = s.add(DD::of(z[i]).mul(DD::of(w[i])));
    }
    Some(s.root(2))
}

const COND_MAX_64: f64 = 1e4;
const COND_MAX_32: f64 = 1e2;

/// Mahalanobis built from a covariance (`data == None`) or from data rows; triple x, y, z
fn check_maha(out: &mut Out, cov: Option<&[Vec<f64>]>, data: Option<&[Vec<f64>]>, x: &[f64], y: &[f64], z: &[f64], f32m: bool, fam: &str) {
    let input = match (cov, data) {
        (Some(c), _) => json!({"entry": "maha_cov", "cov": c, "x": x, "y": y, "z": z, "f32": f32m}),
        (_, Some(d)) => json!({"entry": "maha_data", "data": d, "x": x, "y": y, "z": z, "f32": f32m}),
        _ => return,
    };
    let n = x.len();
    let u = unit(f32m);
    // the covariance the definition speaks about
    let (sigma_ref, cov_scale): (Vec<Vec<f64>>, Option<Vec<f64>>) = match (cov, data) {
        (Some(c), _) => (c.to_vec(), None),
        (_, Some(d)) => {
            let (c, mu) = ref_cov(d);
            (c, Some(mu))
        }
        _ => unreachable!(),
    };
    let (lmin, lmax) = sym_eig_range(&sigma_ref);
    let cond = if lmin > 0.0 { lmax / lmin } else { f64::INFINITY };
    let cmax = if f32m { COND_MAX_32 } else { COND_MAX_64 };
    if !(cond <= cmax) {
        out.count("search:mahalanobis:excluded-condition-number");
        return;
    }
    let mut kd: Vec<f64> = x.iter().chain(y.iter()).chain(z.iter()).cloned().collect();
    kd.extend(sigma_ref.iter().flatten());
    kd.push(if f32m { 1.0 } else { 0.0 });
    out.eval(hash_f64s(&kd), n >= 2 && x != y && y != z);
    out.count(&format!("search:mahalanobis:{}:{}", if cov.is_some() { "from-covariance" } else { "from-data" }, if f32m { "f32" } else { "f64" }));
    out.count(&format!("search:mahalanobis:family:{}", fam));
    out.count(&format!("search:mahalanobis:cond:{}", if cond < 10.0 { "<10" } else if cond < 100.0 { "<1e2" } else if cond < 1e3 { "<1e3" } else { "<=1e4" }));
    out.count(&format!("search:n:{}", if n <= 1 { "1" } else if n <= 5 { "2-5" } else if n <= 15 { "6-15" } else { "16-30" }));
    let m = match if let Some(c) = cov { Maha::from_cov(c, f32m) } else { Maha::from_data(data.unwrap(), f32m) } {
        Ok(m) => m,
        Err(msg) => {
            vfail(out, "mahalanobis_closed_form", &format!("construction panicked on a well-conditioned positive-definite covariance: {}", msg), input);
            return;
        }
    };
    let nf = n as f64;
    // (a) stored covariance = the definition
    let sig = m.sigma();
    for i in 0..n {
        for j in 0..n {
            let al = match (&cov_scale, data) {
                // two-pass definition: (m+4) roundings relative to sqrt(c_ii c_jj); the error of the computed
                // mean enters only in second order (the centred values sum to zero): m^2 u^2 |mu_i mu_j|
                (Some(mu), Some(d)) => {
                    let mf = d.len() as f64;
                    8.0 * (mf + 4.0) * u * (sigma_ref[i][i] * sigma_ref[j][j]).sqrt() + 8.0 * mf * mf * u * u * (mu[i] * mu[j]).abs()
                }
                _ => 0.0,
            };
            if al > 0.0 {
                note(&format!("mahalanobis_covariance:{}", if f32m { "f32" } else { "f64" }), (sig[i][j] - sigma_ref[i][j]).abs() / al);
            }
            if !((sig[i][j] - sigma_ref[i][j]).abs() <= al) {
                let mut w = input.clone();
                w["at"] = json!([i, j]);
                w["expected"] = json!(sigma_ref[i][j]);
                w["got"] = json!(sig[i][j]);
                vfail(out, "mahalanobis_covariance", "stored sigma differs from the sample covariance (divisor m-1) / the given covariance", w);
                return;
            }
        }
    }
    // (b) stored inverse times covariance = identity, up to the conditioning
    let sinv = m.sigma_inv();
    let res_al = 32.0 * nf * u * cond;
    for i in 0..n {
        for j in 0..n {
            let mut s = DD::of(0.0);
            for k in 0..n {
                s = s.add(DD::of(sinv[i][k]).mul(DD::of(sig[k][j])));
            }
            let e = s.val() - if i == j { 1.0 } else { 0.0 };
            note(&format!("mahalanobis_inverse_residual:{}", if f32m { "f32" } else { "f64" }), e.abs() / res_al);
            if !(e.abs() <= res_al) {
                let mut w = input.clone();
                w["at"] = json!([i, j]);
                w["residual"] = json!(e);
                w["allowed"] = json!(res_al);
                vfail(out, "mahalanobis_inverse", "sigmaInv * sigma is not the identity within cond * n * eps", w);
                return;
            }
        }
    }
    // (c) closed form and metric axioms
    let pairs: [(&str, &[f64], &[f64]); 6] = [("xy", x, y), ("yz", y, z), ("xz", x, z), ("yx", y, x), ("xx", x, x), ("zz", z, z)];
    let mut d = [0.0f64; 6];
    for (k, (nm, a, b)) in pairs.iter().enumerate() {
        match m.distance(a, b) {
            Ok(v) => d[k] = v,
            Err(msg) => {
                vfail(out, "mahalanobis_closed_form", &format!("panic ({}): {}", nm, msg), input);
                return;
            }
        }
    }
    // allowance for d^2: |delta sigmaInv| <= c n u cond |sigmaInv|, summation of n^2 terms
    let al2 = |a: &[f64], b: &[f64]| -> f64 {
        let zz: f64 = a.iter().zip(b).map(|(p, q)| (p - q) * (p - q)).sum();
        u * zz / lmin * (32.0 * nf * cond + 2.0 * nf * nf * nf.sqrt() + 16.0)
    };
    let mut al = [0.0f64; 3];
    for k in 0..3 {
        let r = match ref_maha(&sigma_ref, pairs[k].1, pairs[k].2) {
            Some(r) => r,
            None => {
                out.count("search:mahalanobis:excluded-reference-not-spd");
                return;
            }
        };
        let a2 = al2(pairs[k].1, pairs[k].2);
        // |d - r| = |d^2 - r^2| / (d + r)
        al[k] = if r > 0.0 { (a2 / r).min(a2.sqrt()) } else { 0.0 };
        if al[k] > 0.0 {
            note(&format!("mahalanobis_closed_form:{}", if f32m { "f32" } else { "f64" }), (d[k] - r).abs() / al[k]);
        }
        if !((d[k] - r).abs() <= al[k]) {
            let mut w = input.clone();
            w["pair"] = json!(pairs[k].0);
            w["expected"] = json!(r);
            w["got"] = json!(format!("{}", d[k]));
            w["allowed"] = json!(al[k]);
            vfail(out, "mahalanobis_closed_form", "distance differs from sqrt((x-y)^T Sigma^-1 (x-y)) beyond the conditioning allowance", w);
            return;
        }
    }
    for k in 0..4 {
        if !(d[k] >= 0.0) {
            let mut w = input.clone();
            w["pair"] = json!(pairs[k].0);
            w["got"] = json!(format!("{}", d[k]));
            vfail(out, "non_negative", "Mahalanobis distance is negative or NaN", w);
            return;
        }
    }
    if d[4] != 0.0 || d[5] != 0.0 {
        vfail(out, "identity", "Mahalanobis d(x,x) is not zero", input);
        return;
    }
    if !((d[0] - d[3]).abs() <= 8.0 * u * d[0]) {
        let mut w = input.clone();
        w["got"] = json!([d[0], d[3]]);
        vfail(out, "symmetry", "Mahalanobis d(x,y) differs from d(y,x)", w);
        return;
    }
    if !(d[2] <= d[0] + d[1] + al[0] + al[1] + al[2]) {
        let mut w = input.clone();
        w["got"] = json!({"d_xz": d[2], "d_xy": d[0], "d_yz": d[1]});
        vfail(out, "triangle", "Mahalanobis d(x,z) > d(x,y) + d(y,z) beyond rounding", w);
    }
}

/// identity covariance: Mahalanobis coincides with Euclidian; wrong lengths are rejected
fn check_maha_identity(out: &mut Out, x: &[f64], y: &[f64], f32m: bool) {
    let n = x.len();
    let input = json!({"entry": "maha_identity", "x": x, "y": y, "f32": f32m});
    let mut kd: Vec<f64> = x.iter().chain(y.iter()).cloned().collect();
    kd.push(300.0 + if f32m { 0.5 } else { 0.0 });
    out.eval(hash_f64s(&kd), n >= 2 && x != y);
    out.count("search:mahalanobis:identity");
    let id: Vec<Vec<f64>> = (0..n).map(|i| (0..n).map(|j| if i == j { 1.0 } else { 0.0 }).collect()).collect();
    let m = match Maha::from_cov(&id, f32m) {
        Ok(m) => m,
        Err(msg) => {
            vfail(out, "mahalanobis_identity_is_euclidean", &format!("construction panicked: {}", msg), input);
            return;
        }
    };
    match (m.distance(x, y), dist(Kind::Euclid, x, y, f32m)) {
        (Ok(a), Ok(b)) => {
            if !((a - b).abs() <= 2.0 * allowance(Kind::Euclid, n, b, f32m)) {
                let mut w = input.clone();
                w["got"] = json!({"mahalanobis": a, "euclid": b});
                vfail(out, "mahalanobis_identity_is_euclidean", "Mahalanobis with identity covariance differs from Euclidian", w);
            }
        }
        (a, b) => vfail(out, "mahalanobis_identity_is_euclidean", &format!("panic: {:?} {:?}", a.err(), b.err()), input.clone()),
    }
    // wrong lengths (shorter / longer, either side)
    let mut xs = x.to_vec();
    xs.pop();
    let mut xl = x.to_vec();
    xl.push(1.0);
    for (a, b) in [(&xs, &y.to_vec()), (&x.to_vec(), &xs), (&xl, &y.to_vec()), (&x.to_vec(), &xl), (&xs, &xs), (&xl, &xl)] {
        out.count("search:mismatch:mahalanobis");
        if let Ok(v) = m.distance(a, b) {
            let w = json!({"entry": "maha_mismatch", "n": n, "x": a, "y": b, "f32": f32m, "got": format!("{}", v)});
            vfail(out, "length_mismatch_rejected", "Mahalanobis accepted a vector whose length differs from the covariance", w);
            return;
        }
    }
}

// ---- generators for covariances / data ----
fn random_orthogonal(rng: &mut Rng, n: usize) -> Vec<Vec<f64>> {
    // modified Gram-Schmidt of a Gaussian matrix (rows)
    let mut q: Vec<Vec<f64>> = vec![];
    while q.len() < n {
        let mut v: Vec<f64> = (0..n).map(|_| rng.normal()).collect();
        for _ in 0..2 {
            for b in &q {
                let d: f64 = v.iter().zip(b).map(|(p, r)| p * r).sum();
                for i in 0..n {
                    v[i] -= d * b[i];
                }
            }
        }
        let nrm: f64 = v.iter().map(|t| t * t).sum::<f64>().sqrt();
        if nrm > 1e-6 {
            q.push(v.iter().map(|t| t / nrm).collect());
        }
    }
    q
}
/// SPD matrix with prescribed condition number `cond` and overall scale `scale`
fn gen_spd(rng: &mut Rng, n: usize, cond: f64, scale: f64, f32m: bool) -> Vec<Vec<f64>> {
    let q = random_orthogonal(rng, n);
    let lam: Vec<f64> = (0..n)
        .map(|i| {
            if n == 1 || i == 0 {
                1.0
            } else if i == 1 {
                cond
            } else {
                cond.powf(rng.unit())
            }
        })
        .collect();
    let mut s = vec![vec![0.0; n]; n];
    for i in 0..n {
        for j in 0..=i {
            let mut v = 0.0;
            for k in 0..n {
                v += q[k][i] * lam[k] * q[k][j];
            }
            let v = v * scale;
            let v = if f32m { v as f32 as f64 } else { v };
            s[i][j] = v;
            s[j][i] = v;
        }
    }
    s
}
fn gen_data(rng: &mut Rng, m: usize, n: usize, cond: f64, f32m: bool) -> Vec<Vec<f64>> {
    // rows = mean + A * g with A = Q diag(sqrt(lambda)): population covariance has condition `cond`
    let q = random_orthogonal(rng, n);
    let lam: Vec<f64> = (0..n).map(|i| if i == 0 { 1.0 } else { cond.powf(rng.unit()) }).collect();
    // a quarter of the data sets sit far from the origin (|mean| up to 1e6 sd; single precision 1e2)
    let off = if rng.below(4) == 0 { 10f64.powf(rng.uniform(0.0, if f32m { 2.0 } else { 6.0 })) } else { 1.0 };
    let mean: Vec<f64> = (0..n).map(|_| rng.uniform(-3.0, 3.0) * off).collect();
    (0..m)
        .map(|_| {
            let g: Vec<f64> = (0..n).map(|k| rng.normal() * lam[k].sqrt()).collect();
            (0..n)
                .map(|i| {
                    let v = mean[i] + (0..n).map(|k| q[k][i] * g[k]).sum::<f64>();
                    if f32m { v as f32 as f64 } else { v }
                })
                .collect()
        })
        .collect()
}
fn maha_vectors(rng: &mut Rng, n: usize, scale: f64, fam: usize, f32m: bool) -> (Vec<f64>, Vec<f64>, Vec<f64>) {
    let g = |rng: &mut Rng| -> Vec<f64> { (0..n).map(|_| rng.normal() * scale).collect() };
    let x = g(rng);
    let (y, z) = match fam {
        0 => (g(rng), g(rng)),
        1 => (x.clone(), g(rng)),
        2 => {
            let mut y = x.clone();
            let i = rng.below(n);
            y[i] += scale * rng.uniform(0.1, 1.0);
            let mut z = y.clone();
            let j = rng.below(n);
            z[j] -= scale * rng.uniform(0.1, 1.0);
            (y, z)
        }
        _ => {
            // collinear: y between x and z
            let d = g(rng);
            let y: Vec<f64> = (0..n).map(|i| x[i] + 0.5 * d[i]).collect();
            let z: Vec<f64> = (0..n).map(|i| y[i] + 0.25 * d[i]).collect();
            (y, z)
        }
    };
    if f32m {
        (snap32(&x), snap32(&y), snap32(&z))
    } else {
        (x, y, z)
    }
}
const MAHA_FAMILIES: [&str; 4] = ["random", "equal", "one-coordinate", "collinear"];

// ------------------------------------------------------------------------------------------
// structured covariances: small-integer symmetric matrices made positive definite by strict diagonal
// dominance.  A constructor that takes a structural special case of the covariance by mistake
// ("diagonal", "sparse", "scalar", ... detected by a test that also fires on other matrices) computes a
// wrong inverse only on matrices that *have* such structure, which random positive definite matrices
// never do; these families enumerate the structure (exact cancellations, exact zeros, equalities).
// ------------------------------------------------------------------------------------------
const S_PATTERNS: [&str; 13] = [
    "dense", "zero-offdiag-sum", "zero-row-sums", "signed-pair", "sparse", "tridiagonal", "arrow", "block-diagonal", "permuted-diagonal", "clean-row",
    "constant-offdiag", "diagonal", "identity",
];
const S_DIAGS: [&str; 3] = ["dominant", "equal", "one-dominant"];
const S_SCALES: [&str; 8] = ["one", "one", "one", "rational", "pow2", "pow10", "unit-trace", "unit-diagonal"];
const S_VECS: [&str; 6] = ["unit", "integer", "equal", "one-coordinate", "collinear", "random"];

fn nzi(rng: &mut Rng) -> i64 {
    let v = rng.int(1, 3);
    if rng.bool() {
        v
    } else {
        -v
    }
}
fn set_sym(a: &mut Vec<Vec<i64>>, i: usize, j: usize, v: i64) {
    a[i][j] = v;
    a[j][i] = v;
}
fn permute_sym(rng: &mut Rng, a: &mut Vec<Vec<i64>>) {
    let n = a.len();
    let mut p: Vec<usize> = (0..n).collect();
    rng.shuffle(&mut p);
    let b = a.clone();
    for i in 0..n {
        for j in 0..n {
            a[i][j] = b[p[i]][p[j]];
        }
    }
}
fn upper_positions(n: usize) -> Vec<(usize, usize)> {
    let mut v = vec![];
    for i in 0..n {
        for j in (i + 1)..n {
            v.push((i, j));
        }
    }
    v
}
/// the off-diagonal part (symmetric, zero diagonal, entries in -3..=3) of pattern `pat`
fn struct_offdiag(rng: &mut Rng, n: usize, pat: &str) -> Vec<Vec<i64>> {
    let mut a = vec![vec![0i64; n]; n];
    let ups = upper_positions(n);
    match pat {
        "zero-offdiag-sum" if n >= 3 => {
            // positive and negative entries cancel exactly in the sum of all off-diagonal entries
            for &(i, j) in &ups {
                set_sym(&mut a, i, j, rng.int(-3, 3));
            }
            let mut s: i64 = ups.iter().map(|&(i, j)| a[i][j]).sum();
            while s != 0 {
                let (i, j) = ups[rng.below(ups.len())];
                if s > 0 && a[i][j] > -3 {
                    let v = a[i][j] - 1;
                    set_sym(&mut a, i, j, v);
                    s -= 1;
                } else if s < 0 && a[i][j] < 3 {
                    let v = a[i][j] + 1;
                    set_sym(&mut a, i, j, v);
                    s += 1;
                }
            }
            if ups.iter().all(|&(i, j)| a[i][j] == 0) {
                let v = nzi(rng);
                let mut q = ups.clone();
                rng.shuffle(&mut q);
                set_sym(&mut a, q[0].0, q[0].1, v);
                set_sym(&mut a, q[1].0, q[1].1, -v);
            }
        }
        "zero-row-sums" if n >= 4 => {
            // sums of signed 4-cycles: every row of the off-diagonal part sums to zero
            for t in 0..rng.usize_in(1, 3) {
                let mut idx: Vec<usize> = (0..n).collect();
                rng.shuffle(&mut idx);
                let (i, j, k, l) = (idx[0], idx[1], idx[2], idx[3]);
                let sg = if rng.bool() { 1 } else { -1 };
                let upd = [(i, j, sg), (k, l, sg), (j, k, -sg), (l, i, -sg)];
                if t == 0 || upd.iter().all(|&(p, q, d)| (a[p][q] + d).abs() <= 3) {
                    for &(p, q, d) in &upd {
                        let v = a[p][q] + d;
                        set_sym(&mut a, p, q, v);
                    }
                }
            }
        }
        "zero-row-sums" if n == 3 => return struct_offdiag(rng, n, "zero-offdiag-sum"),
        "signed-pair" if n >= 3 => {
            // entries come in pairs +v, -v
            let mut q = ups.clone();
            rng.shuffle(&mut q);
            let t = rng.usize_in(1, (q.len() / 2).min(3));
            for k in 0..t {
                let v = nzi(rng);
                set_sym(&mut a, q[2 * k].0, q[2 * k].1, v);
                set_sym(&mut a, q[2 * k + 1].0, q[2 * k + 1].1, -v);
            }
        }
        "sparse" => {
            for &(i, j) in &ups {
                if rng.chance(0.3) {
                    let v = nzi(rng);
                    set_sym(&mut a, i, j, v);
                }
            }
            if !ups.is_empty() && ups.iter().all(|&(i, j)| a[i][j] == 0) {
                let (i, j) = ups[rng.below(ups.len())];
                let v = nzi(rng);
                set_sym(&mut a, i, j, v);
            }
        }
        "tridiagonal" => {
            for i in 0..(n - 1) {
                let v = nzi(rng);
                set_sym(&mut a, i, i + 1, v);
            }
        }
        "arrow" => {
            let any = rng.below(n);
            let r = *rng.pick(&[0, n - 1, any]);
            for j in 0..n {
                if j != r {
                    let v = nzi(rng);
                    set_sym(&mut a, r, j, v);
                }
            }
        }
        "block-diagonal" => {
            let mut start = 0;
            while start < n {
                let size = rng.usize_in(1, 3).min(n - start);
                for i in start..(start + size) {
                    for j in (i + 1)..(start + size) {
                        let v = nzi(rng);
                        set_sym(&mut a, i, j, v);
                    }
                }
                start += size;
            }
            if rng.bool() {
                permute_sym(rng, &mut a);
            }
        }
        "permuted-diagonal" => {
            // the off-diagonal part is a (scaled) permutation pattern of an involution
            if rng.bool() {
                for i in 0..n / 2 {
                    let v = nzi(rng);
                    set_sym(&mut a, i, n - 1 - i, v);
                }
            } else {
                let mut idx: Vec<usize> = (0..n).collect();
                rng.shuffle(&mut idx);
                for t in 0..n / 2 {
                    let v = nzi(rng);
                    set_sym(&mut a, idx[2 * t], idx[2 * t + 1], v);
                }
            }
        }
        "clean-row" => {
            // one variable uncorrelated with the rest (first, last or any), the others dense
            for &(i, j) in &ups {
                let v = nzi(rng);
                set_sym(&mut a, i, j, v);
            }
            let any = rng.below(n);
            let r = *rng.pick(&[0, n - 1, any]);
            for j in 0..n {
                set_sym(&mut a, r, j, 0);
            }
        }
        "constant-offdiag" => {
            let v = nzi(rng);
            for &(i, j) in &ups {
                set_sym(&mut a, i, j, v);
            }
        }
        "diagonal" | "identity" => {}
        _ => {
            // "dense", and the patterns that need a larger dimension
            for &(i, j) in &ups {
                set_sym(&mut a, i, j, rng.int(-3, 3));
            }
        }
    }
    a
}
/// integer symmetric positive definite matrix: pattern `pat` off the diagonal, diagonal = absolute row
/// sum + a positive slack (strict diagonal dominance)
fn struct_cov_int(rng: &mut Rng, n: usize, pat: &str, diag: &str) -> Vec<Vec<i64>> {
    let mut a = struct_offdiag(rng, n, pat);
    if pat == "identity" {
        for i in 0..n {
            a[i][i] = 1;
        }
        return a;
    }
    let r: Vec<i64> = (0..n).map(|i| a[i].iter().map(|v| v.abs()).sum()).collect();
    let slack = |rng: &mut Rng| *rng.pick(&[1i64, 1, 2, 3, 4, 9]);
    match diag {
        "equal" => {
            let d = r.iter().cloned().max().unwrap_or(0) + slack(rng);
            for i in 0..n {
                a[i][i] = d;
            }
        }
        _ => {
            for i in 0..n {
                a[i][i] = r[i] + slack(rng);
            }
            if diag == "one-dominant" {
                let k = rng.below(n);
                a[k][k] += *rng.pick(&[100i64, 225, 400]);
            }
        }
    }
    a
}
/// (numerator, denominator) of the scaling applied to the integer matrix `s`
fn struct_scale(rng: &mut Rng, kind: &str, s: &[Vec<i64>]) -> (i64, i64) {
    match kind {
        // trace = dimension although the matrix is not the identity
        "unit-trace" => (s.len() as i64, (0..s.len()).map(|i| s[i][i]).sum()),
        // first diagonal entry one (all of them for the equal-diagonal matrices: a correlation matrix)
        "unit-diagonal" => (1, s[0][0]),
        "rational" => (rng.int(1, 9), *rng.pick(&[2i64, 3, 5, 6, 7, 9, 10, 12, 100])),
        "pow2" => {
            let k = rng.int(1, 12);
            if rng.bool() {
                (1 << k, 1)
            } else {
                (1, 1 << k)
            }
        }
        "pow10" => {
            let k = rng.int(1, 6) as u32;
            if rng.bool() {
                (10i64.pow(k), 1)
            } else {
                (1, 10i64.pow(k))
            }
        }
        _ => (1, 1),
    }
}
fn scaled_cov(s: &[Vec<i64>], mult: (i64, i64), f32m: bool) -> Vec<Vec<f64>> {
    s.iter()
        .map(|r| {
            r.iter()
                .map(|v| {
                    let w = (*v as f64 * mult.0 as f64) / mult.1 as f64;
                    if f32m {
                        w as f32 as f64
                    } else {
                        w
                    }
                })
                .collect()
        })
        .collect()
}
/// vectors on the integer lattice scaled by the power of two `vs` (exact in both widths); "random" is Gaussian
fn struct_vectors(rng: &mut Rng, n: usize, fam: &str, vs: f64, f32m: bool) -> (Vec<f64>, Vec<f64>, Vec<f64>) {
    let iv = |rng: &mut Rng| -> Vec<f64> { (0..n).map(|_| rng.int(-4, 4) as f64 * vs).collect() };
    let (x, y, z): (Vec<f64>, Vec<f64>, Vec<f64>) = match fam {
        "unit" => {
            let mut x = vec![0.0; n];
            x[rng.below(n)] = vs;
            let mut z = vec![0.0; n];
            z[rng.below(n)] = if rng.bool() { vs } else { -vs };
            (x, vec![0.0; n], z)
        }
        "equal" => {
            let x = iv(rng);
            (x.clone(), x, iv(rng))
        }
        "one-coordinate" => {
            let x = iv(rng);
            let mut y = x.clone();
            y[rng.below(n)] += nzi(rng) as f64 * vs;
            let mut z = y.clone();
            z[rng.below(n)] += nzi(rng) as f64 * vs;
            (x, y, z)
        }
        "collinear" => {
            let x = iv(rng);
            let d = iv(rng);
            let (a, b) = (rng.int(0, 3) as f64, rng.int(0, 3) as f64);
            let y: Vec<f64> = (0..n).map(|i| x[i] + a * d[i]).collect();
            let z: Vec<f64> = (0..n).map(|i| y[i] + b * d[i]).collect();
            (x, y, z)
        }
        "random" => {
            let g = |rng: &mut Rng| -> Vec<f64> { (0..n).map(|_| rng.normal() * vs).collect() };
            (g(rng), g(rng), g(rng))
        }
        _ => (iv(rng), iv(rng), iv(rng)),
    };
    if f32m {
        (snap32(&x), snap32(&y), snap32(&z))
    } else {
        (x, y, z)
    }
}
/// power of two nearest to sqrt(num/den): vectors of that size have Mahalanobis distances of order one
fn vec_scale(mult: (i64, i64)) -> f64 {
    let l = 0.5 * (mult.0 as f64 / mult.1 as f64).log2();
    (2.0f64).powi(l.round() as i32)
}

// ---- data sets whose sample covariance is a prescribed structured matrix ----
/// integer vectors l_c with sum_c l_c l_c^T = S for a symmetric, diagonally dominant integer S:
/// |s_ij| copies of e_i + sign(s_ij) e_j, and the diagonal slack as a sum of squares w^2 (w e_i)
fn gram_columns(s: &[Vec<i64>]) -> Option<Vec<Vec<i64>>> {
    let n = s.len();
    let mut cols: Vec<Vec<i64>> = vec![];
    for i in 0..n {
        for j in (i + 1)..n {
            for _ in 0..s[i][j].abs() {
                let mut c = vec![0i64; n];
                c[i] = 1;
                c[j] = s[i][j].signum();
                cols.push(c);
            }
        }
    }
    for i in 0..n {
        let mut slack = s[i][i] - (0..n).filter(|j| *j != i).map(|j| s[i][j].abs()).sum::<i64>();
        if slack < 0 {
            return None;
        }
        while slack > 0 {
            let mut w = (slack as f64).sqrt() as i64;
            while w * w > slack {
                w -= 1;
            }
            let mut c = vec![0i64; n];
            c[i] = w;
            cols.push(c);
            slack -= w * w;
        }
    }
    Some(cols)
}
/// rows of a centred orthogonal design times the factor: the sample covariance (divisor m-1) of the
/// result is exactly (num/den) * sum_c l_c l_c^T.  "pm": rows +l_c and -l_c (m = 2k, 2/(2k-1));
/// "hadamard": rows sum_c h(r,c) l_c over the non-constant columns of the Sylvester matrix of order
/// m = 2^t > k (m/(m-1)).  Every row is shifted by the integer vector `offset`.
fn design_data(rng: &mut Rng, cols: &[Vec<i64>], n: usize, kind: &str, offset: &[i64]) -> (Vec<Vec<f64>>, (i64, i64)) {
    let k = cols.len();
    let mut rows: Vec<Vec<i64>> = vec![];
    let mult;
    if kind == "hadamard" {
        let mut m = 2usize;
        while m < k + 1 {
            m *= 2;
        }
        for r in 0..m {
            let mut row = vec![0i64; n];
            for (c, col) in cols.iter().enumerate() {
                let sg = if (r & (c + 1)).count_ones() % 2 == 0 { 1 } else { -1 };
                for i in 0..n {
                    row[i] += sg * col[i];
                }
            }
            rows.push(row);
        }
        mult = (m as i64, m as i64 - 1);
    } else {
        for col in cols {
            rows.push(col.clone());
            rows.push(col.iter().map(|v| -v).collect());
        }
        mult = (2, 2 * k as i64 - 1);
    }
    rng.shuffle(&mut rows);
    (rows.iter().map(|r| (0..n).map(|i| (r[i] + offset[i]) as f64).collect()).collect(), mult)
}
fn struct_offset(rng: &mut Rng, n: usize) -> Vec<i64> {
    match rng.below(4) {
        0 | 1 => vec![0; n],
        2 => (0..n).map(|_| rng.int(-20, 20)).collect(),
        _ => (0..n).map(|_| rng.int(-2, 2) * 1000 + rng.int(-9, 9)).collect(),
    }
}

// ---- exact rational reference for integer covariances and integer vectors ----
/// z^T S^-1 z = num/den (den = det S > 0) for an integer symmetric positive definite S, by fraction-free
/// (Bareiss) elimination of the bordered matrix [[S, z], [z^T, 0]] whose determinant is -det(S) z^T S^-1 z
fn exact_quad(s: &[Vec<i64>], z: &[i64]) -> Option<(i128, i128)> {
    let n = s.len();
    let mut m = vec![vec![0i128; n + 1]; n + 1];
    for i in 0..n {
        for j in 0..n {
            m[i][j] = s[i][j] as i128;
        }
        m[i][n] = z[i] as i128;
        m[n][i] = z[i] as i128;
    }
    let mut prev: i128 = 1;
    for k in 0..n {
        if m[k][k] <= 0 {
            return None; // a leading principal minor is not positive: not positive definite
        }
        for i in (k + 1)..=n {
            for j in (k + 1)..=n {
                let v = m[k][k].checked_mul(m[i][j])?.checked_sub(m[i][k].checked_mul(m[k][j])?)?;
                m[i][j] = v / prev;
            }
        }
        prev = m[k][k];
    }
    Some((-m[n][n], prev))
}
fn as_ints(v: &[f64]) -> Option<Vec<i64>> {
    v.iter().map(|t| if t.fract() == 0.0 && t.abs() < 1e6 { Some(*t as i64) } else { None }).collect()
}
/// Mahalanobis against the exact rational closed form: covariance (num/den) * S with S an integer matrix
/// (given to `new_from_covariance`, or arising as the sample covariance of `data`), integer vectors
fn check_maha_exact(out: &mut Out, s: &[Vec<i64>], mult: (i64, i64), data: Option<&[Vec<f64>]>, x: &[f64], y: &[f64], z: &[f64], f32m: bool, fam: &str) {
    let n = s.len();
    let input = json!({"entry": "maha_exact", "s": s, "mult": [mult.0, mult.1], "data": data, "x": x, "y": y, "z": z, "f32": f32m});
    let (xi, yi, zi) = match (as_ints(x), as_ints(y), as_ints(z)) {
        (Some(a), Some(b), Some(c)) => (a, b, c),
        _ => return,
    };
    if x.len() != n || y.len() != n || z.len() != n || mult.0 <= 0 || mult.1 <= 0 {
        return;
    }
    let u = unit(f32m);
    let c = mult.0 as f64 / mult.1 as f64;
    let sf: Vec<Vec<f64>> = s.iter().map(|r| r.iter().map(|v| *v as f64).collect()).collect();
    let (lmin_s, lmax_s) = sym_eig_range(&sf);
    let cond = if lmin_s > 0.0 { lmax_s / lmin_s } else { f64::INFINITY };
    if !(cond <= if f32m { COND_MAX_32 } else { COND_MAX_64 }) {
        out.count("search:mahalanobis:excluded-condition-number");
        return;
    }
    if let Some(d) = data {
        // the premise of this oracle: the sample covariance of the data is (num/den) S
        let (rc, _) = ref_cov(d);
        let big = c * s.iter().flatten().map(|v| v.abs()).max().unwrap_or(1) as f64;
        if rc.len() != n || (0..n).any(|i| (0..n).any(|j| !((rc[i][j] - c * sf[i][j]).abs() <= 1e-12 * big))) {
            out.count("search:mahalanobis:excluded-data-not-of-that-covariance");
            return;
        }
    }
    let mut kd: Vec<f64> = x.iter().chain(y.iter()).chain(z.iter()).cloned().collect();
    kd.extend(sf.iter().flatten());
    kd.extend([mult.0 as f64, mult.1 as f64, if f32m { 401.0 } else { 400.0 }, data.map(|d| d.len() as f64).unwrap_or(0.0)]);
    out.eval(hash_f64s(&kd), n >= 2 && x != y && y != z);
    out.count(&format!("search:mahalanobis-exact:{}:{}", if data.is_some() { "from-data" } else { "from-covariance" }, if f32m { "f32" } else { "f64" }));
    out.count(&format!("search:mahalanobis-exact:family:{}", fam));
    let built = match data {
        Some(d) => Maha::from_data(d, f32m),
        None => Maha::from_cov(&scaled_cov(s, mult, f32m), f32m),
    };
    let m = match built {
        Ok(m) => m,
        Err(msg) => {
            vfail(out, "mahalanobis_closed_form_exact", &format!("construction panicked on a well-conditioned positive-definite covariance: {}", msg), input);
            return;
        }
    };
    let nf = n as f64;
    let pairs: [(&str, &[f64], &[f64], &[i64], &[i64]); 3] = [("xy", x, y, &xi, &yi), ("yz", y, z, &yi, &zi), ("xz", x, z, &xi, &zi)];
    for (nm, a, b, ai, bi) in pairs.iter() {
        let zz: Vec<i64> = ai.iter().zip(bi.iter()).map(|(p, q)| p - q).collect();
        let (num, den) = match exact_quad(s, &zz) {
            Some(v) => v,
            None => {
                out.count("search:mahalanobis:excluded-reference-not-spd");
                return;
            }
        };
        // d^2 = (den_c/num_c) num/den
        let q = (num as f64 / den as f64) / c;
        let r = if q > 0.0 { q.sqrt() } else { 0.0 };
        let z2: f64 = zz.iter().map(|v| (*v as f64) * (*v as f64)).sum();
        let a2 = u * z2 / (lmin_s * c) * (32.0 * nf * cond + 2.0 * nf * nf * nf.sqrt() + 16.0);
        let al = if r > 0.0 { (a2 / r).min(a2.sqrt()) } else { 0.0 };
        let d = match m.distance(a, b) {
            Ok(v) => v,
            Err(msg) => {
                vfail(out, "mahalanobis_closed_form_exact", &format!("panic ({}): {}", nm, msg), input);
                return;
            }
        };
        if al > 0.0 {
            note(&format!("mahalanobis_closed_form_exact:{}", if f32m { "f32" } else { "f64" }), (d - r).abs() / al);
        }
        if !((d - r).abs() <= al) {
            let mut w = input.clone();
            w["pair"] = json!(nm);
            w["expected"] = json!(r);
            w["expected_squared_as_fraction"] = json!(format!("({} / {}) * ({} / {})", num, den, mult.1, mult.0));
            w["got"] = json!(format!("{}", d));
            w["allowed"] = json!(al);
            vfail(out, "mahalanobis_closed_form_exact", "distance differs from the exact rational value of sqrt((x-y)^T Sigma^-1 (x-y)) beyond the conditioning allowance", w);
            return;
        }
    }
}

// ---- structured vectors for the four elementary distances ----
const S_METRIC: [&str; 9] = ["binary", "sign-flip", "rotation", "constant-shift", "pythagorean", "unit", "dominant-coordinate", "far-lattice", "all-differ"];
const PYTH: [&[i64]; 12] = [&[3, 4], &[5, 12], &[8, 15], &[7, 24], &[1, 2, 2], &[2, 3, 6], &[1, 4, 8], &[2, 6, 9], &[4, 4, 7], &[1, 1, 1, 1], &[2, 2, 2, 2], &[1, 1, 3, 5]];
fn struct_triple(rng: &mut Rng, n: usize, fam: &str, f32m: bool) -> (Vec<f64>, Vec<f64>, Vec<f64>) {
    let iv = |rng: &mut Rng, r: i64| -> Vec<f64> { (0..n).map(|_| rng.int(-r, r) as f64).collect() };
    // a vector with the entries of a Pythagorean tuple (random signs) at random coordinates, zero elsewhere
    let tuple = |rng: &mut Rng| -> Vec<f64> {
        let fits: Vec<&&[i64]> = PYTH.iter().filter(|t| t.len() <= n).collect();
        let mut v = vec![0.0; n];
        if fits.is_empty() {
            v[0] = nzi(rng) as f64;
            return v;
        }
        let t = fits[rng.below(fits.len())];
        let mut idx: Vec<usize> = (0..n).collect();
        rng.shuffle(&mut idx);
        for (k, e) in t.iter().enumerate() {
            v[idx[k]] = if rng.bool() { *e as f64 } else { -*e as f64 };
        }
        v
    };
    match fam {
        "binary" => {
            let b = |rng: &mut Rng| -> Vec<f64> { (0..n).map(|_| rng.int(0, 1) as f64).collect() };
            (b(rng), b(rng), b(rng))
        }
        "sign-flip" => {
            let x = iv(rng, 6);
            let y: Vec<f64> = x.iter().map(|v| 0.0 - v).collect();
            (x, y, vec![0.0; n])
        }
        "rotation" => {
            // the same multiset of values in another order
            let x = iv(rng, 3);
            let y: Vec<f64> = (0..n).map(|i| x[(i + 1) % n]).collect();
            let z: Vec<f64> = (0..n).map(|i| x[n - 1 - i]).collect();
            (x, y, z)
        }
        "constant-shift" => {
            let x = iv(rng, 6);
            let (c, d) = (nzi(rng) as f64 * 0.5, nzi(rng) as f64 * 0.25);
            let y: Vec<f64> = x.iter().map(|v| v + c).collect();
            let z: Vec<f64> = y.iter().map(|v| v + d).collect();
            (x, y, z)
        }
        "pythagorean" => {
            let x = iv(rng, 6);
            let (s, t) = (tuple(rng), tuple(rng));
            let y: Vec<f64> = (0..n).map(|i| x[i] + s[i]).collect();
            let z: Vec<f64> = (0..n).map(|i| y[i] + t[i]).collect();
            (x, y, z)
        }
        "unit" => {
            let e = |rng: &mut Rng| -> Vec<f64> {
                let mut v = vec![0.0; n];
                v[rng.below(n)] = 1.0;
                v
            };
            (e(rng), e(rng), vec![0.0; n])
        }
        "dominant-coordinate" => {
            let x = iv(rng, 2);
            let mut y: Vec<f64> = x.iter().map(|v| v + nzi(rng).signum() as f64).collect();
            y[rng.below(n)] += if f32m { 64.0 } else { 1024.0 };
            let mut z = y.clone();
            z[rng.below(n)] -= 512.0;
            (x, y, z)
        }
        "far-lattice" => {
            // far from the origin, small integer separations (every component and difference exact)
            let k = if f32m { rng.int(8, 18) } else { rng.int(20, 45) };
            let c = (2.0f64).powi(k as i32);
            let x: Vec<f64> = (0..n).map(|_| if rng.bool() { c } else { -c } + rng.int(-4, 4) as f64).collect();
            let y: Vec<f64> = x.iter().map(|v| v + rng.int(-2, 2) as f64).collect();
            let z: Vec<f64> = y.iter().map(|v| v + rng.int(-2, 2) as f64).collect();
            (x, y, z)
        }
        _ => {
            // "all-differ": every coordinate differs
            let x = iv(rng, 6);
            let y: Vec<f64> = x.iter().map(|v| v + nzi(rng) as f64).collect();
            let z: Vec<f64> = y.iter().map(|v| v + nzi(rng) as f64).collect();
            (x, y, z)
        }
    }
}

// ------------------------------------------------------------------------------------------
// correspondence cases
// ------------------------------------------------------------------------------------------
fn bits32(v: f64) -> String {
    coq_z((v as f32).to_bits() as i64)
}
fn coq_list_b32(xs: &[f64]) -> String {
    coq_list(xs.iter().map(|x| bits32(*x)))
}
fn coq_rows_b32(rows: &[Vec<f64>]) -> String {
    coq_list(rows.iter().map(|r| coq_list_b32(r)))
}
fn jf(xs: &[f64]) -> Value {
    // replay-safe rendering (NaN / inf are not JSON numbers)
    json!(xs.iter().map(|v| if v.is_finite() { json!(v) } else { json!(format!("{}", v)) }).collect::<Vec<Value>>())
}

fn corr_dist(out: &mut Out, kind: Kind, x: &[f64], y: &[f64], f32m: bool) {
    let res = dist(kind, x, y, f32m).ok();
    let input = json!({"entry": "corr", "kind": kind.name(), "p": kind.p(), "f32": f32m, "x": jf(x), "y": jf(y)});
    let group = format!("{}:{}", kind.name(), if f32m { "f32" } else { "f64" });
    let term = if f32m {
        let e = coq_option(res.map(bits32));
        match kind {
            Kind::Euclid => format!("corr32_euclid {} {} {}", coq_list_b32(x), coq_list_b32(y), e),
            Kind::Manhattan => format!("corr32_manhattan {} {} {}", coq_list_b32(x), coq_list_b32(y), e),
            Kind::Hamming => format!("corr32_hamming {} {} {}", coq_list_b32(x), coq_list_b32(y), e),
            Kind::Minkowski(p) => format!("corr32_minkowski {} {} {} {} {}", coq_f64(2e-5), coq_n(p as usize), coq_list_b32(x), coq_list_b32(y), e),
        }
    } else {
        let e = coq_option(res.map(coq_f64));
        match kind {
            Kind::Euclid => format!("corr_euclid {} {} {}", coq_list_f64(x), coq_list_f64(y), e),
            Kind::Manhattan => format!("corr_manhattan {} {} {}", coq_list_f64(x), coq_list_f64(y), e),
            Kind::Hamming => format!("corr_hamming_f {} {} {}", coq_list_f64(x), coq_list_f64(y), e),
            Kind::Minkowski(p) => format!("corr_minkowski {} {} {} {} {}", coq_f64(1e-9), coq_n(p as usize), coq_list_f64(x), coq_list_f64(y), e),
        }
    };
    out.corr(&group, term, input);
}

fn corr_hamming_int(out: &mut Out, x: &[i64], y: &[i64], f32m: bool) {
    let (a, b): (Vec<i64>, Vec<i64>) = (x.to_vec(), y.to_vec());
    let input = json!({"entry": "corr_hamming_int", "f32": f32m, "x": x, "y": y});
    if f32m {
        let res = guard(|| {
            let h: f32 = Distances::hamming().distance(&a, &b);
            h as f64
        })
        .ok();
        out.corr("hamming-int:f32", format!("corr32_hamming_z {} {} {}", coq_list_z(x), coq_list_z(y), coq_option(res.map(bits32))), input);
    } else {
        let res = guard(|| {
            let h: f64 = Distances::hamming().distance(&a, &b);
            h
        })
        .ok();
        out.corr("hamming-int:f64", format!("corr_hamming_z {} {} {}", coq_list_z(x), coq_list_z(y), coq_option(res.map(coq_f64))), input);
    }
}

/// Mahalanobis::distance of the model on the implementation's stored inverse; cov on the data
fn corr_maha(out: &mut Out, cov: Option<&[Vec<f64>]>, data: Option<&[Vec<f64>]>, x: &[f64], y: &[f64], f32m: bool) {
    let built = if let Some(c) = cov { Maha::from_cov(c, f32m) } else { Maha::from_data(data.unwrap(), f32m) };
    let input = json!({"entry": "corr_maha", "cov": cov, "data": data, "x": x, "y": y, "f32": f32m});
    let m = match built {
        Ok(m) => m,
        Err(_) => return,
    };
    let sig = m.sigma();
    let sinv = m.sigma_inv();
    let n = sig.len();
    let res = m.distance(x, y).ok();
    let sfx = if f32m { "f32" } else { "f64" };
    if f32m {
        out.corr(
            &format!("mahalanobis-distance:{}", sfx),
            format!("corr32_mahalanobis {} {} {} {} {}", coq_n(n), coq_rows_b32(&sinv), coq_list_b32(x), coq_list_b32(y), coq_option(res.map(bits32))),
            input.clone(),
        );
    } else {
        out.corr(
            &format!("mahalanobis-distance:{}", sfx),
            format!("corr_mahalanobis_wf {} {} {} {} {} {}", coq_f64(1e-6), coq_n(n), coq_rows_f64(&sinv), coq_list_f64(x), coq_list_f64(y), coq_option(res.map(coq_f64))),
            input.clone(),
        );
    }
    if let Some(d) = data {
        let ncols = d[0].len();
        if f32m {
            out.corr(&format!("cov:{}", sfx), format!("corr32_cov {} {} (Some {})", coq_n(ncols), coq_rows_b32(d), coq_rows_b32(&sig)), input);
        } else {
            out.corr(&format!("cov:{}", sfx), format!("corr_cov {} {} (Some {})", coq_n(ncols), coq_rows_f64(d), coq_rows_f64(&sig)), input);
        }
    }
}

/// the constructor as a whole: C01's LU-inverse model applied to the covariance (for data: to the model's
/// cov of the data) must reproduce the stored inverse, and the distance on it, bit for bit
fn corr_maha_chain(out: &mut Out, cov: Option<&[Vec<f64>]>, data: Option<&[Vec<f64>]>, x: &[f64], y: &[f64], f32m: bool, fam: &str) {
    let built = if let Some(c) = cov { Maha::from_cov(c, f32m) } else { Maha::from_data(data.unwrap(), f32m) };
    let input = json!({"entry": "corr_maha_chain", "cov": cov, "data": data, "x": x, "y": y, "f32": f32m, "family": fam});
    let m = match built {
        Ok(m) => m,
        Err(_) => return,
    };
    let sig = m.sigma();
    let sinv = m.sigma_inv();
    let n = sig.len();
    let res = m.distance(x, y).ok();
    let sfx = if f32m { "f32" } else { "f64" };
    match (cov, data) {
        (Some(c), _) => out.corr(
            &format!("mahalanobis-constructor:from-covariance:{}", sfx),
            format!("corr_maha_from_cov {} {} {} {} {} {} {}", coq_bool(f32m), coq_n(n), coq_rows_f64(c), coq_rows_f64(&sinv), coq_list_f64(x), coq_list_f64(y), coq_option(res.map(coq_f64))),
            input,
        ),
        (_, Some(d)) => out.corr(
            &format!("mahalanobis-constructor:from-data:{}", sfx),
            format!(
                "corr_maha_from_data {} {} {} {} {} {} {} {}",
                coq_bool(f32m),
                coq_n(d[0].len()),
                coq_rows_f64(d),
                coq_rows_f64(&sig),
                coq_rows_f64(&sinv),
                coq_list_f64(x),
                coq_list_f64(y),
                coq_option(res.map(coq_f64))
            ),
            input,
        ),
        _ => {}
    }
}

// ------------------------------------------------------------------------------------------
// replay
// ------------------------------------------------------------------------------------------
/// evaluate the oracle that belongs to one replay / corpus input; false = unknown entry
fn replay_into(out: &mut Out, inp: &Value, fam: &str) -> bool {
    let f32m = inp["f32"].as_bool().unwrap_or(false);
    let x = f64s_from_json(&inp["x"]);
    let y = f64s_from_json(&inp["y"]);
    let z = f64s_from_json(&inp["z"]);
    match inp["entry"].as_str().unwrap_or("") {
        "metric" => check_metric(out, Kind::from_json(inp), &x, &y, &z, f32m, fam),
        "minkowski_special" => check_minkowski_special(out, &x, &y, f32m),
        "mismatch" => check_mismatch(out, Kind::from_json(inp), &x, &y, f32m),
        "maha_cov" => {
            let c = rows_from_json(&inp["cov"]);
            check_maha(out, Some(&c), None, &x, &y, &z, f32m, fam);
        }
        "maha_data" => {
            let d = rows_from_json(&inp["data"]);
            check_maha(out, None, Some(&d), &x, &y, &z, f32m, fam);
        }
        "maha_identity" => check_maha_identity(out, &x, &y, f32m),
        "maha_exact" => {
            let si: Vec<Vec<i64>> = rows_from_json(&inp["s"]).iter().map(|r| r.iter().map(|v| *v as i64).collect()).collect();
            let mult = (inp["mult"][0].as_i64().unwrap_or(1), inp["mult"][1].as_i64().unwrap_or(1));
            let d = if inp["data"].is_array() { Some(rows_from_json(&inp["data"])) } else { None };
            check_maha_exact(out, &si, mult, d.as_deref(), &x, &y, &z, f32m, fam);
        }
        "maha_mismatch" => {
            let n = inp["n"].as_u64().unwrap_or(1) as usize;
            let id: Vec<Vec<f64>> = (0..n).map(|i| (0..n).map(|j| if i == j { 1.0 } else { 0.0 }).collect()).collect();
            out.count("search:mismatch:mahalanobis");
            if let Ok(m) = Maha::from_cov(&id, f32m) {
                if m.distance(&x, &y).is_ok() {
                    vfail(out, "length_mismatch_rejected", "Mahalanobis accepted a vector whose length differs from the covariance", inp.clone());
                }
            }
        }
        _ => return false,
    }
    true
}

fn replay(path: &str) -> i32 {
    let v = read_replay(path);
    let inp = if v.get("input").is_some() { v["input"].clone() } else { v.clone() };
    let mut out = Out::new("C17", "replay");
    if !replay_into(&mut out, &inp, "replay") {
        eprintln!("unknown replay entry");
        return 2;
    }
    if out.n_fail() > 0 {
        println!("REPLAY: property=C17 still fails: {}", path);
        1
    } else {
        println!("REPLAY: property=C17 passes: {}", path);
        0
    }
}

/// the minimised regression inputs of /verif/corpus/C17 (replay format), sorted by name
fn run_corpus(out: &mut Out) {
    let dir = "/verif/corpus/C17";
    let mut files: Vec<std::path::PathBuf> = match std::fs::read_dir(dir) {
        Ok(rd) => rd.filter_map(|e| e.ok().map(|e| e.path())).filter(|p| p.extension().map(|e| e == "json").unwrap_or(false)).collect(),
        Err(_) => return,
    };
    files.sort();
    for f in files {
        if let Ok(txt) = std::fs::read_to_string(&f) {
            if let Ok(v) = serde_json::from_str::<Value>(&txt) {
                let inp = if v.get("input").is_some() { v["input"].clone() } else { v.clone() };
                if replay_into(out, &inp, "corpus") {
                    out.count("search:corpus-file");
                }
            }
        }
    }
}

// ------------------------------------------------------------------------------------------
fn main() {
    quiet_panics();
    let a = args();
    if let Some(p) = &a.replay {
        std::process::exit(replay(p));
    }
    let mut rng = Rng::new(a.seed);
    let mut out = Out::new(
        "C17",
        "search case = (distance kind, width, triple x,y,z of equal length [, covariance or data]); non-trivial: length >= 2 and x != y and y != z (pair checks: x != y); distinct by hash of (data, kind, order, width)",
    );
    let kinds_basic = [Kind::Euclid, Kind::Manhattan, Kind::Hamming];

    // ---- corpus: minimised regression inputs, then the vectors of the repository's own unit tests ----
    run_corpus(&mut out);
    let (t1, t2) = (vec![1.0, 2.0, 3.0], vec![4.0, 5.0, 6.0]);
    for k in [Kind::Euclid, Kind::Manhattan, Kind::Minkowski(1), Kind::Minkowski(2), Kind::Minkowski(3), Kind::Hamming] {
        check_metric(&mut out, k, &t1, &t2, &vec![0.0, 0.0, 0.0], false, "corpus");
        corr_dist(&mut out, k, &t1, &t2, false);
    }
    let tdata = vec![vec![64.0, 580.0, 29.0], vec![66.0, 570.0, 33.0], vec![68.0, 590.0, 37.0], vec![69.0, 660.0, 46.0], vec![73.0, 600.0, 55.0]];
    corr_maha(&mut out, None, Some(&tdata), &vec![68.0, 600.0, 40.0], &vec![66.0, 640.0, 44.0], false);
    corr_dist(&mut out, Kind::Minkowski(0), &t1, &t2, false); // p = 0 is rejected

    // ---- correspondence ----
    let ncorr = if a.thorough { 400 } else { 108 };
    for i in 0..ncorr {
        for f32m in [false, true] {
            if f32m && i % 2 == 1 {
                continue;
            }
            let n = match i % 6 {
                0 => 1,
                1 => 30,
                _ => rng.usize_in(1, 30),
            };
            let fam = i % FAMILIES.len();
            for k in kinds_basic.iter().cloned().chain(std::iter::once(Kind::Minkowski((i % 9) as u16))) {
                let (x, y, _) = gen_triple(&mut rng, k, n, fam, f32m);
                corr_dist(&mut out, k, &x, &y, f32m);
            }
        }
    }
    // lengths that differ, empty vectors, special values (the model follows IEEE there too)
    for i in 0..(if a.thorough { 30 } else { 10 }) {
        let n = rng.usize_in(0, 6);
        let m = if i % 2 == 0 { n + 1 + rng.below(2) } else { n };
        let special = [f64::NAN, f64::INFINITY, f64::NEG_INFINITY, -0.0, 0.0, 1.0, -2.5, 1e308, 5e-324];
        let x: Vec<f64> = (0..n).map(|_| *rng.pick(&special)).collect();
        let y: Vec<f64> = (0..m).map(|_| *rng.pick(&special)).collect();
        for k in kinds_basic {
            corr_dist(&mut out, k, &x, &y, false);
            if k != Kind::Hamming || n > 0 {
                corr_dist(&mut out, k, &x, &y, true);
            }
        }
        let xf: Vec<f64> = (0..n).map(|_| rng.normal()).collect();
        let yf: Vec<f64> = (0..m).map(|_| rng.normal()).collect();
        corr_dist(&mut out, Kind::Minkowski(rng.usize_in(0, 8) as u16), &xf, &yf, false);
        let xi: Vec<i64> = (0..n).map(|_| rng.int(-2, 2)).collect();
        let yi: Vec<i64> = (0..m).map(|_| rng.int(-2, 2)).collect();
        corr_hamming_int(&mut out, &xi, &yi, i % 3 == 0);
    }
    // Mahalanobis: model on the implementation's stored inverse (bit-exact), cov (bit-exact)
    let nmaha = if a.thorough { 320 } else { 80 };
    for i in 0..nmaha {
        let f32m = i % 5 == 4;
        let n = if f32m { rng.usize_in(1, 5) } else { rng.usize_in(1, 10) };
        let cond = 10f64.powf(rng.uniform(0.0, if f32m { 2.0 } else { 4.0 }));
        let (x, y, _) = maha_vectors(&mut rng, n, 1.0, i % 4, f32m);
        if i % 2 == 0 {
            let sc = 10f64.powf(rng.uniform(-2.0, 2.0));
            let c = gen_spd(&mut rng, n, cond, sc, f32m);
            corr_maha(&mut out, Some(&c), None, &x, &y, f32m);
            if i % 4 == 0 {
                // wrong length against the covariance (either argument, shorter or longer)
                let mut xl = x.clone();
                xl.push(0.5);
                let mut xs = x.clone();
                xs.pop();
                match (i / 4) % 4 {
                    0 => corr_maha(&mut out, Some(&c), None, &xl, &y, f32m),
                    1 => corr_maha(&mut out, Some(&c), None, &xs, &y, f32m),
                    2 => corr_maha(&mut out, Some(&c), None, &x, &xl, f32m),
                    _ => corr_maha(&mut out, Some(&c), None, &x, &xs, f32m),
                }
            }
        } else {
            let m = n + 1 + rng.usize_in(1, if f32m { 4 } else { 12 });
            let d = gen_data(&mut rng, m, n, cond, f32m);
            corr_maha(&mut out, None, Some(&d), &x, &y, f32m);
        }
    }

    // ---- search: metric axioms and closed forms ----
    let reps = if a.thorough { 1000 } else { 24 };
    let mut all_kinds: Vec<Kind> = vec![Kind::Euclid, Kind::Manhattan, Kind::Hamming];
    for p in 1..=8u16 {
        all_kinds.push(Kind::Minkowski(p));
    }
    for rep in 0..reps {
        for n in 1..=30usize {
            for fam in 0..FAMILIES.len() {
                for &k in &all_kinds {
                    let f32m = (rep + n + fam) % 3 == 2;
                    let (x, y, z) = gen_triple(&mut rng, k, n, fam, f32m);
                    check_metric(&mut out, k, &x, &y, &z, f32m, FAMILIES[fam]);
                    if out.n_fail() == 0 && rep == 0 && n == 3 && fam < 4 && k == Kind::Euclid {
                        out.sample(metric_input(k, &x, &y, &z, f32m));
                    }
                }
                // special orders, identity covariance, rejected lengths
                let f32m = (rep + n) % 2 == 1;
                let (x, y, _) = gen_triple(&mut rng, Kind::Minkowski(2), n, fam, f32m);
                check_minkowski_special(&mut out, &x, &y, f32m);
                let (x, y, _) = gen_triple(&mut rng, Kind::Euclid, n, fam, f32m);
                check_maha_identity(&mut out, &x, &y, f32m);
                let k = all_kinds[(rep + n + fam) % all_kinds.len()];
                let mut ys = y.clone();
                if rng.bool() {
                    ys.pop();
                } else {
                    ys.push(0.0);
                }
                check_mismatch(&mut out, k, &x, &ys, f32m);
                check_mismatch(&mut out, k, &ys, &x, f32m);
            }
        }
    }
    // ---- search: Mahalanobis from covariances and from data ----
    let nm = if a.thorough { 100000 } else { 4000 };
    for i in 0..nm {
        let f32m = i % 4 == 3;
        let n = if i % 10 == 0 { 30 } else if i % 10 == 1 { 1 } else { rng.usize_in(1, if f32m { 12 } else { 30 }) };
        let cmax: f64 = if f32m { 1.9 } else { 3.95 };
        let cond = 10f64.powf(rng.uniform(0.0, cmax));
        let scale = 10f64.powf(rng.uniform(-3.0, 3.0));
        let fam = i % 4;
        if i % 3 != 2 {
            let c = gen_spd(&mut rng, n, cond, scale * scale, f32m);
            let (x, y, z) = maha_vectors(&mut rng, n, scale, fam, f32m);
            check_maha(&mut out, Some(&c), None, &x, &y, &z, f32m, MAHA_FAMILIES[fam]);
        } else {
            let m = 3 * n + 2 + rng.below(20);
            let d = gen_data(&mut rng, m, n, cond.powf(0.8), f32m);
            let (x, y, z) = maha_vectors(&mut rng, n, 1.0, fam, f32m);
            check_maha(&mut out, None, Some(&d), &x, &y, &z, f32m, MAHA_FAMILIES[fam]);
        }
    }
    // ---- structured inputs (their own stream, so that the cases above do not depend on them) ----
    let mut srng = Rng::new(a.seed.wrapping_mul(0x9E37_79B9).wrapping_add(0xC17));
    // correspondence: the whole constructor (C01's LU inverse in the model) on structured covariances / data
    let nchain = if a.thorough { 480 } else { 130 };
    for i in 0..nchain {
        let f32m = i % 5 == 4;
        let pat = S_PATTERNS[i % S_PATTERNS.len()];
        let diag = S_DIAGS[(i / S_PATTERNS.len()) % S_DIAGS.len()];
        let from_data = i % 3 == 2;
        let n = if from_data { srng.usize_in(2, 4) } else { srng.usize_in(2, 6) };
        let s = struct_cov_int(&mut srng, n, pat, diag);
        let vfam = S_VECS[srng.below(S_VECS.len())];
        if from_data {
            let cols = match gram_columns(&s) {
                Some(c) => c,
                None => continue,
            };
            let off = struct_offset(&mut srng, n);
            let (d, mult) = design_data(&mut srng, &cols, n, if i % 2 == 0 { "pm" } else { "hadamard" }, &off);
            let (x, y, _) = struct_vectors(&mut srng, n, vfam, vec_scale(mult), f32m);
            let mut xo: Vec<f64> = (0..n).map(|k| x[k] + off[k] as f64).collect();
            let mut yo: Vec<f64> = (0..n).map(|k| y[k] + off[k] as f64).collect();
            if f32m {
                xo = snap32(&xo);
                yo = snap32(&yo);
            }
            corr_maha_chain(&mut out, None, Some(&d), &xo, &yo, f32m, pat);
        } else {
            let sk = S_SCALES[srng.below(S_SCALES.len())];
            let mult = struct_scale(&mut srng, sk, &s);
            let c = scaled_cov(&s, mult, f32m);
            let (x, y, _) = struct_vectors(&mut srng, n, vfam, vec_scale(mult), f32m);
            corr_maha_chain(&mut out, Some(&c), None, &x, &y, f32m, pat);
        }
    }
    // correspondence: structured vectors for the elementary distances
    for (i, fam) in S_METRIC.iter().enumerate() {
        for rep in 0..(if a.thorough { 6 } else { 2 }) {
            let f32m = (i + rep) % 2 == 1;
            let n = srng.usize_in(1, 12);
            let (x, y, _) = struct_triple(&mut srng, n, fam, f32m);
            for k in [Kind::Euclid, Kind::Manhattan, Kind::Hamming, Kind::Minkowski(1), Kind::Minkowski(2), Kind::Minkowski(3 + (rep % 6) as u16)] {
                corr_dist(&mut out, k, &x, &y, f32m);
            }
        }
    }
    // search: structured covariances (given, and arising as the sample covariance of designed data)
    let sreps = if a.thorough { 100 } else { 8 };
    let mut case = 0usize;
    for _rep in 0..sreps {
        for n in 2..=6usize {
            for pat in S_PATTERNS {
                for diag in S_DIAGS {
                    for v in 0..S_VECS.len() {
                        case += 1;
                        let f32m = case % 4 == 3;
                        let s = struct_cov_int(&mut srng, n, pat, diag);
                        let vfam = S_VECS[v];
                        let mode = (case + case / S_VECS.len()) % 3;
                        let label = format!("structured:{}", pat);
                        out.count(&format!("search:mahalanobis:structured:diagonal:{}", diag));
                        out.count(&format!("search:mahalanobis:structured:vectors:{}", vfam));
                        if mode != 2 {
                            // new_from_covariance
                            let sk = S_SCALES[srng.below(S_SCALES.len())];
                            out.count(&format!("search:mahalanobis:structured:scale:{}", sk));
                            let mult = struct_scale(&mut srng, sk, &s);
                            let c = scaled_cov(&s, mult, f32m);
                            let (x, y, z) = struct_vectors(&mut srng, n, vfam, vec_scale(mult), f32m);
                            check_maha(&mut out, Some(&c), None, &x, &y, &z, f32m, &label);
                            if vfam != "random" {
                                // the same triple in units of the vector scale is integer: exact rational reference
                                let vs = vec_scale(mult);
                                let (xi, yi, zi): (Vec<f64>, Vec<f64>, Vec<f64>) = (x.iter().map(|t| t / vs).collect(), y.iter().map(|t| t / vs).collect(), z.iter().map(|t| t / vs).collect());
                                check_maha_exact(&mut out, &s, mult, None, &xi, &yi, &zi, f32m, &label);
                            }
                            if out.n_fail() == 0 && _rep == 0 && n == 4 && diag == "dominant" && v == 1 {
                                out.sample(json!({"entry": "maha_cov", "cov": c, "x": x, "y": y, "z": z, "f32": f32m, "pattern": pat}));
                            }
                        } else {
                            // new(data): the sample covariance of the designed data is (num/den) S
                            let cols = match gram_columns(&s) {
                                Some(c) => c,
                                None => continue,
                            };
                            let off = struct_offset(&mut srng, n);
                            let kind = if case % 2 == 0 { "pm" } else { "hadamard" };
                            out.count(&format!("search:mahalanobis:structured:design:{}", kind));
                            let (d, mult) = design_data(&mut srng, &cols, n, kind, &off);
                            let (x, y, z) = struct_vectors(&mut srng, n, vfam, 1.0, f32m);
                            let sh = |v: &Vec<f64>| -> Vec<f64> {
                                let w: Vec<f64> = (0..n).map(|k| v[k] + off[k] as f64).collect();
                                if f32m {
                                    snap32(&w)
                                } else {
                                    w
                                }
                            };
                            let (x, y, z) = (sh(&x), sh(&y), sh(&z));
                            let label = format!("structured-data:{}", pat);
                            check_maha(&mut out, None, Some(&d), &x, &y, &z, f32m, &label);
                            if vfam != "random" {
                                check_maha_exact(&mut out, &s, mult, Some(&d), &x, &y, &z, f32m, &label);
                            }
                        }
                    }
                }
            }
        }
    }
    // search: structured vectors for the elementary distances (every kind, every length)
    for rep in 0..(if a.thorough { 30 } else { 3 }) {
        for n in 1..=30usize {
            for (fi, fam) in S_METRIC.iter().enumerate() {
                let f32m = (rep + n + fi) % 3 == 2;
                let (x, y, z) = struct_triple(&mut srng, n, fam, f32m);
                for &k in &all_kinds {
                    check_metric(&mut out, k, &x, &y, &z, f32m, &format!("structured:{}", fam));
                }
                check_minkowski_special(&mut out, &x, &y, f32m);
                check_minkowski_special(&mut out, &y, &z, f32m);
                if fi % 3 == 0 {
                    check_maha_identity(&mut out, &x, &y, f32m);
                }
            }
            // vectors equal except for coordinate i, for every i (z differs from y in the mirrored coordinate)
            for i in 0..n {
                let f32m = (rep + n + i) % 3 == 2;
                let x: Vec<f64> = (0..n).map(|_| srng.int(-3, 3) as f64).collect();
                let mut y = x.clone();
                y[i] += nzi(&mut srng) as f64;
                let mut z = y.clone();
                z[n - 1 - i] += nzi(&mut srng) as f64 * 2.0;
                for &k in &all_kinds {
                    check_metric(&mut out, k, &x, &y, &z, f32m, "structured:one-coordinate-sweep");
                }
                check_minkowski_special(&mut out, &x, &y, f32m);
            }
        }
    }
    let stats: std::collections::BTreeMap<String, f64> = STATS.with(|s| s.borrow().clone());
    out.set("max_observed_error_over_allowance", json!(stats));
    out.finish(&a.out);
}
