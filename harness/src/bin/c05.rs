//! C05 — decision trees: correspondence cases for the Coq model (SC.C05.Corr) and the
//! failing-input search.  The search oracle is written from the property text: it reads the
//! fitted tree through its serde serialisation (nodes[].{output, split_feature, split_value,
//! true_child, false_child}), routes rows through it by single-feature threshold tests and
//! recomputes leaf statistics, leaf sizes, depth, the brute-force best split of every internal
//! node, completeness of the growth, exact reproduction, refit determinism and x2^k invariance.
use serde_json::{json, Value};
use smartcore::algorithm::sort::quick_sort::QuickArgSort;
use smartcore::tree::decision_tree_classifier::{DecisionTreeClassifier, DecisionTreeClassifierParameters, SplitCriterion};
use smartcore::tree::decision_tree_regressor::{DecisionTreeRegressor, DecisionTreeRegressorParameters};
use vharness::*;

#[derive(Clone, Debug)]
struct PNode {
    out: f64, // regressor: the value; classifier: the class index
    feat: usize,
    sv: Option<f64>,
    ss: Option<f64>,
    tc: Option<usize>,
    fc: Option<usize>,
}
#[derive(Clone, Debug)]
struct Tree {
    nodes: Vec<PNode>,
    depth: usize,
    classes: Vec<f64>,
    text: String,
}
#[derive(Clone, Debug)]
struct Case {
    cls: bool,
    crit: usize, // 0 gini, 1 entropy, 2 classification error
    x: Vec<Vec<f64>>,
    y: Vec<f64>,
    md: Option<u16>,
    msl: usize,
    mss: usize,
}
impl Case {
    fn to_json(&self) -> Value {
        json!({"entry": "tree", "cls": self.cls, "crit": self.crit, "x": self.x, "y": self.y,
               "md": self.md, "msl": self.msl, "mss": self.mss, "n": self.x.len(), "p": self.x[0].len()})
    }
    fn from_json(v: &Value) -> Case {
        Case {
            cls: v["cls"].as_bool().unwrap_or(false),
            crit: v["crit"].as_u64().unwrap_or(0) as usize,
            x: rows_from_json(&v["x"]),
            y: f64s_from_json(&v["y"]),
            md: v["md"].as_u64().map(|d| d as u16),
            msl: v["msl"].as_u64().unwrap_or(1) as usize,
            mss: v["mss"].as_u64().unwrap_or(2) as usize,
        }
    }
}

fn criterion(c: usize) -> SplitCriterion {
    match c {
        0 => SplitCriterion::Gini,
        1 => SplitCriterion::Entropy,
        _ => SplitCriterion::ClassificationError,
    }
}

fn parse_tree(v: &Value, cls: bool) -> Tree {
    let nodes = v["nodes"]
        .as_array()
        .unwrap()
        .iter()
        .map(|nd| PNode {
            out: if cls { nd["output"].as_u64().unwrap() as f64 } else { nd["output"].as_f64().unwrap_or(f64::NAN) },
            feat: nd["split_feature"].as_u64().unwrap() as usize,
            sv: nd["split_value"].as_f64(),
            ss: nd["split_score"].as_f64(),
            tc: nd["true_child"].as_u64().map(|c| c as usize),
            fc: nd["false_child"].as_u64().map(|c| c as usize),
        })
        .collect();
    Tree {
        nodes,
        depth: v["depth"].as_u64().unwrap_or(0) as usize,
        classes: if cls { f64s_from_json(&v["classes"]) } else { vec![] },
        text: serde_json::to_string(v).unwrap(),
    }
}

/// builder path or struct literal: decided by the case itself
fn via_builder(c: &Case) -> bool {
    (c.x.len() + c.mss + c.msl + c.x.first().map(|r| r.len()).unwrap_or(0)) % 2 == 0
}

/// Fit on (x, y), predict the training rows and `extra`. Err = panic, Ok(None) = fit returned Err.
fn run_impl(c: &Case, extra: &[Vec<f64>]) -> Result<Option<(Tree, Vec<f64>, Vec<f64>)>, String> {
    guard(|| {
        let xm = dense(&c.x);
        if c.cls {
            let literal = DecisionTreeClassifierParameters {
                criterion: criterion(c.crit),
                max_depth: c.md,
                min_samples_leaf: c.msl,
                min_samples_split: c.mss,
            };
            // every other case (a function of the case, so replays agree) goes through the public builder
            // methods instead of the struct literal: `with_*` must store exactly what it is given
            let params = match (via_builder(c), c.md) {
                (true, Some(d)) => DecisionTreeClassifierParameters::default()
                    .with_criterion(criterion(c.crit)).with_max_depth(d).with_min_samples_leaf(c.msl).with_min_samples_split(c.mss),
                (true, None) if DecisionTreeClassifierParameters::default().max_depth.is_none() => DecisionTreeClassifierParameters::default()
                    .with_criterion(criterion(c.crit)).with_min_samples_leaf(c.msl).with_min_samples_split(c.mss),
                _ => literal,
            };
            match DecisionTreeClassifier::fit(&xm, &c.y, params) {
                Err(_) => None,
                Ok(t) => {
                    let v = serde_json::to_value(&t).unwrap();
                    let pt = t.predict(&xm).unwrap();
                    let pe = if extra.is_empty() { vec![] } else { t.predict(&dense(extra)).unwrap() };
                    Some((parse_tree(&v, true), pt, pe))
                }
            }
        } else {
            let literal = DecisionTreeRegressorParameters { max_depth: c.md, min_samples_leaf: c.msl, min_samples_split: c.mss };
            let params = match (via_builder(c), c.md) {
                (true, Some(d)) => DecisionTreeRegressorParameters::default().with_max_depth(d).with_min_samples_leaf(c.msl).with_min_samples_split(c.mss),
                (true, None) if DecisionTreeRegressorParameters::default().max_depth.is_none() => DecisionTreeRegressorParameters::default().with_min_samples_leaf(c.msl).with_min_samples_split(c.mss),
                _ => literal,
            };
            match DecisionTreeRegressor::fit(&xm, &c.y, params) {
                Err(_) => None,
                Ok(t) => {
                    let v = serde_json::to_value(&t).unwrap();
                    let pt = t.predict(&xm).unwrap();
                    let pe = if extra.is_empty() { vec![] } else { t.predict(&dense(extra)).unwrap() };
                    Some((parse_tree(&v, false), pt, pe))
                }
            }
        }
    })
}

// ------------------------------------------------------------------------------------------
// the oracle (from the property text)
// ------------------------------------------------------------------------------------------
thread_local! {
    static STATS: std::cell::RefCell<std::collections::BTreeMap<&'static str, u64>> = std::cell::RefCell::new(std::collections::BTreeMap::new());
}
fn stat(k: &'static str, n: u64) {
    STATS.with(|s| *s.borrow_mut().entry(k).or_insert(0) += n);
}
fn is_leaf(nd: &PNode) -> bool {
    nd.tc.is_none() && nd.fc.is_none()
}
/// Path of node ids from the root to the leaf a row is routed to (None: malformed tree).
fn route(t: &Tree, row: &[f64]) -> Option<Vec<usize>> {
    let mut id = 0usize;
    let mut path = vec![];
    for _ in 0..=t.nodes.len() {
        if id >= t.nodes.len() {
            return None;
        }
        path.push(id);
        let nd = &t.nodes[id];
        if is_leaf(nd) {
            return Some(path);
        }
        let thr = nd.sv?;
        let v = *row.get(nd.feat)?;
        id = if v <= thr { nd.tc? } else { nd.fc? };
    }
    None
}
fn same(a: f64, b: f64) -> bool {
    a.to_bits() == b.to_bits() || a == b || (a.is_nan() && b.is_nan())
}
fn distinct_within_features(x: &[Vec<f64>]) -> bool {
    let p = x[0].len();
    for j in 0..p {
        let mut col: Vec<f64> = x.iter().map(|r| r[j]).collect();
        col.sort_by(|a, b| a.partial_cmp(b).unwrap());
        if col.windows(2).any(|w| w[0] == w[1]) {
            return false;
        }
    }
    true
}
fn impurity_def(crit: usize, counts: &[usize]) -> f64 {
    let n: usize = counts.iter().sum();
    if n == 0 {
        return 0.0;
    }
    let ps: Vec<f64> = counts.iter().filter(|c| **c > 0).map(|c| *c as f64 / n as f64).collect();
    match crit {
        0 => 1.0 - ps.iter().map(|p| p * p).sum::<f64>(),
        1 => -ps.iter().map(|p| p * p.log2()).sum::<f64>(),
        _ => 1.0 - ps.iter().cloned().fold(0.0, f64::max),
    }
}

/// Quality of splitting `rows` into (left, right): reduction of the squared error (regression,
/// targets centred at the node mean) or decrease of the weighted impurity (classification).
struct Scorer<'a> {
    c: &'a Case,
    labels: &'a [f64], // distinct label values (classification)
}
impl<'a> Scorer<'a> {
    fn label_idx(&self, v: f64) -> usize {
        self.labels.iter().position(|l| *l == v).unwrap()
    }
    fn counts(&self, rows: &[usize]) -> Vec<usize> {
        let mut cnt = vec![0usize; self.labels.len()];
        for &r in rows {
            cnt[self.label_idx(self.c.y[r])] += 1;
        }
        cnt
    }
    /// best admissible gain over all features / thresholds and the gain of (feat, thr); also
    /// whether any admissible threshold exists
    fn best_and_chosen(&self, rows: &[usize], chosen: Option<(usize, f64)>) -> (Option<f64>, Option<(f64, usize, usize)>, f64) {
        let c = self.c;
        let n = rows.len();
        let p = c.x[0].len();
        let msl = c.msl.max(1);
        let mut best: Option<f64> = None;
        let scale;
        if !c.cls {
            let mean = rows.iter().map(|&r| c.y[r]).sum::<f64>() / n as f64;
            scale = rows.iter().map(|&r| c.y[r] * c.y[r]).sum::<f64>() + 1.0;
            let red = |sl: f64, nl: usize, sr: f64, nr: usize| sl * sl / nl as f64 + sr * sr / nr as f64;
            for j in 0..p {
                let mut ord: Vec<usize> = rows.to_vec();
                ord.sort_by(|a, b| c.x[*a][j].partial_cmp(&c.x[*b][j]).unwrap());
                let tot: f64 = ord.iter().map(|&r| c.y[r] - mean).sum();
                let mut sl = 0.0;
                for t in 1..n {
                    sl += c.y[ord[t - 1]] - mean;
                    if c.x[ord[t - 1]][j] < c.x[ord[t]][j] && t >= msl && n - t >= msl {
                        let g = red(sl, t, tot - sl, n - t);
                        if best.map_or(true, |b| g > b) {
                            best = Some(g);
                        }
                    }
                }
            }
            let ch = chosen.map(|(f, thr)| {
                let (mut sl, mut nl, mut sr, mut nr) = (0.0, 0usize, 0.0, 0usize);
                for &r in rows {
                    if c.x[r][f] <= thr {
                        sl += c.y[r] - mean;
                        nl += 1;
                    } else {
                        sr += c.y[r] - mean;
                        nr += 1;
                    }
                }
                (if nl > 0 && nr > 0 { red(sl, nl, sr, nr) } else { f64::NEG_INFINITY }, nl, nr)
            });
            (best, ch, scale)
        } else {
            scale = 1.0;
            let total = self.counts(rows);
            let parent = impurity_def(c.crit, &total);
            let k = self.labels.len();
            let dec = |l: &[usize], nl: usize, r: &[usize], nr: usize| {
                parent - nl as f64 / n as f64 * impurity_def(c.crit, l) - nr as f64 / n as f64 * impurity_def(c.crit, r)
            };
            for j in 0..p {
                let mut ord: Vec<usize> = rows.to_vec();
                ord.sort_by(|a, b| c.x[*a][j].partial_cmp(&c.x[*b][j]).unwrap());
                let mut left = vec![0usize; k];
                for t in 1..n {
                    left[self.label_idx(c.y[ord[t - 1]])] += 1;
                    if c.x[ord[t - 1]][j] < c.x[ord[t]][j] && t >= msl && n - t >= msl {
                        let right: Vec<usize> = (0..k).map(|l| total[l] - left[l]).collect();
                        let g = dec(&left, t, &right, n - t);
                        if best.map_or(true, |b| g > b) {
                            best = Some(g);
                        }
                    }
                }
            }
            let ch = chosen.map(|(f, thr)| {
                let l: Vec<usize> = rows.iter().cloned().filter(|&r| c.x[r][f] <= thr).collect();
                let r: Vec<usize> = rows.iter().cloned().filter(|&r| !(c.x[r][f] <= thr)).collect();
                (if !l.is_empty() && !r.is_empty() { dec(&self.counts(&l), l.len(), &self.counts(&r), r.len()) } else { f64::NEG_INFINITY }, l.len(), r.len())
            });
            (best, ch, scale)
        }
    }
}

/// Evaluate every clause of the property on one training set; returns the violated clauses.
fn gen_extra(c: &Case, rng_extra: u64) -> Vec<Vec<f64>> {
    let n = c.x.len();
    let p = c.x[0].len();
    // extra rows: perturbed training rows and fresh ones
    let mut r = Rng::new(rng_extra);
    let mut extra: Vec<Vec<f64>> = vec![];
    for _ in 0..6 {
        let mut row = c.x[r.below(n)].clone();
        let j = r.below(p);
        row[j] = match r.below(3) {
            0 => c.x[r.below(n)][j],
            1 => row[j] + r.dyadic(2, 2),
            _ => r.uniform(-10.0, 10.0),
        };
        extra.push(row);
    }
    extra
}
fn eval_case(c: &Case, extra_in: &[Vec<f64>], rng_extra: u64, deep: bool) -> Vec<(String, String)> {
    let mut fails: Vec<(String, String)> = vec![];
    let n = c.x.len();
    let p = c.x[0].len();
    let extra: Vec<Vec<f64>> = extra_in.iter().filter(|r| r.len() == p).cloned().collect();
    let (t, pt, pe) = match run_impl(c, &extra) {
        Err(m) => return vec![("no_panic".into(), format!("fit/predict panicked: {}", m))],
        Ok(None) => return vec![("fit_ok".into(), "fit returned Err on a valid training set".into())],
        Ok(Some(r)) => r,
    };
    let len = t.nodes.len();
    // --- structure ---
    for (k, nd) in t.nodes.iter().enumerate() {
        let ok = match (nd.tc, nd.fc) {
            (None, None) => true,
            (Some(a), Some(b)) => a < len && b < len && a != b && a != k && b != k && nd.sv.is_some() && nd.feat < p,
            _ => false,
        };
        if !ok {
            return vec![("predict_routes".into(), format!("node {} is neither a leaf nor a well-formed single-feature test", k))];
        }
    }
    let value_of = |leaf: usize| -> f64 {
        if c.cls { t.classes.get(t.nodes[leaf].out as usize).cloned().unwrap_or(f64::NAN) } else { t.nodes[leaf].out }
    };
    // --- routing of training rows and extra rows ---
    let mut rows_at: Vec<Vec<usize>> = vec![vec![]; len];
    let mut depth_of: Vec<usize> = vec![0; len];
    for i in 0..n {
        match route(&t, &c.x[i]) {
            None => return vec![("predict_routes".into(), format!("row {} does not reach a leaf", i))],
            Some(path) => {
                for (d, &k) in path.iter().enumerate() {
                    rows_at[k].push(i);
                    depth_of[k] = d;
                }
                let leaf = *path.last().unwrap();
                if !same(pt[i], value_of(leaf)) {
                    fails.push(("predict_routes".into(), format!("training row {}: predict = {} but the leaf reached by threshold tests (node {}) has value {}", i, pt[i], leaf, value_of(leaf))));
                    break;
                }
            }
        }
    }
    for (i, row) in extra.iter().enumerate() {
        match route(&t, row) {
            None => fails.push(("predict_routes".into(), format!("extra row {} does not reach a leaf", i))),
            Some(path) => {
                let leaf = *path.last().unwrap();
                if !same(pe[i], value_of(leaf)) {
                    fails.push(("predict_routes".into(), format!("unseen row {:?}: predict = {} but routed leaf {} has value {}", row, pe[i], leaf, value_of(leaf))));
                    break;
                }
            }
        }
    }
    // depth of every node by structure (also nodes no training row reaches)
    let mut sdepth = vec![0usize; len];
    let mut maxd = 0usize;
    for k in 0..len {
        if let (Some(a), Some(b)) = (t.nodes[k].tc, t.nodes[k].fc) {
            if a > k && b > k {
                sdepth[a] = sdepth[k] + 1;
                sdepth[b] = sdepth[k] + 1;
                maxd = maxd.max(sdepth[k] + 1);
            }
        }
    }
    if let Some(md) = c.md {
        if maxd > md as usize {
            fails.push(("depth_bound".into(), format!("a root-to-leaf path has {} splits, max_depth = {}", maxd, md)));
        }
    }
    // --- leaves: value, size ---
    let mut labels: Vec<f64> = vec![];
    if c.cls {
        for v in &c.y {
            if !labels.contains(v) {
                labels.push(*v);
            }
        }
    }
    let ymax = c.y.iter().fold(0.0f64, |m, v| m.max(v.abs()));
    stat("trees", 1);
    stat("nodes", len as u64);
    stat("predictions_routed", (n + extra.len()) as u64);
    if maxd >= 1 && c.md.is_some() {
        stat("depth_limited_trees_with_splits", 1);
        if maxd == c.md.unwrap() as usize {
            stat("depth_limit_attained", 1);
        }
    }
    for k in 0..len {
        if !is_leaf(&t.nodes[k]) {
            continue;
        }
        stat("leaves_checked", 1);
        let rows = &rows_at[k];
        if k != 0 && rows.len() == c.msl && c.msl >= 2 {
            stat("leaves_at_exactly_min_samples_leaf", 1);
        }
        if !(k == 0) && rows.len() < c.msl {
            fails.push(("leaf_size".into(), format!("leaf {} holds {} training rows, min_samples_leaf = {}", k, rows.len(), c.msl)));
        }
        if rows.is_empty() {
            continue;
        }
        if c.cls {
            let v = value_of(k);
            if !labels.contains(&v) {
                fails.push(("leaf_value".into(), format!("leaf {} predicts {} which is not an original label", k, v)));
                continue;
            }
            let cnt = |l: f64| rows.iter().filter(|&&r| c.y[r] == l).count();
            let mx = labels.iter().map(|l| cnt(*l)).max().unwrap();
            if cnt(v) != mx {
                fails.push(("leaf_value".into(), format!("leaf {} predicts label {} held by {} of its {} rows, a majority class has {}", k, v, cnt(v), rows.len(), mx)));
            }
        } else {
            let mean = rows.iter().map(|&r| c.y[r]).sum::<f64>() / rows.len() as f64;
            if !((t.nodes[k].out - mean).abs() <= 1e-9 * (1.0 + ymax)) {
                fails.push(("leaf_value".into(), format!("leaf {} predicts {} but the mean target of its {} rows is {}", k, t.nodes[k].out, rows.len(), mean)));
            }
        }
    }
    // --- greedy optimality and completeness ---
    let distinct = distinct_within_features(&c.x);
    let claims_greedy = !c.cls || (c.msl == 1 && distinct);
    if claims_greedy {
        let sc = Scorer { c, labels: &labels };
        for k in 0..len {
            let rows = &rows_at[k];
            let nd = &t.nodes[k];
            if !is_leaf(nd) {
                stat(if c.cls { "internal_nodes_optimality_checked_cls" } else { "internal_nodes_optimality_checked_reg" }, 1);
                let (best, ch, scale) = sc.best_and_chosen(rows, Some((nd.feat, nd.sv.unwrap())));
                let (g, nl, nr) = ch.unwrap();
                let msl = c.msl;
                if nl < msl || nr < msl || nl == 0 || nr == 0 {
                    fails.push(("greedy_optimal".into(), format!("node {}: chosen threshold leaves {} / {} rows (min_samples_leaf {})", k, nl, nr, msl)));
                } else if let Some(b) = best {
                    if !(g >= b - 1e-9 * scale) {
                        fails.push(("greedy_optimal".into(), format!("node {} ({} rows): chosen split x[{}] <= {} gains {} but an admissible threshold gains {}", k, rows.len(), nd.feat, nd.sv.unwrap(), g, b)));
                    }
                }
            } else if c.md.is_none() && rows.len() > c.mss && rows.len() >= 1 {
                let pure = c.cls && sc.counts(rows).iter().filter(|v| **v > 0).count() <= 1;
                stat("leaves_completeness_checked", 1);
                if !pure {
                    let (best, _, _) = sc.best_and_chosen(rows, None);
                    if best.is_some() {
                        fails.push(("growth_complete".into(), format!("leaf {} holds {} rows (> min_samples_split {}){} and an admissible threshold exists, yet it was not split", k, rows.len(), c.mss, if c.cls { ", is impure" } else { "" })));
                    }
                }
            }
        }
    }
    // --- exact reproduction (classifier, limits disabled, distinct values) ---
    if c.cls && distinct && c.msl == 1 && c.mss <= 1 && c.md.is_none() {
        stat("exact_reproduction_cases", 1);
        for i in 0..n {
            if !same(pt[i], c.y[i]) {
                fails.push(("exact_reproduction".into(), format!("row {} has label {} but is predicted {}", i, c.y[i], pt[i])));
                break;
            }
        }
    }
    // --- determinism and scale invariance ---
    if deep {
        stat("determinism_and_scaling_cases", 1);
        match run_impl(c, &[]) {
            Ok(Some((t2, _, _))) if t2.text == t.text => {}
            _ => fails.push(("deterministic".into(), "a second fit on the same data gives a different tree".into())),
        }
        // 2^k for small k, and for |k| in 40..70 (data expressed in a tiny / huge unit: an absolute threshold such as
        // `|x - prev| < epsilon` in the split search is invisible at ordinary magnitudes)
        let kpow = match (rng_extra / 16) % 4 {
            0 | 1 => 1 + (rng_extra % 9) as i32,
            2 => -(40 + (rng_extra % 31) as i32),
            _ => 40 + (rng_extra % 31) as i32,
        };
        let f = (2.0f64).powi(kpow);
        let mut c2 = c.clone();
        c2.x = c.x.iter().map(|r| r.iter().map(|v| v * f).collect()).collect();
        match run_impl(&c2, &[]) {
            Ok(Some((t2, pt2, _))) => {
                let mut ok = t2.nodes.len() == len && t2.depth == t.depth;
                if ok {
                    for k in 0..len {
                        let (a, b) = (&t.nodes[k], &t2.nodes[k]);
                        ok &= same(a.out, b.out) && a.feat == b.feat && a.tc == b.tc && a.fc == b.fc
                            && match (a.sv, b.sv) { (None, None) => true, (Some(u), Some(v)) => same(u * f, v), _ => false }
                            && match (a.ss, b.ss) { (None, None) => true, (Some(u), Some(v)) => same(u, v), _ => false };
                    }
                    ok &= pt.iter().zip(pt2.iter()).all(|(a, b)| same(*a, *b));
                }
                if !ok {
                    fails.push(("scale_invariance_pow2".into(), format!("multiplying the features by 2^{} changes the fitted tree", kpow)));
                }
            }
            _ => fails.push(("scale_invariance_pow2".into(), format!("fit fails after multiplying the features by 2^{}", kpow))),
        }
    }
    fails
}

/// greedy shrink: drop rows / features while the same clause keeps failing
fn shrink(c: &Case, extra: &[Vec<f64>], oracle: &str, key: u64) -> (Case, Vec<Vec<f64>>) {
    let mut cur = c.clone();
    let mut cur_extra: Vec<Vec<f64>> = extra.to_vec();
    let still = |cc: &Case, ex: &[Vec<f64>]| -> bool {
        if cc.x.len() < 2 || cc.x[0].is_empty() {
            return false;
        }
        if cc.cls {
            let mut l: Vec<f64> = cc.y.clone();
            l.sort_by(|a, b| a.partial_cmp(b).unwrap());
            l.dedup();
            if l.len() < 2 {
                return false;
            }
        }
        eval_case(cc, ex, key, true).iter().any(|(o, _)| o == oracle)
    };
    let mut budget = 400;
    let mut progress = true;
    while progress && budget > 0 {
        progress = false;
        let mut i = 0;
        while i < cur.x.len() && budget > 0 {
            let mut t = cur.clone();
            t.x.remove(i);
            t.y.remove(i);
            budget -= 1;
            if still(&t, &cur_extra) {
                cur = t;
                progress = true;
            } else {
                i += 1;
            }
        }
        let mut j = 0;
        while cur.x[0].len() > 1 && j < cur.x[0].len() && budget > 0 {
            let mut t = cur.clone();
            for r in t.x.iter_mut() {
                r.remove(j);
            }
            let mut te = cur_extra.clone();
            for r in te.iter_mut() {
                r.remove(j);
            }
            budget -= 1;
            if still(&t, &te) {
                cur = t;
                cur_extra = te;
                progress = true;
            } else {
                j += 1;
            }
        }
    }
    (cur, cur_extra)
}

fn case_key(c: &Case) -> u64 {
    let mut kd: Vec<f64> = c.x.iter().flatten().cloned().collect();
    kd.extend(c.y.iter());
    kd.extend([c.cls as u8 as f64, c.crit as f64, c.md.map(|d| d as f64).unwrap_or(-1.0), c.msl as f64, c.mss as f64]);
    hash_f64s(&kd)
}

fn check_case(out: &mut Out, c: &Case, family: &str, deep: bool) {
    let key = case_key(c);
    let n = c.x.len();
    let nontrivial = n >= 6;
    out.eval(key, nontrivial);
    out.count(&format!("search:{}:{}", if c.cls { ["gini", "entropy", "classerr"][c.crit] } else { "regression" }, family));
    out.count(&format!("search:rows<={}", if n <= 10 { 10 } else if n <= 40 { 40 } else if n <= 100 { 100 } else { 150 }));
    out.count(&format!("search:max_depth={}", c.md.map(|d| if d <= 2 { "1-2" } else { "3-8" }).unwrap_or("none")));
    if c.cls && c.msl == 1 && distinct_within_features(&c.x) {
        out.count("search:classifier-greedy-claimed");
    }
    let extra = gen_extra(c, key);
    let fails = eval_case(c, &extra, key, deep);
    if let Some((oracle, what)) = fails.first() {
        let (small, small_extra) = shrink(c, &extra, oracle, key);
        let what2 = eval_case(&small, &small_extra, key, true).into_iter().find(|(o, _)| o == oracle).map(|(_, w)| w).unwrap_or(what.clone());
        let mut inp = small.to_json();
        inp["extra_key"] = json!(key.to_string());
        inp["extra_rows"] = json!(small_extra);
        out.fail(oracle, &what2, inp);
    }
}

// ------------------------------------------------------------------------------------------
// api_trait_twin: fit / predict through `smartcore::api::{SupervisedEstimator, Predictor}` give exactly
// what the inherent methods give (training matrix and extra rows, model fitted either way)
// ------------------------------------------------------------------------------------------
fn twin_case(c: &Case, extra: &[Vec<f64>]) -> Option<twin::Diff> {
    type DM = smartcore::linalg::naive::dense_matrix::DenseMatrix<f64>;
    if c.x.is_empty() || c.x[0].is_empty() || extra.is_empty() {
        return None;
    }
    let x = dense(&c.x);
    let xe = dense(extra);
    let y = c.y.clone();
    let probes = [("the training matrix", &x), ("the extra rows", &xe)];
    macro_rules! run {
        ($ty:ty, $p:expr) => {{
            let p = $p;
            twin::check(
                "SupervisedEstimator",
                "Predictor",
                "predict",
                || twin::fit_sup::<$ty, _, _, _>(&x, &y, p.clone()),
                || <$ty>::fit(&x, &y, p.clone()),
                |m: &$ty, z: &DM| twin::predict(m, z),
                |m: &$ty, z: &DM| m.predict(z),
                &probes,
                |m: &$ty| serde_json::to_string(m).unwrap_or_default(),
                true,
            )
        }};
    }
    if c.cls {
        run!(DecisionTreeClassifier<f64>, DecisionTreeClassifierParameters { criterion: criterion(c.crit), max_depth: c.md, min_samples_leaf: c.msl, min_samples_split: c.mss })
    } else {
        run!(DecisionTreeRegressor<f64>, DecisionTreeRegressorParameters { max_depth: c.md, min_samples_leaf: c.msl, min_samples_split: c.mss })
    }
}

fn check_twin(out: &mut Out, c: &Case) {
    let key = case_key(c);
    out.eval(key ^ 0x7717, c.x.len() >= 6);
    out.count(&format!("twin:{}", if c.cls { "classifier" } else { "regressor" }));
    let extra = gen_extra(c, key);
    if twin_case(c, &extra).is_none() {
        return;
    }
    // shrink: fewer extra rows, fewer training rows
    let (mut cur, mut ex) = (c.clone(), extra);
    let mut progress = true;
    while progress {
        progress = false;
        let mut i = 0;
        while ex.len() > 1 && i < ex.len() {
            let mut t = ex.clone();
            t.remove(i);
            if twin_case(&cur, &t).is_some() { ex = t; progress = true; } else { i += 1; }
        }
        let mut i = 0;
        while cur.x.len() > 2 && i < cur.x.len() {
            let mut t = cur.clone();
            t.x.remove(i);
            t.y.remove(i);
            if twin_case(&t, &ex).is_some() { cur = t; progress = true; } else { i += 1; }
        }
    }
    if let Some(d) = twin_case(&cur, &ex) {
        let mut inp = cur.to_json();
        inp["oracle"] = json!(twin::ORACLE);
        inp["extra_key"] = json!(key.to_string());
        inp["extra_rows"] = json!(ex);
        inp["differing_call"] = json!(d.call);
        out.count(&format!("twin:failing:{}", if c.cls { "DecisionTreeClassifier" } else { "DecisionTreeRegressor" }));
        out.fail(twin::ORACLE, &format!("{}: {}: {}", if c.cls { "DecisionTreeClassifier" } else { "DecisionTreeRegressor" }, d.call, d.what), inp);
    }
}

// ------------------------------------------------------------------------------------------
// generators
// ------------------------------------------------------------------------------------------
const LABEL_PALETTE: [f64; 9] = [-7.5, -2.0, 0.0, 0.5, 1.0, 3.0, 4.0, 17.0, 100.0];

/// kind: 0 small integers (many ties), 1 continuous, 2 dyadic quarter steps, 3 pairwise distinct dyadic
fn gen_x(rng: &mut Rng, n: usize, p: usize, kind: usize) -> Vec<Vec<f64>> {
    let mut cols: Vec<Vec<f64>> = vec![];
    for _ in 0..p {
        let constant = kind != 3 && rng.chance(0.12);
        let col: Vec<f64> = if constant {
            let v = rng.int(-2, 2) as f64;
            vec![v; n]
        } else {
            match kind {
                0 => {
                    let hi = rng.int(1, 5);
                    (0..n).map(|_| rng.int(0, hi) as f64).collect()
                }
                1 => (0..n).map(|_| rng.uniform(-5.0, 5.0)).collect(),
                2 => (0..n).map(|_| rng.dyadic(5, 2)).collect(),
                _ => {
                    let mut v: Vec<f64> = (0..n).map(|i| (i as f64) * 0.25 - (n as f64) / 8.0).collect();
                    rng.shuffle(&mut v);
                    v
                }
            }
        };
        cols.push(col);
    }
    (0..n).map(|i| (0..p).map(|j| cols[j][i]).collect()).collect()
}
fn gen_case(rng: &mut Rng, nmax: usize, force_cls: Option<bool>) -> (Case, &'static str) {
    let n = if rng.chance(0.3) { rng.usize_in(2, 12.min(nmax)) } else { rng.usize_in(2, nmax) };
    let p = rng.usize_in(1, 6);
    let cls = force_cls.unwrap_or_else(|| rng.bool());
    let kind = rng.below(4);
    let x = gen_x(rng, n, p, kind);
    let y: Vec<f64> = if cls {
        let k = rng.usize_in(2, 5);
        let mut pal: Vec<f64> = LABEL_PALETTE.to_vec();
        rng.shuffle(&mut pal);
        pal.truncate(k);
        let structured = rng.chance(0.5);
        let mut y: Vec<f64> = (0..n)
            .map(|i| {
                if structured && !rng.chance(0.15) {
                    // label depends on the first feature (so that trees are non-trivial)
                    let v = x[i][0];
                    pal[((v * 2.0).floor().rem_euclid(k as f64)) as usize]
                } else {
                    *rng.pick(&pal)
                }
            })
            .collect();
        // at least two classes
        if y.iter().all(|v| *v == y[0]) {
            y[0] = if y[0] == pal[0] { pal[1] } else { pal[0] };
        }
        y
    } else {
        match rng.below(4) {
            0 => (0..n).map(|_| rng.int(0, 9) as f64).collect(),
            1 => (0..n).map(|_| rng.uniform(-10.0, 10.0)).collect(),
            2 => (0..n).map(|i| x[i][0] * 2.0 + rng.dyadic(1, 3)).collect(),
            _ => (0..n).map(|_| 1000.0 + rng.dyadic(2, 4)).collect(),
        }
    };
    let md = if rng.chance(0.45) { None } else { Some(rng.usize_in(1, 8) as u16) };
    let (msl, mss) = if cls && rng.chance(0.4) { (1, rng.usize_in(0, 3)) } else { (rng.usize_in(1, 5), rng.usize_in(0, 8)) };
    let fam = ["small-int", "continuous", "dyadic", "distinct"][kind];
    (Case { cls, crit: rng.below(3), x, y, md, msl, mss }, fam)
}

// ------------------------------------------------------------------------------------------
// correspondence
// ------------------------------------------------------------------------------------------
fn coq_on(o: Option<usize>) -> String {
    coq_option(o.map(coq_n))
}
fn coq_of(o: Option<f64>) -> String {
    coq_option(o.map(coq_f64))
}
fn coq_rnodes(t: &Tree) -> String {
    coq_list(t.nodes.iter().map(|nd| format!("({}, {}, {}, {}, {}, {})", coq_f64(nd.out), coq_n(nd.feat), coq_of(nd.sv), coq_of(nd.ss), coq_on(nd.tc), coq_on(nd.fc))))
}
fn coq_cnodes(t: &Tree) -> String {
    coq_list(t.nodes.iter().map(|nd| format!("({}, {}, {}, {}, {}, {})", coq_n(nd.out as usize), coq_n(nd.feat), coq_of(nd.sv), coq_of(nd.ss), coq_on(nd.tc), coq_on(nd.fc))))
}
fn log2_table(n: usize) -> String {
    let mut seen: Vec<u64> = vec![];
    let mut items: Vec<String> = vec![];
    for m in 1..=n {
        for c in 1..=m {
            let p = c as f64 / m as f64;
            if !seen.contains(&p.to_bits()) {
                seen.push(p.to_bits());
                items.push(format!("({}, {})", coq_f64(p), coq_f64(p.log2())));
            }
        }
    }
    coq_list(items)
}
fn corr_fit(out: &mut Out, c: &Case) {
    let input = c.to_json();
    match run_impl(c, &[]) {
        Err(_) => {} // a panic is the search's business
        Ok(res) => {
            let md = coq_option(c.md.map(|d| coq_n(d as usize)));
            if c.cls {
                let exp = coq_option(res.map(|(t, _, _)| format!("({}, {}, {})", coq_list_f64(&t.classes), coq_cnodes(&t), coq_n(t.depth))));
                let tab = if c.crit == 1 { log2_table(c.x.len()) } else { "nil".to_string() };
                out.corr(
                    ["cls_fit_gini", "cls_fit_entropy", "cls_fit_classerr"][c.crit],
                    format!("corr_cls_fit {} {} {} {} {} {} {} {}", coq_n(c.crit), coq_rows_f64(&c.x), coq_list_f64(&c.y), md, coq_n(c.msl), coq_n(c.mss), tab, exp),
                    input,
                );
            } else {
                let exp = coq_option(res.map(|(t, _, _)| format!("({}, {})", coq_rnodes(&t), coq_n(t.depth))));
                out.corr(
                    "reg_fit",
                    format!("corr_reg_fit {} {} {} {} {} {}", coq_rows_f64(&c.x), coq_list_f64(&c.y), md, coq_n(c.msl), coq_n(c.mss), exp),
                    input,
                );
            }
        }
    }
}
/// fit_weak_learner through the cfg hook: bootstrap-like sample counts, mtry <= p, seeded shuffles;
/// the features tried at each node are read back from the recorder and handed to the model
fn corr_fit_weighted(out: &mut Out, c: &Case, rng: &mut Rng) {
    let n = c.x.len();
    let p = c.x[0].len();
    let mut samples: Vec<usize> = (0..n).map(|_| [0usize, 0, 1, 1, 1, 2, 3][rng.below(7)]).collect();
    samples[0] = samples[0].max(1);
    samples[n - 1] = samples[n - 1].max(1);
    let mtry = rng.usize_in(1, p);
    let seed = rng.next_u64() % 1000;
    let res = guard(|| {
        let xm = dense(&c.x);
        if c.cls {
            let params = DecisionTreeClassifierParameters { criterion: criterion(c.crit), max_depth: c.md, min_samples_leaf: c.msl, min_samples_split: c.mss };
            let r = DecisionTreeClassifier::<f64>::verif_fit_weak_learner(&xm, &c.y, samples.clone(), mtry, params, seed);
            let vars = smartcore::tree::decision_tree_classifier::VERIF_TREE_VARS.with(|v| v.borrow().clone());
            (r.ok().map(|t| parse_tree(&serde_json::to_value(&t).unwrap(), true)), vars)
        } else {
            let params = DecisionTreeRegressorParameters { max_depth: c.md, min_samples_leaf: c.msl, min_samples_split: c.mss };
            let r = DecisionTreeRegressor::<f64>::verif_fit_weak_learner(&xm, &c.y, samples.clone(), mtry, params, seed);
            let vars = smartcore::tree::decision_tree_regressor::VERIF_TREE_VARS.with(|v| v.borrow().clone());
            (r.ok().map(|t| parse_tree(&serde_json::to_value(&t).unwrap(), false)), vars)
        }
    });
    if let Ok((tree, vars)) = res {
        let mut input = c.to_json();
        input["entry"] = json!("weighted");
        input["samples"] = json!(samples);
        input["mtry"] = json!(mtry);
        input["seed"] = json!(seed);
        let md = coq_option(c.md.map(|d| coq_n(d as usize)));
        let cvars = coq_list(vars.iter().map(|(id, vs)| format!("({}, {})", coq_n(*id), coq_list_n(vs))));
        if c.cls {
            let exp = coq_option(tree.map(|t| format!("({}, {}, {})", coq_list_f64(&t.classes), coq_cnodes(&t), coq_n(t.depth))));
            let tab = if c.crit == 1 { log2_table(samples.iter().sum::<usize>()) } else { "nil".to_string() };
            out.corr("cls_fit_weighted_mtry", format!("corr_cls_fit_w {} {} {} {} {} {} {} {} {} {}", coq_n(c.crit), coq_rows_f64(&c.x), coq_list_f64(&c.y), coq_list_n(&samples), cvars, md, coq_n(c.msl), coq_n(c.mss), tab, exp), input);
        } else {
            let exp = coq_option(tree.map(|t| format!("({}, {})", coq_rnodes(&t), coq_n(t.depth))));
            out.corr("reg_fit_weighted_mtry", format!("corr_reg_fit_w {} {} {} {} {} {} {} {}", coq_rows_f64(&c.x), coq_list_f64(&c.y), coq_list_n(&samples), cvars, md, coq_n(c.msl), coq_n(c.mss), exp), input);
        }
    }
}
fn corr_predict(out: &mut Out, c: &Case, rng: &mut Rng) {
    let n = c.x.len();
    let p = c.x[0].len();
    let mut rows: Vec<Vec<f64>> = vec![];
    for _ in 0..8 {
        let mut row = c.x[rng.below(n)].clone();
        if rng.bool() {
            let j = rng.below(p);
            row[j] = c.x[rng.below(n)][j] + if rng.bool() { 0.0 } else { rng.dyadic(1, 2) };
        }
        rows.push(row);
    }
    if let Ok(Some((t, _, pe))) = run_impl(c, &rows) {
        let mut input = c.to_json();
        input["rows"] = json!(rows);
        if c.cls {
            out.corr("cls_predict_on_impl_tree", format!("corr_cls_predict {} {} {} {}", coq_list_f64(&t.classes), coq_cnodes(&t), coq_rows_f64(&rows), coq_list_f64(&pe)), input);
        } else {
            out.corr("reg_predict_on_impl_tree", format!("corr_reg_predict {} {} {}", coq_rnodes(&t), coq_rows_f64(&rows), coq_list_f64(&pe)), input);
        }
    }
}
fn corr_argsort(out: &mut Out, col: &[f64]) {
    let res = guard(|| col.to_vec().quick_argsort_mut());
    let input = json!({"entry": "argsort", "col": col});
    out.corr("quick_argsort", format!("corr_argsort {} {}", coq_list_f64(col), coq_option(res.ok().map(|r| coq_list_n(&r)))), input);
}

fn replay(path: &str) -> i32 {
    let v = read_replay(path);
    let inp = if v.get("input").is_some() { v["input"].clone() } else { v.clone() };
    let fails = match inp["entry"].as_str().unwrap_or("") {
        "tree" => {
            let c = Case::from_json(&inp);
            let key = inp["extra_key"].as_str().and_then(|s| s.parse::<u64>().ok()).unwrap_or_else(|| case_key(&c));
            let extra = if inp.get("extra_rows").is_some() { rows_from_json(&inp["extra_rows"]) } else { gen_extra(&c, key) };
            let mut f = eval_case(&c, &extra, key, true);
            if let Some(d) = twin_case(&c, &extra) {
                f.push((twin::ORACLE.to_string(), format!("{}: {}", d.call, d.what)));
            }
            f
        }
        "argsort" => {
            let col = f64s_from_json(&inp["col"]);
            match guard(|| col.clone().quick_argsort_mut()) {
                Err(m) => vec![("argsort".to_string(), m)],
                Ok(idx) => {
                    let mut s = idx.clone();
                    s.sort();
                    let perm = s == (0..col.len()).collect::<Vec<_>>();
                    let sorted = idx.windows(2).all(|w| col[w[0]] <= col[w[1]]);
                    if perm && sorted { vec![] } else { vec![("argsort".to_string(), "not a sorting permutation".to_string())] }
                }
            }
        }
        _ => {
            eprintln!("unknown replay entry");
            return 2;
        }
    };
    if fails.is_empty() {
        println!("REPLAY: property=C05 passes: {}", path);
        0
    } else {
        for (o, w) in &fails {
            println!("REPLAY: property=C05 still fails [{}]: {}", o, w);
        }
        println!("REPLAY: property=C05 still fails: {}", path);
        1
    }
}

fn main() {
    quiet_panics();
    let a = args();
    if let Some(p) = &a.replay {
        std::process::exit(replay(p));
    }
    let mut rng = Rng::new(a.seed);
    let mut out = Out::new(
        "C05",
        "search case = (training matrix, targets/labels, criterion, max_depth, min_samples_leaf, min_samples_split); every clause of the property is evaluated on the serialised tree; non-trivial: >= 6 rows; distinct by hash of (data, parameters). api-trait twin case = a search case fitted and queried through smartcore::api::{SupervisedEstimator, Predictor} and through the inherent methods; all results must coincide bit for bit",
    );
    out.max_failures = 6;

    // ---- corpus: no defect of Section 2 concerns C05; fixed regression inputs (the tests' data shapes) ----
    let longley_y = vec![83.0, 88.5, 88.2, 89.5, 96.2, 98.1, 99.0, 100.0, 101.2, 104.6, 108.4, 110.8, 112.6, 114.2, 115.7, 116.9];
    let longley_x: Vec<Vec<f64>> = (0..16).map(|i| vec![234.289 + 20.0 * i as f64, 235.6 + ((i * 37) % 11) as f64 * 15.0, 1947.0 + i as f64]).collect();
    for (msl, mss, md) in [(1usize, 2usize, None), (2, 6, None), (1, 2, Some(3u16)), (2, 2, Some(1u16))] {
        let c = Case { cls: false, crit: 0, x: longley_x.clone(), y: longley_y.clone(), md, msl, mss };
        check_case(&mut out, &c, "corpus", true);
        corr_fit(&mut out, &c);
    }
    // conflicting labels on repeated feature values
    let cx: Vec<Vec<f64>> = vec![vec![1.0, 0.0], vec![1.0, 0.0], vec![1.0, 1.0], vec![2.0, 1.0], vec![2.0, 1.0], vec![3.0, 0.0], vec![3.0, 0.0], vec![3.0, 2.0]];
    let cy = vec![-2.0, 17.0, -2.0, 17.0, 17.0, 100.0, -2.0, 100.0];
    for crit in 0..3 {
        for (msl, mss, md) in [(1usize, 0usize, None), (2, 2, None), (1, 2, Some(2u16))] {
            let c = Case { cls: true, crit, x: cx.clone(), y: cy.clone(), md, msl, mss };
            check_case(&mut out, &c, "corpus", true);
            corr_fit(&mut out, &c);
        }
    }

    // ---- correspondence: quick_argsort (ties, both code paths: n < 8 insertion only, n >= 8 partition) ----
    for i in 0..(if a.thorough { 240 } else { 60 }) {
        let n = if i % 3 == 0 { rng.usize_in(1, 9) } else { rng.usize_in(8, if a.thorough { 200 } else { 90 }) };
        let col: Vec<f64> = match i % 4 {
            0 => (0..n).map(|_| rng.int(0, 3) as f64).collect(),
            1 => (0..n).map(|_| rng.uniform(-1.0, 1.0)).collect(),
            2 => (0..n).map(|_| rng.int(0, 12) as f64 * 0.5).collect(),
            _ => {
                let v = rng.int(-2, 2) as f64;
                (0..n).map(|k| if rng.chance(0.1) { k as f64 } else { v }).collect()
            }
        };
        corr_argsort(&mut out, &col);
    }
    // ---- correspondence: whole fitted trees, field by field ----
    let ncorr = if a.thorough { 2000 } else { 700 };
    for i in 0..ncorr {
        let cls = i % 2 == 1;
        let (mut c, _) = gen_case(&mut rng, if i % 5 == 0 { 60 } else { 32 }, Some(cls));
        if c.cls && c.crit == 1 && c.x.len() > 24 {
            c.x.truncate(24);
            c.y.truncate(24);
            if c.y.iter().all(|v| *v == c.y[0]) {
                c.y[0] = if c.y[0] == 0.5 { 3.0 } else { 0.5 };
            }
        }
        corr_fit(&mut out, &c);
    }
    // ---- correspondence: fit_weak_learner with sample counts and mtry (as the random forest calls it) ----
    for i in 0..(if a.thorough { 600 } else { 200 }) {
        let (mut c, _) = gen_case(&mut rng, 28, Some(i % 2 == 1));
        if c.cls && c.crit == 1 && c.x.len() > 14 {
            c.crit = 0;
        }
        corr_fit_weighted(&mut out, &c, &mut rng);
    }
    // ---- correspondence: the model's predict on the implementation's own node arrays ----
    for _ in 0..(if a.thorough { 400 } else { 100 }) {
        let (c, _) = gen_case(&mut rng, 150, None);
        corr_predict(&mut out, &c, &mut rng);
    }

    // ---- search ----
    let nsearch = if a.thorough { 250000 } else { 50000 };
    for i in 0..nsearch {
        let (c, fam) = gen_case(&mut rng, 150, None);
        check_case(&mut out, &c, fam, i % 4 == 0);
        if i < 2 && out.n_fail() == 0 {
            out.sample(json!({"cls": c.cls, "crit": c.crit, "n": c.x.len(), "p": c.x[0].len(), "md": c.md, "msl": c.msl, "mss": c.mss, "x_head": c.x[..2.min(c.x.len())].to_vec(), "y_head": c.y[..2.min(c.y.len())].to_vec()}));
        }
    }
    // ---- api-trait twins (last: the streams of the sections above are unchanged) ----
    for i in 0..(if a.thorough { 1000 } else { 100 }) {
        let (c, _) = gen_case(&mut rng, 60, Some(i % 2 == 1));
        check_twin(&mut out, &c);
    }
    STATS.with(|s| out.set("oracle_counts", json!(*s.borrow())));
    out.finish(&a.out);
}
