//! C07 — least squares and ridge regression: correspondence cases for the Coq model
//! (SC.C07.Corr) and the failing-input search.  The search oracles are written from the property
//! text (residual orthogonality and zero sum, vanishing gradient of the ridge objective in the
//! coordinates the property names, solver agreement, predict = X w + b), not from the model and
//! not from the implementation.
use serde_json::{json, Value};
use smartcore::linalg::cholesky::CholeskyDecomposableMatrix;
use smartcore::linalg::naive::dense_matrix::DenseMatrix;
use smartcore::linalg::qr::QRDecomposableMatrix;
use smartcore::linalg::stats::MatrixStats;
use smartcore::linalg::svd::SVDDecomposableMatrix;
use smartcore::linalg::BaseMatrix;
use smartcore::linear::linear_regression::{LinearRegression, LinearRegressionParameters, LinearRegressionSolverName};
use smartcore::linear::ridge_regression::{RidgeRegression, RidgeRegressionParameters, RidgeRegressionSolverName};
use smartcore::math::num::RealNumber;
use vharness::*;

// ------------------------------------------------------------------------------------------
// tolerances (relative to the scale of the terms of each tested quantity; see `Scales`)
// ------------------------------------------------------------------------------------------
const TOL64: f64 = 1e-9; // stationarity / orthogonality, f64
const TOL32: f64 = 2e-3; // the same for f32 fits (eps32/eps64 ~ 5e8; inputs restricted, see gen)
const TOLP64: f64 = 1e-12; // predict = X w + b, f64
const TOLP32: f64 = 1e-5; // f32
const AGREE64: f64 = 1e-13; // solver agreement: AGREE * cond(system) + floor, f64
const AGREE32: f64 = 1e-4;
const AGREE_FLOOR64: f64 = 1e-9;
const AGREE_FLOOR32: f64 = 2e-3;
const COQ_TOL64: f64 = 1e-9; // tolerance handed to the Coq validator
const COQ_TOL32: f64 = 2e-3;

#[derive(Clone, Copy, PartialEq, Debug)]
enum Sol {
    QR,
    SVD,
    Chol,
}
impl Sol {
    fn name(self) -> &'static str {
        match self {
            Sol::QR => "qr",
            Sol::SVD => "svd",
            Sol::Chol => "cholesky",
        }
    }
}

fn t<T: RealNumber>(v: f64) -> T {
    T::from_f64(v).unwrap()
}
fn f<T: RealNumber>(v: T) -> f64 {
    v.to_f64().unwrap()
}
fn mat<T: RealNumber>(rows: &[Vec<f64>]) -> DenseMatrix<T> {
    let r: Vec<Vec<T>> = rows.iter().map(|r| r.iter().map(|v| t::<T>(*v)).collect()).collect();
    DenseMatrix::from_2d_vec(&r)
}
fn vect<T: RealNumber>(y: &[f64]) -> Vec<T> {
    y.iter().map(|v| t::<T>(*v)).collect()
}
fn rows_of<T: RealNumber>(m: &DenseMatrix<T>) -> Vec<Vec<f64>> {
    let (n, p) = m.shape();
    (0..n).map(|r| (0..p).map(|c| f(m.get(r, c))).collect()).collect()
}
fn col_of<T: RealNumber>(m: &DenseMatrix<T>) -> Vec<f64> {
    let (n, _) = m.shape();
    (0..n).map(|r| f(m.get(r, 0))).collect()
}
fn r32(v: f64) -> f64 {
    v as f32 as f64
}

#[derive(Clone, Debug)]
struct FitOut {
    w: Vec<f64>,
    b: f64,
    pred_train: Vec<f64>,
    pred_new: Vec<f64>,
}

/// Err = panic, Ok(None) = `Err(Failed)`
fn run_ols<T: RealNumber>(x: &[Vec<f64>], y: &[f64], sol: Sol, xnew: &[Vec<f64>]) -> Result<Option<FitOut>, String> {
    guard(|| {
        let xm: DenseMatrix<T> = mat(x);
        let yv: Vec<T> = vect(y);
        let params = LinearRegressionParameters::default().with_solver(match sol {
            Sol::QR => LinearRegressionSolverName::QR,
            _ => LinearRegressionSolverName::SVD,
        });
        match LinearRegression::fit(&xm, &yv, params) {
            Err(_) => None,
            Ok(m) => {
                let (pw, _) = m.coefficients().shape();
                let w: Vec<f64> = (0..pw).map(|j| f(m.coefficients().get(j, 0))).collect();
                let b = f(m.intercept());
                let pred_train: Vec<f64> = m.predict(&xm).map(|v| v.iter().map(|a| f(*a)).collect()).unwrap_or_default();
                let pred_new: Vec<f64> = if xnew.is_empty() {
                    vec![]
                } else {
                    m.predict(&mat::<T>(xnew)).map(|v| v.iter().map(|a| f(*a)).collect()).unwrap_or_default()
                };
                Some(FitOut { w, b, pred_train, pred_new })
            }
        }
    })
}

fn run_ridge<T: RealNumber>(
    x: &[Vec<f64>],
    y: &[f64],
    alpha: f64,
    normalize: bool,
    sol: Sol,
    xnew: &[Vec<f64>],
) -> Result<Option<FitOut>, String> {
    guard(|| {
        let xm: DenseMatrix<T> = mat(x);
        let yv: Vec<T> = vect(y);
        let params = RidgeRegressionParameters::default()
            .with_alpha(t::<T>(alpha))
            .with_normalize(normalize)
            .with_solver(match sol {
                Sol::Chol => RidgeRegressionSolverName::Cholesky,
                _ => RidgeRegressionSolverName::SVD,
            });
        match RidgeRegression::fit(&xm, &yv, params) {
            Err(_) => None,
            Ok(m) => {
                let (pw, _) = m.coefficients().shape();
                let w: Vec<f64> = (0..pw).map(|j| f(m.coefficients().get(j, 0))).collect();
                let b = f(m.intercept());
                let pred_train: Vec<f64> = m.predict(&xm).map(|v| v.iter().map(|a| f(*a)).collect()).unwrap_or_default();
                let pred_new: Vec<f64> = if xnew.is_empty() {
                    vec![]
                } else {
                    m.predict(&mat::<T>(xnew)).map(|v| v.iter().map(|a| f(*a)).collect()).unwrap_or_default()
                };
                Some(FitOut { w, b, pred_train, pred_new })
            }
        }
    })
}

fn fit_ols(x: &[Vec<f64>], y: &[f64], sol: Sol, xnew: &[Vec<f64>], f32m: bool) -> Result<Option<FitOut>, String> {
    if f32m {
        run_ols::<f32>(x, y, sol, xnew)
    } else {
        run_ols::<f64>(x, y, sol, xnew)
    }
}
fn fit_ridge(x: &[Vec<f64>], y: &[f64], alpha: f64, normalize: bool, sol: Sol, xnew: &[Vec<f64>], f32m: bool) -> Result<Option<FitOut>, String> {
    if f32m {
        run_ridge::<f32>(x, y, alpha, normalize, sol, xnew)
    } else {
        run_ridge::<f64>(x, y, alpha, normalize, sol, xnew)
    }
}

// ------------------------------------------------------------------------------------------
// independent numerics for the oracles
// ------------------------------------------------------------------------------------------
fn norm2(v: &[f64]) -> f64 {
    let m = v.iter().fold(0.0f64, |a, b| a.max(b.abs()));
    if m == 0.0 || !m.is_finite() {
        return m;
    }
    m * v.iter().map(|a| (a / m) * (a / m)).sum::<f64>().sqrt()
}
fn column(x: &[Vec<f64>], j: usize) -> Vec<f64> {
    x.iter().map(|r| r[j]).collect()
}
/// singular values by one-sided Jacobi (accurate for badly scaled columns)
fn singular_values(a: &[Vec<f64>]) -> Vec<f64> {
    let n = a.len();
    let p = a[0].len();
    let mut u: Vec<Vec<f64>> = (0..p).map(|j| (0..n).map(|i| a[i][j]).collect()).collect();
    for _ in 0..80 {
        let mut off = 0.0f64;
        for ja in 0..p {
            for jb in (ja + 1)..p {
                let (mut al, mut be, mut ga) = (0.0f64, 0.0f64, 0.0f64);
                for i in 0..n {
                    al += u[ja][i] * u[ja][i];
                    be += u[jb][i] * u[jb][i];
                    ga += u[ja][i] * u[jb][i];
                }
                if ga == 0.0 || al == 0.0 || be == 0.0 {
                    continue;
                }
                off = off.max(ga.abs() / (al * be).sqrt());
                let zeta = (be - al) / (2.0 * ga);
                let tt = zeta.signum() / (zeta.abs() + (1.0 + zeta * zeta).sqrt());
                let c = 1.0 / (1.0 + tt * tt).sqrt();
                let s = c * tt;
                for i in 0..n {
                    let (xa, xb) = (u[ja][i], u[jb][i]);
                    u[ja][i] = c * xa - s * xb;
                    u[jb][i] = s * xa + c * xb;
                }
            }
        }
        if off < 1e-15 {
            break;
        }
    }
    let mut s: Vec<f64> = u.iter().map(|c| norm2(c)).collect();
    s.sort_by(|a, b| b.partial_cmp(a).unwrap());
    s
}
fn cond_of(a: &[Vec<f64>]) -> f64 {
    let s = singular_values(a);
    let (mx, mn) = (s[0], s[s.len() - 1]);
    if mn <= 0.0 {
        f64::INFINITY
    } else {
        mx / mn
    }
}
fn augmented(x: &[Vec<f64>]) -> Vec<Vec<f64>> {
    x.iter()
        .map(|r| {
            let mut q = r.clone();
            q.push(1.0);
            q
        })
        .collect()
}
/// two-pass column mean and population standard deviation (the property's "standardised columns")
fn mean_std(x: &[Vec<f64>]) -> (Vec<f64>, Vec<f64>) {
    let n = x.len() as f64;
    let p = x[0].len();
    let mut mu = vec![0.0; p];
    let mut sd = vec![0.0; p];
    for j in 0..p {
        let m = x.iter().map(|r| r[j]).sum::<f64>() / n;
        let m = m + x.iter().map(|r| r[j] - m).sum::<f64>() / n;
        let v = x.iter().map(|r| (r[j] - m) * (r[j] - m)).sum::<f64>() / n;
        mu[j] = m;
        sd[j] = v.sqrt();
    }
    (mu, sd)
}
fn standardise(x: &[Vec<f64>], mu: &[f64], sd: &[f64]) -> Vec<Vec<f64>> {
    x.iter().map(|r| r.iter().enumerate().map(|(j, v)| (v - mu[j]) / sd[j]).collect()).collect()
}

/// Worst ratio |quantity| / scale over the stationarity conditions of
///   J(w, c) = sum_i (y_i - z_i.w - c)^2 + alpha |w|^2
/// at (w, c): for each j  g_j = alpha w_j - sum_i z_ij r_i  against
///   |z_j| (|y| + sum_k |z_k||w_k| + sqrt(n)|c|) + alpha |w_j|,
/// and, when `free`, sum_i r_i against sqrt(n) (|y| + sum_k |z_k||w_k| + sqrt(n)|c|).
/// `resid`: the residuals to use (the implementation's own y - y_hat for OLS), else recomputed.
/// `normwise`: every component is measured against the LARGEST column norm instead of its own
/// (|z_j| replaced by max_k |z_k|, and by max(that, sqrt n) when the intercept is free).  This is
/// the accuracy a norm-wise backward-stable solver delivers; it is used for the SVD paths, whose
/// result (unlike Cholesky / Householder QR) is not invariant under column scaling: with column
/// norms spread over 1e8 the component-wise ratio of the unchanged SVD paths reaches 1e-6.
fn stationarity_ratio(z: &[Vec<f64>], y: &[f64], alpha: f64, w: &[f64], c: f64, free: bool, resid: Option<&[f64]>, normwise: bool) -> (f64, String) {
    let n = z.len();
    let p = z[0].len();
    let r: Vec<f64> = match resid {
        Some(r) => r.to_vec(),
        None => (0..n).map(|i| y[i] - (0..p).map(|k| z[i][k] * w[k]).sum::<f64>() - c).collect(),
    };
    let cn: Vec<f64> = (0..p).map(|j| norm2(&column(z, j))).collect();
    let base = norm2(y) + (0..p).map(|k| cn[k] * w[k].abs()).sum::<f64>() + (n as f64).sqrt() * c.abs();
    let cmax = cn.iter().fold(if free { (n as f64).sqrt() } else { 0.0 }, |a, b| a.max(*b));
    let mut worst = 0.0f64;
    let mut what = String::new();
    for j in 0..p {
        let g = alpha * w[j] - (0..n).map(|i| z[i][j] * r[i]).sum::<f64>();
        let sc = if normwise { cmax } else { cn[j] } * base + alpha * w[j].abs();
        let ratio = if sc > 0.0 { g.abs() / sc } else if g == 0.0 { 0.0 } else { f64::INFINITY };
        if !(ratio <= worst) {
            worst = ratio;
            what = format!("column {}: gradient component {:e} against scale {:e}", j, g, sc);
        }
    }
    if free {
        let s: f64 = r.iter().sum();
        let sc = if normwise { cmax } else { (n as f64).sqrt() } * base;
        let ratio = if sc > 0.0 { s.abs() / sc } else if s == 0.0 { 0.0 } else { f64::INFINITY };
        if !(ratio <= worst) {
            worst = ratio;
            what = format!("residual sum {:e} against scale {:e}", s, sc);
        }
    }
    (worst, what)
}

// ------------------------------------------------------------------------------------------
// cases
// ------------------------------------------------------------------------------------------
#[derive(Clone, Debug)]
struct Case {
    ridge: bool,
    x: Vec<Vec<f64>>,
    y: Vec<f64>,
    alpha: f64,
    normalize: bool,
    f32m: bool,
    xnew: Vec<Vec<f64>>,
    family: String,
}
impl Case {
    fn to_json(&self) -> Value {
        json!({"entry": if self.ridge { "ridge" } else { "ols" }, "x": self.x, "y": self.y, "alpha": self.alpha,
               "normalize": self.normalize, "f32": self.f32m, "xnew": self.xnew, "family": self.family,
               "n": self.x.len(), "p": self.x[0].len()})
    }
    fn from_json(v: &Value) -> Case {
        Case {
            ridge: v["entry"].as_str() == Some("ridge"),
            x: rows_from_json(&v["x"]),
            y: f64s_from_json(&v["y"]),
            alpha: v["alpha"].as_f64().unwrap_or(1.0),
            normalize: v["normalize"].as_bool().unwrap_or(false),
            f32m: v["f32"].as_bool().unwrap_or(false),
            xnew: rows_from_json(&v["xnew"]),
            family: v["family"].as_str().unwrap_or("replay").to_string(),
        }
    }
    fn key(&self) -> u64 {
        let mut d: Vec<f64> = self.x.iter().flatten().cloned().collect();
        d.extend(self.y.iter());
        d.push(self.alpha);
        d.push(if self.ridge { 1.0 } else { 0.0 } + if self.normalize { 2.0 } else { 0.0 } + if self.f32m { 4.0 } else { 0.0 });
        hash_f64s(&d)
    }
}

struct Stats {
    max_ratio: std::collections::BTreeMap<String, f64>,
}
impl Stats {
    fn new() -> Self {
        Stats { max_ratio: Default::default() }
    }
    fn note(&mut self, k: &str, v: f64) {
        let e = self.max_ratio.entry(k.to_string()).or_insert(0.0);
        if !(v <= *e) {
            *e = v;
        }
    }
}

fn orthonormal_cols(rng: &mut Rng, n: usize, p: usize) -> Vec<Vec<f64>> {
    // columns as vectors, modified Gram-Schmidt twice
    let mut q: Vec<Vec<f64>> = vec![];
    while q.len() < p {
        let mut v: Vec<f64> = (0..n).map(|_| rng.normal()).collect();
        for _ in 0..2 {
            for u in &q {
                let d: f64 = u.iter().zip(v.iter()).map(|(a, b)| a * b).sum();
                for i in 0..n {
                    v[i] -= d * u[i];
                }
            }
        }
        let nv = norm2(&v);
        if nv > 1e-6 {
            q.push(v.iter().map(|a| a / nv).collect());
        }
    }
    q
}

/// a design matrix of the property's quantifier: 1 <= p <= 8, p < n <= 80, cond(X) <= cmax, column
/// scales 10^[-2,3], non-zero column means with |mean|/spread < 1e3 (f32: narrower, see constants)
fn gen_design(rng: &mut Rng, n: usize, p: usize, f32m: bool, out: &mut Out) -> (Vec<Vec<f64>>, String, f64) {
    let (kmax, slo, shi, mmax, cmax) = if f32m { (1.5, -1.0, 1.0, 1.0, 50.0) } else { (6.0, -2.0, 3.0, 2.7, 1e6) };
    let fam = rng.below(6);
    let mut shrink = 1.0f64;
    for _try in 0..40 {
        let fname;
        // base matrix with columns of spread about 1
        let base: Vec<Vec<f64>> = match fam {
            0 | 1 => {
                fname = "svd-controlled";
                let kl = rng.uniform(0.0, kmax) * shrink;
                let u = orthonormal_cols(rng, n, p);
                let v = orthonormal_cols(rng, p, p);
                let s: Vec<f64> = (0..p).map(|k| if p == 1 { 1.0 } else { 10f64.powf(-kl * k as f64 / (p - 1) as f64) }).collect();
                (0..n).map(|i| (0..p).map(|j| (0..p).map(|k| u[k][i] * s[k] * v[k][j]).sum::<f64>() * (n as f64).sqrt()).collect()).collect()
            }
            2 => {
                fname = "gaussian";
                (0..n).map(|_| (0..p).map(|_| rng.normal()).collect()).collect()
            }
            3 => {
                fname = "integer";
                (0..n).map(|_| (0..p).map(|_| rng.int(-4, 4) as f64).collect()).collect()
            }
            4 => {
                fname = "near-collinear";
                let d = 10f64.powf(-rng.uniform(0.5, kmax * 0.8) * shrink);
                let g: Vec<Vec<f64>> = (0..n).map(|_| (0..p).map(|_| rng.normal()).collect()).collect();
                (0..n).map(|i| (0..p).map(|j| if j > 0 && j % 2 == 1 { g[i][j - 1] + d * g[i][j] } else { g[i][j] }).collect()).collect()
            }
            _ => {
                fname = "uniform-trend";
                (0..n).map(|i| (0..p).map(|j| if j == 0 { i as f64 / n as f64 * 3.0 } else { rng.uniform(-1.7, 1.7) }).collect()).collect()
            }
        };
        let x: Vec<Vec<f64>> = {
            let cs: Vec<f64> = (0..p).map(|_| 10f64.powf(rng.uniform(slo, shi) * shrink)).collect();
            let ms: Vec<f64> = (0..p)
                .map(|_| {
                    let m = 10f64.powf(rng.uniform(-1.0, mmax * shrink.max(0.3)));
                    if rng.bool() { m } else { -m }
                })
                .collect();
            (0..n).map(|i| (0..p).map(|j| { let v = cs[j] * (base[i][j] + ms[j]); if f32m { r32(v) } else { v } }).collect()).collect()
        };
        // every column must vary and the mean/spread ratio must stay below 1e3 (known finding D6 otherwise)
        let (mu, sd) = mean_std(&x);
        let ok_cols = (0..p).all(|j| sd[j] > 0.0 && mu[j].abs() / sd[j] < if f32m { 30.0 } else { 900.0 } && mu[j] != 0.0);
        let c = cond_of(&x);
        // the least-squares design is [X 1]: it must have full column rank too (e.g. n = p + 1 with
        // two equal rows makes it exactly singular although X itself is well conditioned; QR then
        // panics "rank deficient", which is outside the property's quantifier)
        let ca = cond_of(&augmented(&x));
        if ok_cols && c <= cmax && ca <= 10.0 * cmax {
            return (x, fname.to_string(), c);
        }
        out.count("gen:rejected(cond of X or of [X 1], or mean/spread, out of the quantifier)");
        shrink *= 0.8;
    }
    // benign fallback: plain Gaussian columns, redrawn until inside the quantifier
    let mut best: Option<(Vec<Vec<f64>>, f64)> = None;
    for _ in 0..200 {
        let x: Vec<Vec<f64>> = (0..n).map(|_| (0..p).map(|_| { let v = rng.normal() + 0.5; if f32m { r32(v) } else { v } }).collect()).collect();
        let c = cond_of(&x);
        let ca = cond_of(&augmented(&x));
        if c <= cmax && ca <= 10.0 * cmax {
            return (x, "fallback-gaussian".to_string(), c);
        }
        if best.as_ref().map_or(true, |b| ca < b.1) {
            best = Some((x, ca));
        }
    }
    let (x, _) = best.unwrap();
    let c = cond_of(&x);
    (x, "fallback-gaussian".to_string(), c)
}

const N_DEGENERATE: usize = 9;
/// Degenerate targets ("all y" includes them): constant (zero / non-zero / the ones vector), tiny
/// spread around a large mean, a target equal to one column of X, orthogonal to every column and to
/// the ones vector, y = X w0 exactly representable (zero residual, no intercept), one value
/// repeated except in a single row.  `lattice`: small dyadic values (correspondence inputs).
fn degenerate_target(rng: &mut Rng, x: &[Vec<f64>], fam: usize, f32m: bool, lattice: bool) -> (Vec<f64>, &'static str) {
    let n = x.len();
    let p = x[0].len();
    let level = |rng: &mut Rng| -> f64 {
        let c = if lattice { *rng.pick(&[0.5, 1.5, 3.0, 7.25, 100.0]) } else { 10f64.powf(rng.uniform(-1.0, if f32m { 1.7 } else { 4.0 })) };
        if rng.bool() { c } else { -c }
    };
    let (y, name): (Vec<f64>, &'static str) = match fam {
        0 => { let c = level(rng); (vec![c; n], "constant-nonzero") }
        1 => (vec![0.0; n], "constant-zero"),
        2 => (vec![1.0; n], "ones-vector"),
        3 => {
            // spread far below the mean; sometimes below one ulp of it (then the target IS constant
            // after rounding), sometimes a few ulps
            let c = level(rng) * if f32m { 1.0 } else { 100.0 };
            let rel = 10f64.powf(rng.uniform(if f32m { -8.0 } else { -17.0 }, if f32m { -4.0 } else { -9.0 }));
            ((0..n).map(|_| c * (1.0 + rel * rng.normal())).collect(), "tiny-spread-large-mean")
        }
        4 => { let j = rng.below(p); ((0..n).map(|i| x[i][j]).collect(), "equals-a-column") }
        5 => {
            // remove the components along the columns of X and the ones vector (twice)
            if n <= p + 1 {
                let c = level(rng);
                (vec![c; n], "constant-nonzero")
            } else {
                let mut basis: Vec<Vec<f64>> = vec![];
                let mut cols: Vec<Vec<f64>> = (0..p).map(|j| column(x, j)).collect();
                cols.push(vec![1.0; n]);
                for c in cols {
                    let mut v = c.clone();
                    for _ in 0..2 {
                        for u in &basis {
                            let d: f64 = u.iter().zip(v.iter()).map(|(a, b)| a * b).sum();
                            for i in 0..n { v[i] -= d * u[i]; }
                        }
                    }
                    let nv = norm2(&v);
                    if nv > 1e-9 * norm2(&c) { basis.push(v.iter().map(|a| a / nv).collect()); }
                }
                let mut v: Vec<f64> = (0..n).map(|_| rng.normal()).collect();
                for _ in 0..2 {
                    for u in &basis {
                        let d: f64 = u.iter().zip(v.iter()).map(|(a, b)| a * b).sum();
                        for i in 0..n { v[i] -= d * u[i]; }
                    }
                }
                let sc = level(rng).abs();
                (v.iter().map(|a| a * sc).collect(), "orthogonal-to-columns")
            }
        }
        6 => {
            // y = X w0 with small integer w0 (no intercept): zero residual for the raw models
            let w0: Vec<f64> = (0..p).map(|_| rng.int(-3, 3) as f64).collect();
            ((0..n).map(|i| (0..p).map(|k| x[i][k] * w0[k]).sum::<f64>()).collect(), "exact-linear-no-intercept")
        }
        7 => {
            let c = level(rng);
            let mut y = vec![c; n];
            let i = rng.below(n);
            y[i] = if lattice { c + 2.0 } else { c * (1.0 + rng.uniform(0.01, 2.0)) + rng.normal() * 0.1 };
            (y, "all-equal-but-one")
        }
        _ => {
            // two distinct values only
            let (a, b) = (level(rng), level(rng));
            ((0..n).map(|_| if rng.bool() { a } else { b }).collect(), "two-valued")
        }
    };
    (if f32m { y.iter().map(|v| r32(*v)).collect() } else { y }, name)
}

fn gen_target(rng: &mut Rng, x: &[Vec<f64>], f32m: bool) -> (Vec<f64>, &'static str) {
    let n = x.len();
    let p = x[0].len();
    if rng.below(3) == 0 {
        let fam = rng.below(N_DEGENERATE);
        return degenerate_target(rng, x, fam, f32m, false);
    }
    let (_, sd) = mean_std(x);
    let wstar: Vec<f64> = (0..p).map(|j| rng.normal() / sd[j].max(1e-300)).collect();
    let bstar = rng.normal() * 3.0;
    let signal: Vec<f64> = (0..n).map(|i| (0..p).map(|k| x[i][k] * wstar[k]).sum::<f64>() + bstar).collect();
    let kind = rng.below(6);
    let (y, name): (Vec<f64>, &'static str) = match kind {
        0 => (signal.clone(), "noise-free"),
        1 => (signal.iter().map(|s| s + 1e-3 * rng.normal()).collect(), "small-noise"),
        2 => (signal.iter().map(|s| s + rng.normal()).collect(), "unit-noise"),
        3 => ((0..n).map(|_| rng.normal() * 10.0).collect(), "pure-noise"),
        4 => (signal.iter().map(|s| s + rng.normal() + if f32m { 50.0 } else { 1e4 }).collect(), "offset-target"),
        _ => (signal.iter().map(|s| (s + 0.3 * rng.normal()) * if f32m { 10.0 } else { 1e3 }).collect(), "large-target"),
    };
    (if f32m { y.iter().map(|v| r32(*v)).collect() } else { y }, name)
}

fn gen_case(rng: &mut Rng, ridge: bool, nmax: usize, pmax: usize, f32m: bool, out: &mut Out) -> (Case, f64) {
    let p = rng.usize_in(1, pmax);
    let n = match rng.below(5) {
        0 => p + 1,
        1 => (p + 2).min(nmax),
        _ => rng.usize_in(p + 1, nmax.max(p + 1)),
    };
    let (x, fam, c) = gen_design(rng, n, p, f32m, out);
    let (y, yname) = gen_target(rng, &x, f32m);
    let alpha = { let a = 10f64.powf(rng.uniform(-3.0, 2.0)); if f32m { r32(a) } else { a } };
    let normalize = rng.bool();
    let k = rng.usize_in(1, 4);
    let xnew: Vec<Vec<f64>> = (0..k).map(|_| { let r = rng.pick(&x).clone(); r.iter().map(|v| { let u = v * rng.uniform(0.5, 1.5) + rng.normal() * 0.1; if f32m { r32(u) } else { u } }).collect() }).collect();
    (Case { ridge, x, y, alpha, normalize, f32m, xnew, family: format!("{}+{}", fam, yname) }, c)
}

// ------------------------------------------------------------------------------------------
// the oracle
// ------------------------------------------------------------------------------------------
fn check_predict(out: &mut Out, c: &Case, which: &str, fit: &FitOut, st: &mut Stats) {
    let tol = if c.f32m { TOLP32 } else { TOLP64 };
    for (xs, pr, tag) in [(&c.x, &fit.pred_train, "train"), (&c.xnew, &fit.pred_new, "new")] {
        if xs.is_empty() {
            continue;
        }
        if pr.len() != xs.len() {
            out.fail("predict_affine", &format!("{}: predict returned {} values for {} rows", which, pr.len(), xs.len()), c.to_json());
            continue;
        }
        for i in 0..xs.len() {
            let v: f64 = (0..fit.w.len()).map(|k| xs[i][k] * fit.w[k]).sum::<f64>() + fit.b;
            let sc: f64 = (0..fit.w.len()).map(|k| (xs[i][k] * fit.w[k]).abs()).sum::<f64>() + fit.b.abs();
            let d = (pr[i] - v).abs();
            let ratio = if sc > 0.0 { d / sc } else if d == 0.0 { 0.0 } else { f64::INFINITY };
            st.note(if c.f32m { "predict32" } else { "predict64" }, ratio);
            if !(ratio <= tol) {
                out.fail(
                    "predict_affine",
                    &format!("{} ({} row {}): predict = {:e} but x.w + b = {:e} (ratio {:e})", which, tag, i, pr[i], v, ratio),
                    c.to_json(),
                );
                return;
            }
        }
    }
}

fn agreement(out: &mut Out, c: &Case, a: &FitOut, b: &FitOut, names: &str, cond_sys: f64, z_norms: &[f64], resid_norm: f64, st: &mut Stats) {
    // |dw_j| |x_j| and |db| sqrt(n) against (|y| + sum_k |x_k||w_k| + sqrt(n)|b|) * (AGREE * cond + floor).
    // A least-squares solution with a NON-ZERO residual r is determined by the data only up to
    // eps * cond^2 * |r| / |A| (Wedin): for the OLS comparison the allowance therefore has the term
    // 4 eps cond^2 |r| / scale as well (resid_norm = |y - y_hat|; 0 for the square ridge systems).
    let n = c.x.len() as f64;
    let (ag, floor) = if c.f32m { (AGREE32, AGREE_FLOOR32) } else { (AGREE64, AGREE_FLOOR64) };
    let base = norm2(&c.y) + (0..a.w.len()).map(|k| z_norms[k] * a.w[k].abs().max(b.w[k].abs())).sum::<f64>() + n.sqrt() * a.b.abs().max(b.b.abs());
    let mut worst = 0.0f64;
    for j in 0..a.w.len() {
        worst = worst.max((a.w[j] - b.w[j]).abs() * z_norms[j]);
    }
    worst = worst.max((a.b - b.b).abs() * n.sqrt());
    let ratio = if base > 0.0 { worst / base } else if worst == 0.0 { 0.0 } else { f64::INFINITY };
    let epsw = if c.f32m { f32::EPSILON as f64 } else { f64::EPSILON };
    let allowed = ag * cond_sys + floor + if base > 0.0 { 4.0 * epsw * cond_sys * cond_sys * resid_norm / base } else { 0.0 };
    st.note(if c.f32m { "agree32/allowed" } else { "agree64/allowed" }, ratio / allowed);
    if !(ratio <= allowed) {
        out.fail(
            "solver_agreement",
            &format!("{}: coefficients differ by {:e} relative to the data scale (allowed {:e}, cond {:e})", names, ratio, allowed, cond_sys),
            c.to_json(),
        );
    }
}

fn check_case(out: &mut Out, c: &Case, st: &mut Stats) {
    let n = c.x.len();
    let p = c.x[0].len();
    let tol = if c.f32m { TOL32 } else { TOL64 };
    let tag = if c.f32m { "32" } else { "64" };
    let cn: Vec<f64> = (0..p).map(|j| norm2(&column(&c.x, j))).collect();
    if !c.ridge {
        let mut fits: Vec<(Sol, FitOut)> = vec![];
        for sol in [Sol::QR, Sol::SVD] {
            match fit_ols(&c.x, &c.y, sol, &c.xnew, c.f32m) {
                Err(msg) => out.fail("ols_normal_equations", &format!("{}: panic: {}", sol.name(), msg), c.to_json()),
                Ok(None) => out.fail("ols_normal_equations", &format!("{}: fit returned Err on a full-column-rank design", sol.name()), c.to_json()),
                Ok(Some(fit)) => {
                    if fit.w.len() != p || fit.pred_train.len() != n {
                        out.fail("ols_normal_equations", &format!("{}: wrong output shape", sol.name()), c.to_json());
                        continue;
                    }
                    // the property's residual: y - y_hat with y_hat = predict(X)
                    let r: Vec<f64> = (0..n).map(|i| c.y[i] - fit.pred_train[i]).collect();
                    let (ratio, what) = stationarity_ratio(&c.x, &c.y, 0.0, &fit.w, fit.b, true, Some(&r), sol == Sol::SVD);
                    st.note(&format!("ols{}:{}", tag, sol.name()), ratio);
                    if !(ratio <= tol) {
                        out.fail("ols_normal_equations", &format!("{}: residual not orthogonal / not summing to zero: {} (ratio {:e})", sol.name(), what, ratio), c.to_json());
                    }
                    check_predict(out, c, sol.name(), &fit, st);
                    fits.push((sol, fit));
                }
            }
        }
        if fits.len() == 2 {
            let cond_aug = cond_of(&augmented(&c.x));
            let rn = norm2(&(0..n).map(|i| c.y[i] - fits[0].1.pred_train[i]).collect::<Vec<f64>>());
            agreement(out, c, &fits[0].1, &fits[1].1, "QR vs SVD", cond_aug, &cn, rn, st);
        }
    } else {
        // an EXACTLY constant column cannot be standardised: with normalize = true the fit must
        // return Err whatever the constant is (for a non-dyadic value the one-pass deviation is
        // rounding noise or NaN, and an Ok would carry garbage / NaN coefficients); with
        // normalize = false the raw system is still positive definite and is judged as usual
        let const_col = (0..p).find(|&j| (1..n).all(|r| if c.f32m { (c.x[r][j] as f32) == (c.x[0][j] as f32) } else { c.x[r][j] == c.x[0][j] }));
        if c.normalize {
            if let Some(j) = const_col {
                for sol in [Sol::Chol, Sol::SVD] {
                    match fit_ridge(&c.x, &c.y, c.alpha, true, sol, &c.xnew, c.f32m) {
                        Ok(None) => {}
                        Err(msg) => out.fail("constant_column_is_err", &format!("{}: column {} is constant ({:e}) and normalize = true: panic instead of Err: {}", sol.name(), j, c.x[0][j], msg), c.to_json()),
                        Ok(Some(fit)) => out.fail(
                            "constant_column_is_err",
                            &format!("{}: column {} is constant ({:e}) and normalize = true, but fit returned Ok (w[{}] = {:e}, b = {:e})", sol.name(), j, c.x[0][j], j, fit.w.get(j).cloned().unwrap_or(f64::NAN), fit.b),
                            c.to_json(),
                        ),
                    }
                }
                return;
            }
        }
        let mut fits: Vec<(Sol, FitOut)> = vec![];
        let (mu, sd) = mean_std(&c.x);
        let z = if c.normalize { standardise(&c.x, &mu, &sd) } else { c.x.clone() };
        for sol in [Sol::Chol, Sol::SVD] {
            match fit_ridge(&c.x, &c.y, c.alpha, c.normalize, sol, &c.xnew, c.f32m) {
                Err(msg) => out.fail("ridge_gradient_zero", &format!("{}: panic: {}", sol.name(), msg), c.to_json()),
                Ok(None) => out.fail("ridge_gradient_zero", &format!("{}: fit returned Err on a full-column-rank design with alpha > 0", sol.name()), c.to_json()),
                Ok(Some(fit)) => {
                    if fit.w.len() != p {
                        out.fail("ridge_gradient_zero", &format!("{}: wrong output shape", sol.name()), c.to_json());
                        continue;
                    }
                    let (ratio, what) = if c.normalize {
                        // standardised coordinates: ws_j = w_j sd_j, c = b + sum_j w_j mu_j, free intercept
                        let ws: Vec<f64> = (0..p).map(|j| fit.w[j] * sd[j]).collect();
                        let c0 = fit.b + (0..p).map(|j| fit.w[j] * mu[j]).sum::<f64>();
                        stationarity_ratio(&z, &c.y, c.alpha, &ws, c0, true, None, sol == Sol::SVD)
                    } else {
                        if fit.b != 0.0 {
                            out.fail("ridge_gradient_zero", &format!("{}: normalize = false but the intercept is {:e}, not 0", sol.name(), fit.b), c.to_json());
                        }
                        stationarity_ratio(&c.x, &c.y, c.alpha, &fit.w, 0.0, false, None, sol == Sol::SVD)
                    };
                    st.note(&format!("ridge{}:{}:{}", tag, if c.normalize { "norm" } else { "raw" }, sol.name()), ratio);
                    if !(ratio <= tol) {
                        out.fail(
                            "ridge_gradient_zero",
                            &format!("{} normalize={}: gradient of the ridge objective does not vanish: {} (ratio {:e})", sol.name(), c.normalize, what, ratio),
                            c.to_json(),
                        );
                    }
                    check_predict(out, c, sol.name(), &fit, st);
                    fits.push((sol, fit));
                }
            }
        }
        if fits.len() == 2 {
            // condition of the solved system X^T X + alpha I: (s_max^2 + alpha) / (s_min^2 + alpha)
            let s = singular_values(&z);
            let cond_sys = (s[0] * s[0] + c.alpha) / (s[p - 1] * s[p - 1] + c.alpha);
            agreement(out, c, &fits[0].1, &fits[1].1, "Cholesky vs SVD", cond_sys, &cn, 0.0, st);
        }
    }
}

// ------------------------------------------------------------------------------------------
// correspondence
// ------------------------------------------------------------------------------------------
fn coq_fit(o: &Option<FitOut>) -> String {
    coq_option(o.as_ref().map(|f| coq_pair(&coq_list_f64(&f.w), &coq_f64(f.b))))
}

fn small_matrix(rng: &mut Rng, n: usize, p: usize, style: usize) -> Vec<Vec<f64>> {
    (0..n)
        .map(|_| {
            (0..p)
                .map(|j| match style {
                    0 => rng.dyadic(8, 3),
                    1 => rng.int(-5, 5) as f64,
                    2 => rng.normal() * 10f64.powi(j as i32 % 3 - 1) + (j as f64 + 1.0) * 3.0,
                    _ => rng.uniform(-1.0, 1.0) + 100.0,
                })
                .collect()
        })
        .collect()
}

fn corr_stats(out: &mut Out, x: &[Vec<f64>]) {
    let res = guard(|| {
        let xm: DenseMatrix<f64> = mat(x);
        let mean = xm.mean(0);
        let std = xm.std(0);
        let mut z = xm.clone();
        z.scale_mut(&mean, &std, 0);
        (mean, std, rows_of(&z))
    });
    if let Ok((mean, std, z)) = res {
        out.corr(
            "stats",
            format!("corr_stats {} {} {} {}", coq_rows_f64(x), coq_list_f64(&mean), coq_list_f64(&std), coq_rows_f64(&z)),
            json!({"entry": "stats", "x": x}),
        );
    }
}

fn corr_chol(out: &mut Out, a: &[Vec<f64>], b: &[f64]) {
    let res = guard(|| {
        let am: DenseMatrix<f64> = mat(a);
        let bm: DenseMatrix<f64> = DenseMatrix::from_row_vector(b.to_vec()).transpose();
        am.cholesky_solve_mut(bm).ok().map(|s| col_of(&s))
    });
    let exp = match res {
        Ok(v) => v,
        Err(_) => None,
    };
    out.corr(
        "chol",
        format!("corr_chol {} {} {}", coq_rows_f64(a), coq_list_f64(b), coq_option(exp.as_ref().map(|v| coq_list_f64(v)))),
        json!({"entry": "chol", "a": a, "b": b}),
    );
}

/// the system RidgeRegression::fit hands to its solver, rebuilt from the implementation's own
/// public primitives, and the SVD solver's answer for it
fn ridge_system_svd(x: &[Vec<f64>], y: &[f64], alpha: f64, normalize: bool) -> Result<(Vec<Vec<f64>>, Vec<f64>, Option<Vec<f64>>), String> {
    guard(|| {
        let xm: DenseMatrix<f64> = mat(x);
        let (_, p) = xm.shape();
        let ycol: DenseMatrix<f64> = DenseMatrix::from_row_vector(y.to_vec()).transpose();
        let z = if normalize {
            let mean = xm.mean(0);
            let std = xm.std(0);
            let mut z = xm.clone();
            z.scale_mut(&mean, &std, 0);
            z
        } else {
            xm.clone()
        };
        let zt = z.transpose();
        let rhs = zt.matmul(&ycol);
        let mut a = zt.matmul(&z);
        for i in 0..p {
            a.add_element_mut(i, i, alpha);
        }
        let s = a.clone().svd_solve_mut(rhs.clone()).ok().map(|s| col_of(&s));
        (rows_of(&a), col_of(&rhs), s)
    })
}

fn corr_ridge(out: &mut Out, x: &[Vec<f64>], y: &[f64], alpha: f64, normalize: bool, sol: Sol, with_validator: bool) {
    let input = json!({"entry": "ridge", "x": x, "y": y, "alpha": alpha, "normalize": normalize, "solver": sol.name(), "f32": false, "xnew": [], "family": "corr"});
    let fit = match fit_ridge(x, y, alpha, normalize, sol, &[], false) {
        Ok(f) => f,
        Err(_) => None,
    };
    match sol {
        Sol::Chol => out.corr(
            "ridge_chol",
            format!("corr_ridge_chol {} {} {} {} {}", coq_rows_f64(x), coq_list_f64(y), coq_f64(alpha), coq_bool(normalize), coq_fit(&fit)),
            input.clone(),
        ),
        _ => {
            let consistent = x.len() == y.len() && x.len() > x[0].len();
            let (a, rhs, s) = if consistent {
                match ridge_system_svd(x, y, alpha, normalize) {
                    Ok(v) => v,
                    Err(_) => (vec![], vec![], None),
                }
            } else {
                (vec![], vec![], None)
            };
            out.corr(
                "ridge_svd",
                format!(
                    "corr_ridge_with {} {} {} {} {} {} {} {}",
                    coq_rows_f64(x),
                    coq_list_f64(y),
                    coq_f64(alpha),
                    coq_bool(normalize),
                    coq_rows_f64(&a),
                    coq_list_f64(&rhs),
                    coq_option(s.as_ref().map(|v| coq_list_f64(v))),
                    coq_fit(&fit)
                ),
                input.clone(),
            );
        }
    }
    if let Some(ft) = &fit {
        if ft.pred_train.len() == x.len() {
            out.corr(
                "predict",
                format!("corr_predict {} {} {} (Some {})", coq_rows_f64(x), coq_list_f64(&ft.w), coq_f64(ft.b), coq_list_f64(&ft.pred_train)),
                input.clone(),
            );
        }
        if with_validator {
            out.corr(
                "check_ridge",
                format!(
                    "corr_check_ridge {} {} {} {} {} {} {}",
                    coq_rows_f64(x),
                    coq_list_f64(y),
                    coq_f64(alpha),
                    coq_bool(normalize),
                    coq_list_f64(&ft.w),
                    coq_f64(ft.b),
                    coq_f64(COQ_TOL64)
                ),
                input,
            );
        }
    }
}

fn corr_ols(out: &mut Out, x: &[Vec<f64>], y: &[f64], sol: Sol, with_validator: bool) {
    let input = json!({"entry": "ols", "x": x, "y": y, "solver": sol.name(), "alpha": 0.0, "normalize": false, "f32": false, "xnew": [], "family": "corr"});
    let fit = match fit_ols(x, y, sol, &[], false) {
        Ok(f) => f,
        Err(_) => None,
    };
    // h_stack(X, ones) and the solver's answer through the implementation's public primitives
    let sys = guard(|| {
        let xm: DenseMatrix<f64> = mat(x);
        let (n, _) = xm.shape();
        let a = xm.h_stack(&DenseMatrix::ones(n, 1));
        let ycol: DenseMatrix<f64> = DenseMatrix::from_row_vector(y.to_vec()).transpose();
        let s = if n == y.len() {
            let ac = a.clone();
            guard(move || match sol {
                Sol::QR => ac.qr_solve_mut(ycol).ok().map(|s| col_of(&s)),
                _ => ac.svd_solve_mut(ycol).ok().map(|s| col_of(&s)),
            })
            .unwrap_or(None)
        } else {
            None
        };
        (rows_of(&a), s)
    });
    let (a, s) = match sys {
        Ok(v) => v,
        Err(_) => (vec![], None),
    };
    out.corr(
        if sol == Sol::QR { "ols_qr" } else { "ols_svd" },
        format!(
            "corr_ols_with {} {} {} {} {}",
            coq_rows_f64(x),
            coq_list_f64(y),
            coq_rows_f64(&a),
            coq_option(s.as_ref().map(|v| coq_list_f64(v))),
            coq_fit(&fit)
        ),
        input.clone(),
    );
    if let Some(ft) = &fit {
        if ft.pred_train.len() == x.len() {
            out.corr(
                "predict",
                format!("corr_predict {} {} {} (Some {})", coq_rows_f64(x), coq_list_f64(&ft.w), coq_f64(ft.b), coq_list_f64(&ft.pred_train)),
                input.clone(),
            );
        }
        if with_validator {
            out.corr(
                "check_ols",
                format!("corr_check_ols {} {} {} {} {}", coq_rows_f64(x), coq_list_f64(y), coq_list_f64(&ft.w), coq_f64(ft.b), coq_f64(COQ_TOL64)),
                input,
            );
        }
    }
}

/// the Coq validator on the implementation's coefficients for a search-sized case (all solver and
/// normalisation settings, f32 fits on widened data), plus a visibly wrong point it must reject
fn corr_validator(out: &mut Out, c: &Case, rng: &mut Rng) {
    let tol = if c.f32m { COQ_TOL32 } else { COQ_TOL64 };
    let p = c.x[0].len();
    // the validator is component-wise; the SVD paths are only norm-wise accurate (see
    // `stationarity_ratio`), so for them the tolerance is widened by the spread of the column norms
    // of the coordinates the fit is tested in (1 for standardised columns)
    let spread = |with_ones: bool| -> f64 {
        let mut cn: Vec<f64> = (0..p).map(|j| norm2(&column(&c.x, j))).collect();
        if with_ones {
            cn.push((c.x.len() as f64).sqrt());
        }
        let mx = cn.iter().fold(0.0f64, |a, b| a.max(*b));
        let mn = cn.iter().fold(f64::INFINITY, |a, b| a.min(*b));
        if mn > 0.0 { mx / mn } else { 1.0 }
    };
    if !c.ridge {
        for sol in [Sol::QR, Sol::SVD] {
            if let Ok(Some(ft)) = fit_ols(&c.x, &c.y, sol, &c.xnew, c.f32m) {
                let mut input = c.to_json();
                input["solver"] = json!(sol.name());
                let tol_sol = if sol == Sol::SVD { tol * spread(true) } else { tol };
                out.corr(
                    if c.f32m { "check_ols_f32" } else { "check_ols" },
                    format!("corr_check_ols {} {} {} {} {}", coq_rows_f64(&c.x), coq_list_f64(&c.y), coq_list_f64(&ft.w), coq_f64(ft.b), coq_f64(tol_sol)),
                    input.clone(),
                );
                if !c.xnew.is_empty() && ft.pred_new.len() == c.xnew.len() {
                    if c.f32m {
                        out.corr(
                            "predict_f32",
                            format!("corr_predict_tol {} {} {} {} {}", coq_f64(TOLP32), coq_rows_f64(&c.xnew), coq_list_f64(&ft.w), coq_f64(ft.b), coq_list_f64(&ft.pred_new)),
                            input.clone(),
                        );
                    } else {
                        out.corr(
                            "predict",
                            format!("corr_predict {} {} {} (Some {})", coq_rows_f64(&c.xnew), coq_list_f64(&ft.w), coq_f64(ft.b), coq_list_f64(&ft.pred_new)),
                            input.clone(),
                        );
                    }
                }
                if sol == Sol::QR {
                    // a wrong point: one coefficient moved by a visible amount
                    let j = rng.below(p);
                    let cnj = norm2(&column(&c.x, j));
                    let mut w2 = ft.w.clone();
                    w2[j] += 0.05 * (ft.w[j].abs() + (norm2(&c.y) + 1.0) / cnj);
                    let r: Vec<f64> = (0..c.x.len()).map(|i| c.y[i] - (0..p).map(|k| c.x[i][k] * w2[k]).sum::<f64>() - ft.b).collect();
                    let (ratio, _) = stationarity_ratio(&c.x, &c.y, 0.0, &w2, ft.b, true, Some(&r), false);
                    if ratio > 1e3 * tol {
                        out.corr(
                            "check_rejects",
                            format!("corr_check_ols_rejects {} {} {} {} {}", coq_rows_f64(&c.x), coq_list_f64(&c.y), coq_list_f64(&w2), coq_f64(ft.b), coq_f64(tol)),
                            input,
                        );
                    }
                }
            }
        }
    } else {
        for sol in [Sol::Chol, Sol::SVD] {
            if let Ok(Some(ft)) = fit_ridge(&c.x, &c.y, c.alpha, c.normalize, sol, &c.xnew, c.f32m) {
                let mut input = c.to_json();
                input["solver"] = json!(sol.name());
                let tol_sol = if sol == Sol::SVD && !c.normalize { tol * spread(false) } else { tol };
                out.corr(
                    if c.f32m { "check_ridge_f32" } else { "check_ridge" },
                    format!(
                        "corr_check_ridge {} {} {} {} {} {} {}",
                        coq_rows_f64(&c.x),
                        coq_list_f64(&c.y),
                        coq_f64(c.alpha),
                        coq_bool(c.normalize),
                        coq_list_f64(&ft.w),
                        coq_f64(ft.b),
                        coq_f64(tol_sol)
                    ),
                    input.clone(),
                );
                if sol == Sol::Chol {
                    // wrong points: the intercept moved (normalised fit) / a coefficient moved (raw fit)
                    let (w2, b2) = if c.normalize {
                        (ft.w.clone(), ft.b + 0.05 * (ft.b.abs() + norm2(&c.y) / (c.x.len() as f64).sqrt() + 1.0))
                    } else {
                        let j = rng.below(p);
                        let cnj = norm2(&column(&c.x, j));
                        let mut w2 = ft.w.clone();
                        w2[j] += 0.05 * (ft.w[j].abs() + (norm2(&c.y) + 1.0) / cnj);
                        (w2, ft.b)
                    };
                    let (mu, sd) = mean_std(&c.x);
                    let (ratio, _) = if c.normalize {
                        let z = standardise(&c.x, &mu, &sd);
                        let ws: Vec<f64> = (0..p).map(|j| w2[j] * sd[j]).collect();
                        let c0 = b2 + (0..p).map(|j| w2[j] * mu[j]).sum::<f64>();
                        stationarity_ratio(&z, &c.y, c.alpha, &ws, c0, true, None, false)
                    } else {
                        stationarity_ratio(&c.x, &c.y, c.alpha, &w2, 0.0, false, None, false)
                    };
                    if ratio > 1e3 * tol {
                        out.corr(
                            "check_rejects",
                            format!(
                                "corr_check_ridge_rejects {} {} {} {} {} {} {}",
                                coq_rows_f64(&c.x),
                                coq_list_f64(&c.y),
                                coq_f64(c.alpha),
                                coq_bool(c.normalize),
                                coq_list_f64(&w2),
                                coq_f64(b2),
                                coq_f64(tol)
                            ),
                            input,
                        );
                    }
                }
            }
        }
    }
}

// ------------------------------------------------------------------------------------------
// api_trait_twin: fit / predict through `smartcore::api::{SupervisedEstimator, Predictor}` give exactly
// what the inherent methods give (training matrix and new rows, model fitted either way, every solver)
// ------------------------------------------------------------------------------------------
fn twin_run<T: RealNumber + serde::Serialize>(c: &Case, sol: Sol) -> Option<twin::Diff> {
    let xm: DenseMatrix<T> = mat(&c.x);
    let xn: DenseMatrix<T> = mat(&c.xnew);
    let yv: Vec<T> = vect(&c.y);
    let probes = [("the training matrix", &xm), ("the new rows", &xn)];
    macro_rules! run {
        ($ty:ty, $p:expr) => {{
            let p = $p;
            twin::check(
                "SupervisedEstimator",
                "Predictor",
                "predict",
                || twin::fit_sup::<$ty, _, _, _>(&xm, &yv, p.clone()),
                || <$ty>::fit(&xm, &yv, p.clone()),
                |m: &$ty, z: &DenseMatrix<T>| twin::predict(m, z),
                |m: &$ty, z: &DenseMatrix<T>| m.predict(z),
                &probes,
                |m: &$ty| serde_json::to_string(m).unwrap_or_default(),
                true,
            )
        }};
    }
    if c.ridge {
        run!(
            RidgeRegression<T, DenseMatrix<T>>,
            RidgeRegressionParameters::default().with_alpha(t::<T>(c.alpha)).with_normalize(c.normalize).with_solver(match sol {
                Sol::Chol => RidgeRegressionSolverName::Cholesky,
                _ => RidgeRegressionSolverName::SVD,
            })
        )
    } else {
        run!(
            LinearRegression<T, DenseMatrix<T>>,
            LinearRegressionParameters::default().with_solver(match sol {
                Sol::QR => LinearRegressionSolverName::QR,
                _ => LinearRegressionSolverName::SVD,
            })
        )
    }
}
fn twin_case(c: &Case) -> Option<(Sol, twin::Diff)> {
    if c.x.is_empty() || c.x[0].is_empty() || c.xnew.is_empty() {
        return None;
    }
    let sols = if c.ridge { [Sol::Chol, Sol::SVD] } else { [Sol::QR, Sol::SVD] };
    for sol in sols.iter() {
        let d = if c.f32m { twin_run::<f32>(c, *sol) } else { twin_run::<f64>(c, *sol) };
        if let Some(d) = d {
            return Some((*sol, d));
        }
    }
    None
}
fn check_twin(out: &mut Out, c: &Case) {
    out.eval(c.key() ^ 0x7717, c.x[0].len() >= 2);
    out.count(&format!("twin:{}:{}", if c.ridge { if c.normalize { "ridge-normalized" } else { "ridge-raw" } } else { "ols" }, if c.f32m { "f32" } else { "f64" }));
    if twin_case(c).is_none() {
        return;
    }
    // shrink: fewer new rows, fewer training rows
    let mut cur = c.clone();
    let mut progress = true;
    while progress {
        progress = false;
        let mut i = 0;
        while cur.xnew.len() > 1 && i < cur.xnew.len() {
            let mut t = cur.clone();
            t.xnew.remove(i);
            if twin_case(&t).is_some() { cur = t; progress = true; } else { i += 1; }
        }
        let mut i = 0;
        while cur.x.len() > 2 && i < cur.x.len() {
            let mut t = cur.clone();
            t.x.remove(i);
            t.y.remove(i);
            if twin_case(&t).is_some() { cur = t; progress = true; } else { i += 1; }
        }
    }
    if let Some((sol, d)) = twin_case(&cur) {
        let mut w = cur.to_json();
        w["oracle"] = json!(twin::ORACLE);
        w["solver"] = json!(sol.name());
        w["differing_call"] = json!(d.call);
        out.count(&format!("twin:failing:{}", if c.ridge { "RidgeRegression" } else { "LinearRegression" }));
        out.fail(twin::ORACLE, &format!("{} (solver {}): {}: {}", if c.ridge { "RidgeRegression" } else { "LinearRegression" }, sol.name(), d.call, d.what), w);
    }
}

// ------------------------------------------------------------------------------------------
fn replay(path: &str) -> i32 {
    let v = read_replay(path);
    let inp = if v.get("input").is_some() { v["input"].clone() } else { v.clone() };
    let mut out = Out::new("C07", "replay");
    let mut st = Stats::new();
    match inp["entry"].as_str().unwrap_or("") {
        "ols" | "ridge" => {
            let c = Case::from_json(&inp);
            if c.x.is_empty() || c.x[0].is_empty() {
                eprintln!("empty replay input");
                return 2;
            }
            check_case(&mut out, &c, &mut st);
            if let Some((sol, d)) = twin_case(&c) {
                println!("  {}: solver {}: {}: {}", twin::ORACLE, sol.name(), d.call, d.what);
                out.fail(twin::ORACLE, &d.what, json!({}));
            }
        }
        _ => {
            eprintln!("replay entry without a search oracle (correspondence-only input)");
            return 0;
        }
    }
    if out.n_fail() > 0 {
        println!("REPLAY: property=C07 still fails: {}", path);
        1
    } else {
        println!("REPLAY: property=C07 passes: {}", path);
        0
    }
}

fn longley() -> (Vec<Vec<f64>>, Vec<f64>) {
    let x = vec![
        vec![234.289, 235.6, 159.0, 107.608, 1947., 60.323],
        vec![259.426, 232.5, 145.6, 108.632, 1948., 61.122],
        vec![258.054, 368.2, 161.6, 109.773, 1949., 60.171],
        vec![284.599, 335.1, 165.0, 110.929, 1950., 61.187],
        vec![328.975, 209.9, 309.9, 112.075, 1951., 63.221],
        vec![346.999, 193.2, 359.4, 113.270, 1952., 63.639],
        vec![365.385, 187.0, 354.7, 115.094, 1953., 64.989],
        vec![363.112, 357.8, 335.0, 116.219, 1954., 63.761],
        vec![397.469, 290.4, 304.8, 117.388, 1955., 66.019],
        vec![419.180, 282.2, 285.7, 118.734, 1956., 67.857],
        vec![442.769, 293.6, 279.8, 120.445, 1957., 68.169],
        vec![444.546, 468.1, 263.7, 121.950, 1958., 66.513],
        vec![482.704, 381.3, 255.2, 123.366, 1959., 68.655],
        vec![502.601, 393.1, 251.4, 125.368, 1960., 69.564],
        vec![518.173, 480.6, 257.2, 127.852, 1961., 69.331],
        vec![554.894, 400.7, 282.7, 130.081, 1962., 70.551],
    ];
    let y = vec![83.0, 88.5, 88.2, 89.5, 96.2, 98.1, 99.0, 100.0, 101.2, 104.6, 108.4, 110.8, 112.6, 114.2, 115.7, 116.9];
    (x, y)
}

fn main() {
    quiet_panics();
    let a = args();
    if let Some(p) = &a.replay {
        std::process::exit(replay(p));
    }
    let mut rng = Rng::new(a.seed);
    let mut out = Out::new(
        "C07",
        "search case = (model, X, y[, alpha, normalize], float width): both solvers are fitted, every clause of the property is evaluated on the returned coefficients; non-trivial: p >= 2, n >= p + 2, cond(X) >= 10; distinct by hash of (X, y, alpha, settings). api-trait twin case = a search case fitted and queried through smartcore::api::{SupervisedEstimator, Predictor} and through the inherent methods (both solvers); all results must coincide bit for bit",
    );
    let mut st = Stats::new();

    // ---- corpus: no defect of DESIGN section 2 is anchored in C07; the crate's own data set (whose
    //      year column has |mean|/spread ~ 420) is kept as a fixed regression input
    let (lx, ly) = longley();
    for (ridge, normalize) in [(false, false), (true, true), (true, false)] {
        let c = Case { ridge, x: lx.clone(), y: ly.clone(), alpha: 0.1, normalize, f32m: false, xnew: lx[..3].to_vec(), family: "corpus-longley".into() };
        out.eval(c.key(), true);
        out.count("search:corpus");
        check_case(&mut out, &c, &mut st);
        corr_validator(&mut out, &c, &mut rng);
    }

    // fixed degenerate targets on the same design (seeded change C07b_1: a "constant target" shortcut
    // in RidgeRegression::fit returned w = 0, b = mean y also for normalize = false)
    for (ti, ty) in [vec![3.5; ly.len()], vec![0.0; ly.len()], (0..ly.len()).map(|i| if i == 4 { 9.0 } else { 7.0 }).collect::<Vec<f64>>()].iter().enumerate() {
        for (ridge, normalize) in [(false, false), (true, true), (true, false)] {
            let c = Case { ridge, x: lx.clone(), y: ty.clone(), alpha: 0.1, normalize, f32m: false, xnew: lx[..3].to_vec(), family: format!("corpus-longley+degenerate{}", ti) };
            out.eval(c.key(), true);
            out.count("search:corpus");
            check_case(&mut out, &c, &mut st);
        }
    }

    // ---- correspondence: primitives ----
    let k = if a.thorough { 4 } else { 2 };
    for i in 0..(16 * k) {
        let n = rng.usize_in(1, 12);
        let p = rng.usize_in(1, 4);
        let mut x = small_matrix(&mut rng, n, p, i % 4);
        if i % 8 == 5 {
            // large common offset: one-pass variance cancels (possibly to a negative value -> NaN std)
            for r in x.iter_mut() {
                r[0] += 1e8;
            }
        }
        if i % 8 == 6 && n > 1 {
            let v = x[0][0];
            for r in x.iter_mut() {
                r[0] = v; // constant column
            }
        }
        corr_stats(&mut out, &x);
    }
    for i in 0..(16 * k) {
        let p = rng.usize_in(1, 5);
        let g = small_matrix(&mut rng, p + 2, p, i % 3);
        let mut am: Vec<Vec<f64>> = (0..p).map(|r| (0..p).map(|c| (0..p + 2).map(|t| g[t][r] * g[t][c]).sum::<f64>()).collect()).collect();
        match i % 6 {
            4 => am[p - 1][p - 1] = -1.0,          // not positive definite
            5 => am[0][0] = 0.0,                   // zero pivot -> division by zero / NaN
            _ => {}
        }
        let b: Vec<f64> = (0..p).map(|_| rng.dyadic(4, 3)).collect();
        corr_chol(&mut out, &am, &b);
    }

    // ---- correspondence: ridge and OLS fits, n <= 12, p <= 4, all solver / normalise settings ----
    for i in 0..(40 * k) {
        let p = rng.usize_in(1, 4);
        let n = rng.usize_in(p + 1, 12);
        let x = small_matrix(&mut rng, n, p, i % 4);
        let y: Vec<f64> = (0..n).map(|_| if i % 4 < 2 { rng.dyadic(16, 2) } else { rng.normal() * 5.0 + 2.0 }).collect();
        let alpha = if i % 4 < 2 { *rng.pick(&[0.125, 0.5, 1.0, 4.0]) } else { 10f64.powf(rng.uniform(-3.0, 2.0)) };
        for normalize in [true, false] {
            corr_ridge(&mut out, &x, &y, alpha, normalize, Sol::Chol, i % 2 == 0);
            if i % 2 == 0 {
                corr_ridge(&mut out, &x, &y, alpha, normalize, Sol::SVD, true);
            }
        }
        if i % 2 == 1 {
            corr_ols(&mut out, &x, &y, Sol::QR, true);
            corr_ols(&mut out, &x, &y, Sol::SVD, true);
        }
    }
    // ---- correspondence: degenerate targets (constant, zero, ones, tiny spread, a column of X,
    //      orthogonal to the columns, exact linear, all-equal-but-one, two-valued), every solver and
    //      normalisation setting, bit for bit ----
    for i in 0..(2 * N_DEGENERATE * k) {
        let fam = i % N_DEGENERATE;
        let p = rng.usize_in(1, 4);
        let n = rng.usize_in(p + 1, 12);
        let x = small_matrix(&mut rng, n, p, i % 4);
        let (y, _) = degenerate_target(&mut rng, &x, fam, false, i % 2 == 0);
        let alpha = if i % 2 == 0 { *rng.pick(&[0.125, 0.5, 1.0, 4.0]) } else { 10f64.powf(rng.uniform(-3.0, 2.0)) };
        for normalize in [true, false] {
            corr_ridge(&mut out, &x, &y, alpha, normalize, Sol::Chol, true);
            corr_ridge(&mut out, &x, &y, alpha, normalize, Sol::SVD, i % 2 == 0);
        }
        corr_ols(&mut out, &x, &y, Sol::QR, i % 2 == 1);
        corr_ols(&mut out, &x, &y, Sol::SVD, false);
        out.count("corr:degenerate-target");
    }
    // ---- correspondence: exactly constant columns of non-dyadic / dyadic values: normalised fit = Err
    //      (both solvers), raw fit = the ordinary solution, bit for bit ----
    for i in 0..(8 * k) {
        let p = rng.usize_in(1, 4);
        let n = rng.usize_in(p + 1, 12);
        let mut x = small_matrix(&mut rng, n, p, i % 4);
        let j = rng.below(p);
        let v = *rng.pick(&[0.1, 0.3, 0.7, 1.1, 12.6, 2.0 / 3.0, 1e-3, 123.456, 0.5, 2.0, 96.0, -0.1, -7.3]);
        for r in x.iter_mut() {
            r[j] = v;
        }
        let y: Vec<f64> = (0..n).map(|_| if i % 2 == 0 { rng.dyadic(16, 2) } else { rng.normal() * 5.0 + 2.0 }).collect();
        let alpha = if i % 2 == 0 { *rng.pick(&[0.125, 0.5, 1.0, 4.0]) } else { 10f64.powf(rng.uniform(-3.0, 2.0)) };
        for normalize in [true, false] {
            corr_ridge(&mut out, &x, &y, alpha, normalize, Sol::Chol, !normalize);
            corr_ridge(&mut out, &x, &y, alpha, normalize, Sol::SVD, false);
        }
        corr_stats(&mut out, &x);
        out.count("corr:constant-column");
    }
    // error paths: n <= p, wrong target length, constant column (normalised: Err), alpha = 0 on a
    // rank-deficient design and negative alpha (Cholesky: not positive definite)
    for i in 0..(6 * k) {
        let p = rng.usize_in(1, 4);
        let x = small_matrix(&mut rng, p, p, 1);
        let y: Vec<f64> = (0..p).map(|_| rng.dyadic(4, 2)).collect();
        corr_ridge(&mut out, &x, &y, 1.0, i % 2 == 0, Sol::Chol, false);
        corr_ridge(&mut out, &x, &y, 1.0, i % 2 == 0, Sol::SVD, false);
        let n = p + 3;
        let mut x2 = small_matrix(&mut rng, n, p, 0);
        let y2: Vec<f64> = (0..n - 1).map(|_| rng.dyadic(4, 2)).collect();
        corr_ridge(&mut out, &x2, &y2, 1.0, i % 2 == 0, Sol::Chol, false);
        corr_ols(&mut out, &x2, &y2, Sol::QR, false);
        let y3: Vec<f64> = (0..n).map(|_| rng.dyadic(4, 2)).collect();
        for r in x2.iter_mut() {
            r[0] = 2.5;
        }
        corr_ridge(&mut out, &x2, &y3, 0.5, true, Sol::Chol, false);
        corr_ridge(&mut out, &x2, &y3, 0.5, false, Sol::Chol, false);
        corr_ridge(&mut out, &x2, &y3, 0.5, true, Sol::SVD, false);
        let mut x3 = small_matrix(&mut rng, n, p.max(2), 1);
        for r in x3.iter_mut() {
            r[1] = r[0]; // duplicate column
        }
        corr_ridge(&mut out, &x3, &y3, 0.0, false, Sol::Chol, false);
        corr_ridge(&mut out, &x3, &y3, -8.0, false, Sol::Chol, false);
        corr_ridge(&mut out, &x3, &y3, -1000.0, i % 2 == 0, Sol::Chol, false);
    }

    // ---- correspondence: the Coq validator on search-sized fits ----
    let nval = if a.thorough { 160 } else { 60 };
    for i in 0..nval {
        let f32m = i % 4 == 3;
        let (c, _) = gen_case(&mut rng, i % 2 == 0, if a.thorough { 60 } else { 30 }, 8, f32m, &mut out);
        corr_validator(&mut out, &c, &mut rng);
    }

    // ---- search: ridge on designs with an exactly constant column (non-dyadic and dyadic values) ----
    let nconst = if a.thorough { 1500 } else { 240 };
    for i in 0..nconst {
        let f32m = i % 5 == 4;
        let (mut c, _) = gen_case(&mut rng, true, 40, 6, f32m, &mut out);
        c.normalize = i % 2 == 0;
        let p = c.x[0].len();
        let cmax = if f32m { 50.0 } else { 1e6 };
        let mut done = false;
        for _try in 0..6 {
            let j = rng.below(p);
            let v0 = *rng.pick(&[0.1, 0.3, 0.7, 1.1, 12.6, 2.0 / 3.0, 1e-3, 123.456, 0.5, 2.0, 96.0, -0.1, -7.3]);
            let v = if f32m { r32(v0) } else { v0 };
            let mut x2 = c.x.clone();
            for r in x2.iter_mut() {
                r[j] = v;
            }
            // normalize = false is judged by the gradient / agreement oracles: stay inside the
            // quantifier (the constant column must not make the raw design ill conditioned)
            if c.normalize || cond_of(&x2) <= cmax {
                c.x = x2;
                for r in c.xnew.iter_mut() {
                    r[j] = v;
                }
                c.family = format!("{}+constant-column", c.family);
                done = true;
                break;
            }
        }
        if !done {
            out.count("search:constant-column:skipped(cond out of the quantifier)");
            continue;
        }
        out.eval(c.key(), p >= 2);
        out.count(&format!("search:constant-column:{}:{}", if c.normalize { "normalized(must be Err)" } else { "raw(must fit)" }, if f32m { "f32" } else { "f64" }));
        check_case(&mut out, &c, &mut st);
    }

    // ---- search ----
    let nsearch = if a.thorough { 30000 } else { 5000 };
    for i in 0..nsearch {
        let f32m = i % 5 == 4;
        let ridge = i % 2 == 0;
        let (c, cond) = gen_case(&mut rng, ridge, 80, 8, f32m, &mut out);
        let (n, p) = (c.x.len(), c.x[0].len());
        out.eval(c.key(), p >= 2 && n >= p + 2 && cond >= 10.0);
        out.count(&format!("search:{}:{}", if ridge { if c.normalize { "ridge-normalized" } else { "ridge-raw" } } else { "ols" }, if f32m { "f32" } else { "f64" }));
        out.count(&format!("search:family:{}", c.family.split('+').next().unwrap_or("")));
        out.count(&format!("search:target:{}", c.family.split('+').nth(1).unwrap_or("")));
        out.count(&format!("search:p={}", p));
        out.count(&format!("search:log10cond={}", (cond.log10().floor() as i64).max(0)));
        out.count(&format!("search:n{}", if n == p + 1 { "=p+1" } else if n <= 20 { "<=20" } else { "<=80" }));
        if i < 3 {
            out.sample(json!({"family": c.family, "n": n, "p": p, "cond": cond, "alpha": c.alpha, "normalize": c.normalize, "x_row0": c.x[0], "y0": c.y[0]}));
        }
        check_case(&mut out, &c, &mut st);
    }
    // ---- api-trait twins (last: the streams of the sections above are unchanged) ----
    for i in 0..(if a.thorough { 600 } else { 80 }) {
        let (c, _) = gen_case(&mut rng, i % 2 == 0, 40, 6, i % 5 == 4, &mut out);
        check_twin(&mut out, &c);
    }
    out.set("max_ratio_over_tolerance_scale", json!(st.max_ratio));
    if std::env::var("C07_CALIBRATE").is_ok() {
        for (k, v) in &st.max_ratio {
            eprintln!("calib {:40} {:e}", k, v);
        }
    }
    out.finish(&a.out);
}
