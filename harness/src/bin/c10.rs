//! C10 — SVM (SVC and SVR): correspondence cases for the Coq model (SC.C10.Corr) built from the
//! cfg-guarded trace hooks of svc.rs / svr.rs and from the serde JSON of the fitted models, and the
//! failing-input search (oracles written from the property text: dual feasibility, support vectors
//! are training rows, decision function = kernel expansion, label rule, SVR box / sum / KKT within
//! tolerance / termination, kernels vs closed forms, Gram matrices positive semi-definite).
//! Besides centred data (coordinates of order 1) every kernel clause is also searched on OFFSET data:
//! rows that share a large common offset compared with their spread (offset/spread 1e3..1e9 in f64,
//! 3e2..1e4 in f32; timestamps, map coordinates, Kelvin), against a reference that forms differences
//! first and sums in twice the precision, with a tolerance derived from the rounding-error bound of
//! the closed form evaluated in the working precision (4 x the first-order bound).
//! Fits on offset data: RBF everywhere; linear / polynomial kernels in a must-return zone, only observed in
//! between, and inside the regime of the listed findings `svc-offset-no-termination` /
//! `svr-offset-no-termination` a fit that does not return is the known finding (see the end of `main`);
//! the shrunk witnesses (corpus/C10/known_*.json) run on every run, last, under a 1 s watchdog (fits of that size return in well under a millisecond when they return).
use serde_json::{json, Value};
use smartcore::linalg::naive::dense_matrix::DenseMatrix;
use smartcore::svm::svc::{self, SVCParameters, SVC};
use smartcore::svm::svr::{self, SVRParameters, SVR};
use smartcore::svm::{Kernel, Kernels, LinearKernel};
use vharness::*;

// ------------------------------------------------------------------------------------------
// kernels
// ------------------------------------------------------------------------------------------
#[derive(Clone, Debug, PartialEq)]
enum Kern {
    Linear,
    Rbf(f64),
    Poly(f64, f64, f64), // degree, gamma, coef0
    Sigmoid(f64, f64),   // gamma, coef0
}

impl Kern {
    fn name(&self) -> &'static str {
        match self {
            Kern::Linear => "linear",
            Kern::Rbf(_) => "rbf",
            Kern::Poly(..) => "poly",
            Kern::Sigmoid(..) => "sigmoid",
        }
    }
    fn to_json(&self) -> Value {
        match self {
            Kern::Linear => json!({"kind": "linear"}),
            Kern::Rbf(g) => json!({"kind": "rbf", "gamma": g}),
            Kern::Poly(d, g, c) => json!({"kind": "poly", "degree": d, "gamma": g, "coef0": c}),
            Kern::Sigmoid(g, c) => json!({"kind": "sigmoid", "gamma": g, "coef0": c}),
        }
    }
    fn from_json(v: &Value) -> Kern {
        let f = |k: &str| v[k].as_f64().unwrap_or(f64::NAN);
        match v["kind"].as_str().unwrap_or("linear") {
            "rbf" => Kern::Rbf(f("gamma")),
            "poly" => Kern::Poly(f("degree"), f("gamma"), f("coef0")),
            "sigmoid" => Kern::Sigmoid(f("gamma"), f("coef0")),
            _ => Kern::Linear,
        }
    }
    /// positive semi-definite by construction (the property's quantifier for SVR optimality)
    fn psd(&self) -> bool {
        match self {
            Kern::Linear | Kern::Rbf(_) => true,
            Kern::Poly(d, g, c) => d.fract() == 0.0 && *d >= 1.0 && *g > 0.0 && *c >= 0.0,
            Kern::Sigmoid(..) => false,
        }
    }
    /// the implementation's kernel
    fn apply_impl(&self, a: &Vec<f64>, b: &Vec<f64>) -> f64 {
        match self {
            Kern::Linear => Kernels::linear().apply(a, b),
            Kern::Rbf(g) => Kernels::rbf(*g).apply(a, b),
            Kern::Poly(d, g, c) => Kernels::polynomial(*d, *g, *c).apply(a, b),
            Kern::Sigmoid(g, c) => Kernels::sigmoid(*g, *c).apply(a, b),
        }
    }
    /// the closed form of the property text, written independently
    fn closed_form(&self, a: &[f64], b: &[f64]) -> f64 {
        let dot: f64 = a.iter().zip(b).map(|(u, v)| u * v).sum();
        match self {
            Kern::Linear => dot,
            Kern::Rbf(g) => {
                let d2: f64 = a.iter().zip(b).map(|(u, v)| (u - v) * (u - v)).sum();
                (-g * d2).exp()
            }
            Kern::Poly(d, g, c) => {
                let base = g * dot + c;
                if d.fract() == 0.0 && d.abs() < 64.0 {
                    base.powi(*d as i32)
                } else {
                    // b^d = exp(d ln b) for a positive base
                    (d * base.ln()).exp()
                }
            }
            Kern::Sigmoid(g, c) => {
                let z = g * dot + c;
                let e = (2.0 * z).exp();
                if e.is_infinite() {
                    1.0
                } else {
                    (e - 1.0) / (e + 1.0)
                }
            }
        }
    }
    fn coq(&self) -> String {
        match self {
            Kern::Linear => "KLinear".into(),
            Kern::Rbf(g) => format!("(KRbf {})", coq_f64(*g)),
            Kern::Poly(d, g, c) => format!("(KPoly {} {} {})", coq_f64(*d), coq_f64(*g), coq_f64(*c)),
            Kern::Sigmoid(g, c) => format!("(KSigmoid {} {})", coq_f64(*g), coq_f64(*c)),
        }
    }
    /// kernel term for optimizer replays: the model's own linear kernel, otherwise the Gram table
    /// produced by the implementation's `Kernel::apply` on `rows`
    fn coq_table(&self, rows: &[Vec<f64>]) -> String {
        match self {
            Kern::Linear => "KLinear".into(),
            _ => {
                let gram: Vec<Vec<f64>> = rows.iter().map(|a| rows.iter().map(|b| self.apply_impl(a, b)).collect()).collect();
                format!("(KTable {} {})", coq_rows_f64(rows), coq_rows_f64(&gram))
            }
        }
    }
}

fn random_kernel(rng: &mut Rng, p: usize) -> Kern {
    match rng.below(8) {
        0 | 1 | 2 => Kern::Linear,
        3 | 4 => Kern::Rbf(*rng.pick(&[0.05, 0.25, 0.5, 0.7, 1.0, 2.0])),
        5 | 6 => {
            let d = *rng.pick(&[1.0, 2.0, 3.0]);
            if rng.bool() {
                Kern::Poly(d, 1.0 / p as f64, 1.0)
            } else {
                Kern::Poly(d, *rng.pick(&[0.25, 0.5, 1.0]), *rng.pick(&[0.0, 0.5, 1.0]))
            }
        }
        _ => Kern::Sigmoid(*rng.pick(&[0.01, 0.1, 0.5]), *rng.pick(&[0.0, 0.1, 1.0, -0.5])),
    }
}

// ------------------------------------------------------------------------------------------
// running the implementation
// ------------------------------------------------------------------------------------------
#[derive(Clone, Debug)]
struct SvcRun {
    classes: Vec<f64>,
    inst: Vec<Vec<f64>>,
    w: Vec<f64>,
    b: f64,
    dec: Vec<f64>,
    pred: Vec<f64>,
    trace: Vec<svc::verif::Event>,
}

fn f64s(v: &Value) -> Vec<f64> {
    v.as_array().map(|a| a.iter().map(|x| x.as_f64().unwrap_or(f64::NAN)).collect()).unwrap_or_default()
}

fn run_svc_k<K>(k: K, x: &[Vec<f64>], y: &[f64], c: f64, epoch: usize, tol: f64, q: &[Vec<f64>], trace: bool) -> Result<SvcRun, String>
where
    K: Kernel<f64, Vec<f64>> + serde::Serialize + Clone,
{
    let xm = dense(x);
    let qm = dense(q);
    let yv: Vec<f64> = y.to_vec();
    let params = SVCParameters::<f64, DenseMatrix<f64>, LinearKernel>::default()
        .with_c(c)
        .with_epoch(epoch)
        .with_tol(tol)
        .with_kernel(k);
    if trace {
        svc::verif::start();
    }
    let m = SVC::fit(&xm, &yv, params);
    let tr = if trace { svc::verif::take() } else { vec![] };
    let m = m.map_err(|e| format!("fit error: {}", e))?;
    let j = serde_json::to_value(&m).map_err(|e| format!("serde: {}", e))?;
    let dec = m.decision_function(&qm).map_err(|e| format!("decision_function error: {}", e))?;
    let pred = m.predict(&qm).map_err(|e| format!("predict error: {}", e))?;
    Ok(SvcRun {
        classes: f64s(&j["classes"]),
        inst: rows_from_json(&j["instances"]),
        w: f64s(&j["w"]),
        b: j["b"].as_f64().unwrap_or(f64::NAN),
        dec,
        pred,
        trace: tr,
    })
}

fn run_svc(k: &Kern, x: &[Vec<f64>], y: &[f64], c: f64, epoch: usize, tol: f64, q: &[Vec<f64>], trace: bool) -> Result<SvcRun, String> {
    match k {
        Kern::Linear => run_svc_k(Kernels::linear(), x, y, c, epoch, tol, q, trace),
        Kern::Rbf(g) => run_svc_k(Kernels::rbf(*g), x, y, c, epoch, tol, q, trace),
        Kern::Poly(d, g, c0) => run_svc_k(Kernels::polynomial(*d, *g, *c0), x, y, c, epoch, tol, q, trace),
        Kern::Sigmoid(g, c0) => run_svc_k(Kernels::sigmoid(*g, *c0), x, y, c, epoch, tol, q, trace),
    }
}

/// fit under a watchdog: None = did not return within `secs`
fn svc_guarded(k: &Kern, x: &[Vec<f64>], y: &[f64], c: f64, epoch: usize, tol: f64, q: &[Vec<f64>], trace: bool, secs: u64) -> Option<Result<SvcRun, String>> {
    let (k, x, y, q) = (k.clone(), x.to_vec(), y.to_vec(), q.to_vec());
    with_watchdog(secs, move || run_svc(&k, &x, &y, c, epoch, tol, &q, trace)).map(|r| r.and_then(|r| r))
}

#[derive(Clone, Debug)]
struct SvrRun {
    inst: Vec<Vec<f64>>,
    w: Vec<f64>,
    b: f64,
    pred: Vec<f64>,
    trace: Vec<svr::verif::Event>,
    iterations: usize,
}

fn run_svr_k<K>(k: K, x: &[Vec<f64>], y: &[f64], eps: f64, c: f64, tol: f64, q: &[Vec<f64>], trace: bool) -> Result<SvrRun, String>
where
    K: Kernel<f64, Vec<f64>> + serde::Serialize + Clone,
{
    let xm = dense(x);
    let qm = dense(q);
    let yv: Vec<f64> = y.to_vec();
    let params = SVRParameters::<f64, DenseMatrix<f64>, LinearKernel>::default()
        .with_c(c)
        .with_eps(eps)
        .with_tol(tol)
        .with_kernel(k);
    if trace {
        svr::verif::start();
    }
    let m = SVR::fit(&xm, &yv, params);
    let tr = if trace { svr::verif::take() } else { vec![] };
    let iterations = svr::verif::ITERATIONS.with(|c| c.get());
    let m = m.map_err(|e| format!("fit error: {}", e))?;
    let j = serde_json::to_value(&m).map_err(|e| format!("serde: {}", e))?;
    let pred = m.predict(&qm).map_err(|e| format!("predict error: {}", e))?;
    Ok(SvrRun {
        inst: rows_from_json(&j["instances"]),
        w: f64s(&j["w"]),
        b: j["b"].as_f64().unwrap_or(f64::NAN),
        pred,
        trace: tr,
        iterations,
    })
}

fn run_svr(k: &Kern, x: &[Vec<f64>], y: &[f64], eps: f64, c: f64, tol: f64, q: &[Vec<f64>], trace: bool) -> Result<SvrRun, String> {
    match k {
        Kern::Linear => run_svr_k(Kernels::linear(), x, y, eps, c, tol, q, trace),
        Kern::Rbf(g) => run_svr_k(Kernels::rbf(*g), x, y, eps, c, tol, q, trace),
        Kern::Poly(d, g, c0) => run_svr_k(Kernels::polynomial(*d, *g, *c0), x, y, eps, c, tol, q, trace),
        Kern::Sigmoid(g, c0) => run_svr_k(Kernels::sigmoid(*g, *c0), x, y, eps, c, tol, q, trace),
    }
}

fn svr_guarded(k: &Kern, x: &[Vec<f64>], y: &[f64], eps: f64, c: f64, tol: f64, q: &[Vec<f64>], trace: bool, secs: u64) -> Option<Result<SvrRun, String>> {
    let (k, x, y, q) = (k.clone(), x.to_vec(), y.to_vec(), q.to_vec());
    with_watchdog(secs, move || run_svr(&k, &x, &y, eps, c, tol, &q, trace)).map(|r| r.and_then(|r| r))
}

// ------------------------------------------------------------------------------------------
// data
// ------------------------------------------------------------------------------------------
/// two-class data: `lattice` = dyadic coordinates (exact arithmetic for the linear kernel)
fn gen_classification(rng: &mut Rng, n: usize, p: usize, lattice: bool, separable: bool, labels: (f64, f64)) -> (Vec<Vec<f64>>, Vec<f64>) {
    let dir: Vec<f64> = (0..p).map(|_| *rng.pick(&[-1.0, 1.0, 0.5, -0.5])).collect();
    let mut x = vec![];
    let mut y = vec![];
    for i in 0..n {
        let row: Vec<f64> = (0..p).map(|_| if lattice { rng.dyadic(3, 2) } else { rng.uniform(-2.0, 2.0) }).collect();
        let s: f64 = row.iter().zip(&dir).map(|(a, b)| a * b).sum();
        let noise = if separable { 0.0 } else { 1.5 * (rng.unit() - 0.5) };
        let mut lab = if s + noise > 0.0 { labels.1 } else { labels.0 };
        if i == 0 {
            lab = labels.0;
        }
        if i == 1 {
            lab = labels.1;
        }
        let row = if separable && !lattice {
            // push away from the boundary
            let sh = if lab == labels.1 { 0.3 } else { -0.3 };
            row.iter().zip(&dir).map(|(a, d)| a + sh * d).collect()
        } else {
            row
        };
        x.push(row);
        y.push(lab);
    }
    (x, y)
}

fn gen_regression(rng: &mut Rng, n: usize, p: usize, lattice: bool) -> (Vec<Vec<f64>>, Vec<f64>) {
    let coef: Vec<f64> = (0..p).map(|_| *rng.pick(&[1.5, -1.0, 0.5, 2.0])).collect();
    let mode = rng.below(3);
    let mut x: Vec<Vec<f64>> = vec![];
    let mut y = vec![];
    while x.len() < n {
        let row: Vec<f64> = (0..p).map(|_| if lattice { rng.dyadic(3, 2) } else { rng.uniform(-2.0, 2.0) }).collect();
        if x.contains(&row) {
            // keep rows distinct: the optimality oracle reads a training point's weight off the
            // support-vector list by row equality
            if lattice && p == 1 && x.len() >= 20 {
                break;
            }
            continue;
        }
        let lin: f64 = row.iter().zip(&coef).map(|(a, b)| a * b).sum();
        let t = match mode {
            0 => lin,
            1 => lin + row[0] * row[0],
            _ => (lin).sin() * 2.0,
        };
        let noise = if lattice { rng.dyadic(1, 2) * 0.5 } else { rng.uniform(-0.5, 0.5) };
        x.push(row);
        y.push(t + noise);
    }
    (x, y)
}

fn label_pair(rng: &mut Rng) -> (f64, f64) {
    match rng.below(5) {
        0 | 1 => (-1.0, 1.0),
        2 => (0.0, 1.0),
        3 => (3.0, 8.0),
        _ => (-7.5, -2.0),
    }
}

// ------------------------------------------------------------------------------------------
// search oracles (from the property text)
// ------------------------------------------------------------------------------------------
thread_local! {
    static HANGS: std::cell::Cell<usize> = std::cell::Cell::new(0);
}

thread_local! {
    /// watchdog override (seconds) for the offset fit families and the known-finding witnesses
    static WATCHDOG: std::cell::Cell<Option<u64>> = std::cell::Cell::new(None);
    /// fits that did not return inside the regime of a listed known finding
    static KNOWN_HANGS: std::cell::Cell<usize> = std::cell::Cell::new(0);
}

/// rounding noise of the incrementally updated gradients of both optimizers: about u*C*n*max|K|
fn gradient_noise(k: &Kern, x: &[Vec<f64>], c: f64) -> f64 {
    let mut kmax = 0f64;
    for a in x {
        for b in x {
            let v = k.closed_form(a, b).abs();
            if v > kmax || v.is_nan() {
                kmax = v;
            }
        }
    }
    f64::EPSILON / 2.0 * c * x.len() as f64 * kmax
}

/// The predicate of the listed findings `svc-offset-no-termination` / `svr-offset-no-termination`
/// (KNOWN_FINDINGS.txt): kernel linear or polynomial and u*C*n*max|K| > 1e-3 * (the absolute threshold the
/// optimizer compares its gradients with: 1000 in SVC's settle loop, tol in SVR's exit test). The outcome
/// part -- fit does not return within the watchdog -- is decided by the caller.
fn in_known_noise_regime(k: &Kern, x: &[Vec<f64>], c: f64, threshold: f64) -> bool {
    matches!(k, Kern::Linear | Kern::Poly(..)) && !(gradient_noise(k, x, c) <= 1e-3 * threshold)
}

fn svc_input(k: &Kern, x: &[Vec<f64>], y: &[f64], c: f64, epoch: usize, tol: f64, reps: usize) -> Value {
    json!({"entry": "svc", "kernel": k.to_json(), "x": x, "y": y, "c": c, "epoch": epoch, "tol": tol, "reps": reps})
}

/// One fit of the classifier checked against the property; returns the failing clause if any.
fn svc_oracle(k: &Kern, x: &[Vec<f64>], y: &[f64], c: f64, q: &[Vec<f64>], r: &SvcRun) -> Option<(String, String)> {
    let n = x.len();
    let mut cls: Vec<f64> = y.to_vec();
    cls.sort_by(|a, b| a.partial_cmp(b).unwrap());
    cls.dedup();
    let (lo, hi) = (cls[0], cls[1]);
    if r.inst.len() != r.w.len() {
        return Some(("svc_shape".into(), format!("{} instances, {} coefficients", r.inst.len(), r.w.len())));
    }
    if !r.b.is_finite() || r.w.iter().any(|v| !v.is_finite()) {
        return Some(("svc_finite".into(), format!("non-finite model: b = {}, w = {:?}", r.b, r.w)));
    }
    // support vectors are training rows; coefficient lies in the box of its own sample's class
    let slack = 1e-12 * c;
    for (s, w) in r.inst.iter().zip(&r.w) {
        let rows: Vec<usize> = (0..n).filter(|&i| &x[i] == s).collect();
        if rows.is_empty() {
            return Some(("svc_sv_training_rows".into(), format!("support vector {:?} is not a training row", s)));
        }
        let ok = rows.iter().any(|&i| if y[i] == hi { *w >= -slack && *w <= c + slack } else { *w <= slack && *w >= -c - slack });
        if !ok {
            return Some((
                "svc_feasible".into(),
                format!("coefficient {} of support vector {:?} (class {}) is outside its box, C = {}", w, s, y[rows[0]], c),
            ));
        }
    }
    let sum: f64 = r.w.iter().sum();
    if sum.abs() > 1e-9 * c * (1.0 + r.w.len() as f64) {
        return Some(("svc_sum_zero".into(), format!("sum of dual coefficients = {} (C = {})", sum, c)));
    }
    // decision function = kernel expansion; label rule (queries = training rows + extra points)
    for (qi, d) in r.dec.iter().enumerate() {
        let q: &Vec<f64> = &q[qi];
        let mut f = r.b;
        let mut scale = r.b.abs();
        for (s, w) in r.inst.iter().zip(&r.w) {
            let t = w * k.closed_form(s, q);
            f += t;
            scale += t.abs();
        }
        if !((f - d).abs() <= 1e-9 * scale.max(1e-300)) {
            return Some(("svc_decision_expansion".into(), format!("decision_function({:?}) = {}, expansion = {}", q, d, f)));
        }
        let expect = if *d > 0.0 { hi } else { lo };
        if r.pred[qi] != expect {
            return Some(("svc_predict_sign".into(), format!("decision {} but predicted {} (classes {} < {})", d, r.pred[qi], lo, hi)));
        }
    }
    None
}

fn make_queries(rng: &mut Rng, x: &[Vec<f64>], extra: usize) -> Vec<Vec<f64>> {
    let p = x[0].len();
    let big = x.iter().flatten().fold(0f64, |m, v| m.max(v.abs()));
    let ex: Vec<Vec<f64>> = if big > 100.0 {
        // offset data: extra queries inside the cloud of training rows (x_i + (x_j - x_k)/2), not near the origin
        (0..extra)
            .map(|_| {
                let (i, j, k) = (rng.below(x.len()), rng.below(x.len()), rng.below(x.len()));
                (0..p).map(|c| x[i][c] + 0.5 * (x[j][c] - x[k][c])).collect()
            })
            .collect()
    } else {
        (0..extra).map(|_| (0..p).map(|_| rng.dyadic(4, 2)).collect()).collect()
    };
    let mut all = x.to_vec();
    all.extend(ex);
    all
}

fn check_svc(out: &mut Out, rng: &mut Rng, k: &Kern, x: &[Vec<f64>], y: &[f64], c: f64, epoch: usize, tol: f64, reps: usize, family: &str) -> bool {
    if HANGS.with(|h| h.get()) >= 3 {
        out.count("search:skipped-after-3-hangs");
        return true;
    }
    let n = x.len();
    let q = make_queries(rng, x, 3);
    let mut key: Vec<f64> = x.iter().flatten().cloned().collect();
    key.extend(y);
    key.extend(&[c, epoch as f64, tol]);
    let both = y.iter().filter(|v| **v == y[0]).count();
    let mut ok = true;
    for rep in 0..reps {
        key.push(rep as f64);
        out.eval(hash_f64s(&key) ^ hash_of(&k.name()), both >= 2 && n - both >= 2);
        key.pop();
        out.count(&format!("search:svc:{}:{}", family, k.name()));
        let secs = WATCHDOG.with(|w| w.get()).unwrap_or(30);
        match svc_guarded(k, x, y, c, epoch, tol, &q, false, secs) {
            None => {
                if in_known_noise_regime(k, x, c, 1e3) {
                    out.known("svc-offset-no-termination", &format!("SVC::fit ({} kernel, {} rows, C = {}) did not return within {} s: gradient rounding noise u*C*n*max|K| = {:.2e} > 1 (1e-3 of the settle threshold 1000)", k.name(), n, c, secs, gradient_noise(k, x, c)));
                    out.count("known:svc-offset-no-termination");
                    KNOWN_HANGS.with(|h| h.set(h.get() + 1));
                    return true;
                }
                HANGS.with(|h| h.set(h.get() + 1));
                out.fail("svc_termination", &format!("SVC::fit did not return within {} s", secs), svc_input(k, x, y, c, epoch, tol, reps));
                return false;
            }
            Some(Err(msg)) if msg.contains("index out of bounds: the len is") && in_known_noise_regime(k, x, c, 1e3) => {
                // the other listed outcome of the same finding: with gradients that are rounding noise `clean` drops
                // every support vector (or all but one) and `finish` -> smo -> select_pair indexes the list with the
                // stale svmin / svmax: 'the len is 0 but the index is 0' and 'the len is 1 but the index is 1' (the
                // shrunk witness gives either, about half of the schedules each). Any other panic, or one outside the
                // regime, is a failure.
                out.known("svc-offset-no-termination", &format!("SVC::fit ({} kernel, {} rows, C = {}) panicked instead of returning ({}): gradient rounding noise u*C*n*max|K| = {:.2e} > 1", k.name(), n, c, msg, gradient_noise(k, x, c)));
                out.count("known:svc-offset-no-termination(panic: all support vectors cleaned away)");
                return true;
            }
            Some(Err(msg)) => {
                out.fail("svc_no_panic", &format!("fit / predict failed: {}", msg), svc_input(k, x, y, c, epoch, tol, reps.max(50)));
                return false;
            }
            Some(Ok(r)) => {
                out.count(&format!("search:svc:nsv={}", if r.w.is_empty() { "0".to_string() } else if r.w.len() < n { "some".to_string() } else { "all".to_string() }));
                if r.w.iter().any(|w| w.abs() >= c * (1.0 - 1e-12)) {
                    out.count("search:svc:has-bound-sv");
                }
                if let Some((oracle, what)) = svc_oracle(k, x, y, c, &q, &r) {
                    out.fail(&oracle, &what, svc_input(k, x, y, c, epoch, tol, reps.max(50)));
                    ok = false;
                    break;
                }
            }
        }
    }
    ok
}

fn svr_input(k: &Kern, x: &[Vec<f64>], y: &[f64], eps: f64, c: f64, tol: f64) -> Value {
    json!({"entry": "svr", "kernel": k.to_json(), "x": x, "y": y, "eps": eps, "c": c, "tol": tol})
}

/// The regressor's clauses; `optimality` = the kernel is positive semi-definite, so the KKT
/// conditions within the tolerance are part of the claim.
fn svr_oracle(k: &Kern, x: &[Vec<f64>], y: &[f64], eps: f64, c: f64, tol: f64, r: &SvrRun, optimality: bool, worst: &mut f64) -> Option<(String, String)> {
    let n = x.len();
    if r.inst.len() != r.w.len() {
        return Some(("svr_shape".into(), format!("{} instances, {} coefficients", r.inst.len(), r.w.len())));
    }
    if !r.b.is_finite() || r.w.iter().any(|v| !v.is_finite()) {
        return Some(("svr_finite".into(), format!("non-finite model: b = {}", r.b)));
    }
    for (s, w) in r.inst.iter().zip(&r.w) {
        if !x.contains(s) {
            return Some(("svr_sv_training_rows".into(), format!("support vector {:?} is not a training row", s)));
        }
        if w.abs() > c {
            return Some(("svr_box".into(), format!("|w| = {} > C = {}", w.abs(), c)));
        }
    }
    let sum: f64 = r.w.iter().sum();
    if sum.abs() > 1e-9 * c * (1.0 + r.w.len() as f64) {
        return Some(("svr_sum_zero".into(), format!("sum of coefficients = {} (C = {})", sum, c)));
    }
    // prediction = kernel expansion, on the training rows
    let mut fs = vec![];
    let mut scale = 1.0f64;
    for i in 0..n {
        let mut f = r.b;
        let mut sc = r.b.abs() + y[i].abs();
        for (s, w) in r.inst.iter().zip(&r.w) {
            let t = w * k.closed_form(s, &x[i]);
            f += t;
            sc += t.abs();
        }
        if !((f - r.pred[i]).abs() <= 1e-9 * sc.max(1e-300)) {
            return Some(("svr_expansion".into(), format!("predict({:?}) = {}, expansion = {}", x[i], r.pred[i], f)));
        }
        scale = scale.max(sc);
        fs.push(f);
    }
    if optimality {
        // epsilon-insensitive optimality at every training point, within the tolerance
        let distinct = (0..n).all(|i| (0..i).all(|j| x[i] != x[j]));
        if distinct {
            let slack = 0.5 * tol + 1e-9 * scale;
            for i in 0..n {
                let wi = r.inst.iter().position(|s| s == &x[i]).map(|p| r.w[p]).unwrap_or(0.0);
                let res = y[i] - fs[i];
                let viol = if wi == 0.0 {
                    res.abs() - eps
                } else if wi.abs() < c {
                    // on the boundary of the tube, on the side of its weight
                    (res * wi.signum() - eps).abs()
                } else {
                    eps - res * wi.signum()
                };
                if viol - 0.5 * tol > *worst {
                    *worst = viol - 0.5 * tol;
                }
                if !(viol <= slack) {
                    return Some((
                        "svr_kkt".into(),
                        format!("training point {}: weight {} (C = {}), residual {}, eps {}: violates its optimality condition by {} > tol/2 = {}", i, wi, c, res, eps, viol, 0.5 * tol),
                    ));
                }
            }
        }
    }
    None
}

fn check_svr(out: &mut Out, k: &Kern, x: &[Vec<f64>], y: &[f64], eps: f64, c: f64, tol: f64, family: &str, worst: &mut f64) -> bool {
    if HANGS.with(|h| h.get()) >= 3 {
        out.count("search:skipped-after-3-hangs");
        return true;
    }
    let mut key: Vec<f64> = x.iter().flatten().cloned().collect();
    key.extend(y);
    key.extend(&[eps, c, tol]);
    out.eval(hash_f64s(&key) ^ hash_of(&k.name()), x.len() >= 4);
    out.count(&format!("search:svr:{}:{}", family, k.name()));
    let secs = WATCHDOG.with(|w| w.get()).unwrap_or(if k.psd() { 60 } else { 3 });
    match svr_guarded(k, x, y, eps, c, tol, x, false, secs) {
        None => {
            if in_known_noise_regime(k, x, c, tol) {
                out.known("svr-offset-no-termination", &format!("SVR::fit ({} kernel, {} rows, C = {}, tol = {}) did not return within {} s: gradient rounding noise u*C*n*max|K| = {:.2e} > 1e-3 tol", k.name(), x.len(), c, tol, secs, gradient_noise(k, x, c)));
                out.count("known:svr-offset-no-termination");
                KNOWN_HANGS.with(|h| h.set(h.get() + 1));
                true
            } else if k.psd() {
                HANGS.with(|h| h.set(h.get() + 1));
                out.fail("svr_termination", &format!("SVR::fit did not return within {} s", secs), svr_input(k, x, y, eps, c, tol));
                false
            } else {
                out.count("search:svr:non-psd-kernel-timeout(not claimed)");
                true
            }
        }
        Some(Err(msg)) => {
            out.fail("svr_no_panic", &format!("fit / predict failed: {}", msg), svr_input(k, x, y, eps, c, tol));
            false
        }
        Some(Ok(r)) => {
            out.count(&format!("search:svr:iterations<{}", if r.iterations < 10 { "10" } else if r.iterations < 100 { "100" } else if r.iterations < 1000 { "1000" } else { "inf" }));
            if r.w.iter().any(|w| w.abs() == c) {
                out.count("search:svr:has-bound-sv");
            }
            if r.w.len() < x.len() {
                out.count("search:svr:has-zero-weight-point");
            }
            if let Some((oracle, what)) = svr_oracle(k, x, y, eps, c, tol, &r, k.psd(), worst) {
                out.fail(&oracle, &what, svr_input(k, x, y, eps, c, tol));
                return false;
            }
            true
        }
    }
}

/// eigenvalues of a symmetric matrix by cyclic Jacobi rotations
fn jacobi_eigenvalues(a: &[Vec<f64>]) -> Vec<f64> {
    let n = a.len();
    let mut a: Vec<Vec<f64>> = a.to_vec();
    for _sweep in 0..100 {
        let mut off = 0.0;
        for i in 0..n {
            for j in 0..i {
                off += a[i][j] * a[i][j];
            }
        }
        if off < 1e-300 {
            break;
        }
        for p in 0..n {
            for q in (p + 1)..n {
                if a[p][q] == 0.0 {
                    continue;
                }
                let theta = (a[q][q] - a[p][p]) / (2.0 * a[p][q]);
                let t = theta.signum() / (theta.abs() + (theta * theta + 1.0).sqrt());
                let t = if theta == 0.0 { 1.0 } else { t };
                let c = 1.0 / (t * t + 1.0).sqrt();
                let s = t * c;
                for k in 0..n {
                    let (akp, akq) = (a[k][p], a[k][q]);
                    a[k][p] = c * akp - s * akq;
                    a[k][q] = s * akp + c * akq;
                }
                for k in 0..n {
                    let (apk, aqk) = (a[p][k], a[q][k]);
                    a[p][k] = c * apk - s * aqk;
                    a[q][k] = s * apk + c * aqk;
                }
            }
        }
    }
    (0..n).map(|i| a[i][i]).collect()
}

fn kernel_input(k: &Kern, a: &[f64], b: &[f64]) -> Value {
    json!({"entry": "kernel", "kernel": k.to_json(), "a": a, "b": b})
}

fn check_kernel(out: &mut Out, k: &Kern, a: &Vec<f64>, b: &Vec<f64>) -> bool {
    let mut key = a.clone();
    key.extend(b);
    out.eval(hash_f64s(&key) ^ hash_of(&format!("{:?}", k)), a != b);
    out.count(&format!("search:kernel:{}", k.name()));
    let r = guard(|| (k.apply_impl(a, b), k.apply_impl(b, a)));
    match r {
        Err(m) => {
            out.fail("kernel_no_panic", &m, kernel_input(k, a, b));
            false
        }
        Ok((v, vs)) => {
            let e = k.closed_form(a, b);
            if v.to_bits() != vs.to_bits() && !(v.is_nan() && vs.is_nan()) {
                out.fail("kernel_symmetric", &format!("K(a,b) = {} but K(b,a) = {}", v, vs), kernel_input(k, a, b));
                return false;
            }
            let ok = if v.is_nan() || e.is_nan() { v.is_nan() && e.is_nan() } else { (v - e).abs() <= 1e-10 * v.abs().max(e.abs()) + 1e-13 };
            if !ok {
                out.fail("kernel_closed_form", &format!("K(a,b) = {}, closed form = {}", v, e), kernel_input(k, a, b));
                return false;
            }
            true
        }
    }
}

fn check_gram(out: &mut Out, k: &Kern, x: &[Vec<f64>]) -> bool {
    let key: Vec<f64> = x.iter().flatten().cloned().collect();
    out.eval(hash_f64s(&key) ^ hash_of(&format!("gram{:?}", k)), x.len() >= 3);
    out.count(&format!("search:gram:{}", k.name()));
    let g: Vec<Vec<f64>> = x.iter().map(|a| x.iter().map(|b| k.apply_impl(a, b)).collect()).collect();
    let ev = jacobi_eigenvalues(&g);
    let mx = ev.iter().fold(0f64, |m, v| m.max(v.abs()));
    let mn = ev.iter().fold(f64::INFINITY, |m, v| m.min(*v));
    if !(mn >= -1e-10 * mx.max(1e-300) * x.len() as f64) {
        out.fail(
            "gram_psd",
            &format!("Gram matrix has eigenvalue {} (largest magnitude {})", mn, mx),
            json!({"entry": "gram", "kernel": k.to_json(), "x": x}),
        );
        return false;
    }
    true
}

// ------------------------------------------------------------------------------------------
// offset families: rows that share a large common offset compared with their spread
// (timestamps, map coordinates, temperatures in Kelvin). The property does not restrict feature
// magnitudes, and an evaluation of ||a - b||^2 that does not form the differences first
// (<a,a> + <b,b> - 2<a,b>) loses everything there while agreeing to 1e-15 on centred data.
// ------------------------------------------------------------------------------------------
#[derive(Clone, Copy, Debug, PartialEq)]
enum Prec {
    F64,
    F32,
}
impl Prec {
    /// unit roundoff of the working precision
    fn u(self) -> f64 {
        match self {
            Prec::F64 => f64::EPSILON / 2.0,
            Prec::F32 => f32::EPSILON as f64 / 2.0,
        }
    }
    /// below this a result is (close to) subnormal and carries no relative accuracy
    fn tiny(self) -> f64 {
        match self {
            Prec::F64 => 1e-300,
            Prec::F32 => 1e-36,
        }
    }
    fn name(self) -> &'static str {
        match self {
            Prec::F64 => "f64",
            Prec::F32 => "f32",
        }
    }
    fn from_json(v: &Value) -> Prec {
        if v.as_str() == Some("f32") {
            Prec::F32
        } else {
            Prec::F64
        }
    }
    /// round a parameter / coordinate to the working precision (exactly representable in f64)
    fn round(self, x: f64) -> f64 {
        match self {
            Prec::F64 => x,
            Prec::F32 => x as f32 as f64,
        }
    }
}

fn two_sum(a: f64, b: f64) -> (f64, f64) {
    let s = a + b;
    let bb = s - a;
    (s, (a - (s - bb)) + (b - bb))
}
fn two_prod(a: f64, b: f64) -> (f64, f64) {
    let p = a * b;
    (p, a.mul_add(b, -p))
}
/// dot product accumulated in twice the binary64 precision (Ogita-Rump-Oishi Dot2), and sum |a_i b_i|
fn dot2(a: &[f64], b: &[f64]) -> (f64, f64) {
    let (mut s, mut c, mut sa) = (0.0f64, 0.0f64, 0.0f64);
    for (x, y) in a.iter().zip(b) {
        let (p, e) = two_prod(*x, *y);
        let (t, f) = two_sum(s, p);
        s = t;
        c += e + f;
        sa += p.abs();
    }
    (s + c, sa)
}
/// ||a - b||^2 with the differences formed first (error-free), squares accumulated in twice the
/// binary64 precision
fn sqdist2(a: &[f64], b: &[f64]) -> f64 {
    let (mut s, mut c) = (0.0f64, 0.0f64);
    for (x, y) in a.iter().zip(b) {
        let (d, de) = two_sum(*x, -*y); // d + de = x - y exactly
        let (p, e) = two_prod(d, d);
        let (t, f) = two_sum(s, p);
        s = t;
        c += e + f + 2.0 * d * de;
    }
    s + c
}

impl Kern {
    /// the implementation's kernel in the working precision `prec` (operands and parameters are
    /// representable in that precision)
    fn apply_prec(&self, a: &[f64], b: &[f64], prec: Prec) -> f64 {
        match prec {
            Prec::F64 => self.apply_impl(&a.to_vec(), &b.to_vec()),
            Prec::F32 => {
                let a: Vec<f32> = a.iter().map(|v| *v as f32).collect();
                let b: Vec<f32> = b.iter().map(|v| *v as f32).collect();
                (match self {
                    Kern::Linear => Kernels::linear().apply(&a, &b),
                    Kern::Rbf(g) => Kernels::rbf(*g as f32).apply(&a, &b),
                    Kern::Poly(d, g, c) => Kernels::polynomial(*d as f32, *g as f32, *c as f32).apply(&a, &b),
                    Kern::Sigmoid(g, c) => Kernels::sigmoid(*g as f32, *c as f32).apply(&a, &b),
                }) as f64
            }
        }
    }
    /// The closed form of the property text evaluated carefully (differences first, sums in twice
    /// the binary64 precision, no powf / tanh), and what an evaluation of that closed form in the
    /// working precision (unit roundoff u) may lose:
    ///   dot product of p terms            |err| <= p u sum|a_i b_i|
    ///   gamma*dot + coef0                 |err| <= u ((p+1) |gamma| sum|a_i b_i| + |base|)   =: eb
    ///   base^degree                       rel err <= |degree| eb/|base| + 2u (pow within an ulp)
    ///   tanh(z)                           |err| <= eb + 2u
    ///   exp(-gamma sum (a_i-b_i)^2)       rel err <= (p+3) u z + 2u,  z = gamma ||a-b||^2
    /// The returned tolerance is 4 times that first-order bound. (value, absolute tolerance)
    fn careful(&self, a: &[f64], b: &[f64], prec: Prec) -> (f64, f64) {
        let u = prec.u();
        let p = a.len() as f64;
        let (dot, sa) = dot2(a, b);
        match self {
            Kern::Linear => (dot, 4.0 * p * u * sa),
            Kern::Rbf(g) => {
                let z = g * sqdist2(a, b);
                let e = (-z).exp();
                (e, 4.0 * ((p + 3.0) * z.abs() + 2.0) * u * e + prec.tiny())
            }
            Kern::Poly(d, g, c) => {
                let base = g * dot + c;
                let eb = u * ((p + 1.0) * g.abs() * sa + base.abs());
                let v = if *d == 0.5 {
                    base.sqrt()
                } else if *d == 2.5 {
                    base * base * base.sqrt()
                } else if d.fract() == 0.0 && d.abs() < 64.0 {
                    base.powi(*d as i32)
                } else {
                    base.powf(*d)
                };
                (v, 4.0 * (d.abs() * eb / base.abs() + 2.0 * u) * v.abs() + prec.tiny())
            }
            Kern::Sigmoid(g, c) => {
                let z = g * dot + c;
                let eb = u * ((p + 1.0) * g.abs() * sa + z.abs());
                let m = (2.0 * z).exp_m1();
                let v = if m.is_infinite() { 1.0 } else { m / (m + 2.0) };
                (v, 4.0 * (eb + 2.0 * u))
            }
        }
    }
}

/// measured accuracy of the implementation on the offset families: per "<prec>:<kernel>" the
/// largest relative error and the largest fraction of the tolerance that was used
#[derive(Default)]
struct Acc(std::collections::BTreeMap<String, (f64, f64, u64)>);
impl Acc {
    fn note(&mut self, key: String, rel: f64, frac: f64) {
        let e = self.0.entry(key).or_insert((0.0, 0.0, 0));
        if rel.is_finite() {
            e.0 = e.0.max(rel);
        }
        if frac.is_finite() {
            e.1 = e.1.max(frac);
        }
        e.2 += 1;
    }
    fn to_json(&self) -> Value {
        Value::Object(self.0.iter().map(|(k, v)| (k.clone(), json!({"max_relative_error": v.0, "max_fraction_of_tolerance": v.1, "cases": v.2}))).collect())
    }
}

/// per-coordinate offsets and the spread of one offset data set; `ratio` = offset / spread
#[derive(Clone, Debug)]
struct OffsetFrame {
    offs: Vec<f64>,
    spread: f64,
    ratio: f64,
    family: &'static str,
}

fn offset_frame(rng: &mut Rng, p: usize, prec: Prec) -> OffsetFrame {
    let named = rng.below(6);
    if prec == Prec::F64 && named == 0 && p <= 2 {
        // UNIX timestamps in seconds, events seconds to minutes apart (second feature: hour of day)
        let spread = *rng.pick(&[5.0, 60.0, 600.0]);
        let mut offs = vec![1.6e9 + (rng.below(100_000_000) as f64)];
        if p == 2 {
            offs.push(12.0 * spread);
        }
        return OffsetFrame { offs, spread, ratio: 1.6e9 / spread, family: "timestamps" };
    }
    if prec == Prec::F64 && named == 1 && p == 2 {
        // projected map coordinates in metres, points centimetres to metres apart
        let spread = *rng.pick(&[0.05, 0.5, 2.0]);
        let offs = vec![512_340.0 + rng.below(1000) as f64, 5_403_871.0 + rng.below(1000) as f64];
        return OffsetFrame { offs, spread, ratio: 5.4e6 / spread, family: "map-coordinates" };
    }
    if prec == Prec::F32 && named <= 1 {
        // temperatures in Kelvin
        let spread = *rng.pick(&[0.1, 0.5, 2.0]);
        let offs: Vec<f64> = (0..p).map(|_| 273.0 + rng.below(40) as f64).collect();
        return OffsetFrame { offs, spread, ratio: 300.0 / spread, family: "kelvin" };
    }
    let ratio = match prec {
        Prec::F64 => *rng.pick(&[1e3, 1e4, 1e5, 1e6, 1e7, 1e8, 1e9]),
        Prec::F32 => *rng.pick(&[1e3, 3e3, 1e4]),
    };
    let spread = *rng.pick(&[1.0, 1.0, 0.125, 60.0, 1e-3]);
    let offs: Vec<f64> = match rng.below(4) {
        // one common offset
        0 => vec![ratio * spread; p],
        // all on one side, different per coordinate
        1 | 2 => (0..p).map(|_| ratio * spread * rng.uniform(0.5, 2.0)).collect(),
        // mixed signs
        _ => (0..p).map(|_| ratio * spread * rng.uniform(0.5, 2.0) * if rng.bool() { 1.0 } else { -1.0 }).collect(),
    };
    OffsetFrame { offs, spread, ratio, family: "ratio" }
}

impl OffsetFrame {
    /// a centred row (coordinates of order 1) placed in the frame
    fn place(&self, centred: &[f64], prec: Prec) -> Vec<f64> {
        centred.iter().zip(&self.offs).map(|(c, o)| prec.round(o + self.spread * c)).collect()
    }
    fn bucket(&self) -> String {
        if self.family == "ratio" {
            format!("ratio=1e{}", self.ratio.log10().round() as i32)
        } else {
            self.family.to_string()
        }
    }
    /// kernel parameters that make the kernel non-degenerate on this frame (gamma ||a-b||^2 and
    /// gamma <a,b> of order 1); some polynomial / sigmoid kernels keep plain parameters
    fn kernel(&self, rng: &mut Rng, which: usize, p: usize, prec: Prec) -> Kern {
        let o2: f64 = self.offs.iter().map(|o| o * o).sum::<f64>().max(1e-300);
        let _ = p;
        match which {
            0 => Kern::Linear,
            1 => Kern::Rbf(prec.round(rng.uniform(0.01, 3.0) / (self.spread * self.spread))),
            2 => {
                let d = *rng.pick(&[1.0, 2.0, 3.0, 4.0, 0.5, 2.5]);
                let plain = prec == Prec::F64 && rng.chance(0.3);
                let g = if plain { rng.uniform(0.1, 1.5) } else { rng.uniform(0.1, 1.5) / o2 };
                Kern::Poly(d, prec.round(g), *rng.pick(&[0.0, 0.5, 1.0]))
            }
            _ => Kern::Sigmoid(prec.round(rng.uniform(0.05, 2.0) / o2), prec.round(rng.uniform(-1.0, 1.0))),
        }
    }
}

thread_local! {
    static OFFSET_FAILS: std::cell::RefCell<std::collections::BTreeMap<String, usize>> = std::cell::RefCell::new(Default::default());
}
/// The offset families can fail thousands of times on one defect; keep 1 replay input per
/// (family, oracle) so that every failing clause is represented among the stored failures, and count the rest.
fn fail_capped(out: &mut Out, family: &str, oracle: &str, what: &str, input: Value) {
    let seen = OFFSET_FAILS.with(|m| {
        let mut m = m.borrow_mut();
        let e = m.entry(format!("{}/{}", family, oracle)).or_insert(0);
        *e += 1;
        *e
    });
    if seen <= 1 {
        out.fail(oracle, what, input);
    } else {
        out.count(&format!("fail:{}", oracle));
    }
}

fn kernel_offset_input(k: &Kern, a: &[f64], b: &[f64], prec: Prec) -> Value {
    json!({"entry": "kernel_offset", "kernel": k.to_json(), "a": a, "b": b, "prec": prec.name()})
}

/// the kernel clauses on one pair: symmetry, closed form (against the careful reference, tolerance =
/// 4 x the rounding error bound of the closed form evaluated in the working precision), K(a,a) and
/// K(b,b) likewise, and for the positive semi-definite kernels the 2x2 principal minor.
/// Returns (oracle, what) of the first clause that fails; notes the accuracy into `acc`.
fn kernel_offset_verdict(k: &Kern, a: &[f64], b: &[f64], prec: Prec, acc: Option<&mut Acc>) -> Option<(String, String)> {
    let r = guard(|| (k.apply_prec(a, b, prec), k.apply_prec(b, a, prec), k.apply_prec(a, a, prec), k.apply_prec(b, b, prec)));
    let (v, vs, vaa, vbb) = match r {
        Err(m) => return Some(("kernel_no_panic".into(), m)),
        Ok(t) => t,
    };
    if v.to_bits() != vs.to_bits() && !(v.is_nan() && vs.is_nan()) {
        return Some(("kernel_symmetric".into(), format!("K(a,b) = {:e} but K(b,a) = {:e}", v, vs)));
    }
    let mut worst: (f64, f64) = (0.0, 0.0);
    for (x, y, got, name) in [(a, b, v, "K(a,b)"), (a, a, vaa, "K(a,a)"), (b, b, vbb, "K(b,b)")] {
        let (e, tol) = k.careful(x, y, prec);
        if !e.is_finite() || !tol.is_finite() {
            // overflow of the closed form itself: the implementation must overflow the same way
            if got.is_finite() && e.is_infinite() && prec == Prec::F64 {
                return Some(("kernel_closed_form".into(), format!("{} = {:e}, closed form = {:e}", name, got, e)));
            }
            continue;
        }
        if prec == Prec::F32 && (e.abs() > 1e37 || !got.is_finite()) {
            continue; // at the edge of the f32 range
        }
        let err = (got - e).abs();
        if !(err <= tol) {
            return Some((
                "kernel_closed_form".into(),
                format!("{} = {:e}, closed form (differences first, compensated sums) = {:e}: relative error {:.3e}, allowed {:.3e} ({}, {} features)", name, got, e, err / e.abs().max(1e-300), tol / e.abs().max(1e-300), prec.name(), x.len()),
            ));
        }
        worst.0 = worst.0.max(err / e.abs().max(prec.tiny()));
        worst.1 = worst.1.max(err / tol);
    }
    if let Some(acc) = acc {
        acc.note(format!("{}:{}", prec.name(), k.name()), worst.0, worst.1);
    }
    // 2x2 principal minor of the Gram matrix of {a, b}
    if matches!(k, Kern::Linear | Kern::Rbf(_)) && v.is_finite() && vaa.is_finite() && vbb.is_finite() {
        let u = prec.u();
        let p = a.len() as f64;
        let slack = match k {
            Kern::Rbf(_) => 16.0 * u,
            // Cauchy-Schwarz for computed dot products: each within p u sum|.| of its exact value
            _ => {
                let (_, sab) = dot2(a, b);
                8.0 * (p + 2.0) * u * (sab * sab + vaa * vbb)
            }
        };
        if !(v * v <= vaa * vbb + slack) || !(vaa >= 0.0) || !(vbb >= 0.0) {
            return Some((
                "gram_psd".into(),
                format!("2x2 Gram matrix [[{:e}, {:e}], [{:e}, {:e}]] of {} kernel is not positive semi-definite: (e_a - e_b)^T G (e_a - e_b) = {:e}, det = {:e}", vaa, v, v, vbb, k.name(), vaa + vbb - 2.0 * v, vaa * vbb - v * v),
            ));
        }
    }
    None
}

fn check_kernel_offset(out: &mut Out, k: &Kern, a: &[f64], b: &[f64], prec: Prec, frame: &str, acc: &mut Acc) -> bool {
    let mut key = a.to_vec();
    key.extend(b);
    out.eval(hash_f64s(&key) ^ hash_of(&format!("{:?}{:?}", k, prec)), a != b);
    out.count(&format!("search:kernel-offset:{}:{}", prec.name(), k.name()));
    out.count(&format!("search:kernel-offset:{}:{}", prec.name(), frame));
    if a == b {
        out.count("search:kernel-offset:K(x,x)");
    }
    match kernel_offset_verdict(k, a, b, prec, Some(acc)) {
        None => true,
        Some((oracle, what)) => {
            // shrink: drop coordinates while the same clause still fails
            let (mut a, mut b, mut what) = (a.to_vec(), b.to_vec(), what);
            let mut j = 0;
            while a.len() > 1 && j < a.len() {
                let (mut a2, mut b2) = (a.clone(), b.clone());
                a2.remove(j);
                b2.remove(j);
                match kernel_offset_verdict(k, &a2, &b2, prec, None) {
                    Some((o2, w2)) if o2 == oracle => {
                        a = a2;
                        b = b2;
                        what = w2;
                    }
                    _ => j += 1,
                }
            }
            out.count(&format!("fail-in:kernel-offset:{}:{}", prec.name(), frame));
            fail_capped(out, &format!("kernel-offset:{}", prec.name()), &oracle, &what, kernel_offset_input(k, &a, &b, prec));
            false
        }
    }
}

/// Gram matrix of the implementation's kernel on offset rows: symmetric, and positive
/// semi-definite up to the rounding of its entries.
/// RBF: every computed entry is within 6u of its exact value (rel err ((p+3) z + 2) u, z e^-z <= 1/e,
/// p <= 8), so lambda_min >= -6 n u; the Jacobi sweep adds O(n u ||G||). Tolerance: 4 x the entry
/// bound + 64 n eps ||G||. Quadratic forms at e_i - e_j and at sign vectors likewise.
/// Linear: relative to the largest eigenvalue, as in `check_gram`.
fn gram_offset_verdict(k: &Kern, x: &[Vec<f64>], prec: Prec, most_negative: Option<&mut f64>) -> Option<(String, String)> {
    let n = x.len();
    let g = match guard(|| x.iter().map(|a| x.iter().map(|b| k.apply_prec(a, b, prec)).collect::<Vec<f64>>()).collect::<Vec<Vec<f64>>>()) {
        Err(m) => return Some(("kernel_no_panic".into(), m)),
        Ok(g) => g,
    };
    for i in 0..n {
        for j in 0..i {
            if g[i][j].to_bits() != g[j][i].to_bits() {
                return Some(("kernel_symmetric".into(), format!("K(x_{},x_{}) = {:e} but K(x_{},x_{}) = {:e}", i, j, g[i][j], j, i, g[j][i])));
            }
        }
    }
    if g.iter().flatten().any(|v| !v.is_finite()) {
        return None;
    }
    let u = prec.u();
    let nf = n as f64;
    let ev = jacobi_eigenvalues(&g);
    let mx = ev.iter().fold(0f64, |m, v| m.max(v.abs()));
    let mn = ev.iter().fold(f64::INFINITY, |m, v| m.min(*v));
    let rbf = matches!(k, Kern::Rbf(_));
    let (tol_eig, tol_form) = if rbf {
        (nf * 24.0 * u + 64.0 * nf * f64::EPSILON * mx, nf * nf * 24.0 * u)
    } else {
        let p = x[0].len() as f64;
        let t = 8.0 * (p + 2.0) * u * nf * mx.max(1e-300) + 64.0 * nf * f64::EPSILON * mx;
        (t, t * nf)
    };
    if let Some(m) = most_negative {
        if mn / tol_eig < *m {
            *m = mn / tol_eig;
        }
    }
    if !(mn >= -tol_eig) {
        return Some(("gram_psd".into(), format!("Gram matrix of {} rows ({} kernel, {}) has eigenvalue {:e} (largest magnitude {:e}, allowed -{:.2e})", n, k.name(), prec.name(), mn, mx, tol_eig)));
    }
    // quadratic forms: e_i - e_j, and sign vectors (all of them up to 8 rows, else 128 derived from the data)
    for i in 0..n {
        for j in 0..i {
            let q = g[i][i] + g[j][j] - 2.0 * g[i][j];
            let t = if rbf { 16.0 * u } else { tol_form };
            if !(q >= -t) {
                return Some(("gram_psd".into(), format!("(e_{} - e_{})^T G (e_{} - e_{}) = {:e} < 0 ({} kernel, {}): K_ij = {:e}, K_ii = {:e}, K_jj = {:e}", i, j, i, j, q, k.name(), prec.name(), g[i][j], g[i][i], g[j][j])));
            }
        }
    }
    let key: Vec<f64> = x.iter().flatten().cloned().collect();
    let mut srng = Rng::new(hash_f64s(&key));
    let nvec = if n <= 8 { 1usize << n } else { 128 };
    for m in 0..nvec {
        let s: Vec<f64> = (0..n).map(|i| if n <= 8 { if (m >> i) & 1 == 1 { -1.0 } else { 1.0 } } else if srng.bool() { -1.0 } else { 1.0 }).collect();
        let mut q = 0.0;
        for i in 0..n {
            for j in 0..n {
                q += s[i] * s[j] * g[i][j];
            }
        }
        if !(q >= -tol_form) {
            return Some(("gram_psd".into(), format!("s^T G s = {:e} < 0 for the sign vector s = {:?} ({} kernel, {})", q, s, k.name(), prec.name())));
        }
    }
    None
}

fn check_gram_offset(out: &mut Out, k: &Kern, x: &[Vec<f64>], prec: Prec, frame: &str, most_negative: &mut f64) -> bool {
    let key: Vec<f64> = x.iter().flatten().cloned().collect();
    let distinct = (0..x.len()).all(|i| (0..i).all(|j| x[i] != x[j]));
    out.eval(hash_f64s(&key) ^ hash_of(&format!("gram-offset{:?}{:?}", k, prec)), x.len() >= 3 && distinct);
    out.count(&format!("search:gram-offset:{}:{}", prec.name(), k.name()));
    out.count(&format!("search:gram-offset:{}:{}", prec.name(), frame));
    match gram_offset_verdict(k, x, prec, Some(most_negative)) {
        None => true,
        Some((oracle, what)) => {
            // shrink: drop rows while the same clause still fails
            let (mut x, mut what) = (x.to_vec(), what);
            let mut i = 0;
            while x.len() > 2 && i < x.len() {
                let mut x2 = x.clone();
                x2.remove(i);
                match gram_offset_verdict(k, &x2, prec, None) {
                    Some((o2, w2)) if o2 == oracle => {
                        x = x2;
                        what = w2;
                    }
                    _ => i += 1,
                }
            }
            out.count(&format!("fail-in:gram-offset:{}:{}", prec.name(), frame));
            fail_capped(out, &format!("gram-offset:{}", prec.name()), &oracle, &what, json!({"entry": "gram_offset", "kernel": k.to_json(), "x": x, "prec": prec.name()}));
            false
        }
    }
}

/// a frame with the given offset/spread ratio (per-coordinate offsets of one or mixed signs)
fn ratio_frame(rng: &mut Rng, p: usize, ratio: f64, spread: f64) -> OffsetFrame {
    let offs: Vec<f64> = match rng.below(4) {
        0 => vec![ratio * spread; p],
        1 | 2 => (0..p).map(|_| ratio * spread * rng.uniform(0.5, 2.0)).collect(),
        _ => (0..p).map(|_| ratio * spread * rng.uniform(0.5, 2.0) * if rng.bool() { 1.0 } else { -1.0 }).collect(),
    };
    OffsetFrame { offs, spread, ratio, family: "ratio" }
}

/// linear / polynomial kernel for a fit on offset data: integer degree, plain gamma (Gram entries of
/// the size of <a,b>^degree) or gamma scaled to the offset (Gram entries of order 1, nearly constant)
fn dot_kernel(rng: &mut Rng, fr: &OffsetFrame) -> Kern {
    let o2: f64 = fr.offs.iter().map(|o| o * o).sum::<f64>().max(1e-300);
    match rng.below(4) {
        0 | 1 => Kern::Linear,
        2 => Kern::Poly(*rng.pick(&[1.0, 2.0, 3.0]), rng.uniform(0.1, 1.5), *rng.pick(&[0.0, 1.0])),
        _ => Kern::Poly(*rng.pick(&[1.0, 2.0, 3.0]), rng.uniform(0.1, 1.5) / o2, *rng.pick(&[0.0, 1.0])),
    }
}

/// A fit whose outcome is only OBSERVED (between the regime where fits must return and the regime of
/// the listed non-termination findings): counted into the distribution, never a failure.
/// Returns the outcome ("ok", "no-return", "error", or the name of the violated clause).
fn observe_svc(out: &mut Out, rng: &mut Rng, k: &Kern, x: &[Vec<f64>], y: &[f64], c: f64, epoch: usize, tol: f64, secs: u64, label: &str) -> String {
    let q = make_queries(rng, x, 3);
    let outcome = match svc_guarded(k, x, y, c, epoch, tol, &q, false, secs) {
        None => "no-return".to_string(),
        Some(Err(_)) => "error".to_string(),
        Some(Ok(r)) => svc_oracle(k, x, y, c, &q, &r).map(|(o, _)| o).unwrap_or_else(|| "ok".to_string()),
    };
    out.count(&format!("observed:svc:{}:{}", label, outcome));
    outcome
}
fn observe_svr(out: &mut Out, k: &Kern, x: &[Vec<f64>], y: &[f64], eps: f64, c: f64, tol: f64, secs: u64, label: &str) -> String {
    let mut worst = f64::NEG_INFINITY;
    let outcome = match svr_guarded(k, x, y, eps, c, tol, x, false, secs) {
        None => "no-return".to_string(),
        Some(Err(_)) => "error".to_string(),
        Some(Ok(r)) => svr_oracle(k, x, y, eps, c, tol, &r, k.psd(), &mut worst).map(|(o, _)| o).unwrap_or_else(|| "ok".to_string()),
    };
    out.count(&format!("observed:svr:{}:{}", label, outcome));
    outcome
}

/// centred rows (coordinates of order 1) for a Gram matrix: scattered, or a sorted 1-d series of
/// events with a few near-coincident ones (nearly singular Gram matrices are the sensitive ones)
fn centred_rows(rng: &mut Rng, n: usize, p: usize) -> Vec<Vec<f64>> {
    if p <= 2 && rng.bool() {
        let mut t = 0.0;
        (0..n)
            .map(|_| {
                t += *rng.pick(&[0.02, 0.1, 0.25, 0.5, 1.0, 1.5]);
                let mut r = vec![t - 2.0];
                if p == 2 {
                    r.push(rng.uniform(-1.0, 1.0));
                }
                r
            })
            .collect()
    } else {
        (0..n).map(|_| (0..p).map(|_| rng.uniform(-2.0, 2.0)).collect()).collect()
    }
}

// ------------------------------------------------------------------------------------------
// correspondence terms
// ------------------------------------------------------------------------------------------
fn coq_srec(v: &svc::verif::SvRec) -> String {
    format!("({}, {}, {}, {}, {})", coq_n(v.index), coq_f64(v.alpha), coq_f64(v.grad), coq_f64(v.cmin), coq_f64(v.cmax))
}
fn coq_srecs(v: &[svc::verif::SvRec]) -> String {
    coq_list(v.iter().map(coq_srec))
}

/// the label mapping of the property: the smaller class value is -1, the larger +1
fn mapped_labels(y: &[f64]) -> Vec<f64> {
    let lo = y.iter().cloned().fold(f64::INFINITY, f64::min);
    y.iter().map(|v| if *v == lo { -1.0 } else { 1.0 }).collect()
}

fn corr_svc(out: &mut Out, rng: &mut Rng, k: &Kern, x: &[Vec<f64>], y: &[f64], c: f64, epoch: usize, tol: f64) {
    let q = make_queries(rng, x, 2);
    let input = json!({"entry": "svc", "kernel": k.to_json(), "x": x, "y": y, "c": c, "epoch": epoch, "tol": tol, "reps": 200});
    if HANGS.with(|h| h.get()) >= 3 {
        out.count("corr:skipped-after-3-hangs");
        return;
    }
    // untraced first, so that a fit that does not return cannot fill the trace buffer
    match svc_guarded(k, x, y, c, epoch, tol, &q, false, 10) {
        None => {
            HANGS.with(|h| h.set(h.get() + 1));
            out.fail("svc_termination", "SVC::fit did not return within 10 s", input.clone());
            return;
        }
        Some(Err(msg)) => {
            out.fail("svc_no_panic", &format!("fit / predict failed: {}", msg), input.clone());
            return;
        }
        Some(Ok(_)) => {}
    }
    let r = match svc_guarded(k, x, y, c, epoch, tol, &q, true, 30) {
        Some(Ok(r)) => r,
        _ => return, // the search reports panics / hangs
    };
    let ks = k.coq_table(&q);
    let ys = mapped_labels(y);
    // ---- visiting orders, events
    let mut perms: Vec<Vec<usize>> = vec![];
    let mut events: Vec<String> = vec![];
    let mut fin: Option<(Vec<svc::verif::SvRec>, f64)> = None;
    let mut nsmo = 0;
    for e in &r.trace {
        match e {
            svc::verif::Event::Perm(p) => perms.push(p.clone()),
            svc::verif::Event::Process { i, y, known: _, inserted, g, before, after } => {
                if *inserted {
                    events.push(format!("EInsert {} {} {} {} {}", coq_n(*i), coq_f64(*y), coq_f64(*g), coq_srecs(before), coq_srecs(after)));
                } else {
                    events.push(format!("ENoInsert {} {} {}", coq_n(*i), coq_srecs(before), coq_srecs(after)));
                }
            }
            svc::verif::Event::Smo { idx_1, idx_2, k12, raw_step, step, before, after, gmin, gmax } => {
                nsmo += 1;
                events.push(format!(
                    "ESmo {} {} {} {} {} {} {} {} {}",
                    coq_n(*idx_1), coq_n(*idx_2), coq_f64(*k12), coq_f64(*raw_step), coq_f64(*step), coq_srecs(before), coq_srecs(after), coq_f64(*gmin), coq_f64(*gmax)
                ));
            }
            svc::verif::Event::Clean { before, after, gmin, gmax } => {
                events.push(format!("EClean {} {} {} {}", coq_f64(*gmin), coq_f64(*gmax), coq_srecs(before), coq_srecs(after)));
            }
            svc::verif::Event::Done { sv, b } => fin = Some((sv.clone(), *b)),
        }
    }
    let (fin_sv, _fin_b) = match fin {
        Some(f) => f,
        None => return,
    };
    if perms.len() != epoch + 1 {
        out.fail("svc_hook", &format!("{} visiting orders recorded for {} epochs", perms.len(), epoch), input.clone());
        return;
    }
    out.count(&format!("corr:svc:smo-steps<{}", if nsmo < 10 { "10" } else if nsmo < 40 { "40" } else { "inf" }));
    // every recorded step replayed through the model step + feasibility of every recorded state
    if events.len() <= 400 {
        let term = format!(
            "corr_svc_trace {} {} {} {} {} {} {}",
            ks,
            coq_f64(c),
            coq_rows_f64(x),
            coq_list_f64(&ys),
            coq_list(events.iter().map(|e| format!("({})", e))),
            coq_srecs(&fin_sv),
            coq_list_f64(&r.w)
        );
        out.corr("svc_trace", term, input.clone());
    }
    // the whole fit replayed on the recorded visiting orders
    let term = format!(
        "corr_svc_fit {} {} {} {} {} {} {} {} {} {} {} {} {}",
        ks,
        coq_f64(c),
        coq_f64(tol),
        coq_n(100000),
        coq_rows_f64(x),
        coq_list_f64(y),
        coq_list_n(&perms[0]),
        coq_list(perms[1..].iter().map(|p| coq_list_n(p))),
        coq_f64(r.classes[0]),
        coq_f64(r.classes[1]),
        coq_rows_f64(&r.inst),
        coq_list_f64(&r.w),
        coq_f64(r.b)
    );
    out.corr("svc_fit", term, input.clone());
    // fitted model (serde) against the expansion / label rule, with the model's own kernel formula
    let tolk = if *k == Kern::Linear { 0.0 } else { 1e-9 };
    let term = format!(
        "corr_svc_model {} {} {} {} {} {} {} {} {} {} {} {} {}",
        k.coq(),
        coq_f64(c),
        coq_rows_f64(x),
        coq_list_f64(y),
        coq_f64(r.classes[0]),
        coq_f64(r.classes[1]),
        coq_rows_f64(&r.inst),
        coq_list_f64(&r.w),
        coq_f64(r.b),
        coq_rows_f64(&q),
        coq_list_f64(&r.dec),
        coq_list_f64(&r.pred),
        coq_f64(tolk)
    );
    out.corr("svc_model", term, input);
}

fn coq_rrecs(alpha: &[[f64; 2]], grad: &[[f64; 2]]) -> String {
    coq_list(alpha.iter().zip(grad).map(|(a, g)| format!("({}, {}, {}, {})", coq_f64(a[0]), coq_f64(a[1]), coq_f64(g[0]), coq_f64(g[1]))))
}

fn corr_svr(out: &mut Out, k: &Kern, x: &[Vec<f64>], y: &[f64], eps: f64, c: f64, tol: f64) {
    let input = svr_input(k, x, y, eps, c, tol);
    if HANGS.with(|h| h.get()) >= 3 {
        out.count("corr:skipped-after-3-hangs");
        return;
    }
    match svr_guarded(k, x, y, eps, c, tol, x, false, 10) {
        None => {
            HANGS.with(|h| h.set(h.get() + 1));
            out.fail("svr_termination", "SVR::fit did not return within 10 s", input.clone());
            return;
        }
        Some(Err(msg)) => {
            out.fail("svr_no_panic", &format!("fit / predict failed: {}", msg), input.clone());
            return;
        }
        Some(Ok(_)) => {}
    }
    let r = match svr_guarded(k, x, y, eps, c, tol, x, true, 30) {
        Some(Ok(r)) => r,
        _ => return,
    };
    if r.iterations > 20000 {
        out.count("corr:svr:skipped(too many iterations)");
        return;
    }
    let ks = k.coq_table(x);
    out.count(&format!("corr:svr:iterations<{}", if r.iterations < 10 { "10" } else if r.iterations < 100 { "100" } else { "inf" }));
    if r.iterations <= 150 {
        let mut events = vec![];
        for e in &r.trace {
            if let svr::verif::Event::Iter { v1, i, v2, j, curv: _, delta, alpha_i_before, alpha_j_before, alpha_i_after, alpha_j_after, alpha, grad, gmin, gmax } = e {
                events.push(format!(
                    "({}, {}, {}, {}, {}, ({}, {}), ({}, {}), {}, {}, {})",
                    coq_n(*v1), coq_n(*i), coq_n(*v2), coq_n(*j), coq_f64(*delta),
                    coq_f64(*alpha_i_before), coq_f64(*alpha_j_before), coq_f64(*alpha_i_after), coq_f64(*alpha_j_after),
                    coq_rrecs(alpha, grad), coq_f64(*gmin), coq_f64(*gmax)
                ));
            }
        }
        let term = format!(
            "corr_svr_trace {} {} {} {} {} {} {} {} {} {}",
            ks, coq_f64(eps), coq_f64(c), coq_f64(tol), coq_rows_f64(x), coq_list_f64(y), coq_list(events), coq_rows_f64(&r.inst), coq_list_f64(&r.w), coq_f64(r.b)
        );
        out.corr("svr_trace", term, input.clone());
    }
    let term = format!(
        "corr_svr_fit {} {} {} {} {} {} {} {} {} {}",
        ks, coq_f64(eps), coq_f64(c), coq_f64(tol), coq_n(r.iterations + 3), coq_rows_f64(x), coq_list_f64(y), coq_rows_f64(&r.inst), coq_list_f64(&r.w), coq_f64(r.b)
    );
    out.corr("svr_fit", term, input.clone());
    let tolk = if *k == Kern::Linear { 0.0 } else { 1e-9 };
    let term = format!(
        "corr_svr_model {} {} {} {} {} {} {} {} {}",
        k.coq(), coq_f64(c), coq_rows_f64(x), coq_rows_f64(&r.inst), coq_list_f64(&r.w), coq_f64(r.b), coq_rows_f64(x), coq_list_f64(&r.pred), coq_f64(tolk)
    );
    out.corr("svr_model", term, input);
}

fn corr_kernel(out: &mut Out, k: &Kern, a: &Vec<f64>, b: &Vec<f64>) {
    if let Ok((v, vs)) = guard(|| (k.apply_impl(a, b), k.apply_impl(b, a))) {
        if !v.is_finite() {
            return;
        }
        out.corr("kernel", format!("corr_kernel {} {} {} {} {}", k.coq(), coq_list_f64(a), coq_list_f64(b), coq_f64(v), coq_f64(vs)), kernel_input(k, a, b));
    }
}

/// kernels on offset rows: linear bit for bit, the others within 1e-11 relative (software exp / ln in the
/// binary64 instance of the model; the exponent gamma*||a-b||^2 itself is formed exactly as in the code)
fn corr_kernel_offset(out: &mut Out, k: &Kern, a: &Vec<f64>, b: &Vec<f64>) {
    if let Ok((v, vs)) = guard(|| (k.apply_impl(a, b), k.apply_impl(b, a))) {
        if !v.is_finite() || (v != 0.0 && v.abs() < 1e-290) {
            return;
        }
        out.corr(
            "kernel_offset",
            // tanh near 0 is (e-1)/(e+1) in the model: absolute accuracy only
            format!("corr_kernel_tol {} {} {} {} {} {} {}", k.coq(), coq_list_f64(a), coq_list_f64(b), coq_f64(v), coq_f64(vs), coq_f64(1e-11), coq_f64(if matches!(k, Kern::Sigmoid(..)) { 1e-13 } else { 1e-300 })),
            kernel_offset_input(k, a, b, Prec::F64),
        );
    }
}

// ------------------------------------------------------------------------------------------
// api_trait_twin: fit / predict through `smartcore::api::{SupervisedEstimator, Predictor}` give exactly
// what the inherent methods give on the training matrix and on fresh rows.  SVR::fit is a function of its
// arguments: the two fitted models and all four predictions must coincide.  SVC::fit draws its visiting
// order from an unseeded generator: only trait-predict vs inherent-predict on the SAME model is compared
// (for the model fitted through the trait and for the one fitted by the inherent fit) and Ok/Err of the fits.
// ------------------------------------------------------------------------------------------
#[derive(Clone, Debug)]
struct TwinSvm {
    svc: bool,
    k: Kern,
    x: Vec<Vec<f64>>,
    y: Vec<f64>,
    c: f64,
    eps: f64,
    epoch: usize,
    tol: f64,
    q: Vec<Vec<f64>>,
}
impl TwinSvm {
    fn to_json(&self) -> Value {
        json!({"entry": "twin", "oracle": twin::ORACLE, "estimator": if self.svc { "SVC" } else { "SVR" }, "kernel": self.k.to_json(), "x": self.x, "y": self.y,
               "c": self.c, "eps": self.eps, "epoch": self.epoch, "tol": self.tol, "q": self.q})
    }
    fn from_json(v: &Value) -> TwinSvm {
        TwinSvm {
            svc: v["estimator"].as_str() != Some("SVR"),
            k: Kern::from_json(&v["kernel"]),
            x: rows_from_json(&v["x"]),
            y: f64s_from_json(&v["y"]),
            c: v["c"].as_f64().unwrap_or(1.0),
            eps: v["eps"].as_f64().unwrap_or(0.1),
            epoch: v["epoch"].as_u64().unwrap_or(2) as usize,
            tol: v["tol"].as_f64().unwrap_or(1e-3),
            q: rows_from_json(&v["q"]),
        }
    }
}
fn twin_svm_k<K>(k: K, t: &TwinSvm) -> Option<twin::Diff>
where
    K: Kernel<f64, Vec<f64>> + serde::Serialize + Clone,
{
    type DM = DenseMatrix<f64>;
    let xm = dense(&t.x);
    let qm = dense(&t.q);
    let yv = t.y.clone();
    let probes = [("the training matrix", &xm), ("the fresh rows", &qm)];
    if t.svc {
        let p = SVCParameters::<f64, DM, LinearKernel>::default().with_c(t.c).with_epoch(t.epoch).with_tol(t.tol).with_kernel(k);
        twin::check(
            "SupervisedEstimator",
            "Predictor",
            "predict",
            || twin::fit_sup::<SVC<f64, DM, K>, _, _, _>(&xm, &yv, p.clone()),
            || SVC::<f64, DM, K>::fit(&xm, &yv, p.clone()),
            |m: &SVC<f64, DM, K>, z: &DM| twin::predict(m, z),
            |m: &SVC<f64, DM, K>, z: &DM| m.predict(z),
            &probes,
            |_m: &SVC<f64, DM, K>| String::new(),
            false,
        )
    } else {
        let p = SVRParameters::<f64, DM, LinearKernel>::default().with_c(t.c).with_eps(t.eps).with_tol(t.tol).with_kernel(k);
        twin::check(
            "SupervisedEstimator",
            "Predictor",
            "predict",
            || twin::fit_sup::<SVR<f64, DM, K>, _, _, _>(&xm, &yv, p.clone()),
            || SVR::<f64, DM, K>::fit(&xm, &yv, p.clone()),
            |m: &SVR<f64, DM, K>, z: &DM| twin::predict(m, z),
            |m: &SVR<f64, DM, K>, z: &DM| m.predict(z),
            &probes,
            |m: &SVR<f64, DM, K>| serde_json::to_string(m).unwrap_or_default(),
            true,
        )
    }
}
thread_local! {
    static TWIN_HANGS: std::cell::Cell<usize> = std::cell::Cell::new(0);
}
/// None = the comparison did not return within the watchdog (not judged here)
fn twin_svm(t: &TwinSvm) -> Option<Option<twin::Diff>> {
    if t.x.is_empty() || t.x[0].is_empty() || t.q.is_empty() {
        return Some(None);
    }
    let t = t.clone();
    let r = with_watchdog(30, move || match &t.k {
        Kern::Linear => twin_svm_k(Kernels::linear(), &t),
        Kern::Rbf(g) => twin_svm_k(Kernels::rbf(*g), &t),
        Kern::Poly(d, g, c0) => twin_svm_k(Kernels::polynomial(*d, *g, *c0), &t),
        Kern::Sigmoid(g, c0) => twin_svm_k(Kernels::sigmoid(*g, *c0), &t),
    });
    match r {
        None => None,
        Some(Err(msg)) => Some(Some(twin::Diff { call: "harness".into(), what: format!("the twin comparison itself panicked: {}", msg) })),
        Some(Ok(d)) => Some(d),
    }
}
fn check_twin(out: &mut Out, t: &TwinSvm) -> bool {
    if HANGS.with(|h| h.get()) >= 3 || TWIN_HANGS.with(|h| h.get()) >= 2 {
        out.count("twin:skipped-after-hangs");
        return true;
    }
    let mut key: Vec<f64> = t.x.iter().flatten().cloned().collect();
    key.extend(&t.y);
    key.extend(t.q.iter().flatten());
    key.extend(&[t.c, t.eps, t.epoch as f64, t.tol, -7.0]);
    out.eval(hash_f64s(&key) ^ hash_of(&t.k.name()), t.x.len() >= 4);
    out.count(&format!("twin:{}:{}", if t.svc { "svc" } else { "svr" }, t.k.name()));
    match twin_svm(t) {
        None => {
            TWIN_HANGS.with(|h| h.set(h.get() + 1));
            out.count("twin:watchdog(not judged)");
            true
        }
        Some(None) => true,
        Some(Some(_)) => {
            // shrink: fewer fresh rows, fewer training rows
            let mut cur = t.clone();
            let mut progress = true;
            let mut budget = 120;
            while progress && budget > 0 {
                progress = false;
                let mut i = 0;
                while cur.q.len() > 1 && i < cur.q.len() && budget > 0 {
                    let mut c = cur.clone();
                    c.q.remove(i);
                    budget -= 1;
                    if matches!(twin_svm(&c), Some(Some(_))) { cur = c; progress = true; } else { i += 1; }
                }
                let mut i = 0;
                while cur.x.len() > 4 && i < cur.x.len() && budget > 0 {
                    let mut c = cur.clone();
                    c.x.remove(i);
                    c.y.remove(i);
                    budget -= 1;
                    let two = !c.svc || c.y.iter().any(|v| *v != c.y[0]);
                    if two && matches!(twin_svm(&c), Some(Some(_))) { cur = c; progress = true; } else { i += 1; }
                }
            }
            let (cur, d) = match twin_svm(&cur) {
                Some(Some(d)) => (cur, d),
                _ => match twin_svm(t) {
                    Some(Some(d)) => (t.clone(), d),
                    _ => return true, // not reproducible (SVC schedules differ from run to run): not reported without a replay
                },
            };
            let mut w = cur.to_json();
            w["differing_call"] = json!(d.call);
            out.count(&format!("twin:failing:{}", if t.svc { "SVC" } else { "SVR" }));
            out.fail(twin::ORACLE, &format!("{} ({} kernel): {}: {}", if t.svc { "SVC" } else { "SVR" }, t.k.name(), d.call, d.what), w);
            false
        }
    }
}

// ------------------------------------------------------------------------------------------
/// one replay / corpus input evaluated by the oracle of its entry; false = unknown entry
fn run_entry(out: &mut Out, rng: &mut Rng, inp: &Value, family: &str) -> bool {
    let k = Kern::from_json(&inp["kernel"]);
    match inp["entry"].as_str().unwrap_or("") {
        "svc" => {
            let x = rows_from_json(&inp["x"]);
            let y = f64s_from_json(&inp["y"]);
            let reps = inp["reps"].as_u64().unwrap_or(50).max(50) as usize;
            check_svc(out, rng, &k, &x, &y, inp["c"].as_f64().unwrap(), inp["epoch"].as_u64().unwrap() as usize, inp["tol"].as_f64().unwrap(), reps, family);
        }
        "svr" => {
            let x = rows_from_json(&inp["x"]);
            let y = f64s_from_json(&inp["y"]);
            let mut worst = f64::NEG_INFINITY;
            check_svr(out, &k, &x, &y, inp["eps"].as_f64().unwrap(), inp["c"].as_f64().unwrap(), inp["tol"].as_f64().unwrap(), family, &mut worst);
        }
        "kernel" => {
            check_kernel(out, &k, &f64s_from_json(&inp["a"]), &f64s_from_json(&inp["b"]));
        }
        "gram" => {
            check_gram(out, &k, &rows_from_json(&inp["x"]));
        }
        "kernel_offset" => {
            let mut acc = Acc::default();
            check_kernel_offset(out, &k, &f64s_from_json(&inp["a"]), &f64s_from_json(&inp["b"]), Prec::from_json(&inp["prec"]), "replay", &mut acc);
        }
        "gram_offset" => {
            let mut m = 0.0;
            check_gram_offset(out, &k, &rows_from_json(&inp["x"]), Prec::from_json(&inp["prec"]), "replay", &mut m);
        }
        "twin" => {
            let t = TwinSvm::from_json(inp);
            // SVC: one random schedule per fit; a handful of repetitions
            for _ in 0..(if t.svc { 5 } else { 1 }) {
                if !check_twin(out, &t) {
                    break;
                }
            }
        }
        _ => return false,
    }
    true
}

fn replay(path: &str) -> i32 {
    let v = read_replay(path);
    let inp = if v.get("input").is_some() { v["input"].clone() } else { v.clone() };
    let mut out = Out::new("C10", "replay");
    let mut rng = Rng::new(7);
    if let (Some(entry), Some(c)) = (inp["entry"].as_str(), inp["c"].as_f64()) {
        let threshold = if entry == "svc" { Some(1e3) } else if entry == "svr" { inp["tol"].as_f64() } else { None };
        if let Some(th) = threshold {
            if in_known_noise_regime(&Kern::from_json(&inp["kernel"]), &rows_from_json(&inp["x"]), c, th) {
                // inside the regime of the listed non-termination findings a fit of this size returns in
                // milliseconds or (1000x slower or) not at all
                WATCHDOG.with(|w| w.set(Some(4)));
            }
        }
    }
    if !run_entry(&mut out, &mut rng, &inp, "replay") {
        eprintln!("unknown replay entry");
        return 2;
    }
    if out.n_fail() > 0 {
        println!("REPLAY: property=C10 still fails: {}", path);
        1
    } else {
        println!("REPLAY: property=C10 passes: {}", path);
        0
    }
}

fn main() {
    quiet_panics();
    let a = args();
    if let Some(p) = &a.replay {
        std::process::exit(replay(p));
    }
    let mut rng = Rng::new(a.seed);
    let mut out = Out::new(
        "C10",
        "search case = one fit (SVC: data, labels, kernel, C, epochs, tol and one random visiting schedule; SVR: data, targets, kernel, eps, C, tol), one kernel evaluation or one Gram matrix; non-trivial: SVC with >= 2 rows of each class, SVR with >= 4 rows, kernel pair with a != b, Gram of >= 3 (offset families: pairwise distinct) rows; distinct by hash of (data, parameters, precision, repetition). Families: centred data (coordinates of order 1, scales 0.01..10) and offset data (rows = common offset + spread, offset/spread 1e3..1e9 in f64 and 3e2..1e4 in f32, incl. UNIX timestamps, map coordinates, Kelvin) for kernels, Gram matrices and RBF fits. api-trait twin case = one SVC / SVR fit (centred data, any kernel) fitted and queried through smartcore::api::{SupervisedEstimator, Predictor} and through the inherent methods: predictions must coincide bit for bit (SVR: also across the two fits; SVC: on the same fitted model, its fit being randomised)",
    );
    let t = a.thorough;

    // ---- regression corpus: the data sets of the crate's own tests, checked by the oracles ----
    let iris: Vec<Vec<f64>> = vec![
        vec![5.1, 3.5, 1.4, 0.2], vec![4.9, 3.0, 1.4, 0.2], vec![4.7, 3.2, 1.3, 0.2], vec![4.6, 3.1, 1.5, 0.2], vec![5.0, 3.6, 1.4, 0.2],
        vec![5.4, 3.9, 1.7, 0.4], vec![4.6, 3.4, 1.4, 0.3], vec![5.0, 3.4, 1.5, 0.2], vec![4.4, 2.9, 1.4, 0.2], vec![4.9, 3.1, 1.5, 0.1],
        vec![7.0, 3.2, 4.7, 1.4], vec![6.4, 3.2, 4.5, 1.5], vec![6.9, 3.1, 4.9, 1.5], vec![5.5, 2.3, 4.0, 1.3], vec![6.5, 2.8, 4.6, 1.5],
        vec![5.7, 2.8, 4.5, 1.3], vec![6.3, 3.3, 4.7, 1.6], vec![4.9, 2.4, 3.3, 1.0], vec![6.6, 2.9, 4.6, 1.3], vec![5.2, 2.7, 3.9, 1.4],
    ];
    let iris_y: Vec<f64> = (0..20).map(|i| if i < 8 { 0.0 } else { 1.0 }).collect();
    check_svc(&mut out, &mut rng, &Kern::Linear, &iris, &iris_y, 200.0, 2, 1e-3, 5, "corpus");
    check_svc(&mut out, &mut rng, &Kern::Rbf(0.7), &iris, &iris_y, 1.0, 2, 1e-3, 5, "corpus");
    let mut worst = f64::NEG_INFINITY;
    {
        let x: Vec<Vec<f64>> = iris.iter().map(|r| r[..3].to_vec()).collect();
        let y: Vec<f64> = iris.iter().map(|r| r[3]).collect();
        check_svr(&mut out, &Kern::Linear, &x, &y, 0.1, 1.0, 1e-3, "corpus", &mut worst);
        check_svr(&mut out, &Kern::Rbf(0.5), &x, &y, 0.0, 10.0, 1e-3, "corpus", &mut worst);
    }

    // ---- correspondence: kernels ----
    for i in 0..(if t { 400 } else { 96 }) {
        let p = rng.usize_in(1, 5);
        let k = match i % 4 {
            0 => Kern::Linear,
            1 => Kern::Rbf(*rng.pick(&[0.055, 0.25, 0.5, 0.7, 2.0])),
            2 => Kern::Poly(*rng.pick(&[1.0, 2.0, 3.0, 0.5, 2.5]), *rng.pick(&[0.5, 1.0, 0.25]), *rng.pick(&[0.0, 1.0, 0.5])),
            _ => Kern::Sigmoid(*rng.pick(&[0.01, 0.1, 0.5]), *rng.pick(&[0.0, 0.1, 1.0, -0.5])),
        };
        let lattice = rng.bool();
        let va: Vec<f64> = (0..p).map(|_| if lattice { rng.dyadic(3, 2) } else { rng.uniform(-2.0, 2.0) }).collect();
        let vb: Vec<f64> = (0..p).map(|_| if lattice { rng.dyadic(3, 2) } else { rng.uniform(-2.0, 2.0) }).collect();
        if let Kern::Poly(d, g, c0) = &k {
            // a negative base with a fractional degree is NaN on both sides; not interesting
            let dot: f64 = va.iter().zip(&vb).map(|(u, v)| u * v).sum();
            if d.fract() != 0.0 && g * dot + c0 <= 0.0 {
                continue;
            }
        }
        corr_kernel(&mut out, &k, &va, &vb);
    }
    // the crate's own test vectors
    corr_kernel(&mut out, &Kern::Linear, &vec![1., 2., 3.], &vec![4., 5., 6.]);
    corr_kernel(&mut out, &Kern::Rbf(0.055), &vec![1., 2., 3.], &vec![4., 5., 6.]);
    corr_kernel(&mut out, &Kern::Poly(3.0, 0.5, 1.0), &vec![1., 2., 3.], &vec![4., 5., 6.]);
    corr_kernel(&mut out, &Kern::Sigmoid(0.01, 0.1), &vec![1., 2., 3.], &vec![4., 5., 6.]);

    // ---- correspondence: SVC traces, whole fits on the recorded orders, fitted models ----
    for i in 0..(if t { 400 } else { 110 }) {
        let n = rng.usize_in(4, if i % 3 == 0 { 12 } else { 7 });
        let p = rng.usize_in(1, 3);
        let lattice = i % 4 != 3;
        let (sep, lp) = (rng.bool(), label_pair(&mut rng));
        let (x, y) = gen_classification(&mut rng, n, p, lattice, sep, lp);
        let k = if i % 2 == 0 { Kern::Linear } else { random_kernel(&mut rng, p) };
        let c = *rng.pick(&[0.125, 0.5, 1.0, 4.0, 10.0, 100.0]);
        let epoch = rng.usize_in(1, 2);
        let tol = *rng.pick(&[1e-2, 1e-3, 1e-4]);
        corr_svc(&mut out, &mut rng, &k, &x, &y, c, epoch, tol);
    }
    // ---- correspondence: SVR traces, whole fits, fitted models ----
    for i in 0..(if t { 400 } else { 110 }) {
        let n = rng.usize_in(4, if i % 3 == 0 { 10 } else { 6 });
        let p = rng.usize_in(1, 3);
        let lattice = i % 4 != 3;
        let (x, y) = gen_regression(&mut rng, n, p, lattice);
        let k = match i % 4 {
            0 | 2 => Kern::Linear,
            1 => Kern::Rbf(*rng.pick(&[0.25, 0.5, 1.0])),
            _ => Kern::Poly(2.0, 0.5, 1.0),
        };
        let c = *rng.pick(&[0.125, 0.5, 1.0, 4.0, 10.0]);
        let eps = *rng.pick(&[0.0, 0.125, 0.25, 0.5]);
        let tol = *rng.pick(&[1e-2, 1e-3]);
        corr_svr(&mut out, &k, &x, &y, eps, c, tol);
    }

    // ---- search: SVC, the property's quantifier ----
    let cs = [0.1, 0.5, 1.0, 3.0, 10.0, 100.0];
    let tols = [1e-2, 1e-3, 1e-4];
    for i in 0..(if t { 12000 } else { 1500 }) {
        let n = if i % 5 == 0 { rng.usize_in(40, 80) } else { rng.usize_in(4, 40) };
        let p = rng.usize_in(1, 5);
        let lp = label_pair(&mut rng);
        let (x, y) = gen_classification(&mut rng, n, p, i % 7 == 0, i % 2 == 0, lp);
        let k = random_kernel(&mut rng, p);
        let c = *rng.pick(&cs);
        let epoch = rng.usize_in(1, 4);
        let tol = *rng.pick(&tols);
        let ok = check_svc(&mut out, &mut rng, &k, &x, &y, c, epoch, tol, if t { 4 } else { 3 }, "random");
        if ok && i < 2 {
            out.sample(json!({"svc": {"n": n, "p": p, "kernel": k.to_json(), "c": c, "epoch": epoch, "tol": tol, "x0": x[0], "y": y}}));
        }
    }
    // n <= 5 with many repetitions (each fit is one schedule out of n!)
    for i in 0..(if t { 2500 } else { 300 }) {
        let n = rng.usize_in(4, 5);
        let p = rng.usize_in(1, 3);
        let lp = label_pair(&mut rng);
        let (x, y) = gen_classification(&mut rng, n, p, i % 2 == 0, i % 3 == 0, lp);
        let k = random_kernel(&mut rng, p);
        let c = *rng.pick(&cs);
        let (ep, tl) = (rng.usize_in(1, 4), *rng.pick(&tols));
        check_svc(&mut out, &mut rng, &k, &x, &y, c, ep, tl, if t { 60 } else { 30 }, "tiny-many-schedules");
    }

    // ---- search: SVR ----
    for i in 0..(if t { 8000 } else { 1200 }) {
        let n = if i % 6 == 0 { rng.usize_in(40, 80) } else { rng.usize_in(4, 40) };
        let p = rng.usize_in(1, 5);
        let (x, y) = gen_regression(&mut rng, n, p, i % 7 == 0);
        let k = match rng.below(10) {
            0 | 1 | 2 | 3 => Kern::Linear,
            4 | 5 | 6 => Kern::Rbf(*rng.pick(&[0.1, 0.5, 1.0])),
            7 | 8 => Kern::Poly(*rng.pick(&[1.0, 2.0, 3.0]), *rng.pick(&[0.25, 0.5, 1.0 / p as f64]), *rng.pick(&[0.0, 1.0])),
            _ => Kern::Sigmoid(0.1, 0.0),
        };
        let c = *rng.pick(&cs);
        let eps = *rng.pick(&[0.0, 0.05, 0.1, 0.3, 0.5]);
        let tol = *rng.pick(&tols);
        let ok = check_svr(&mut out, &k, &x, &y, eps, c, tol, "random", &mut worst);
        if ok && i < 2 {
            out.sample(json!({"svr": {"n": x.len(), "p": p, "kernel": k.to_json(), "c": c, "eps": eps, "tol": tol, "x0": x[0], "y0": y[0]}}));
        }
    }
    out.set("svr_worst_kkt_excess_over_half_tol", json!(worst));

    // ---- search: kernels vs closed forms, symmetry; Gram matrices ----
    for _ in 0..(if t { 40000 } else { 5000 }) {
        let p = rng.usize_in(1, 6);
        let k = match rng.below(4) {
            0 => Kern::Linear,
            1 => Kern::Rbf(rng.uniform(0.01, 3.0)),
            2 => Kern::Poly(*rng.pick(&[1.0, 2.0, 3.0, 4.0, 0.5, 2.5]), rng.uniform(0.1, 1.5), *rng.pick(&[0.0, 0.5, 1.0])),
            _ => Kern::Sigmoid(rng.uniform(0.01, 0.5), rng.uniform(-1.0, 1.0)),
        };
        let scale = *rng.pick(&[1.0, 1.0, 10.0, 0.01]);
        let va: Vec<f64> = (0..p).map(|_| rng.normal() * scale).collect();
        let vb: Vec<f64> = if rng.chance(0.1) { va.clone() } else { (0..p).map(|_| rng.normal() * scale).collect() };
        if let Kern::Poly(d, g, c0) = &k {
            let dot: f64 = va.iter().zip(&vb).map(|(u, v)| u * v).sum();
            if d.fract() != 0.0 && g * dot + c0 <= 0.0 {
                out.count("search:kernel:excluded(negative base, fractional degree)");
                continue;
            }
        }
        check_kernel(&mut out, &k, &va, &vb);
    }
    for i in 0..(if t { 3000 } else { 400 }) {
        let n = rng.usize_in(2, if t { 20 } else { 12 });
        let p = rng.usize_in(1, 5);
        let x: Vec<Vec<f64>> = (0..n).map(|_| (0..p).map(|_| rng.uniform(-2.0, 2.0)).collect()).collect();
        let k = if i % 2 == 0 { Kern::Linear } else { Kern::Rbf(rng.uniform(0.05, 2.0)) };
        check_gram(&mut out, &k, &x);
    }

    // ---- api-trait twins (the last draws from `rng`: the streams of the sections above and of the offset
    //      families below are unchanged; before the families whose fits may leave spinning threads behind) ----
    for i in 0..(if t { 500 } else { 60 }) {
        let svc = i % 2 == 0;
        let n = rng.usize_in(4, 24);
        let p = rng.usize_in(1, 4);
        let (x, y) = if svc {
            let lp = label_pair(&mut rng);
            gen_classification(&mut rng, n, p, i % 7 == 0, i % 4 == 0, lp)
        } else {
            gen_regression(&mut rng, n, p, i % 7 == 1)
        };
        // the kernel distributions of the SVC resp. SVR search above (no fit of these families ever hung)
        let k = if svc {
            random_kernel(&mut rng, p)
        } else {
            match rng.below(10) {
                0 | 1 | 2 | 3 => Kern::Linear,
                4 | 5 | 6 => Kern::Rbf(*rng.pick(&[0.1, 0.5, 1.0])),
                7 | 8 => Kern::Poly(*rng.pick(&[1.0, 2.0, 3.0]), *rng.pick(&[0.25, 0.5, 1.0 / p as f64]), *rng.pick(&[0.0, 1.0])),
                _ => Kern::Sigmoid(0.1, 0.0),
            }
        };
        let q: Vec<Vec<f64>> = (0..3).map(|_| (0..p).map(|_| rng.dyadic(4, 2)).collect()).collect();
        let tw = TwinSvm { svc, k, x, y, c: *rng.pick(&cs), eps: *rng.pick(&[0.0, 0.05, 0.1, 0.3, 0.5]), epoch: rng.usize_in(1, 3), tol: *rng.pick(&tols), q };
        check_twin(&mut out, &tw);
    }

    // ---- offset families (rows = large common offset + small spread), own stream derived from the seed ----
    let mut orng = Rng::new(a.seed ^ 0x0ff5_e7c1_0c10);
    out.max_failures = 16; // room for one replay per failing clause of each offset family
    let mut acc = Acc::default();
    // fixed examples of un-centred data: event times (UNIX seconds), surveyed map coordinates (metres),
    // temperatures in Kelvin stored as f32 -- every pair and the Gram matrix
    {
        let stamps: Vec<Vec<f64>> = [0.0, 5.0, 12.0, 30.0, 31.0, 75.0, 140.0, 141.5].iter().map(|d| vec![1.6e9 + d]).collect();
        let survey: Vec<Vec<f64>> = vec![
            vec![512_340.10, 5_403_871.25], vec![512_340.13, 5_403_871.27], vec![512_340.60, 5_403_871.25],
            vec![512_341.10, 5_403_872.00], vec![512_338.75, 5_403_870.50], vec![512_340.11, 5_403_871.25],
        ];
        let kelvin: Vec<Vec<f64>> = [[293.15f32, 295.40, 301.20], [293.25, 295.30, 301.30], [293.20, 295.45, 301.15], [294.15, 295.90, 300.70], [293.16, 295.41, 301.21]]
            .iter()
            .map(|r| r.iter().map(|v| *v as f64).collect())
            .collect();
        let mut mneg = 0.0;
        for (rows, g, prec, name) in [(&stamps, 1.0 / 7200.0, Prec::F64, "corpus:timestamps"), (&survey, 1.0, Prec::F64, "corpus:map-coordinates"), (&survey, 10.0, Prec::F64, "corpus:map-coordinates"), (&kelvin, 5.0, Prec::F32, "corpus:kelvin")] {
            for k in [Kern::Rbf(g), Kern::Linear] {
                for i in 0..rows.len() {
                    for j in 0..=i {
                        check_kernel_offset(&mut out, &k, &rows[i], &rows[j], prec, name, &mut acc);
                    }
                }
                check_gram_offset(&mut out, &k, rows, prec, name, &mut mneg);
            }
        }
    }
    // search: the four kernels against the careful closed form, symmetry, K(x,x), 2x2 minors
    for prec in [Prec::F64, Prec::F32] {
        let cases = match (prec, t) {
            (Prec::F64, false) => 4000,
            (Prec::F64, true) => 30000,
            (Prec::F32, false) => 1500,
            (Prec::F32, true) => 10000,
        };
        for i in 0..cases {
            let p = orng.usize_in(1, 6);
            let fr = offset_frame(&mut orng, p, prec);
            let k = fr.kernel(&mut orng, i % 4, p, prec);
            let ca: Vec<f64> = (0..p).map(|_| orng.normal()).collect();
            let va = fr.place(&ca, prec);
            let vb = if orng.chance(0.1) {
                va.clone()
            } else if orng.chance(0.15) {
                // a close neighbour: one coordinate moved by a small fraction of the spread
                let mut c = ca.clone();
                let j = orng.below(p);
                c[j] += *orng.pick(&[0.01, 0.05, 0.25]);
                fr.place(&c, prec)
            } else {
                let cb: Vec<f64> = (0..p).map(|_| orng.normal()).collect();
                fr.place(&cb, prec)
            };
            let ok = check_kernel_offset(&mut out, &k, &va, &vb, prec, &fr.bucket(), &mut acc);
            if ok && i < 1 {
                out.sample(json!({"kernel_offset": {"prec": prec.name(), "kernel": k.to_json(), "a": va, "b": vb, "offset/spread": fr.ratio}}));
            }
        }
    }
    out.set("offset_kernel_accuracy", acc.to_json());
    // search: Gram matrices on offset rows
    let mut most_negative = 0.0f64;
    for prec in [Prec::F64, Prec::F32] {
        let cases = match (prec, t) {
            (Prec::F64, false) => 400,
            (Prec::F64, true) => 3000,
            (Prec::F32, false) => 150,
            (Prec::F32, true) => 1000,
        };
        for i in 0..cases {
            let n = orng.usize_in(2, if t { 16 } else { 12 });
            let p = orng.usize_in(1, 4);
            let fr = offset_frame(&mut orng, p, prec);
            let k = if i % 4 == 0 { Kern::Linear } else { fr.kernel(&mut orng, 1, p, prec) };
            let x: Vec<Vec<f64>> = centred_rows(&mut orng, n, p).iter().map(|r| fr.place(r, prec)).collect();
            check_gram_offset(&mut out, &k, &x, prec, &fr.bucket(), &mut most_negative);
        }
    }
    out.set("offset_gram_most_negative_eigenvalue_over_tolerance", json!(most_negative));
    let mut offset_fit_failures = 0;
    // search: SVC / SVR fits on offset data (RBF kernel: shift-invariant, so the fit is as well-posed as on centred data)
    for i in 0..(if t { 1500 } else { 160 }) {
        let n = orng.usize_in(4, if i % 5 == 0 { 40 } else { 16 });
        let p = orng.usize_in(1, 4);
        let fr = offset_frame(&mut orng, p, Prec::F64);
        let lp = label_pair(&mut orng);
        let (cx, y) = gen_classification(&mut orng, n, p, i % 7 == 0, i % 2 == 0, lp);
        let x: Vec<Vec<f64>> = cx.iter().map(|r| fr.place(r, Prec::F64)).collect();
        let k = Kern::Rbf(*orng.pick(&[0.05, 0.25, 0.5, 1.0, 2.0]) / (fr.spread * fr.spread));
        let c = *orng.pick(&cs);
        let (ep, tl) = (orng.usize_in(1, 3), *orng.pick(&tols));
        if !check_svc(&mut out, &mut orng, &k, &x, &y, c, ep, tl, 2, &format!("offset:{}", fr.bucket())) {
            offset_fit_failures += 1;
            if offset_fit_failures >= 2 {
                out.count("search:svc:offset:stopped-after-2-failing-inputs");
                break;
            }
        }
    }
    offset_fit_failures = 0;
    for i in 0..(if t { 1500 } else { 160 }) {
        let n = orng.usize_in(4, if i % 5 == 0 { 40 } else { 16 });
        let p = orng.usize_in(1, 4);
        let fr = offset_frame(&mut orng, p, Prec::F64);
        let (cx, y) = gen_regression(&mut orng, n, p, i % 7 == 0);
        let x: Vec<Vec<f64>> = cx.iter().map(|r| fr.place(r, Prec::F64)).collect();
        if (0..x.len()).any(|i| (0..i).any(|j| x[i] == x[j])) {
            out.count("search:svr:offset:excluded(rows coincide after rounding)");
            continue;
        }
        let k = Kern::Rbf(*orng.pick(&[0.1, 0.5, 1.0]) / (fr.spread * fr.spread));
        let c = *orng.pick(&cs);
        let eps = *orng.pick(&[0.0, 0.05, 0.1, 0.3, 0.5]);
        let tl = *orng.pick(&tols);
        if !check_svr(&mut out, &k, &x, &y, eps, c, tl, &format!("offset:{}", fr.bucket()), &mut worst) {
            offset_fit_failures += 1;
            if offset_fit_failures >= 2 {
                out.count("search:svr:offset:stopped-after-2-failing-inputs");
                break;
            }
        }
    }
    // correspondence: the kernel model (differences first, like the code) against the implementation on offset rows
    for i in 0..(if t { 240 } else { 64 }) {
        let p = orng.usize_in(1, 4);
        let fr = offset_frame(&mut orng, p, Prec::F64);
        let k = fr.kernel(&mut orng, i % 4, p, Prec::F64);
        let ca: Vec<f64> = (0..p).map(|_| orng.normal()).collect();
        let cb: Vec<f64> = (0..p).map(|_| orng.normal()).collect();
        corr_kernel_offset(&mut out, &k, &fr.place(&ca, Prec::F64), &fr.place(&cb, Prec::F64));
    }
    // the seeded examples: timestamps a few seconds apart, map coordinates centimetres apart
    corr_kernel_offset(&mut out, &Kern::Rbf(1.0 / 7200.0), &vec![1.6e9 + 140.0], &vec![1.6e9 + 141.5]);
    corr_kernel_offset(&mut out, &Kern::Rbf(1.0), &vec![512_340.10, 5_403_871.25], &vec![512_340.13, 5_403_871.27]);
    // correspondence: fits on offset data (optimizer replays on the implementation's Gram table, fitted model
    // against the expansion with the model's own kernel formula)
    for i in 0..(if t { 40 } else { 10 }) {
        let n = orng.usize_in(4, 7);
        let p = orng.usize_in(1, 3);
        let fr = offset_frame(&mut orng, p, Prec::F64);
        let g = *orng.pick(&[0.25, 0.5, 1.0]) / (fr.spread * fr.spread);
        if i % 2 == 0 {
            let (sep, lp) = (orng.bool(), label_pair(&mut orng));
            let (cx, y) = gen_classification(&mut orng, n, p, true, sep, lp);
            let x: Vec<Vec<f64>> = cx.iter().map(|r| fr.place(r, Prec::F64)).collect();
            let c = *orng.pick(&[0.5, 1.0, 10.0]);
            corr_svc(&mut out, &mut orng, &Kern::Rbf(g), &x, &y, c, 1, 1e-3);
        } else {
            let (cx, y) = gen_regression(&mut orng, n, p, true);
            let x: Vec<Vec<f64>> = cx.iter().map(|r| fr.place(r, Prec::F64)).collect();
            if (0..x.len()).any(|i| (0..i).any(|j| x[i] == x[j])) {
                continue;
            }
            corr_svr(&mut out, &Kern::Rbf(g), &x, &y, *orng.pick(&[0.0, 0.125, 0.25]), *orng.pick(&[0.5, 1.0, 10.0]), 1e-3);
        }
    }
    out.set("svr_worst_kkt_excess_over_half_tol", json!(worst));
    // ---- linear / polynomial kernel fits on offset data (the RBF fits above are shift-invariant; these are not) ----
    // Decided from the data, not from the generator: the rounding noise of the incrementally updated gradients,
    // u*C*n*max|K|, against the ABSOLUTE threshold the optimizer compares them with (SVC settle loop: 1000; SVR
    // exit test: tol).
    //  * noise <= 1e-3 threshold, offset/spread 1e3..1e6, spread <= 1: the fit must return (default watchdogs) and
    //    satisfy every oracle;
    //  * noise above that (the predicate of the listed findings svc-/svr-offset-no-termination): a fit that does
    //    not return within a 1 s watchdog (such fits take milliseconds when they return) is the known finding, a returned model is judged by every oracle;
    //  * noise below it but offset/spread >= 1e7 or spread 60 (slowly converging, not measured at scale): counted only.
    // The thread of a fit that does not return keeps spinning until exit: few of them per run, and late.
    let dot_fit = |orng: &mut Rng, i: usize, ratios: &[f64], spreads: &[f64]| {
        let ratio = *orng.pick(ratios);
        let spread = *orng.pick(spreads);
        let n = orng.usize_in(4, if i % 5 == 0 { 40 } else { 16 });
        let p = orng.usize_in(1, 4);
        let fr = ratio_frame(orng, p, ratio, spread);
        let k = dot_kernel(orng, &fr);
        (n, p, fr, k)
    };
    let kname = |k: &Kern| match k {
        Kern::Poly(_, g, _) if *g > 0.09 => "plain-gamma",
        Kern::Poly(..) => "scaled-gamma",
        _ => "dot",
    };
    let max_known = if t { 3 } else { 1 };
    for (zone, ratios, spreads, cases) in [
        ("below", &[1e3, 1e4, 1e5, 1e6][..], &[1.0, 1.0, 0.125, 1e-3][..], if t { 3000 } else { 160 }),
        ("above", &[1e7, 1e8, 1e9, 3e9, 1e5][..], &[1.0, 60.0][..], if t { 260 } else { 24 }),
    ] {
        let (mut svc_known, mut svr_known) = (0, 0);
        for i in 0..cases {
            let (n, p, fr, k) = dot_fit(&mut orng, i, ratios, spreads);
            let n = if zone == "above" { n.min(16) } else { n };
            let c = *orng.pick(&cs);
            let tl = *orng.pick(&tols);
            let family = format!("offset-dot:{}:{}:{}", zone, fr.bucket(), kname(&k));
            if i % 2 == 0 {
                let lp = label_pair(&mut orng);
                let (cx, y) = gen_classification(&mut orng, n, p, i % 7 == 0, i % 4 == 0, lp);
                let x: Vec<Vec<f64>> = cx.iter().map(|r| fr.place(r, Prec::F64)).collect();
                let ep = orng.usize_in(1, 3);
                let regime = in_known_noise_regime(&k, &x, c, 1e3);
                if regime && svc_known >= max_known {
                    out.count("search:svc:offset-dot:not-run(enough fits of the known regime did not return)");
                } else if regime || zone == "below" {
                    WATCHDOG.with(|w| w.set(if regime { Some(1) } else { None }));
                    let before = KNOWN_HANGS.with(|h| h.get());
                    check_svc(&mut out, &mut orng, &k, &x, &y, c, ep, tl, 2, &format!("{}{}", family, if regime { ":known-regime" } else { "" }));
                    svc_known += KNOWN_HANGS.with(|h| h.get()) - before;
                    WATCHDOG.with(|w| w.set(None));
                } else if observe_svc(&mut out, &mut orng, &k, &x, &y, c, ep, tl, 2, &family) == "no-return" {
                    svc_known += 1;
                }
            } else {
                let (cx, y) = gen_regression(&mut orng, n, p, i % 7 == 0);
                let x: Vec<Vec<f64>> = cx.iter().map(|r| fr.place(r, Prec::F64)).collect();
                if (0..x.len()).any(|i| (0..i).any(|j| x[i] == x[j])) {
                    continue;
                }
                let eps = *orng.pick(&[0.0, 0.05, 0.1, 0.3, 0.5]);
                let regime = in_known_noise_regime(&k, &x, c, tl);
                if regime && svr_known >= max_known {
                    out.count("search:svr:offset-dot:not-run(enough fits of the known regime did not return)");
                } else if regime || zone == "below" {
                    WATCHDOG.with(|w| w.set(if regime { Some(1) } else { None }));
                    let before = KNOWN_HANGS.with(|h| h.get());
                    check_svr(&mut out, &k, &x, &y, eps, c, tl, &format!("{}{}", family, if regime { ":known-regime" } else { "" }), &mut worst);
                    svr_known += KNOWN_HANGS.with(|h| h.get()) - before;
                    WATCHDOG.with(|w| w.set(None));
                } else if observe_svr(&mut out, &k, &x, &y, eps, c, tl, 2, &family) == "no-return" {
                    svr_known += 1;
                }
            }
        }
    }
    out.set("svr_worst_kkt_excess_over_half_tol", json!(worst));
    // ---- corpus/C10/*.json: the shrunk witnesses of the listed findings, every run, LAST ----
    {
        WATCHDOG.with(|w| w.set(Some(1)));
        let dirs = [format!("{}/../corpus/C10", env!("CARGO_MANIFEST_DIR")), "/verif/corpus/C10".to_string()];
        if let Some(dir) = dirs.iter().find(|d| std::path::Path::new(d).is_dir()) {
            let mut files: Vec<_> = std::fs::read_dir(dir).map(|r| r.filter_map(|e| e.ok()).map(|e| e.path()).collect()).unwrap_or_default();
            files.sort();
            for f in files.iter().filter(|f| f.extension().map(|e| e == "json").unwrap_or(false)) {
                let v = read_replay(f.to_str().unwrap());
                let inp = if v.get("input").is_some() { v["input"].clone() } else { v.clone() };
                out.count("search:corpus-file");
                run_entry(&mut out, &mut orng, &inp, "corpus-file");
            }
        } else {
            out.count("search:corpus-dir-not-found");
        }
        WATCHDOG.with(|w| w.set(None));
    }
    out.finish(&a.out);
}
