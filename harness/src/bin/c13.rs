//! C13 — DBSCAN: correspondence cases for the Coq model (SC.C13.Corr) and the failing-input search.
//!
//! The search oracle is written from the property text (the definition of density-based clusters,
//! decided with a union-find over the core graph); it uses neither the model nor dbscan.rs nor the
//! search backends: neighbourhoods come from the full matrix of pairwise distances of the configured
//! metric.  Correspondence runs the Coq model on the neighbour lists that the implementation's own
//! search structures return (their order decides border labels) and compares labels exactly.
use serde::Serialize;
use serde_json::{json, Value};
use smartcore::algorithm::neighbour::cover_tree::CoverTree;
use smartcore::algorithm::neighbour::linear_search::LinearKNNSearch;
use smartcore::algorithm::neighbour::KNNAlgorithmName;
use smartcore::cluster::dbscan::{DBSCANParameters, DBSCAN};
use smartcore::math::distance::{Distance, Distances};
use vharness::*;

// ------------------------------------------------------------------------------------------
// cases
// ------------------------------------------------------------------------------------------
#[derive(Clone, Copy, Debug, PartialEq)]
enum Met {
    Euclid,
    Manhattan,
    Minkowski(u16),
    Hamming,
}
impl Met {
    fn name(&self) -> String {
        match self {
            Met::Euclid => "euclidian".into(),
            Met::Manhattan => "manhattan".into(),
            Met::Minkowski(p) => format!("minkowski{}", p),
            Met::Hamming => "hamming".into(),
        }
    }
    fn from_name(s: &str) -> Met {
        match s {
            "euclidian" => Met::Euclid,
            "manhattan" => Met::Manhattan,
            "hamming" => Met::Hamming,
            _ => Met::Minkowski(s.trim_start_matches("minkowski").parse().unwrap_or(3)),
        }
    }
}

#[derive(Clone, Debug)]
struct Case {
    x: Vec<Vec<f64>>,
    q: Vec<Vec<f64>>, // rows for predict
    eps: f64,
    minpts: usize,
    met: Met,
}
impl Case {
    fn json(&self) -> Value {
        json!({"entry": "fit_predict", "x": self.x, "queries": self.q, "eps": self.eps, "eps_bits": hex_f64(self.eps),
               "min_samples": self.minpts, "metric": self.met.name(), "n": self.x.len(), "dim": self.x[0].len()})
    }
    fn from_json(v: &Value) -> Case {
        let eps = match v["eps_bits"].as_str().and_then(|s| u64::from_str_radix(s, 16).ok()) {
            Some(b) => f64::from_bits(b),
            None => v["eps"].as_f64().unwrap_or(1.0),
        };
        Case {
            x: rows_from_json(&v["x"]),
            q: rows_from_json(&v["queries"]),
            eps,
            minpts: v["min_samples"].as_u64().unwrap_or(1) as usize,
            met: Met::from_name(v["metric"].as_str().unwrap_or("euclidian")),
        }
    }
    fn key(&self) -> u64 {
        let mut d: Vec<f64> = self.x.iter().flatten().cloned().collect();
        d.push(self.eps);
        d.push(self.minpts as f64);
        d.push(self.x[0].len() as f64);
        d.push(match self.met {
            Met::Euclid => 0.0,
            Met::Manhattan => 1.0,
            Met::Hamming => 2.0,
            Met::Minkowski(p) => 10.0 + p as f64,
        });
        hash_f64s(&d)
    }
}

macro_rules! with_metric {
    ($met:expr, $f:ident ( $($args:expr),* )) => {
        match $met {
            Met::Euclid => $f(Distances::euclidian(), $($args),*),
            Met::Manhattan => $f(Distances::manhattan(), $($args),*),
            Met::Minkowski(p) => $f(Distances::minkowski(p), $($args),*),
            Met::Hamming => $f(Distances::hamming(), $($args),*),
        }
    };
}

// ------------------------------------------------------------------------------------------
// the implementation
// ------------------------------------------------------------------------------------------
#[derive(Clone, Debug)]
struct Fit {
    labels: Vec<i64>,
    c: i64,
    pred: Vec<f64>,
}

/// DBSCAN::fit, labels and num_classes through the serde serialisation, DBSCAN::predict on `q`.
/// Ok(None) = fit returned Err.
fn impl_run_g<D: Distance<Vec<f64>, f64> + Serialize>(
    d: D,
    x: &[Vec<f64>],
    q: &[Vec<f64>],
    eps: f64,
    minpts: usize,
    cover: bool,
) -> Result<Option<Fit>, String> {
    guard(|| {
        let m = dense(x);
        let params = DBSCANParameters::default()
            .with_distance(d)
            .with_eps(eps)
            .with_min_samples(minpts)
            .with_algorithm(if cover { KNNAlgorithmName::CoverTree } else { KNNAlgorithmName::LinearSearch });
        match DBSCAN::fit(&m, params) {
            Err(_) => None,
            Ok(model) => {
                let v = serde_json::to_value(&model).expect("serialise");
                let labels: Vec<i64> = v["cluster_labels"].as_array().expect("cluster_labels").iter().map(|l| l.as_i64().unwrap()).collect();
                let c = v["num_classes"].as_i64().expect("num_classes");
                let pred: Vec<f64> = if q.is_empty() { vec![] } else { model.predict(&dense(q)).expect("predict") };
                Some(Fit { labels, c, pred })
            }
        }
    })
}
fn impl_run(case: &Case, cover: bool) -> Result<Option<Fit>, String> {
    with_metric!(case.met, impl_run_g(&case.x, &case.q, case.eps, case.minpts, cover))
}

/// What the backend's `find_radius` returns (indices, in its order) for every training row and every query row.
fn backend_nbs_g<D: Distance<Vec<f64>, f64>>(
    d: D,
    x: &[Vec<f64>],
    q: &[Vec<f64>],
    eps: f64,
    cover: bool,
) -> Result<(Vec<Vec<usize>>, Vec<Vec<usize>>), String> {
    guard(|| {
        if cover {
            let t = CoverTree::new(x.to_vec(), d).expect("cover tree");
            let f = |r: &Vec<f64>| -> Vec<usize> { t.find_radius(r, eps).expect("find_radius").iter().map(|n| n.0).collect() };
            (x.iter().map(f).collect(), q.iter().map(f).collect())
        } else {
            let t = LinearKNNSearch::new(x.to_vec(), d).expect("linear");
            let f = |r: &Vec<f64>| -> Vec<usize> { t.find_radius(r, eps).expect("find_radius").iter().map(|n| n.0).collect() };
            (x.iter().map(f).collect(), q.iter().map(f).collect())
        }
    })
}
fn backend_nbs(case: &Case, cover: bool) -> Result<(Vec<Vec<usize>>, Vec<Vec<usize>>), String> {
    with_metric!(case.met, backend_nbs_g(&case.x, &case.q, case.eps, cover))
}

fn dists_g<D: Distance<Vec<f64>, f64>>(d: D, a: &[Vec<f64>], b: &[Vec<f64>]) -> Vec<Vec<f64>> {
    a.iter().map(|r| b.iter().map(|s| d.distance(r, s)).collect()).collect()
}
/// full distance matrix of the configured metric: [i][j] = distance(a[i], b[j])
fn dists(met: Met, a: &[Vec<f64>], b: &[Vec<f64>]) -> Vec<Vec<f64>> {
    with_metric!(met, dists_g(a, b))
}

// ------------------------------------------------------------------------------------------
// the property's definition
// ------------------------------------------------------------------------------------------
fn uf_find(p: &mut Vec<usize>, mut a: usize) -> usize {
    while p[a] != a {
        p[a] = p[p[a]];
        a = p[a];
    }
    a
}

/// eps-neighbourhoods (indices within eps, itself included) from a distance matrix.
fn neighbourhoods(d: &[Vec<f64>], eps: f64) -> Vec<Vec<usize>> {
    d.iter().map(|r| (0..r.len()).filter(|&j| r[j] <= eps).collect()).collect()
}

/// A pair whose distance is not eps but within 1e-9 relative of it: the `<= eps` decision could be
/// flipped by a harmless re-association inside a metric or a search structure; such cases are skipped.
fn near_tie(d: &[Vec<f64>], eps: f64) -> bool {
    let tol = 1e-9 * eps.abs().max(1e-300);
    d.iter().any(|r| r.iter().any(|&v| v != eps && (v - eps).abs() <= tol))
}

/// Clauses of the definition on a training labelling. `nbh[i]` = indices within eps of i.
fn check_labelling(labels: &[i64], c: i64, nbh: &[Vec<usize>], minpts: usize) -> Option<(&'static str, String)> {
    let n = nbh.len();
    if labels.len() != n {
        return Some(("labels_range", format!("{} labels for {} points", labels.len(), n)));
    }
    for (i, &l) in labels.iter().enumerate() {
        if !(l == -1 || (0 <= l && l < c)) {
            return Some(("labels_range", format!("point {} has label {} outside {{-1}} u 0..{}", i, l, c)));
        }
    }
    for l in 0..c {
        if !labels.contains(&l) {
            return Some(("no_gaps", format!("num_classes = {} but no point carries label {}", c, l)));
        }
    }
    let core: Vec<bool> = (0..n).map(|i| nbh[i].len() >= minpts).collect();
    for i in 0..n {
        if core[i] && labels[i] < 0 {
            return Some(("core_clustered", format!("core point {} ({} points within eps) is labelled {}", i, nbh[i].len(), labels[i])));
        }
    }
    // density-connected components of the core graph
    let mut p: Vec<usize> = (0..n).collect();
    for i in 0..n {
        if core[i] {
            for &j in &nbh[i] {
                if core[j] {
                    let (a, b) = (uf_find(&mut p, i), uf_find(&mut p, j));
                    if a != b {
                        p[a] = b;
                    }
                }
            }
        }
    }
    let mut comp_of_label: Vec<Option<usize>> = vec![None; c.max(0) as usize];
    let mut label_of_comp: Vec<Option<i64>> = vec![None; n];
    for i in 0..n {
        if core[i] {
            let r = uf_find(&mut p, i);
            let l = labels[i];
            match label_of_comp[r] {
                None => label_of_comp[r] = Some(l),
                Some(l0) if l0 != l => {
                    return Some(("core_partition", format!("core points {} and {} are density-connected but labelled {} and {}", r, i, l0, l)))
                }
                _ => {}
            }
            match comp_of_label[l as usize] {
                None => comp_of_label[l as usize] = Some(r),
                Some(r0) if r0 != r => {
                    return Some(("core_partition", format!("core points {} and {} share label {} but are not density-connected", r0, i, l)))
                }
                _ => {}
            }
        }
    }
    for i in 0..n {
        if !core[i] {
            let cl: Vec<i64> = nbh[i].iter().filter(|&&j| core[j]).map(|&j| labels[j]).collect();
            if cl.is_empty() {
                if labels[i] != -1 {
                    return Some(("noise", format!("point {} is not core and has no core point within eps but is labelled {}", i, labels[i])));
                }
            } else if !cl.contains(&labels[i]) {
                return Some(("border", format!("non-core point {} has core neighbours labelled {:?} but carries {}", i, cl, labels[i])));
            }
        }
    }
    // every cluster contains a core point
    for l in 0..c {
        if comp_of_label[l as usize].is_none() {
            return Some(("no_gaps", format!("cluster {} contains no core point", l)));
        }
    }
    None
}

/// predict = plurality among the training points within eps; noise when there are none or noise dominates.
/// Ties are not fixed by the property text: any label with the maximal count is accepted, and on a
/// tie between a cluster and noise both are accepted.
fn check_predict(pred: &[f64], labels: &[i64], c: i64, qn: &[Vec<usize>]) -> Option<(&'static str, String)> {
    if pred.len() != qn.len() {
        return Some(("predict_plurality", format!("{} predictions for {} rows", pred.len(), qn.len())));
    }
    for (r, nb) in qn.iter().enumerate() {
        let got = pred[r];
        if got.fract() != 0.0 || got < -1.0 || got >= c as f64 {
            return Some(("predict_plurality", format!("row {}: prediction {} is not a label", r, got)));
        }
        let got = got as i64;
        let mut cnt = vec![0usize; c as usize];
        let mut noise = 0usize;
        for &j in nb {
            if labels[j] < 0 {
                noise += 1
            } else {
                cnt[labels[j] as usize] += 1
            }
        }
        let best = cnt.iter().cloned().max().unwrap_or(0);
        if got == -1 {
            if !(nb.is_empty() || noise >= best) {
                return Some(("predict_plurality", format!("row {}: predicted noise, votes clusters {:?} noise {}", r, cnt, noise)));
            }
        } else if cnt[got as usize] == 0 || cnt[got as usize] < best || cnt[got as usize] < noise {
            return Some(("predict_plurality", format!("row {}: predicted {}, votes clusters {:?} noise {}", r, got, cnt, noise)));
        }
    }
    None
}

struct Eval {
    failure: Option<(String, String)>,
    skipped: bool,
    nontrivial: bool,
    nclusters: i64,
    has_border: bool,
    has_noise: bool,
    exact_boundary: bool,
    shared_border: bool,       // a non-core point within eps of core points of two different clusters
    predict_tie: bool,         // a query row whose maximal vote count is reached by two labels (noise included)
    border_differs: bool,      // a border point labelled differently by the two backends (allowed by the property)
    cover_boundary_miss: Option<String>, // cover tree's radius query differs from the definition only on pairs with d == eps
}

/// Compare what a backend's `find_radius` returned with the neighbourhoods of the definition.
/// Ok(None): equal as sets, no repetitions.  Ok(Some(msg)): they differ only on pairs whose distance
/// equals eps bit-exactly (the rounding of a pruning bound decides those).  Err(msg): anything else.
fn compare_radius(lists: &[Vec<usize>], nbh: &[Vec<usize>], d: &[Vec<f64>], eps: f64, what: &str) -> Result<Option<String>, String> {
    let mut boundary: Option<String> = None;
    for i in 0..nbh.len() {
        let mut got = lists[i].clone();
        got.sort();
        let before = got.len();
        got.dedup();
        if got.len() != before {
            return Err(format!("{} {}: an index is listed twice: {:?}", what, i, lists[i]));
        }
        if got != nbh[i] {
            for &j in got.iter().filter(|j| !nbh[i].contains(j)).chain(nbh[i].iter().filter(|j| !got.contains(j))) {
                if d[i][j] == eps {
                    boundary.get_or_insert(format!("{} {}: index {} at distance exactly eps = {:e} is {}", what, i, j, eps, if got.contains(&j) { "returned" } else { "not returned" }));
                } else {
                    return Err(format!("{} {}: returned {:?}, within eps are {:?} (index {} at distance {:e}, eps {:e})", what, i, lists[i], nbh[i], j, d[i][j], eps));
                }
            }
        }
    }
    Ok(boundary)
}

/// Evaluate the whole property on one case (both backends, cross-backend clause, predict).
fn eval_case(case: &Case) -> Eval {
    let mut e = Eval { failure: None, skipped: false, nontrivial: false, nclusters: 0, has_border: false, has_noise: false, exact_boundary: false, shared_border: false, predict_tie: false, border_differs: false, cover_boundary_miss: None };
    let dxx = match guard(|| dists(case.met, &case.x, &case.x)) {
        Ok(d) => d,
        Err(m) => {
            e.failure = Some(("metric".into(), format!("metric panicked: {}", m)));
            return e;
        }
    };
    let dqx = dists(case.met, &case.q, &case.x);
    if near_tie(&dxx, case.eps) || near_tie(&dqx, case.eps) || dxx.iter().flatten().chain(dqx.iter().flatten()).any(|v| v.is_nan()) {
        e.skipped = true;
        return e;
    }
    e.exact_boundary = dxx.iter().enumerate().any(|(i, r)| r.iter().enumerate().any(|(j, &v)| i != j && v == case.eps));
    let nbh = neighbourhoods(&dxx, case.eps);
    let qn = neighbourhoods(&dqx, case.eps);
    let core: Vec<bool> = nbh.iter().map(|v| v.len() >= case.minpts).collect();
    // mechanism: radius queries of the configured search structure = the points within eps
    for &cover in &[false, true] {
        let bname = if cover { "cover_tree" } else { "linear" };
        match backend_nbs(case, cover) {
            Err(msg) => {
                e.failure = Some(("panic".into(), format!("[{}] find_radius panicked: {}", bname, msg)));
                return e;
            }
            Ok((bx, bq)) => {
                let r = compare_radius(&bx, &nbh, &dxx, case.eps, "training row").and_then(|a| compare_radius(&bq, &qn, &dqx, case.eps, "query row").map(|b| a.or(b)));
                match r {
                    Err(msg) => {
                        e.failure = Some(("radius_query".into(), format!("[{}] {}", bname, msg)));
                        return e;
                    }
                    Ok(Some(msg)) if !cover => {
                        e.failure = Some(("radius_query".into(), format!("[linear] {}", msg)));
                        return e;
                    }
                    Ok(Some(msg)) => e.cover_boundary_miss = Some(msg),
                    Ok(None) => {}
                }
            }
        }
    }
    let mut fits: Vec<Fit> = vec![];
    for &cover in &[false, true] {
        if cover && e.cover_boundary_miss.is_some() {
            // the cover tree answered a boundary pair differently (rounding of its pruning bound):
            // its labels are not held against the definition for this case; counted by the caller
            let f0 = fits[0].clone();
            fits.push(f0);
            continue;
        }
        let bname = if cover { "cover_tree" } else { "linear" };
        match impl_run(case, cover) {
            Err(msg) => {
                e.failure = Some(("panic".into(), format!("[{}] panic: {}", bname, msg)));
                return e;
            }
            Ok(None) => {
                e.failure = Some(("fit_error".into(), format!("[{}] fit returned Err for eps > 0, min_samples >= 1", bname)));
                return e;
            }
            Ok(Some(f)) => {
                if let Some((o, w)) = check_labelling(&f.labels, f.c, &nbh, case.minpts) {
                    e.failure = Some((o.into(), format!("[{}] {}; labels {:?}", bname, w, f.labels)));
                    return e;
                }
                if let Some((o, w)) = check_predict(&f.pred, &f.labels, f.c, &qn) {
                    e.failure = Some((o.into(), format!("[{}] {}", bname, w)));
                    return e;
                }
                fits.push(f);
            }
        }
    }
    let (a, b) = (&fits[0], &fits[1]);
    if a.c != b.c {
        e.failure = Some(("backend_independence".into(), format!("num_classes {} (linear) vs {} (cover tree)", a.c, b.c)));
        return e;
    }
    for i in 0..case.x.len() {
        if core[i] && a.labels[i] != b.labels[i] {
            e.failure = Some(("backend_independence".into(), format!("core point {} labelled {} (linear) vs {} (cover tree)", i, a.labels[i], b.labels[i])));
            return e;
        }
        if (a.labels[i] == -1) != (b.labels[i] == -1) {
            e.failure = Some(("backend_independence".into(), format!("point {} noise with one backend only: {} vs {}", i, a.labels[i], b.labels[i])));
            return e;
        }
    }
    e.border_differs = (0..case.x.len()).any(|i| a.labels[i] != b.labels[i]);
    e.shared_border = (0..case.x.len()).any(|i| {
        !core[i] && {
            let mut ls: Vec<i64> = nbh[i].iter().filter(|&&j| core[j]).map(|&j| a.labels[j]).collect();
            ls.sort();
            ls.dedup();
            ls.len() >= 2
        }
    });
    e.predict_tie = qn.iter().any(|nb| {
        let mut cnt = vec![0usize; a.c as usize + 1];
        for &j in nb {
            if a.labels[j] < 0 {
                cnt[a.c as usize] += 1
            } else {
                cnt[a.labels[j] as usize] += 1
            }
        }
        let best = cnt.iter().cloned().max().unwrap_or(0);
        best > 0 && cnt.iter().filter(|&&v| v == best).count() >= 2
    });
    e.nclusters = a.c;
    e.has_border = (0..case.x.len()).any(|i| !core[i] && a.labels[i] >= 0);
    e.has_noise = a.labels.iter().any(|&l| l == -1);
    e.nontrivial = a.c >= 1 && (e.has_border || e.has_noise || a.c >= 2);
    e
}

/// Drop rows while the same clause keeps failing.
fn shrink(case: &Case, oracle: &str) -> Case {
    let mut cur = case.clone();
    let mut budget = 4000usize;
    loop {
        let mut progressed = false;
        let mut i = 0;
        while i < cur.q.len() && budget > 0 {
            let mut t = cur.clone();
            t.q.remove(i);
            budget -= 1;
            if eval_case(&t).failure.map(|f| f.0 == oracle).unwrap_or(false) {
                cur = t;
                progressed = true;
            } else {
                i += 1;
            }
        }
        let mut i = 0;
        while i < cur.x.len() && cur.x.len() > 1 && budget > 0 {
            let mut t = cur.clone();
            t.x.remove(i);
            budget -= 1;
            if eval_case(&t).failure.map(|f| f.0 == oracle).unwrap_or(false) {
                cur = t;
                progressed = true;
            } else {
                i += 1;
            }
        }
        if !progressed || budget == 0 {
            return cur;
        }
    }
}

const COVER_FINDING: &str = "cover-tree-radius-boundary-rounding";

fn finding_listed() -> bool {
    let paths = [concat!(env!("CARGO_MANIFEST_DIR"), "/../KNOWN_FINDINGS.txt").to_string(), "/verif/KNOWN_FINDINGS.txt".to_string()];
    paths.iter().any(|p| {
        std::fs::read_to_string(p)
            .map(|t| t.lines().any(|l| l.starts_with("finding:") && l.contains("property=C13") && l.contains(&format!("id={}", COVER_FINDING))))
            .unwrap_or(false)
    })
}

/// The cover tree's radius query answered a pair at distance exactly eps differently from `d <= eps`
/// (rounding in its pruning bound `d <= radius + max_dist`; reported, not repaired).  The cover-tree half
/// of such a case is excluded and counted; it is a KNOWN-FINDING line once KNOWN_FINDINGS.txt lists it.
fn note_cover_boundary(out: &mut Out, msg: &str, case: &Case) {
    out.count("excluded:cover-tree-half:radius-query-differs-at-distance-exactly-eps");
    if finding_listed() {
        out.known(COVER_FINDING, &format!("CoverTree::find_radius: {} (n = {}, {})", msg, case.x.len(), case.met.name()));
    }
}

fn search_case(out: &mut Out, case: &Case, family: &str) {
    let e = eval_case(case);
    out.eval(case.key(), e.nontrivial);
    if e.skipped {
        out.count("excluded:near-tie-or-nan");
        return;
    }
    out.count(&format!("search:{}", family));
    if let Some(msg) = &e.cover_boundary_miss {
        note_cover_boundary(out, msg, case);
    }
    out.count(&format!("search:metric={}", case.met.name()));
    out.count(&format!("search:clusters={}", if e.nclusters >= 4 { "4+".to_string() } else { e.nclusters.to_string() }));
    if e.has_border {
        out.count("search:with-border-point");
    }
    if e.has_noise {
        out.count("search:with-noise");
    }
    if e.exact_boundary {
        out.count("search:with-distance-exactly-eps");
    }
    if e.shared_border {
        out.count("search:with-border-point-between-two-clusters");
    }
    if e.predict_tie {
        out.count("search:with-tied-predict-vote");
    }
    if e.border_differs {
        out.count("search:border-label-differs-between-backends");
    }
    out.count(&format!("search:n<={}", [1usize, 7, 20, 50, 100, 150, 100000].iter().find(|&&b| case.x.len() <= b).unwrap()));
    if let Some((oracle, what)) = e.failure {
        let small = if out.n_fail() < 3 { shrink(case, &oracle) } else { case.clone() };
        let what2 = eval_case(&small).failure.map(|f| f.1).unwrap_or(what);
        out.fail(&oracle, &what2, small.json());
    }
}

// ------------------------------------------------------------------------------------------
// correspondence
// ------------------------------------------------------------------------------------------
fn coq_nbs(nbs: &[Vec<usize>]) -> String {
    coq_list(nbs.iter().map(|l| coq_list_n(l)))
}
fn coq_labels_f(p: &[f64]) -> String {
    coq_list(p.iter().map(|v| coq_z(*v as i64)))
}

fn corr_case(out: &mut Out, case: &Case, euclid_in_coq: bool, skip_cover: bool) {
    let input = case.json();
    let mut lin: Option<(Vec<Vec<usize>>, Fit)> = None;
    for &cover in &[false, true] {
        if cover && skip_cover {
            continue;
        }
        let g = if cover { "cover" } else { "linear" };
        let fit = match impl_run(case, cover) {
            Ok(Some(f)) => f,
            _ => continue,
        };
        let (nbs, nbq) = match backend_nbs(case, cover) {
            Ok(v) => v,
            Err(_) => continue,
        };
        out.corr(
            &format!("fit_{}", g),
            format!("corr_fit {} {} {} {}", coq_n(case.minpts), coq_nbs(&nbs), coq_list_z(&fit.labels), coq_z(fit.c)),
            input.clone(),
        );
        if !case.q.is_empty() {
            out.corr(
                &format!("predict_{}", g),
                format!("corr_predict {} {} {} {}", coq_list_z(&fit.labels), coq_n(fit.c as usize), coq_nbs(&nbq), coq_labels_f(&fit.pred)),
                input.clone(),
            );
        }
        if cover {
            if let Some((lnbs, _)) = &lin {
                out.corr(
                    "fit_cover_vs_linear_sets",
                    format!("corr_fit_sets {} {} {} {}", coq_n(case.minpts), coq_nbs(lnbs), coq_list_z(&fit.labels), coq_z(fit.c)),
                    input.clone(),
                );
            }
        } else {
            if euclid_in_coq && case.met == Met::Euclid {
                out.corr(
                    "fit_euclid_in_coq",
                    format!("corr_fit_euclid {} {} {} {} {}", coq_n(case.minpts), coq_rows_f64(&case.x), coq_f64(case.eps), coq_list_z(&fit.labels), coq_z(fit.c)),
                    input.clone(),
                );
                if !case.q.is_empty() {
                    out.corr(
                        "predict_euclid_in_coq",
                        format!(
                            "corr_predict_euclid {} {} {} {} {} {}",
                            coq_list_z(&fit.labels),
                            coq_n(fit.c as usize),
                            coq_rows_f64(&case.x),
                            coq_rows_f64(&case.q),
                            coq_f64(case.eps),
                            coq_labels_f(&fit.pred)
                        ),
                        input.clone(),
                    );
                }
            }
            lin = Some((nbs, fit));
        }
    }
}

/// Small lattice cases aimed at the order-sensitive corners: a border point between two clusters,
/// tied predict votes.  Only the exact-label groups are emitted.
fn corr_small(out: &mut Out, case: &Case, skip_cover: bool) {
    let input = case.json();
    for &cover in &[false, true] {
        if cover && skip_cover {
            continue;
        }
        let g = if cover { "cover" } else { "linear" };
        if let (Ok(Some(fit)), Ok((nbs, nbq))) = (impl_run(case, cover), backend_nbs(case, cover)) {
            out.corr(
                &format!("fit_{}", g),
                format!("corr_fit {} {} {} {}", coq_n(case.minpts), coq_nbs(&nbs), coq_list_z(&fit.labels), coq_z(fit.c)),
                input.clone(),
            );
            if !cover || case.x.len() % 2 == 0 {
                out.corr(
                    &format!("predict_{}", g),
                    format!("corr_predict {} {} {} {}", coq_list_z(&fit.labels), coq_n(fit.c as usize), coq_nbs(&nbq), coq_labels_f(&fit.pred)),
                    input.clone(),
                );
            }
        }
    }
}

fn gen_small_lattice(rng: &mut Rng) -> Case {
    let two_d = rng.chance(0.35);
    let n = rng.usize_in(4, 14);
    let (x, q): (Vec<Vec<f64>>, Vec<Vec<f64>>) = if two_d {
        let (w, h) = (rng.int(2, 5), rng.int(1, 3));
        let x = (0..n).map(|_| vec![rng.int(0, w) as f64, rng.int(0, h) as f64]).collect();
        let mut q: Vec<Vec<f64>> = vec![];
        for a in 0..=w {
            for b in 0..=h {
                q.push(vec![a as f64, b as f64]);
            }
        }
        (x, q)
    } else {
        let r = rng.int(4, 12);
        let x = (0..n).map(|_| vec![rng.int(0, r) as f64]).collect();
        let q = (-1..=r + 1).map(|v| vec![v as f64]).collect();
        (x, q)
    };
    let met = if two_d && rng.chance(0.4) { Met::Manhattan } else { Met::Euclid };
    let eps = *rng.pick(&[1.0, 1.0, 2.0, 2f64.sqrt(), 1.5]);
    Case { x, q, eps, minpts: rng.usize_in(2, 5), met }
}

fn corr_param_errors(out: &mut Out, case: &Case) {
    // min_samples = 0 -> Err in both; eps <= 0 -> Err (no model counterpart, checked here only)
    let mut c0 = case.clone();
    c0.minpts = 0;
    let input = c0.json();
    if let (Ok(None), Ok((nbs, _))) = (impl_run(&c0, false), backend_nbs(&c0, false)) {
        out.corr("fit_param_error", format!("corr_fit_err {} {}", coq_n(0), coq_nbs(&nbs)), input);
    } else {
        out.fail("param_check", "fit with min_samples = 0 did not return Err", input);
    }
}

// ------------------------------------------------------------------------------------------
// generators
// ------------------------------------------------------------------------------------------
fn pick_metric(rng: &mut Rng, lattice: bool) -> Met {
    match rng.below(10) {
        0..=5 => Met::Euclid,
        6 | 7 => Met::Manhattan,
        8 => Met::Minkowski(3),
        _ => {
            if lattice {
                Met::Hamming
            } else {
                Met::Minkowski(4)
            }
        }
    }
}

fn gen_points(rng: &mut Rng, family: usize, n: usize, dim: usize) -> Vec<Vec<f64>> {
    match family {
        // blobs + background noise
        0 => {
            let k = rng.usize_in(1, 5);
            let centres: Vec<Vec<f64>> = (0..k).map(|_| (0..dim).map(|_| rng.uniform(-10.0, 10.0)).collect()).collect();
            let sds: Vec<f64> = (0..k).map(|_| rng.uniform(0.2, 1.5)).collect();
            let noise = rng.uniform(0.0, 0.3);
            (0..n)
                .map(|_| {
                    if rng.chance(noise) {
                        (0..dim).map(|_| rng.uniform(-12.0, 12.0)).collect()
                    } else {
                        let c = rng.below(k);
                        (0..dim).map(|t| centres[c][t] + sds[c] * rng.normal()).collect()
                    }
                })
                .collect()
        }
        // uniform
        1 => (0..n).map(|_| (0..dim).map(|_| rng.uniform(-5.0, 5.0)).collect()).collect(),
        // integer lattice, small range: duplicates and distances exactly eps
        2 => {
            let r = rng.int(1, 8);
            (0..n).map(|_| (0..dim).map(|_| rng.int(0, r) as f64).collect()).collect()
        }
        // chains: steps of exactly `h` along axes, with gaps and branches, shuffled
        3 => {
            let h = *rng.pick(&[0.25, 0.5, 1.0, 2.0]);
            let mut pts: Vec<Vec<f64>> = vec![];
            let mut cur: Vec<f64> = vec![0.0; dim];
            while pts.len() < n {
                pts.push(cur.clone());
                let r = rng.below(12);
                let ax = rng.below(dim);
                if r == 0 {
                    cur[ax] += 2.0 * h; // a gap
                } else if r == 1 && !pts.is_empty() {
                    cur = rng.pick(&pts).clone(); // a branch
                    cur[ax] -= h;
                } else if r == 2 {
                    cur[ax] += 5.0 * h; // a new chain
                } else {
                    cur[ax] += h;
                }
            }
            rng.shuffle(&mut pts);
            pts
        }
        // a few distinct points, each repeated
        _ => {
            let k = rng.usize_in(1, 6);
            let base: Vec<Vec<f64>> = (0..k).map(|_| (0..dim).map(|_| rng.dyadic(4, 1)).collect()).collect();
            (0..n).map(|_| rng.pick(&base).clone()).collect()
        }
    }
}

const FAMILIES: [&str; 6] = ["blobs", "uniform", "lattice", "chain", "duplicates", "bridges"];

/// Dense sites joined by single non-core bridge points (each bridge is within eps of core points of
/// two different clusters): sites of k >= min_samples-2 coincident points at 4t*h, single points at
/// (4t+1)h, (4t+2)h, (4t+3)h, eps = h exactly, some points dropped, order shuffled.
fn gen_bridges(rng: &mut Rng, max_sites: usize, nq: usize) -> Case {
    let h = *rng.pick(&[0.5, 1.0, 2.0]);
    let dim = rng.usize_in(1, 3);
    let minpts = rng.usize_in(4, 6);
    let sites = rng.usize_in(2, max_sites);
    let ax = rng.below(dim);
    let at = |v: f64, off: f64| -> Vec<f64> {
        let mut r = vec![off; dim];
        r[ax] = v * h;
        r
    };
    let off = rng.int(-2, 2) as f64;
    let mut x: Vec<Vec<f64>> = vec![];
    for t in 0..sites {
        let k = minpts - 2 + rng.below(3);
        for _ in 0..k {
            x.push(at(4.0 * t as f64, off));
        }
        if t + 1 < sites {
            for u in 1..=3 {
                if !rng.chance(0.08) {
                    x.push(at(4.0 * t as f64 + u as f64, off));
                }
            }
        }
    }
    if rng.chance(0.5) {
        x.push(at(-3.0, off)); // an isolated point
    }
    rng.shuffle(&mut x);
    let mut q: Vec<Vec<f64>> = vec![];
    for _ in 0..nq {
        q.push(at(rng.int(-2, 4 * sites as i64) as f64 * if rng.bool() { 1.0 } else { 0.5 }, off));
    }
    let met = *rng.pick(&[Met::Euclid, Met::Euclid, Met::Manhattan]);
    Case { x, q, eps: h, minpts, met }
}

fn gen_case(rng: &mut Rng, nmax: usize, nq: usize) -> (Case, &'static str) {
    let family = rng.below(6);
    if family == 5 {
        return (gen_bridges(rng, (nmax / 8).max(2).min(12), nq), FAMILIES[5]);
    }
    let n = match rng.below(4) {
        0 => rng.usize_in(1, 8.min(nmax)),
        1 => rng.usize_in(1, 30.min(nmax)),
        _ => rng.usize_in(1, nmax),
    };
    let dim = rng.usize_in(1, 4);
    let x = gen_points(rng, family, n, dim);
    let lattice = family >= 2;
    let met = pick_metric(rng, lattice);
    // eps over the whole range: a quantile of the pairwise distances, an exact pairwise distance,
    // below the smallest / above the largest
    let d = dists(met, &x, &x);
    let mut all: Vec<f64> = vec![];
    for i in 0..n {
        for j in 0..i {
            if d[i][j] > 0.0 && d[i][j].is_finite() {
                all.push(d[i][j]);
            }
        }
    }
    all.sort_by(|a, b| a.partial_cmp(b).unwrap());
    let eps = if all.is_empty() {
        *rng.pick(&[0.5, 1.0, 3.0])
    } else {
        match rng.below(10) {
            0 => all[0] * 0.5,
            1 => all[all.len() - 1] * 1.5,
            2 | 3 | 4 => {
                // small quantile, exactly a pairwise distance
                let u = rng.unit();
                all[((u * u * u) * all.len() as f64) as usize % all.len()]
            }
            5 => all[rng.below(all.len())],
            6 | 7 => {
                let u = rng.unit();
                let a = all[((u * u) * all.len() as f64) as usize % all.len()];
                a * rng.uniform(1.0001, 1.3)
            }
            _ => {
                let u = rng.unit();
                let a = all[((u * u * u) * all.len() as f64) as usize % all.len()];
                a * rng.uniform(0.7, 0.9999)
            }
        }
    };
    let minpts = if rng.chance(0.7) { rng.usize_in(1, 5) } else { rng.usize_in(1, 8) };
    // queries: some training rows, some perturbed rows, some far away
    let mut q: Vec<Vec<f64>> = vec![];
    for _ in 0..nq {
        let base = rng.pick(&x).clone();
        q.push(match rng.below(4) {
            0 => base,
            1 => base.iter().map(|v| v + if lattice { rng.int(-1, 1) as f64 } else { eps * rng.uniform(-0.7, 0.7) }).collect(),
            2 => base.iter().map(|v| v + 1000.0).collect(),
            _ => base.iter().map(|v| v + if lattice { rng.int(-2, 2) as f64 * 0.5 } else { eps * rng.uniform(-1.5, 1.5) }).collect(),
        });
    }
    (Case { x, q, eps, minpts, met }, FAMILIES[family])
}

/// all sequences of `len` cells of a lattice (cells given as points)
fn for_sequences<F: FnMut(&[usize])>(ncells: usize, len: usize, f: &mut F) {
    let mut idx = vec![0usize; len];
    loop {
        f(&idx);
        let mut p = len;
        loop {
            if p == 0 {
                return;
            }
            p -= 1;
            idx[p] += 1;
            if idx[p] < ncells {
                break;
            }
            idx[p] = 0;
        }
    }
}

fn exhaustive(out: &mut Out, cells: &[Vec<f64>], maxlen: usize, epss: &[f64], minptss: &[usize], mets: &[Met], family: &str) {
    let mut q: Vec<Vec<f64>> = cells.to_vec();
    q.push(cells[0].iter().map(|v| v + 100.0).collect());
    for len in 1..=maxlen {
        let mut seqs: Vec<Vec<usize>> = vec![];
        for_sequences(cells.len(), len, &mut |s| seqs.push(s.to_vec()));
        for s in seqs {
            let x: Vec<Vec<f64>> = s.iter().map(|&c| cells[c].clone()).collect();
            for &met in mets {
                for &eps in epss {
                    for &minpts in minptss {
                        let case = Case { x: x.clone(), q: q.clone(), eps, minpts, met };
                        search_case(out, &case, family);
                    }
                }
            }
        }
    }
}

// ------------------------------------------------------------------------------------------
// ------------------------------------------------------------------------------------------
// api_trait_twin: fit / predict through `smartcore::api::{UnsupervisedEstimator, Predictor}` give exactly
// what the inherent methods give (training matrix and query rows, model fitted either way, both backends)
// ------------------------------------------------------------------------------------------
fn twin_g<D: Distance<Vec<f64>, f64> + Serialize + Clone>(d: D, case: &Case, cover: bool) -> Option<twin::Diff> {
    type DM = smartcore::linalg::naive::dense_matrix::DenseMatrix<f64>;
    let m = dense(&case.x);
    let q = dense(&case.q);
    let p = DBSCANParameters::default()
        .with_distance(d)
        .with_eps(case.eps)
        .with_min_samples(case.minpts)
        .with_algorithm(if cover { KNNAlgorithmName::CoverTree } else { KNNAlgorithmName::LinearSearch });
    let probes = [("the training matrix", &m), ("the query rows", &q)];
    twin::check(
        "UnsupervisedEstimator",
        "Predictor",
        "predict",
        || twin::fit_unsup::<DBSCAN<f64, D>, _, _>(&m, p.clone()),
        || DBSCAN::<f64, D>::fit(&m, p.clone()),
        |e: &DBSCAN<f64, D>, z: &DM| twin::predict(e, z),
        |e: &DBSCAN<f64, D>, z: &DM| e.predict(z),
        &probes,
        |e: &DBSCAN<f64, D>| serde_json::to_string(e).unwrap_or_default(),
        true,
    )
}
fn twin_case(case: &Case) -> Option<(bool, twin::Diff)> {
    if case.x.is_empty() || case.x[0].is_empty() || case.q.is_empty() {
        return None;
    }
    for cover in [false, true] {
        if let Some(d) = with_metric!(case.met, twin_g(case, cover)) {
            return Some((cover, d));
        }
    }
    None
}
fn check_twin(out: &mut Out, case: &Case, family: &str) {
    out.eval(case.key() ^ 0x7717, case.x.len() >= 3);
    out.count(&format!("twin:{}:{}", family, case.met.name()));
    if twin_case(case).is_none() {
        return;
    }
    // shrink: fewer query rows, fewer points
    let mut cur = case.clone();
    let mut progress = true;
    while progress {
        progress = false;
        let mut i = 0;
        while cur.q.len() > 1 && i < cur.q.len() {
            let mut t = cur.clone();
            t.q.remove(i);
            if twin_case(&t).is_some() { cur = t; progress = true; } else { i += 1; }
        }
        let mut i = 0;
        while cur.x.len() > 1 && i < cur.x.len() {
            let mut t = cur.clone();
            t.x.remove(i);
            if twin_case(&t).is_some() { cur = t; progress = true; } else { i += 1; }
        }
    }
    if let Some((cover, d)) = twin_case(&cur) {
        let mut w = cur.json();
        w["entry"] = json!("twin");
        w["oracle"] = json!(twin::ORACLE);
        w["algorithm"] = json!(if cover { "cover_tree" } else { "linear_search" });
        w["differing_call"] = json!(d.call);
        out.count(&format!("twin:failing:{}", "DBSCAN"));
        out.fail(twin::ORACLE, &format!("DBSCAN ({}): {}: {}", if cover { "cover tree" } else { "linear search" }, d.call, d.what), w);
    }
}

fn replay(path: &str) -> i32 {
    let v = read_replay(path);
    let inp = if v.get("input").is_some() { v["input"].clone() } else { v.clone() };
    let case = Case::from_json(&inp);
    if case.x.is_empty() {
        eprintln!("replay file has no data");
        return 2;
    }
    let failed = if inp["entry"].as_str() == Some("twin") {
        match twin_case(&case) {
            Some((cover, d)) => {
                println!("  {}: DBSCAN ({}): {}: {}", twin::ORACLE, if cover { "cover tree" } else { "linear search" }, d.call, d.what);
                true
            }
            None => false,
        }
    } else if case.minpts == 0 {
        !matches!(impl_run(&case, false), Ok(None))
    } else {
        let e = eval_case(&case);
        if let Some((o, w)) = &e.failure {
            println!("  clause {}: {}", o, w);
        }
        e.failure.is_some()
    };
    if failed {
        println!("REPLAY: property=C13 still fails: {}", path);
        1
    } else {
        println!("REPLAY: property=C13 passes: {}", path);
        0
    }
}

fn main() {
    quiet_panics();
    let a = args();
    if let Some(p) = &a.replay {
        std::process::exit(replay(p));
    }
    let mut rng = Rng::new(a.seed);
    let mut out = Out::new(
        "C13",
        "search case = (points, eps, min_samples, metric, query rows), evaluated with both backends; non-trivial: at least one cluster and (a border point, a noise point or >= 2 clusters); distinct by hash of (data, eps, min_samples, metric); cases with a pairwise distance within 1e-9 relative of eps but not equal to it are excluded and counted. api-trait twin case = a search case fitted and queried through smartcore::api::{UnsupervisedEstimator, Predictor} and through the inherent methods (both backends); all results must coincide bit for bit",
    );

    // ---- corpus: D9 (predict with no training point within eps returned cluster 0) and the crate's own test ----
    let test_x: Vec<Vec<f64>> = vec![
        vec![1.0, 2.0], vec![1.1, 2.1], vec![0.9, 1.9], vec![1.2, 2.2], vec![0.8, 1.8], vec![2.0, 1.0],
        vec![2.1, 1.1], vec![1.9, 0.9], vec![2.2, 1.2], vec![1.8, 0.8], vec![3.0, 5.0],
    ];
    let d9 = Case { x: test_x.clone(), q: vec![vec![100.0, 100.0], vec![1.0, 2.0], vec![3.0, 5.0], vec![2.0, 1.05]], eps: 0.5, minpts: 2, met: Met::Euclid };
    search_case(&mut out, &d9, "corpus");
    corr_case(&mut out, &d9, true, false);
    // border point reached first as provisional noise, then relabelled (the property file's mutation)
    let relabel = Case { x: vec![vec![0.0], vec![1.0], vec![2.0], vec![3.0]], q: vec![vec![0.0], vec![-1.0]], eps: 1.0, minpts: 3, met: Met::Euclid };
    search_case(&mut out, &relabel, "corpus");
    corr_case(&mut out, &relabel, true, false);
    corr_param_errors(&mut out, &relabel);
    // finding (reported, unrepaired): the cover tree drops a point at distance exactly eps (rounded pruning bound)
    let ct = Case {
        x: vec![vec![-0.3696377348452781], vec![8.198966975627608], vec![0.18803501149532603]],
        q: vec![vec![8.198966975627608]],
        eps: 8.010931964132281,
        minpts: 2,
        met: Met::Euclid,
    };
    search_case(&mut out, &ct, "corpus");

    // ---- correspondence ----
    let ncorr = if a.thorough { 260 } else { 64 };
    for i in 0..ncorr {
        let nmax = if i % 8 == 7 { 60 } else { 28 };
        let (case, _) = gen_case(&mut rng, nmax, 4);
        let e = eval_case(&case);
        if e.skipped {
            out.count("excluded:near-tie-or-nan");
            continue;
        }
        if let Some(f) = &e.failure {
            out.fail(&f.0, &f.1, case.json());
            continue;
        }
        if let Some(msg) = &e.cover_boundary_miss {
            note_cover_boundary(&mut out, msg, &case);
        }
        corr_case(&mut out, &case, case.x.len() <= 30, e.cover_boundary_miss.is_some());
        if i % 16 == 0 {
            corr_param_errors(&mut out, &case);
        }
    }

    // small lattice cases, preferring a border point between two clusters or a tied predict vote
    let (quota, tries) = if a.thorough { (240, 40000) } else { (70, 12000) };
    let (mut kept, mut kept_shared, mut kept_tie) = (0usize, 0usize, 0usize);
    for t in 0..tries {
        if kept >= quota {
            break;
        }
        let case = if t % 3 == 0 { gen_bridges(&mut rng, 3, 6) } else { gen_small_lattice(&mut rng) };
        let e = eval_case(&case);
        if e.skipped || e.failure.is_some() {
            continue;
        }
        let want = (e.shared_border && kept_shared < quota / 2) || (e.predict_tie && e.nclusters >= 2 && kept_tie < quota / 2) || t % 400 == 0;
        if want {
            corr_small(&mut out, &case, e.cover_boundary_miss.is_some());
            kept += 1;
            if e.shared_border {
                kept_shared += 1;
                out.count("corr-small:with-border-point-between-two-clusters");
            }
            if e.predict_tie {
                kept_tie += 1;
                out.count("corr-small:with-tied-predict-vote");
            }
        }
    }

    // ---- search: exhaustive small scopes ----
    let line: Vec<Vec<f64>> = (0..5).map(|v| vec![v as f64]).collect();
    let grid: Vec<Vec<f64>> = (0..6).map(|v| vec![(v % 3) as f64, (v / 3) as f64]).collect();
    let s2 = 2f64.sqrt();
    if a.thorough {
        exhaustive(&mut out, &line[..4], 7, &[1.0, 2.0], &[1, 2, 3, 4], &[Met::Euclid], "exhaustive-1d");
        exhaustive(&mut out, &line, 6, &[1.0, 2.0], &[1, 2, 3, 4], &[Met::Manhattan], "exhaustive-1d");
        exhaustive(&mut out, &grid, 6, &[1.0, s2, 2.0], &[1, 2, 3], &[Met::Euclid], "exhaustive-2d");
        exhaustive(&mut out, &grid, 5, &[1.0, 2.0], &[2, 3, 4], &[Met::Manhattan], "exhaustive-2d");
    } else {
        exhaustive(&mut out, &line[..4], 6, &[1.0, 2.0], &[1, 2, 3, 4], &[Met::Euclid], "exhaustive-1d");
        exhaustive(&mut out, &line, 6, &[1.0], &[2, 3], &[Met::Manhattan], "exhaustive-1d");
        exhaustive(&mut out, &grid, 4, &[1.0, s2, 2.0], &[1, 2, 3], &[Met::Euclid], "exhaustive-2d");
        exhaustive(&mut out, &grid, 5, &[1.0], &[2, 3], &[Met::Manhattan], "exhaustive-2d");
    }

    // ---- search: random families, 1..150 points, 1..4 dimensions ----
    let nrand = if a.thorough { 20000 } else { 4000 };
    for i in 0..nrand {
        let (case, family) = gen_case(&mut rng, 150, 6);
        search_case(&mut out, &case, family);
        if i < 3 && out.n_fail() == 0 {
            out.sample(json!({"n": case.x.len(), "dim": case.x[0].len(), "eps": case.eps, "min_samples": case.minpts,
                              "metric": case.met.name(), "family": family, "first_rows": case.x.iter().take(4).collect::<Vec<_>>()}));
        }
    }
    // ---- api-trait twins (last: the streams of the sections above are unchanged) ----
    for i in 0..(if a.thorough { 600 } else { 80 }) {
        let (mut case, family) = gen_case(&mut rng, 40, 5);
        if i % 25 == 24 {
            case.minpts = 0; // parameter validation through both entry points
        }
        check_twin(&mut out, &case, family);
    }
    out.finish(&a.out);
}
